(* Which (kind, seed) pair hashes a block: cmdline/check.c blockcmp (validation of a block rebuilt from parity,
   used by check and fix), the same two-branch selection as in scrub.c / sync.c / state_import_fetch:

     if (rehash) memhash(state->prevhash, state->prevhashseed, hash, buffer, pos_size);
     else        memhash(state->hash,     state->hashseed,     hash, buffer, pos_size);
     memcmp(hash, block->hash, BLOCK_HASH_SIZE)

   `rehash` is the flag of the block's info word ("still to rehash").  cmdline/rehash.c state_rehash moves
   (hash, hashseed) to (prevhash, prevhashseed), installs the new kind with a fresh random seed and flags every
   used block; the stored hashes are not touched.
   Executable definitions first, then the theorems.  The array-level tie is the repair of the vendored
   mid-rehash arrays by the binary under test, and the recomputation of every hash stored in the vendored
   content files with `block_hash` (extracted) in check_C16. *)
From Coq Require Import NArith List Bool.
From Snap.Hash Require Import Words Murmur3 Spooky2.
Import ListNotations.
Local Open Scope N_scope.

Inductive hkind := Murmur3 | Spooky2.

(* util.c memhash, the two kinds a writer can select *)
Definition memhash (k : hkind) (seed data : list N) : list N :=
  match k with Murmur3 => murmur3_x86_128 seed data | Spooky2 => spooky2_128 seed data end.

(* the hash part of the state: 'c' record, 'C' record (absent = no rehash in progress), 'y' record *)
Record hconf := HC { hc_kind : hkind; hc_seed : list N; hc_prev : option (hkind * list N); hc_size : nat }.

(* the stored hash of a block: the first BLOCK_HASH_SIZE bytes of the digest under the selected pair *)
Definition block_hash (c : hconf) (rehash : bool) (data : list N) : list N :=
  firstn (hc_size c)
    (if rehash
     then match hc_prev c with
          | Some (k, s) => memhash k s data
          | None => memhash (hc_kind c) (hc_seed c) data    (* unreachable: the flag is only set by state_rehash *)
          end
     else memhash (hc_kind c) (hc_seed c) data).

Fixpoint bytes_eqb (a b : list N) : bool :=
  match a, b with
  | [], [] => true
  | x :: a', y :: b' => (x =? y) && bytes_eqb a' b'
  | _, _ => false
  end.

(* blockcmp: 0 (accepted) iff the recomputed hash equals the stored one *)
Definition blockcmp (c : hconf) (rehash : bool) (stored data : list N) : bool := bytes_eqb (block_hash c rehash data) stored.

(* state_rehash on the hash part of the state *)
Definition rehash_conf (c : hconf) (newkind : hkind) (newseed : list N) : hconf :=
  HC newkind newseed (Some (hc_kind c, hc_seed c)) (hc_size c).

(* the selection with the seed forgotten (previous KIND, current seed): what a block must NOT be hashed with *)
Definition block_hash_newseed (c : hconf) (rehash : bool) (data : list N) : list N :=
  firstn (hc_size c)
    (if rehash
     then match hc_prev c with Some (k, _) => memhash k (hc_seed c) data | None => memhash (hc_kind c) (hc_seed c) data end
     else memhash (hc_kind c) (hc_seed c) data).

(* ------------------------------------------------------------------------------------------------ *)
Lemma bytes_eqb_refl a : bytes_eqb a a = true.
Proof. induction a as [|x a IH]; [reflexivity|]. cbn [bytes_eqb]. rewrite N.eqb_refl, IH. reflexivity. Qed.

Lemma bytes_eqb_eq a : forall b, bytes_eqb a b = true -> a = b.
Proof.
  induction a as [|x a IH]; intros [|y b] H; try discriminate; [reflexivity|].
  cbn [bytes_eqb] in H. apply andb_true_iff in H. destruct H as [H1 H2].
  apply N.eqb_eq in H1. subst y. f_equal. apply IH, H2.
Qed.

(* the seed selection: a block awaiting rehash is hashed with the previous kind AND the previous seed, any other
   block with the current kind and the current seed *)
Theorem block_hash_selection c data :
  (forall k s, hc_prev c = Some (k, s) -> block_hash c true data = firstn (hc_size c) (memhash k s data)) /\
  block_hash c false data = firstn (hc_size c) (memhash (hc_kind c) (hc_seed c) data).
Proof. split; [intros k s H; unfold block_hash; rewrite H; reflexivity|reflexivity]. Qed.

(* a hash stored by the writer under the same rule is accepted, whatever the data and the state *)
Theorem blockcmp_accepts_written c rehash data : blockcmp c rehash (block_hash c rehash data) data = true.
Proof. apply bytes_eqb_refl. Qed.

Theorem blockcmp_sound c rehash stored data : blockcmp c rehash stored data = true -> stored = block_hash c rehash data.
Proof. intros H. symmetry. apply bytes_eqb_eq, H. Qed.

(* `rehash` keeps every stored hash valid: what was written before the command (flag clear, old state) is exactly
   what the new state recomputes for a flagged block -- for every new kind and EVERY new seed *)
Theorem rehash_keeps_hashes_valid c nk ns data :
  block_hash (rehash_conf c nk ns) true data = block_hash c false data.
Proof. reflexivity. Qed.

Corollary rehash_blockcmp c nk ns data :
  blockcmp (rehash_conf c nk ns) true (block_hash c false data) data = true.
Proof. rewrite <- (rehash_keeps_hashes_valid c nk ns data). apply blockcmp_accepts_written. Qed.

(* the full statement with the seed forgotten is false: there are a state, a new seed and a block for which the
   hash written before the rehash is not reproduced by (previous kind, new seed) *)
Definition ex_conf : hconf := HC Murmur3 (repeat 0 16) None 16.
Definition ex_newseed : list N := 1 :: repeat 0 15.
Definition ex_data : list N := [97; 98; 99].

Theorem newseed_selection_refuted :
  exists c nk ns data,
    block_hash_newseed (rehash_conf c nk ns) true data <> block_hash c false data /\
    bytes_eqb (block_hash_newseed (rehash_conf c nk ns) true data) (block_hash c false data) = false.
Proof.
  exists ex_conf, Spooky2, ex_newseed, ex_data.
  assert (E : bytes_eqb (block_hash_newseed (rehash_conf ex_conf Spooky2 ex_newseed) true ex_data) (block_hash ex_conf false ex_data) = false)
    by (vm_compute; reflexivity).
  split; [|exact E]. intros H. rewrite H, bytes_eqb_refl in E. discriminate.
Qed.

Example block_hash_example :
  length (block_hash ex_conf false ex_data) = 16%nat /\
  length (block_hash (HC Spooky2 ex_newseed (Some (Murmur3, repeat 0 16)) 8) true ex_data) = 8%nat /\
  block_hash (rehash_conf ex_conf Spooky2 ex_newseed) true ex_data = block_hash ex_conf false ex_data /\
  block_hash (rehash_conf ex_conf Spooky2 ex_newseed) false ex_data <> block_hash ex_conf false ex_data.
Proof.
  repeat split; try (vm_compute; reflexivity).
  intros H. assert (E : bytes_eqb (block_hash (rehash_conf ex_conf Spooky2 ex_newseed) false ex_data) (block_hash ex_conf false ex_data) = false)
    by (vm_compute; reflexivity).
  rewrite H, bytes_eqb_refl in E. discriminate.
Qed.
