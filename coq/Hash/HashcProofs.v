(* The functions translated from cmdline/murmur3.c and cmdline/spooky2.c on every run (Gen.HashProgs, emitted by
   harness/gen/hashc.py) equal the hand-written models Hash.Murmur3 / Hash.Spooky2 that the vendored-digest theorems
   and the correspondence use: for every seed and every byte list. *)
From Coq Require Import NArith List Bool Lia ZArith.
From Snap.Gen Require Import HashProgs.
From Snap.Hash Require Import Words Murmur3 Spooky2.
Import ListNotations.
Local Open Scope N_scope.
Ltac Zify.zify_post_hook ::= Z.to_euclidean_division_equations.

Definition bytes (l : list N) : Prop := Forall (fun b => b < 256) l.

(* ---- pieces shared by both hashes ---- *)
Lemma t_rotl32_eq x r : t_rotl32 x r = rotl32 x r.
Proof. reflexivity. Qed.
Lemma t_rotl64_eq x r : t_rotl64 x r = rotl64 x r.
Proof. reflexivity. Qed.

(* the translator's conversion rule: a wider operand of a 32-bit ^= is truncated at the use *)
Lemma w32_lxor a b : w32 (N.lxor a b) = N.lxor (w32 a) (w32 b).
Proof.
  unfold w32. apply N.bits_inj. intros p. rewrite N.lxor_spec, !N.land_spec, N.lxor_spec.
  destruct (N.testbit a p), (N.testbit b p), (N.testbit M32 p); reflexivity.
Qed.

Lemma w32_shl_byte b k : b < 256 -> k <= 24 -> w32 (N.shiftl b k) = N.shiftl b k.
Proof.
  intros Hb Hk. rewrite w32_mod. apply N.mod_small. rewrite N.shiftl_mul_pow2.
  apply N.lt_le_trans with (256 * 2^k); [apply N.mul_lt_mono_pos_r; [apply N.neq_0_lt_0, N.pow_nonzero; lia|exact Hb]|].
  change 256 with (2^8). rewrite <- N.pow_add_r. apply N.pow_le_mono_r; lia.
Qed.

Lemma nth_byte t i : bytes t -> nth i t 0 < 256.
Proof.
  intros H. destruct (Nat.lt_ge_cases i (length t)) as [L|L].
  - apply (proj1 (Forall_forall _ _) H). apply nth_In, L.
  - rewrite nth_overflow by exact L. lia.
Qed.

Lemma bytes_skipn n : forall l, bytes l -> bytes (skipn n l).
Proof.
  induction n as [|n IH]; intros l H; [exact H|]. destruct l as [|x l]; [exact H|].
  cbn [skipn]. apply IH. inversion H; assumption.
Qed.

Lemma skipn_add {A} b : forall a (l : list A), skipn a (skipn b l) = skipn (b + a) l.
Proof.
  induction b as [|b IH]; intros a l; [reflexivity|]. destruct l as [|x l]; [destruct a; reflexivity|]. cbn [skipn Nat.add]. apply IH.
Qed.

(* ---- Murmur3 ---- *)
Definition ms_of (s : N * N * N * N) : mstate := let '(a, b, c, d) := s in MS a b c d.

Lemma t_consts_eq : t_c1 = c1 /\ t_c2 = c2 /\ t_c3 = c3 /\ t_c4 = c4.
Proof. repeat split; reflexivity. Qed.

Lemma t_fmix32_eq h : t_fmix32 h = fmix32 h.
Proof. reflexivity. Qed.

Lemma t_minit_eq seed : words 4 4 seed = (let '(a, b, c, d) := t_minit seed in [a; b; c; d]).
Proof.
  unfold t_minit. cbn [words]. rewrite !skipn_add. reflexivity.
Qed.

Lemma t_mblock_eq s k1 k2 k3 k4 : ms_of (t_mblock s k1 k2 k3 k4) = mblock (ms_of s) k1 k2 k3 k4.
Proof. destruct s as [[[a b] c] d]. reflexivity. Qed.

Lemma t_mbody_eq n : forall s l,
  mbody n (ms_of s) l = (ms_of (fst (t_mbody n s l)), snd (t_mbody n s l)).
Proof.
  induction n as [|n IH]; intros s l; [reflexivity|].
  cbn [t_mbody mbody words]. rewrite <- t_mblock_eq. apply IH.
Qed.

Lemma t_mbody_bytes n : forall s l, bytes l -> bytes (snd (t_mbody n s l)).
Proof.
  induction n as [|n IH]; intros s l H; [exact H|].
  cbn [t_mbody words]. apply IH. apply bytes_skipn, H.
Qed.

Lemma t_mfinal_eq s size : t_mfinal s size = mfinal (ms_of s) size.
Proof. destruct s as [[[a b] c] d]. reflexivity. Qed.

(* the tail switch with its fall-through *)
Lemma t_mtail_eq s t : bytes t ->
  ms_of (t_mtail s (N.of_nat (length t)) (fun i => nth i t 0)) = mtail (ms_of s) t.
Proof.
  intros Hb. destruct s as [[[a b] c] d]. unfold t_mtail, mtail, ms_of.
  set (rem := N.of_nat (length t)).
  destruct (N.eqb_spec rem 0) as [E|E]; [reflexivity|].
  assert (G1 : 1 <=? rem = true) by (apply N.leb_le; lia).
  cbv zeta. fold rem. rewrite G1.
  rewrite !w32_shl_byte by (first [apply nth_byte; exact Hb | lia]).
  rewrite !N.shiftl_0_r.
  unfold kmix1, kmix2, kmix3, kmix4.
  change t_c1 with c1. change t_c2 with c2. change t_c3 with c3. change t_c4 with c4.
  change t_rotl32 with rotl32.
  f_equal;
    repeat match goal with |- context [if ?g <=? rem then _ else _] => destruct (g <=? rem) end; reflexivity.
Qed.

Theorem t_murmur3_eq seed data : bytes data -> t_murmur3_x86_128 seed data = murmur3_x86_128 seed data.
Proof.
  intros Hb. unfold t_murmur3_x86_128, murmur3_x86_128.
  rewrite t_minit_eq.
  destruct (t_minit seed) as [[[a b] c] d] eqn:Ei.
  change (MS a b c d) with (ms_of (a, b, c, d)).
  rewrite t_mbody_eq.
  pose proof (t_mbody_bytes (Nat.div (length data) 16) (a, b, c, d) data Hb) as Ht.
  destruct (t_mbody (Nat.div (length data) 16) (a, b, c, d) data) as [s t]. cbn [fst snd] in *.
  rewrite t_mfinal_eq, (t_mtail_eq s t Ht). reflexivity.
Qed.

(* ---- Spooky2 ---- *)
Definition ss_of (s : N * N * N * N * N * N * N * N * N * N * N * N) : sstate :=
  let '(a0, a1, a2, a3, a4, a5, a6, a7, a8, a9, a10, a11) := s in SS a0 a1 a2 a3 a4 a5 a6 a7 a8 a9 a10 a11.

Lemma t_sc_const_eq : t_sc_const = sc_const.
Proof. reflexivity. Qed.

Lemma t_smix_eq w s : ss_of (t_smix (fun i => nth i w 0) s) = mix w (ss_of s).
Proof.
  destruct s as [[[[[[[[[[[a0 a1] a2] a3] a4] a5] a6] a7] a8] a9] a10] a11].
  unfold t_smix, mix, ss_of. change t_rotl64 with rotl64. reflexivity.
Qed.

Lemma t_send_partial_eq s : ss_of (t_send_partial s) = end_partial (ss_of s).
Proof.
  destruct s as [[[[[[[[[[[a0 a1] a2] a3] a4] a5] a6] a7] a8] a9] a10] a11].
  unfold t_send_partial, end_partial, ss_of. change t_rotl64 with rotl64. reflexivity.
Qed.

Lemma t_send_eq w s : ss_of (t_send (fun i => nth i w 0) s) = end_mix w (ss_of s).
Proof.
  destruct s as [[[[[[[[[[[a0 a1] a2] a3] a4] a5] a6] a7] a8] a9] a10] a11].
  unfold t_send, end_mix. cbv zeta. rewrite !t_send_partial_eq. cbn [ss_of]. reflexivity.
Qed.

Lemma t_sinit_eq seed :
  ss_of (t_sinit seed) =
  (let h9 := le (firstn 8 seed) in let h10 := le (firstn 8 (skipn 8 seed)) in
   SS h9 h10 sc_const h9 h10 sc_const h9 h10 sc_const h9 h10 sc_const).
Proof. reflexivity. Qed.

Lemma t_sbody_eq n : forall s l,
  sbody n (ss_of s) l = (ss_of (fst (t_sbody n s l)), snd (t_sbody n s l)).
Proof.
  induction n as [|n IH]; intros s l; [reflexivity|].
  cbn [t_sbody sbody]. cbv zeta. rewrite <- t_smix_eq. apply IH.
Qed.

Lemma t_stail_block_eq t : t_stail_block t = stail_block t.
Proof. reflexivity. Qed.

Theorem t_spooky2_eq seed data : t_spooky2_128 seed data = spooky2_128 seed data.
Proof.
  unfold t_spooky2_128, spooky2_128. cbv zeta.
  change (SS (le (firstn 8 seed)) (le (firstn 8 (skipn 8 seed))) sc_const (le (firstn 8 seed)) (le (firstn 8 (skipn 8 seed))) sc_const
             (le (firstn 8 seed)) (le (firstn 8 (skipn 8 seed))) sc_const (le (firstn 8 seed)) (le (firstn 8 (skipn 8 seed))) sc_const)
    with (ss_of (t_sinit seed)).
  rewrite t_sbody_eq.
  destruct (t_sbody (Nat.div (length data) 96) (t_sinit seed) data) as [s t]. cbn [fst snd].
  rewrite t_stail_block_eq, <- t_send_eq.
  destruct (t_send (fun i => nth i (words 12 8 (stail_block t)) 0) s) as [[[[[[[[[[[a0 a1] a2] a3] a4] a5] a6] a7] a8] a9] a10] a11].
  reflexivity.
Qed.
