(* MurmurHash3_x86_128 as in cmdline/murmur3.c (little-endian host), over byte lists.
   seed = 16 bytes read as four little-endian uint32 (h1..h4) -- this is how util.c memhash passes the
   array's hash seed; result = 16 bytes.  Executable definitions only; validated against vendored digests
   in Hash/HashVectors.v, not proved against a specification (there is none besides the code). *)
From Coq Require Import NArith List.
From Snap.Hash Require Import Words.
Import ListNotations.
Local Open Scope N_scope.

Definition c1 : N := 0x239b961b.
Definition c2 : N := 0xab0e9789.
Definition c3 : N := 0x38b34ae5.
Definition c4 : N := 0xa1e38b93.

(* h ^= h >> 16; h *= 0x85ebca6b; h ^= h >> 13; h *= 0xc2b2ae35; h ^= h >> 16; *)
Definition fmix32 (h : N) : N :=
  let h := N.lxor h (N.shiftr h 16) in
  let h := mul32 h 0x85ebca6b in
  let h := N.lxor h (N.shiftr h 13) in
  let h := mul32 h 0xc2b2ae35 in
  N.lxor h (N.shiftr h 16).

(* k1 *= c1; k1 = rotl32(k1, 15); k1 *= c2;   etc. *)
Definition kmix1 (k : N) : N := mul32 (rotl32 (mul32 k c1) 15) c2.
Definition kmix2 (k : N) : N := mul32 (rotl32 (mul32 k c2) 16) c3.
Definition kmix3 (k : N) : N := mul32 (rotl32 (mul32 k c3) 17) c4.
Definition kmix4 (k : N) : N := mul32 (rotl32 (mul32 k c4) 18) c1.

Record mstate := MS { mh1 : N; mh2 : N; mh3 : N; mh4 : N }.

(* one 16-byte block *)
Definition mblock (s : mstate) (k1 k2 k3 k4 : N) : mstate :=
  let '(MS h1 h2 h3 h4) := s in
  let h1 := N.lxor h1 (kmix1 k1) in
  let h1 := rotl32 h1 19 in let h1 := add32 h1 h2 in let h1 := add32 (mul32 h1 5) 0x561ccd1b in
  let h2 := N.lxor h2 (kmix2 k2) in
  let h2 := rotl32 h2 17 in let h2 := add32 h2 h3 in let h2 := add32 (mul32 h2 5) 0x0bcaa747 in
  let h3 := N.lxor h3 (kmix3 k3) in
  let h3 := rotl32 h3 15 in let h3 := add32 h3 h4 in let h3 := add32 (mul32 h3 5) 0x96cd1c35 in
  let h4 := N.lxor h4 (kmix4 k4) in
  let h4 := rotl32 h4 13 in let h4 := add32 h4 h1 in let h4 := add32 (mul32 h4 5) 0x32ac3b17 in
  MS h1 h2 h3 h4.

(* while (blocks < end): nblocks = size / 16 iterations; returns the state and the unread tail *)
Fixpoint mbody (nblocks : nat) (s : mstate) (l : list N) : mstate * list N :=
  match nblocks with
  | O => (s, l)
  | S n =>
    match words 4 4 l with
    | [k1; k2; k3; k4] => mbody n (mblock s k1 k2 k3 k4) (skipn 16 l)
    | _ => (s, l)   (* unreachable: words 4 _ _ has 4 elements *)
    end
  end.

(* the tail switch with its fall-through: `rem` = size & 15, t = the remaining bytes.
   case 15: k4 ^= tail[14] << 16;  case 14: k4 ^= tail[13] << 8;  case 13: k4 ^= tail[12]; k4 mix; h4 ^= k4;
   case 12..9 the same for k3 / h3, case 8..5 for k2 / h2, case 4..1 for k1 / h1. *)
Definition mtail (s : mstate) (t : list N) : mstate :=
  let rem := N.of_nat (length t) in
  if rem =? 0 then s else
  let tb i := nth i t 0 in
  let '(MS h1 h2 h3 h4) := s in
  let k4 := 0 in
  let k4 := if 15 <=? rem then N.lxor k4 (N.shiftl (tb 14%nat) 16) else k4 in
  let k4 := if 14 <=? rem then N.lxor k4 (N.shiftl (tb 13%nat) 8) else k4 in
  let k4 := if 13 <=? rem then N.lxor k4 (tb 12%nat) else k4 in
  let h4 := if 13 <=? rem then N.lxor h4 (kmix4 k4) else h4 in
  let k3 := 0 in
  let k3 := if 12 <=? rem then N.lxor k3 (N.shiftl (tb 11%nat) 24) else k3 in
  let k3 := if 11 <=? rem then N.lxor k3 (N.shiftl (tb 10%nat) 16) else k3 in
  let k3 := if 10 <=? rem then N.lxor k3 (N.shiftl (tb 9%nat) 8) else k3 in
  let k3 := if 9 <=? rem then N.lxor k3 (tb 8%nat) else k3 in
  let h3 := if 9 <=? rem then N.lxor h3 (kmix3 k3) else h3 in
  let k2 := 0 in
  let k2 := if 8 <=? rem then N.lxor k2 (N.shiftl (tb 7%nat) 24) else k2 in
  let k2 := if 7 <=? rem then N.lxor k2 (N.shiftl (tb 6%nat) 16) else k2 in
  let k2 := if 6 <=? rem then N.lxor k2 (N.shiftl (tb 5%nat) 8) else k2 in
  let k2 := if 5 <=? rem then N.lxor k2 (tb 4%nat) else k2 in
  let h2 := if 5 <=? rem then N.lxor h2 (kmix2 k2) else h2 in
  let k1 := 0 in
  let k1 := if 4 <=? rem then N.lxor k1 (N.shiftl (tb 3%nat) 24) else k1 in
  let k1 := if 3 <=? rem then N.lxor k1 (N.shiftl (tb 2%nat) 16) else k1 in
  let k1 := if 2 <=? rem then N.lxor k1 (N.shiftl (tb 1%nat) 8) else k1 in
  let k1 := N.lxor k1 (tb 0%nat) in
  let h1 := N.lxor h1 (kmix1 k1) in
  MS h1 h2 h3 h4.

Definition mfinal (s : mstate) (size : N) : list N :=
  let '(MS h1 h2 h3 h4) := s in
  let sz := w32 size in      (* h1 ^= size with size_t size: only the low 32 bits reach the uint32_t *)
  let h1 := N.lxor h1 sz in let h2 := N.lxor h2 sz in let h3 := N.lxor h3 sz in let h4 := N.lxor h4 sz in
  let h1 := add32 h1 h2 in let h1 := add32 h1 h3 in let h1 := add32 h1 h4 in
  let h2 := add32 h2 h1 in let h3 := add32 h3 h1 in let h4 := add32 h4 h1 in
  let h1 := fmix32 h1 in let h2 := fmix32 h2 in let h3 := fmix32 h3 in let h4 := fmix32 h4 in
  let h1 := add32 h1 h2 in let h1 := add32 h1 h3 in let h1 := add32 h1 h4 in
  let h2 := add32 h2 h1 in let h3 := add32 h3 h1 in let h4 := add32 h4 h1 in
  bytes_le 4 h1 ++ bytes_le 4 h2 ++ bytes_le 4 h3 ++ bytes_le 4 h4.

Definition murmur3_x86_128 (seed data : list N) : list N :=
  match words 4 4 seed with
  | [h1; h2; h3; h4] =>
    let '(s, t) := mbody (Nat.div (length data) 16) (MS h1 h2 h3 h4) data in
    mfinal (mtail s t) (N.of_nat (length data))
  | _ => []
  end.
