(* SpookyHash V2, 128 bit, as in cmdline/spooky2.c (little-endian host): the long-message algorithm for EVERY
   length (snapraid never uses the short-hash variant), 96-byte blocks through Mix, the remainder zero-padded
   with its length in the last byte through End.  seed = 16 bytes read as two little-endian uint64
   (h9 = seed[0..7], h10 = seed[8..15], copied to h0,h3,h6 / h1,h4,h7; h2,h5,h8,h11 = sc_const); result = 16 bytes.
   Executable definitions only; validated against vendored digests in Hash/HashVectors.v.
   The bodies of `mix` and `end_partial` are the macro texts, one `let` per statement, in order. *)
From Coq Require Import NArith List.
From Snap.Hash Require Import Words.
Import ListNotations.
Local Open Scope N_scope.

Definition sc_const : N := 0xdeadbeefdeadbeef.

Record sstate := SS { s0 : N; s1 : N; s2 : N; s3 : N; s4 : N; s5 : N; s6 : N; s7 : N; s8 : N; s9 : N; s10 : N; s11 : N }.

(* Mix(data, s0..s11): data = 12 little-endian uint64 *)
Definition mix (data : list N) (s : sstate) : sstate :=
  let d i := nth i data 0 in
  let '(SS s0 s1 s2 s3 s4 s5 s6 s7 s8 s9 s10 s11) := s in
  let s0 := add64 s0 (d 0%nat) in let s2 := N.lxor s2 s10 in let s11 := N.lxor s11 s0 in let s0 := rotl64 s0 11 in let s11 := add64 s11 s1 in
  let s1 := add64 s1 (d 1%nat) in let s3 := N.lxor s3 s11 in let s0 := N.lxor s0 s1 in let s1 := rotl64 s1 32 in let s0 := add64 s0 s2 in
  let s2 := add64 s2 (d 2%nat) in let s4 := N.lxor s4 s0 in let s1 := N.lxor s1 s2 in let s2 := rotl64 s2 43 in let s1 := add64 s1 s3 in
  let s3 := add64 s3 (d 3%nat) in let s5 := N.lxor s5 s1 in let s2 := N.lxor s2 s3 in let s3 := rotl64 s3 31 in let s2 := add64 s2 s4 in
  let s4 := add64 s4 (d 4%nat) in let s6 := N.lxor s6 s2 in let s3 := N.lxor s3 s4 in let s4 := rotl64 s4 17 in let s3 := add64 s3 s5 in
  let s5 := add64 s5 (d 5%nat) in let s7 := N.lxor s7 s3 in let s4 := N.lxor s4 s5 in let s5 := rotl64 s5 28 in let s4 := add64 s4 s6 in
  let s6 := add64 s6 (d 6%nat) in let s8 := N.lxor s8 s4 in let s5 := N.lxor s5 s6 in let s6 := rotl64 s6 39 in let s5 := add64 s5 s7 in
  let s7 := add64 s7 (d 7%nat) in let s9 := N.lxor s9 s5 in let s6 := N.lxor s6 s7 in let s7 := rotl64 s7 57 in let s6 := add64 s6 s8 in
  let s8 := add64 s8 (d 8%nat) in let s10 := N.lxor s10 s6 in let s7 := N.lxor s7 s8 in let s8 := rotl64 s8 55 in let s7 := add64 s7 s9 in
  let s9 := add64 s9 (d 9%nat) in let s11 := N.lxor s11 s7 in let s8 := N.lxor s8 s9 in let s9 := rotl64 s9 54 in let s8 := add64 s8 s10 in
  let s10 := add64 s10 (d 10%nat) in let s0 := N.lxor s0 s8 in let s9 := N.lxor s9 s10 in let s10 := rotl64 s10 22 in let s9 := add64 s9 s11 in
  let s11 := add64 s11 (d 11%nat) in let s1 := N.lxor s1 s9 in let s10 := N.lxor s10 s11 in let s11 := rotl64 s11 46 in let s10 := add64 s10 s0 in
  SS s0 s1 s2 s3 s4 s5 s6 s7 s8 s9 s10 s11.

(* EndPartial(h0..h11) *)
Definition end_partial (s : sstate) : sstate :=
  let '(SS h0 h1 h2 h3 h4 h5 h6 h7 h8 h9 h10 h11) := s in
  let h11 := add64 h11 h1 in let h2 := N.lxor h2 h11 in let h1 := rotl64 h1 44 in
  let h0 := add64 h0 h2 in let h3 := N.lxor h3 h0 in let h2 := rotl64 h2 15 in
  let h1 := add64 h1 h3 in let h4 := N.lxor h4 h1 in let h3 := rotl64 h3 34 in
  let h2 := add64 h2 h4 in let h5 := N.lxor h5 h2 in let h4 := rotl64 h4 21 in
  let h3 := add64 h3 h5 in let h6 := N.lxor h6 h3 in let h5 := rotl64 h5 38 in
  let h4 := add64 h4 h6 in let h7 := N.lxor h7 h4 in let h6 := rotl64 h6 33 in
  let h5 := add64 h5 h7 in let h8 := N.lxor h8 h5 in let h7 := rotl64 h7 10 in
  let h6 := add64 h6 h8 in let h9 := N.lxor h9 h6 in let h8 := rotl64 h8 13 in
  let h7 := add64 h7 h9 in let h10 := N.lxor h10 h7 in let h9 := rotl64 h9 38 in
  let h8 := add64 h8 h10 in let h11 := N.lxor h11 h8 in let h10 := rotl64 h10 53 in
  let h9 := add64 h9 h11 in let h0 := N.lxor h0 h9 in let h11 := rotl64 h11 42 in
  let h10 := add64 h10 h0 in let h1 := N.lxor h1 h10 in let h0 := rotl64 h0 54 in
  SS h0 h1 h2 h3 h4 h5 h6 h7 h8 h9 h10 h11.

(* End(data, h0..h11): h_i += data[i], then EndPartial three times *)
Definition end_mix (data : list N) (s : sstate) : sstate :=
  let d i := nth i data 0 in
  let '(SS h0 h1 h2 h3 h4 h5 h6 h7 h8 h9 h10 h11) := s in
  let s := SS (add64 h0 (d 0%nat)) (add64 h1 (d 1%nat)) (add64 h2 (d 2%nat)) (add64 h3 (d 3%nat))
              (add64 h4 (d 4%nat)) (add64 h5 (d 5%nat)) (add64 h6 (d 6%nat)) (add64 h7 (d 7%nat))
              (add64 h8 (d 8%nat)) (add64 h9 (d 9%nat)) (add64 h10 (d 10%nat)) (add64 h11 (d 11%nat)) in
  end_partial (end_partial (end_partial s)).

(* while (blocks < end): nblocks = size / 96 iterations; returns the state and the unread remainder *)
Fixpoint sbody (nblocks : nat) (s : sstate) (l : list N) : sstate * list N :=
  match nblocks with
  | O => (s, l)
  | S n => sbody n (mix (words 12 8 l) s) (skipn 96 l)
  end.

(* memcpy(buf, end, rem); memset(buf + rem, 0, 96 - rem); ((uint8_t* )buf)[95] = rem; *)
Definition stail_block (t : list N) : list N :=
  let rem := length t in
  firstn 95 (t ++ repeat 0 (96 - rem)) ++ [N.of_nat rem mod 256].

Definition spooky2_128 (seed data : list N) : list N :=
  let h9 := le (firstn 8 seed) in
  let h10 := le (firstn 8 (skipn 8 seed)) in
  let init := SS h9 h10 sc_const h9 h10 sc_const h9 h10 sc_const h9 h10 sc_const in
  let '(s, t) := sbody (Nat.div (length data) 96) init data in
  let s := end_mix (words 12 8 (stail_block t)) s in
  bytes_le 8 (s0 s) ++ bytes_le 8 (s1 s).
