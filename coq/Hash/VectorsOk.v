(* The hash models reproduce the vendored digests of the reference version: a FINITE statement
   (4 seeds x lengths 0..260 per hash), checked by computation.  The general claim "model = C for every input"
   is not proved; it is tested by the correspondence of check_C16 (all lengths 0..1100, 8 seeds, random data). *)
From Coq Require Import NArith List Bool.
From Snap.Hash Require Import Words Murmur3 Spooky2 Vectors.
Import ListNotations.
Local Open Scope N_scope.

Definition check_vec (h : list N -> list N -> list N) (seed : list N) (sid : N) (nd : nat * N) : bool :=
  let out := h seed (vec_data sid (fst nd)) in
  (le out =? snd nd) && Nat.eqb (length out) 16.

Definition check_seed (h : list N -> list N -> list N) (e : N * list N * list N) : bool :=
  let '(sid, seed, ds) := e in
  forallb (check_vec h seed sid) (combine (seq 0 (length ds)) ds).

Definition vec_shape (v : list (N * list N * list N)) : list (N * nat * nat) :=
  map (fun '(sid, seed, ds) => (sid, length seed, length ds)) v.

Theorem murmur3_vectors : forallb (check_seed murmur3_x86_128) murmur3_vecs = true.
Proof. vm_cast_no_check (eq_refl true). Qed.

Theorem spooky2_vectors : forallb (check_seed spooky2_128) spooky2_vecs = true.
Proof. vm_cast_no_check (eq_refl true). Qed.

(* what the two statements range over: seeds 0..3 (16 bytes each), message lengths 0..260 *)
Example vectors_shape :
  vec_shape murmur3_vecs = [(0, 16%nat, 261%nat); (1, 16%nat, 261%nat); (2, 16%nat, 261%nat); (3, 16%nat, 261%nat)] /\
  vec_shape spooky2_vecs = [(0, 16%nat, 261%nat); (1, 16%nat, 261%nat); (2, 16%nat, 261%nat); (3, 16%nat, 261%nat)].
Proof. split; vm_compute; reflexivity. Qed.
