(* Machine words for the hash models: uint32_t / uint64_t arithmetic with the wrap-around written out,
   little-endian loads and stores on byte lists.  Executable definitions + the two lemmas that say the masks
   are `mod 2^32` / `mod 2^64`. *)
From Coq Require Import NArith List.
Import ListNotations.
Local Open Scope N_scope.

Definition M32 : N := 0xffffffff.
Definition M64 : N := 0xffffffffffffffff.

(* truncation to the C type; equal to `mod 2^32` / `mod 2^64` (w32_mod, w64_mod), written with a mask because
   N.land is linear where N.modulo is a long division *)
Definition w32 (x : N) : N := N.land x M32.
Definition w64 (x : N) : N := N.land x M64.

Lemma w32_mod x : w32 x = x mod 2^32.
Proof. unfold w32. change M32 with (N.ones 32). apply N.land_ones. Qed.
Lemma w64_mod x : w64 x = x mod 2^64.
Proof. unfold w64. change M64 with (N.ones 64). apply N.land_ones. Qed.

Definition add32 (a b : N) : N := w32 (a + b).
Definition mul32 (a b : N) : N := w32 (a * b).
Definition add64 (a b : N) : N := w64 (a + b).

(* util_rotl32 / util_rotl64: (x << r) | (x >> (W - r)), 0 < r < W, x already in range *)
Definition rotl32 (x r : N) : N := N.lor (w32 (N.shiftl x r)) (N.shiftr x (32 - r)).
Definition rotl64 (x r : N) : N := N.lor (w64 (N.shiftl x r)) (N.shiftr x (64 - r)).

(* util_read32 / util_read64 on a little-endian machine: value of a byte list, least significant first *)
Definition le (l : list N) : N := fold_right (fun b acc => N.lor b (N.shiftl acc 8)) 0 l.

(* util_write32 / util_write64: n bytes, least significant first *)
Fixpoint bytes_le (n : nat) (v : N) : list N :=
  match n with O => [] | S k => N.land v 255 :: bytes_le k (N.shiftr v 8) end.

(* k consecutive little-endian words of w bytes each *)
Fixpoint words (k w : nat) (l : list N) : list N :=
  match k with O => [] | S k' => le (firstn w l) :: words k' w (skipn w l) end.

(* the deterministic test message used by the vendored vectors (vectors/C16/hash_vectors.txt):
   byte i of the message of length n for seed number sid.  Same formula in harness/c/c16_drv.c (`vecdata`)
   and harness/py/c16_lib.py. *)
Definition vec_byte (sid n i : N) : N :=
  (((i + 1) * (n + 13) * 40503 + i * i * 7 + sid * 977) / 16) mod 256.
Definition vec_data (sid : N) (n : nat) : list N :=
  map (fun i => vec_byte sid (N.of_nat n) (N.of_nat i)) (seq 0 n).
