(* Soundness of the abstract interpreter of IntCheck.v, lane by lane: if a local is abstractly [ALin n], every byte
   lane of the word it holds is the xor-sum n evaluated on the lanes of the locals at block entry and on the data
   bytes; the abstract store log describes the concrete one. *)
From Coq Require Import NArith List Bool Arith Lia.
From Snap.GF Require Import Gf.
From Snap.Raid Require Import GenModel.
From Snap.Simd Require Import SimdDefs SimdSem SimdBytes.
From Snap.IntC Require Import IntDefs IntSem IntCheck IntLanes.
Import ListNotations.
Local Open Scope N_scope.

Section Abs.
  Variable e : env.
  Variable s0 : venv.               (* the locals at block entry *)
  Let w := e_w e.

  Definition dval (r : dref) (x : nat) : N := b8 (dbyte e r x).
  Definition sval (i : nat) (sr : src) : N :=
    match sr with SVar x => lane i (getv w s0 x) | SData r off => dval r (e_base e + off + i) end.
  Definition cmul (c : coef) (b : N) : N :=
    match c with CTab j r => b8 (tabmul (e_m e) j (disk_of e r) b) | _ => hmul c b end.
  Definition eval_nf (n : nf) (i : nat) : N :=
    fold_right (fun t a => N.lxor (cmul (fst t) (sval i (snd t))) a) 0 n.
  Definition word_ok (a : av) (v : N) : Prop :=
    match a with AJunk => True | ALin n => forall i, (i < w)%nat -> lane i v = eval_nf n i end.
  Definition sat (A : astate) (s : venv) : Prop := forall x, word_ok (aget A x) (getv w s x).

  Lemma eval_app a b i : eval_nf (a ++ b) i = N.lxor (eval_nf a i) (eval_nf b i).
  Proof.
    unfold eval_nf. induction a as [|t a IH]; cbn [app fold_right]; [rewrite N.lxor_0_l; reflexivity|].
    rewrite IH. rewrite N.lxor_assoc. reflexivity.
  Qed.
  Lemma eval_single c s i : eval_nf [(c, s)] i = cmul c (sval i s).
  Proof. cbn [eval_nf fold_right fst snd]. apply N.lxor_0_r. Qed.

  (* ---- equalities decided by the checker ---------------------------------------------------------- *)
  Lemma src_eqb_eq a b : src_eqb a b = true -> a = b.
  Proof.
    destruct a, b; cbn [src_eqb]; try discriminate.
    - intros H. apply Nat.eqb_eq in H. congruence.
    - intros H. apply andb_true_iff in H. destruct H as [H1 H2]. apply dref_eqb_eq in H1. apply Nat.eqb_eq in H2. congruence.
  Qed.
  Lemma coef_eqb_eq a b : coef_eqb a b = true -> a = b.
  Proof.
    destruct a, b; cbn [coef_eqb]; try discriminate; try reflexivity;
      intros H; apply andb_true_iff in H; destruct H as [H1 H2]; apply dref_eqb_eq in H2; apply Nat.eqb_eq in H1; congruence.
  Qed.
  Lemma term_eqb_eq a b : term_eqb a b = true -> a = b.
  Proof.
    unfold term_eqb. intros H. apply andb_true_iff in H. destruct H as [H1 H2].
    apply coef_eqb_eq in H1. apply src_eqb_eq in H2. destruct a, b; cbn [fst snd] in *; congruence.
  Qed.
  Lemma remove1_eval t l l' i : remove1 t l = Some l' ->
    eval_nf l i = N.lxor (cmul (fst t) (sval i (snd t))) (eval_nf l' i).
  Proof.
    revert l'. induction l as [|x r IH]; intros l' H; [discriminate|]. cbn [remove1] in H.
    destruct (term_eqb t x) eqn:E.
    - apply term_eqb_eq in E. inversion H; subst. reflexivity.
    - destruct (remove1 t r) as [r'|] eqn:E2; [|discriminate]. inversion H; subst.
      specialize (IH r' eq_refl). change (eval_nf (x :: r) i) with (N.lxor (cmul (fst x) (sval i (snd x))) (eval_nf r i)).
      change (eval_nf (x :: r') i) with (N.lxor (cmul (fst x) (sval i (snd x))) (eval_nf r' i)).
      rewrite IH. rewrite <- !N.lxor_assoc. f_equal. apply N.lxor_comm.
  Qed.
  Lemma nf_perm_eval a b i : nf_perm a b = true -> eval_nf a i = eval_nf b i.
  Proof.
    revert b. induction a as [|t a IH]; intros b H; cbn [nf_perm] in H.
    - destruct b; [reflexivity|discriminate].
    - destruct (remove1 t b) as [b'|] eqn:E; [|discriminate].
      rewrite (remove1_eval t b b' i E). rewrite <- (IH b' H). reflexivity.
  Qed.

  (* ---- locals ------------------------------------------------------------------------------------------ *)
  Lemma nth_updN x v s x' : nth x' (updN x v s) 0 = if Nat.eqb x' x then v else nth x' s 0.
  Proof.
    revert s x'. induction x as [|x IH]; intros s x'.
    - destruct s; destruct x'; cbn [updN nth Nat.eqb]; try reflexivity. destruct x'; reflexivity.
    - destruct s as [|h t]; destruct x'; cbn [updN nth Nat.eqb]; try reflexivity.
      + rewrite IH. destruct (Nat.eqb x' x); [reflexivity|]. destruct x'; reflexivity.
      + apply IH.
  Qed.
  Lemma aget_aupd x v A x' : aget (aupd x v A) x' = if Nat.eqb x' x then v else aget A x'.
  Proof.
    unfold aget. revert A x'. induction x as [|x IH]; intros A x'.
    - destruct A; destruct x'; cbn [aupd nth Nat.eqb]; try reflexivity. destruct x'; reflexivity.
    - destruct A as [|h t]; destruct x'; cbn [aupd nth Nat.eqb]; try reflexivity.
      + rewrite IH. destruct (Nat.eqb x' x); [reflexivity|]. destruct x'; reflexivity.
      + apply IH.
  Qed.

  Lemma lane_zero i : lane i 0 = 0.
  Proof. unfold lane. rewrite N.shiftr_0_l. reflexivity. Qed.
  Lemma lane0_small v : v < 256 -> lane 0 v = v.
  Proof. intros H. unfold lane. cbn [N.of_nat]. rewrite N.mul_0_r, N.shiftr_0_r. apply b8_id. exact H. Qed.
  Lemma wmod1 : wmod 1 = 256. Proof. reflexivity. Qed.

  Lemma helper_coef_cases hd c : helper_coef hd = Some c -> c = CTwo \/ c = CHalf.
  Proof.
    unfold helper_coef. destruct (_ || _)%bool; [intros H; inversion H; auto|].
    destruct (_ || _)%bool; [intros H; inversion H; auto|discriminate].
  Qed.

  (* ---- expressions ----------------------------------------------------------------------------------- *)
  Lemma aeval_ok A s x : sat A s -> word_ok (aeval w (e_hs e) A x) (eval e s x).
  Proof.
    intros HS. induction x; cbn [aeval]; try exact I.
    - (* EVar *) apply HS.
    - (* EConst *) destruct (N.eqb_spec c 0) as [->|Hc]; [|exact I]. intros i Hi.
      unfold eval. cbn [eval_gen]. unfold wrap. rewrite N.mod_0_l by (assert (H := wmod_pos (e_w e)); lia).
      apply lane_zero.
    - (* ELoad *) intros i Hi. unfold eval. cbn [eval_gen]. rewrite lane_load by exact Hi. rewrite eval_single. reflexivity.
    - (* EXor *) destruct (aeval w (e_hs e) A x1) as [|na]; [exact I|]. destruct (aeval w (e_hs e) A x2) as [|nb]; [exact I|].
      intros i Hi. unfold eval. cbn [eval_gen]. rewrite lane_lxor. rewrite eval_app.
      rewrite <- (IHx1 i Hi), <- (IHx2 i Hi). reflexivity.
    - (* ECall *) destruct (nth_error (e_hs e) h) as [hd|] eqn:Eh; [|exact I].
      destruct (Nat.eqb_spec (h_w hd) w) as [Ew|]; [|exact I].
      destruct (helper_coef hd) as [c|] eqn:Ec; [|exact I].
      destruct (aeval w (e_hs e) A x) as [|[|[[] sr] []]]; try exact I.
      intros i Hi. unfold eval. cbn [eval_gen]. fold (eval e s x). unfold call at 1. rewrite Eh.
      assert (Hwf : eval e s x < wmod (h_w hd)) by (rewrite Ew; apply eval_wf).
      rewrite wrap_small by (unfold run_helper, getv; fold w; rewrite <- Ew; apply wrap_lt).
      rewrite (helper_lane hd c _ i Ec Hwf) by (rewrite Ew; exact Hi).
      rewrite (IHx i Hi). rewrite !eval_single. cbn [cmul hmul].
      destruct (helper_coef_cases hd c Ec) as [-> | ->]; reflexivity.
    - (* EMulGen *) destruct (Nat.eqb_spec w 1) as [Ew|]; [|exact I].
      destruct (aeval w (e_hs e) A x) as [|[|[[] sr] []]]; try exact I.
      intros i Hi. assert (i = O) by lia. subst i.
      unfold eval. cbn [eval_gen]. fold (eval e s x). fold w. rewrite Ew.
      assert (Hv : eval e s x < 256) by (rewrite <- wmod1, <- Ew; apply eval_wf).
      specialize (IHx O Hi). rewrite eval_single in IHx. cbn [cmul hmul] in IHx. rewrite lane0_small in IHx by exact Hv.
      rewrite eval_single. cbn [cmul]. unfold mulgen. rewrite IHx.
      unfold lane, wrap. cbn [N.of_nat]. rewrite N.mul_0_r, N.shiftr_0_r. rewrite wmod1. rewrite (b8_mod (_ mod 256)).
      rewrite N.mod_mod by discriminate. rewrite <- b8_mod. reflexivity.
  Qed.

  (* ---- statements and blocks --------------------------------------------------------------------------- *)
  Definition store_rel (x : nat * nat * av) (y : nat * nat * vec) : Prop :=
    fst (fst y) = fst (fst x) /\ snd (fst y) = (e_base e + snd (fst x))%nat /\ length (snd y) = w /\
    match snd x with AJunk => True | ALin n => forall i, (i < w)%nat -> nth i (snd y) 0 = eval_nf n i end.
  Definition log_ok (al : alog) (g : wlog) : Prop := Forall2 store_rel al g.

  Lemma exec_stmt_ok A al s g x : sat A s -> log_ok al g ->
    sat (fst (aexec_stmt w (e_hs e) (A, al) x)) (fst (exec_stmt e (s, g) x)) /\
    log_ok (snd (aexec_stmt w (e_hs e) (A, al) x)) (snd (exec_stmt e (s, g) x)).
  Proof.
    intros HS HL. assert (Hv := aeval_ok A s). destruct x as [v ex|j off ex]; cbn [aexec_stmt exec_stmt fst snd].
    - split; [|exact HL]. intros x'. rewrite aget_aupd. unfold getv. rewrite nth_updN.
      destruct (Nat.eqb x' v); [|apply HS].
      rewrite wrap_small by apply eval_wf. apply Hv. exact HS.
    - split; [exact HS|]. constructor; [|exact HL]. unfold store_rel. cbn [fst snd].
      split; [reflexivity|]. split; [reflexivity|]. split; [apply unpack_length|].
      specialize (Hv ex HS). destruct (aeval w (e_hs e) A ex) as [|n]; [exact I|].
      intros i Hi. fold w. rewrite nth_unpack by exact Hi. apply Hv. exact Hi.
  Qed.

  Lemma exec_fold_ok b : forall A al s g, sat A s -> log_ok al g ->
    sat (fst (fold_left (aexec_stmt w (e_hs e)) b (A, al))) (fst (fold_left (exec_stmt e) b (s, g))) /\
    log_ok (snd (fold_left (aexec_stmt w (e_hs e)) b (A, al))) (snd (fold_left (exec_stmt e) b (s, g))).
  Proof.
    induction b as [|x b IH]; intros A al s g HS HL; [split; assumption|]. cbn [fold_left].
    destruct (exec_stmt_ok A al s g x HS HL) as [H1 H2].
    destruct (aexec_stmt w (e_hs e) (A, al) x) as [A' al']. destruct (exec_stmt e (s, g) x) as [s' g'].
    apply IH; assumption.
  Qed.
  Lemma exec_block_ok b A s : sat A s ->
    sat (fst (aexec_block w (e_hs e) b A)) (fst (exec_block e b s)) /\
    log_ok (snd (aexec_block w (e_hs e) b A)) (snd (exec_block e b s)).
  Proof. intros HS. apply exec_fold_ok; [exact HS|constructor]. Qed.
End Abs.

(* the identity abstract state describes the entry state itself *)
Lemma base_sat e s nv : sat e s (base_state nv) s.
Proof.
  intros x. unfold base_state, aget. destruct (Nat.lt_ge_cases x nv) as [Hx|Hx].
  - rewrite (nth_map_seq ident_av nv x AJunk Hx). unfold ident_av. intros i Hi. rewrite eval_single. reflexivity.
  - rewrite nth_overflow by (rewrite map_length, seq_length; exact Hx). exact I.
Qed.
