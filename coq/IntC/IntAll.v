(* The generated programs of Gen/IntProgs.v (REGENERATED from raid/int.c, raid/intz.c, raid/gf.h on every run) pass
   the checker, hence compute the matrix product.  A function that the translator could not handle is `None` there
   and is REJECTED here (checker_opt None = false): an unsupported translation is a broken obligation. *)
From Coq Require Import NArith List Bool String.
From Snap.Raid Require Import GenModel GenProofs.
From Snap.IntC Require Import IntDefs IntSem IntCheck IntProofs.
From Snap.Gen Require Import IntProgs.
Import ListNotations.

Definition entry_ok (x : string * genfn * option prog) : bool := checker_opt (snd (fst x)) (snd x).

Lemma chk_gen1_int32 : checker_opt G1 raid_gen1_int32 = true. Proof. vm_compute. reflexivity. Qed.
Lemma chk_gen1_int64 : checker_opt G1 raid_gen1_int64 = true. Proof. vm_compute. reflexivity. Qed.
Lemma chk_gen2_int32 : checker_opt G2 raid_gen2_int32 = true. Proof. vm_compute. reflexivity. Qed.
Lemma chk_gen2_int64 : checker_opt G2 raid_gen2_int64 = true. Proof. vm_compute. reflexivity. Qed.
Lemma chk_gen3_int8 : checker_opt (GK 3) raid_gen3_int8 = true. Proof. vm_compute. reflexivity. Qed.
Lemma chk_gen4_int8 : checker_opt (GK 4) raid_gen4_int8 = true. Proof. vm_compute. reflexivity. Qed.
Lemma chk_gen5_int8 : checker_opt (GK 5) raid_gen5_int8 = true. Proof. vm_compute. reflexivity. Qed.
Lemma chk_gen6_int8 : checker_opt (GK 6) raid_gen6_int8 = true. Proof. vm_compute. reflexivity. Qed.
Lemma chk_genz_int32 : checker_opt GZ raid_genz_int32 = true. Proof. vm_compute. reflexivity. Qed.
Lemma chk_genz_int64 : checker_opt GZ raid_genz_int64 = true. Proof. vm_compute. reflexivity. Qed.

Lemma all_checked : forallb entry_ok all_int_progs = true.
Proof. vm_compute. reflexivity. Qed.
Lemma all_listed : map (fun x => fst (fst x)) all_int_progs =
  ["raid_gen1_int32"; "raid_gen1_int64"; "raid_gen2_int32"; "raid_gen2_int64"; "raid_gen3_int8"; "raid_gen4_int8";
   "raid_gen5_int8"; "raid_gen6_int8"; "raid_genz_int32"; "raid_genz_int64"]%string.
Proof. reflexivity. Qed.

Theorem gen_int_correct : forall f g p, In (f, g, Some p) all_int_progs ->
  forall (m : rmode) (data : list block) (size : nat) (s0 : venv) (old : list block),
  (1 <= List.length data <= 251)%nat -> data_ok data -> gen_admissible m g ->
  (exists n, size = (n * step p)%nat) -> old_ok (gen_np g) size old ->
  exec_prog m p data size s0 old = spec_blocks (gen_mat m g) (gen_np g) size data.
Proof.
  intros f g p Hin. apply prog_correct.
  assert (H := all_checked). rewrite forallb_forall in H. exact (H _ Hin).
Qed.

(* non-vacuity: the hypotheses hold for concrete calls of the generated raid_genz_int64 (Vandermonde-style rows,
   both SWAR helpers) and raid_gen6_int8 (Cauchy tables) on 3 disks of 16 bytes; the interpreter returns the parity *)
Definition demo_data : list block :=
  [[1; 2; 3; 4; 5; 6; 7; 8; 9; 10; 11; 12; 13; 14; 15; 255]; [16; 32; 48; 64; 80; 96; 112; 128; 144; 160; 176; 192; 208; 224; 240; 0];
   [129; 3; 7; 250; 77; 91; 200; 100; 50; 25; 12; 6; 3; 1; 0; 254]]%N.
Definition demo_old (np : nat) : list block := repeat (repeat 90%N 16) np.
Definition demo_s0 : venv := [1000000000000000000000; 7; 0; 255; 65536]%N.
Lemma demo_run_z : match raid_genz_int64 with
                   | Some p => In ("raid_genz_int64"%string, GZ, Some p) all_int_progs /\ (exists n, 16 = n * step p) /\
                               exec_prog Cauchy p demo_data 16 demo_s0 (demo_old 3) = spec_blocks powerN 3 16 demo_data /\
                               List.length (exec_prog Cauchy p demo_data 16 demo_s0 (demo_old 3)) = 3
                   | None => False
                   end.
Proof.
  unfold raid_genz_int64 at 1. cbv beta iota.
  split; [do 9 right; left; reflexivity|]. split; [exists 1%nat; reflexivity|]. split; vm_compute; reflexivity.
Qed.
Lemma demo_run_6 : match raid_gen6_int8 with
                   | Some p => In ("raid_gen6_int8"%string, GK 6, Some p) all_int_progs /\ (exists n, 16 = n * step p) /\
                               gen_admissible Cauchy (GK 6) /\
                               exec_prog Cauchy p demo_data 16 demo_s0 (demo_old 6) = spec_blocks cauchyN 6 16 demo_data /\
                               List.length (exec_prog Cauchy p demo_data 16 demo_s0 (demo_old 6)) = 6
                   | None => False
                   end.
Proof.
  unfold raid_gen6_int8 at 1. cbv beta iota.
  split; [do 7 right; left; reflexivity|]. split; [exists 16%nat; reflexivity|]. split; [cbn; auto|]. split; vm_compute; reflexivity.
Qed.
