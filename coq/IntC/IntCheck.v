(* The checker of the reflective proof (definitions only; extracted too, so that the check can report the verdict
   per function).  An abstract interpreter runs every block of a generated program over an abstract value per local:
   "every byte lane of the word is the xor of coef(lane of a source)", sources = the locals at block entry and the
   data bytes at the same offset, coef = 1, 2 (a call of a helper whose translated body IS the known x2_NN),
   2^-1 (d2_NN) or the table product gfmul[.][gfgen[j][disk]].  [checker] then compares the abstract results with

        Horner rows  (gen1, gen2, genz; loop d = l-1 .. 0):   acc = D_l;   acc' = c.acc + D_d;        store acc
        table rows   (gen3..6_int8;     loop d = l .. 1):     acc = 0;     acc' = acc + tab_j[d](D_d); store acc + D_0

   up to permutation of the xor-sums, and checks that the stores cover every parity block exactly.
   Soundness is IntProofs.v. *)
From Coq Require Import NArith List Bool Arith.
From Snap.Raid Require Import GenModel.
From Snap.Simd Require Import SimdDefs.
From Snap.IntC Require Import IntDefs IntSem.
Import ListNotations.
Local Open Scope N_scope.

(* --- the known helper bodies (raid/gf.h), as the translator renders them -------------------------------- *)
Definition canon_x2 (c80 cfe c1d : N) : list (nat * expr) :=
  [(1%nat, EAnd (EVar 0) (EConst c80)); (1%nat, ESub (EShl (EVar 1) 1) (EShr (EVar 1) 7));
   (0%nat, EAnd (EShl (EVar 0) 1) (EConst cfe)); (0%nat, EXor (EVar 0) (EAnd (EVar 1) (EConst c1d)))].
Definition canon_d2 (c01 c7f c8e : N) : list (nat * expr) :=
  [(1%nat, EAnd (EVar 0) (EConst c01)); (1%nat, ESub (EShl (EVar 1) 8) (EVar 1));
   (0%nat, EAnd (EShr (EVar 0) 1) (EConst c7f)); (0%nat, EXor (EVar 0) (EAnd (EVar 1) (EConst c8e)))].
Definition h_x2_32 : helper := {| h_w := 4; h_body := canon_x2 0x80808080 0xfefefefe 0x1d1d1d1d; h_ret := 0 |}.
Definition h_x2_64 : helper :=
  {| h_w := 8; h_body := canon_x2 0x8080808080808080 0xfefefefefefefefe 0x1d1d1d1d1d1d1d1d; h_ret := 0 |}.
Definition h_d2_32 : helper := {| h_w := 4; h_body := canon_d2 0x01010101 0x7f7f7f7f 0x8e8e8e8e; h_ret := 0 |}.
Definition h_d2_64 : helper :=
  {| h_w := 8; h_body := canon_d2 0x0101010101010101 0x7f7f7f7f7f7f7f7f 0x8e8e8e8e8e8e8e8e; h_ret := 0 |}.

Definition dref_eqb (a b : dref) : bool :=
  match a, b with Cur, Cur | Last, Last | First, First => true | _, _ => false end.
Fixpoint expr_eqb (a b : expr) : bool :=
  match a, b with
  | EVar x, EVar y => Nat.eqb x y
  | EConst c, EConst c' => N.eqb c c'
  | ELoad r o, ELoad r' o' => dref_eqb r r' && Nat.eqb o o'
  | EXor a1 a2, EXor b1 b2 | EAnd a1 a2, EAnd b1 b2 | ESub a1 a2, ESub b1 b2 => expr_eqb a1 b1 && expr_eqb a2 b2
  | EShl a1 k, EShl b1 k' | EShr a1 k, EShr b1 k' => expr_eqb a1 b1 && N.eqb k k'
  | ECall h a1, ECall h' b1 => Nat.eqb h h' && expr_eqb a1 b1
  | EMulGen a1 j r, EMulGen b1 j' r' => expr_eqb a1 b1 && Nat.eqb j j' && dref_eqb r r'
  | _, _ => false
  end.
Fixpoint body_eqb (a b : list (nat * expr)) : bool :=
  match a, b with
  | [], [] => true
  | (x, e) :: a', (y, f) :: b' => Nat.eqb x y && expr_eqb e f && body_eqb a' b'
  | _, _ => false
  end.
Definition helper_eqb (a b : helper) : bool :=
  Nat.eqb (h_w a) (h_w b) && body_eqb (h_body a) (h_body b) && Nat.eqb (h_ret a) (h_ret b).

(* --- lane-local normal forms: xor-sums of coef(source) -------------------------------------------------- *)
Inductive src := SVar (x : nat) | SData (r : dref) (off : nat).
Inductive coef := COne | CTwo | CHalf | CTab (j : nat) (r : dref).
Definition term := (coef * src)%type.
Definition nf := list term.
Inductive av := AJunk | ALin (n : nf).

Definition helper_coef (h : helper) : option coef :=
  if helper_eqb h h_x2_32 || helper_eqb h h_x2_64 then Some CTwo
  else if helper_eqb h h_d2_32 || helper_eqb h h_d2_64 then Some CHalf else None.

Definition src_eqb (a b : src) : bool :=
  match a, b with
  | SVar x, SVar y => Nat.eqb x y
  | SData r o, SData r' o' => dref_eqb r r' && Nat.eqb o o'
  | _, _ => false
  end.
Definition coef_eqb (a b : coef) : bool :=
  match a, b with
  | COne, COne | CTwo, CTwo | CHalf, CHalf => true
  | CTab j r, CTab j' r' => Nat.eqb j j' && dref_eqb r r'
  | _, _ => false
  end.
Definition term_eqb (a b : term) : bool := coef_eqb (fst a) (fst b) && src_eqb (snd a) (snd b).
Fixpoint remove1 (t : term) (l : nf) : option nf :=
  match l with
  | [] => None
  | x :: r => if term_eqb t x then Some r else match remove1 t r with Some r' => Some (x :: r') | None => None end
  end.
Fixpoint nf_perm (a b : nf) : bool :=
  match a with
  | [] => match b with [] => true | _ => false end
  | t :: a' => match remove1 t b with Some b' => nf_perm a' b' | None => false end
  end.

(* --- abstract locals -------------------------------------------------------------------------------------- *)
Definition astate := list av.
Definition aget (A : astate) (x : nat) : av := nth x A AJunk.
Fixpoint aupd (x : nat) (v : av) (A : astate) : astate :=
  match x, A with
  | O, [] => [v]
  | O, _ :: t => v :: t
  | S x', [] => AJunk :: aupd x' v []
  | S x', h :: t => h :: aupd x' v t
  end.

Fixpoint aeval (w : nat) (hs : list helper) (A : astate) (e : expr) : av :=
  match e with
  | EVar x => aget A x
  | EConst c => if N.eqb c 0 then ALin [] else AJunk
  | ELoad r off => ALin [(COne, SData r off)]
  | EXor a b => match aeval w hs A a, aeval w hs A b with ALin na, ALin nb => ALin (na ++ nb) | _, _ => AJunk end
  | ECall h a =>
      match nth_error hs h with
      | Some hd =>
          if Nat.eqb (h_w hd) w then
            match helper_coef hd, aeval w hs A a with
            | Some c, ALin [(COne, s)] => ALin [(c, s)]
            | _, _ => AJunk
            end
          else AJunk
      | None => AJunk
      end
  | EMulGen a j r =>
      if Nat.eqb w 1 then
        match aeval w hs A a with ALin [(COne, s)] => ALin [(CTab j r, s)] | _ => AJunk end
      else AJunk
  | _ => AJunk
  end.

Definition alog := list (nat * nat * av).        (* parity index, offset in the chunk, value; newest first *)
Definition astate2 := (astate * alog)%type.
Definition aexec_stmt (w : nat) (hs : list helper) (st : astate2) (x : stmt) : astate2 :=
  match x with
  | SAssign v e => (aupd v (aeval w hs (fst st) e) (fst st), snd st)
  | SStore j off e => (fst st, (j, off, aeval w hs (fst st) e) :: snd st)
  end.
Definition aexec_block (w : nat) (hs : list helper) (b : list stmt) (A : astate) : astate2 :=
  fold_left (aexec_stmt w hs) b (A, []).

Definition ident_av (x : nat) : av := ALin [(COne, SVar x)].
Definition base_state (nv : nat) : astate := map ident_av (seq 0 nv).

(* --- accumulators ------------------------------------------------------------------------------------------ *)
Inductive kind := KOne | KTwo | KHalf | KTab (j : nat).
Definition kind_eqb (a b : kind) : bool :=
  match a, b with KOne, KOne | KTwo, KTwo | KHalf, KHalf => true | KTab j, KTab j' => Nat.eqb j j' | _, _ => false end.
Definition is_tab (k : kind) : bool := match k with KTab _ => true | _ => false end.
Definition init_nf (k : kind) (off : nat) : nf :=
  match k with KTab _ => [] | _ => [(COne, SData Last off)] end.
Definition step_nf (k : kind) (x off : nat) : nf :=
  match k with
  | KOne => [(COne, SVar x); (COne, SData Cur off)]
  | KTwo => [(CTwo, SVar x); (COne, SData Cur off)]
  | KHalf => [(CHalf, SVar x); (COne, SData Cur off)]
  | KTab O => [(COne, SVar x); (COne, SData Cur off)]
  | KTab j => [(COne, SVar x); (CTab j Cur, SData Cur off)]
  end.
Definition final_nf (k : kind) (x off : nat) : nf :=
  match k with KTab _ => [(COne, SVar x); (COne, SData First off)] | _ => [(COne, SVar x)] end.

Definition rows_of_gen (g : genfn) : list kind :=
  match g with G1 => [KOne] | G2 => [KOne; KTwo] | GZ => [KOne; KTwo; KHalf] | GK n => map KTab (seq 0 n) end.
Definition style_tab (g : genfn) : bool := match g with GK _ => true | _ => false end.

(* local x is an accumulator of kind k over the data offset off *)
Definition acc_ok (Ai Ab : astate) (k : kind) (x off : nat) : bool :=
  match aget Ai x, aget Ab x with
  | ALin ni, ALin nb => nf_perm ni (init_nf k off) && nf_perm nb (step_nf k x off)
  | _, _ => false
  end.
Definition store_ok (w stp nv : nat) (rows : list kind) (Ai Ab : astate) (s : nat * nat * av) : bool :=
  let '(j, off, a) := s in
  Nat.leb (off + w) stp &&
  match a, nth_error rows j with
  | ALin n, Some k => existsb (fun x => acc_ok Ai Ab k x off && nf_perm n (final_nf k x off)) (seq 0 nv)
  | _, _ => false
  end.
Definition covered (w stp np : nat) (sts : alog) : bool :=
  forallb (fun j => forallb (fun m => existsb (fun s : nat * nat * av => Nat.eqb (fst (fst s)) j && Nat.eqb (snd (fst s)) (m * w)) sts)
                            (seq 0 (stp / w))) (seq 0 np).
Definition isnil {A} (l : list A) : bool := match l with [] => true | _ => false end.

Record analysis := { an_init : astate2; an_body : astate2; an_fini : astate2 }.
Definition analyse (p : prog) : analysis :=
  let B := base_state (nvars p) in
  {| an_init := aexec_block (wbytes p) (helpers p) (chunk_init p) B;
     an_body := aexec_block (wbytes p) (helpers p) (loop_body p) B;
     an_fini := aexec_block (wbytes p) (helpers p) (chunk_fini p) B |}.

Definition checker (g : genfn) (p : prog) : bool :=
  let w := wbytes p in
  let rows := rows_of_gen g in
  let a := analyse p in
  (Nat.eqb w 1 || Nat.eqb w 4 || Nat.eqb w 8) && Nat.ltb 0 (step p) && Nat.eqb (step p mod w) 0 &&
  (if style_tab g then Nat.eqb (loop_from p) 0 && Nat.eqb (loop_lo p) 1
   else Nat.eqb (loop_from p) 1 && Nat.eqb (loop_lo p) 0) &&
  isnil (snd (an_init a)) && isnil (snd (an_body a)) &&
  forallb (store_ok w (step p) (nvars p) rows (fst (an_init a)) (fst (an_body a))) (snd (an_fini a)) &&
  covered w (step p) (length rows) (snd (an_fini a)).

Definition checker_opt (g : genfn) (p : option prog) : bool :=
  match p with Some p => checker g p | None => false end.
