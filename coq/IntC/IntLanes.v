(* Word-level facts: lanes of little-endian words, well-formedness (< 2^(8W)) of every evaluated expression, and
   the four helpers of raid/gf.h -- the translated canonical bodies, run by IntSem.run_helper, ARE Swar.x2_32,
   Swar64.x2_64 / d2_32 / d2_64 and hence act lane-wise as xtime / dtime on every word. *)
From Coq Require Import NArith List Bool Arith Lia.
From Snap.GF Require Import Gf Swar Swar64.
From Snap.Raid Require Import GenModel.
From Snap.Simd Require Import SimdDefs SimdSem SimdBytes.
From Snap.IntC Require Import IntDefs IntSem IntCheck.
Import ListNotations.
Local Open Scope N_scope.

(* ---- lanes ----------------------------------------------------------------------------------------------- *)
Lemma lane_lt i x : lane i x < 256.
Proof. apply b8_lt. Qed.
Lemma land_lxor_distr_l a b c : N.land (N.lxor a b) c = N.lxor (N.land a c) (N.land b c).
Proof.
  apply N.bits_inj. intros k. rewrite N.land_spec, !N.lxor_spec, !N.land_spec.
  destruct (N.testbit a k), (N.testbit b k), (N.testbit c k); reflexivity.
Qed.
Lemma lane_lxor i a b : lane i (N.lxor a b) = N.lxor (lane i a) (lane i b).
Proof. unfold lane, b8. rewrite N.shiftr_lxor. apply land_lxor_distr_l. Qed.
Lemma b8_mod x : b8 x = x mod 256.
Proof. unfold b8. change 255 with (N.ones 8). rewrite N.land_ones. reflexivity. Qed.
Lemma lane_0 b x : lane 0 (b8 b + 256 * x) = b8 b.
Proof.
  unfold lane. cbn [N.of_nat]. rewrite N.mul_0_r, N.shiftr_0_r. rewrite (b8_mod (b8 b + 256 * x)).
  rewrite (N.mul_comm 256 x), N.mod_add by discriminate. apply N.mod_small. apply b8_lt.
Qed.
Lemma lane_S i b x : lane (S i) (b8 b + 256 * x) = lane i x.
Proof.
  unfold lane. f_equal.
  replace (8 * N.of_nat (S i)) with (8 + 8 * N.of_nat i) by lia.
  rewrite <- N.shiftr_shiftr. f_equal. rewrite N.shiftr_div_pow2. change (2 ^ 8) with 256.
  rewrite (N.mul_comm 256 x), N.div_add by discriminate. rewrite N.div_small by apply b8_lt. reflexivity.
Qed.
Lemma lane_pack bs : forall i, (i < length bs)%nat -> lane i (pack bs) = b8 (nth i bs 0).
Proof.
  induction bs as [|b bs IH]; intros i Hi; [cbn in Hi; lia|].
  change (pack (b :: bs)) with (b8 b + 256 * pack bs). destruct i as [|i].
  - apply lane_0.
  - rewrite lane_S. cbn [nth]. apply IH. cbn [length] in Hi. lia.
Qed.
Lemma wmod_S n : wmod (S n) = 256 * wmod n.
Proof.
  unfold wmod. replace (8 * N.of_nat (S n)) with (8 + 8 * N.of_nat n) by lia. rewrite N.pow_add_r. reflexivity.
Qed.
Lemma wmod_pos n : 0 < wmod n.
Proof. unfold wmod. apply N.neq_0_lt_0. apply N.pow_nonzero. discriminate. Qed.
Lemma pack_lt bs : pack bs < wmod (length bs).
Proof.
  induction bs as [|b bs IH]; [reflexivity|].
  change (pack (b :: bs)) with (b8 b + 256 * pack bs). cbn [length]. rewrite wmod_S.
  assert (H := b8_lt b). lia.
Qed.
Lemma nth_unpack w x i : (i < w)%nat -> nth i (unpack w x) 0 = lane i x.
Proof. intros Hi. unfold unpack. apply (nth_map_seq (fun i => lane i x)). exact Hi. Qed.
Lemma unpack_length w x : length (unpack w x) = w.
Proof. unfold unpack. rewrite map_length, seq_length. reflexivity. Qed.

(* ---- well-formed words ---------------------------------------------------------------------------------- *)
Lemma wf_iff w x : x < wmod w <-> N.land x (N.ones (8 * N.of_nat w)) = x.
Proof.
  rewrite N.land_ones. fold (wmod w). assert (H := wmod_pos w). symmetry. apply N.mod_small_iff. lia.
Qed.
Lemma wrap_lt w x : wrap w x < wmod w.
Proof. unfold wrap. apply N.mod_lt. assert (H := wmod_pos w). lia. Qed.
Lemma wrap_small w x : x < wmod w -> wrap w x = x.
Proof. apply N.mod_small. Qed.
Lemma lxor_wf w a b : a < wmod w -> b < wmod w -> N.lxor a b < wmod w.
Proof.
  rewrite !wf_iff. intros Ha Hb. rewrite land_lxor_distr_l, Ha, Hb. reflexivity.
Qed.
Lemma land_wf w a b : a < wmod w -> N.land a b < wmod w.
Proof.
  rewrite !wf_iff. intros Ha. rewrite (N.land_comm a b), <- N.land_assoc, Ha. reflexivity.
Qed.
Lemma land_wf_r w a b : b < wmod w -> N.land a b < wmod w.
Proof. intros Hb. rewrite N.land_comm. apply land_wf. exact Hb. Qed.
Lemma shiftr_wf w a k : a < wmod w -> N.shiftr a k < wmod w.
Proof.
  intros Ha. apply N.le_lt_trans with a; [|exact Ha]. rewrite N.shiftr_div_pow2.
  assert (Hp : 2 ^ k <> 0) by (apply N.pow_nonzero; discriminate).
  apply N.div_le_upper_bound; [exact Hp|]. generalize dependent (2 ^ k). intros p Hp. nia.
Qed.

Section EvalWf.
  Variable w : nat.
  Variable ld : dref -> nat -> N.
  Variable cl : nat -> N -> N.
  Variable mg : N -> nat -> dref -> N.
  Hypothesis ld_wf : forall r off, ld r off < wmod w.
  Lemma eval_gen_wf s e : eval_gen w ld cl mg s e < wmod w.
  Proof.
    induction e; cbn [eval_gen]; try apply wrap_lt.
    - apply ld_wf.
    - apply lxor_wf; assumption.
    - apply land_wf; assumption.
    - apply shiftr_wf; assumption.
  Qed.
End EvalWf.

Lemma load_wf e r off : load e r off < wmod (e_w e).
Proof.
  unfold load. assert (H := pack_lt (map (fun i => dbyte e r (e_base e + off + i)) (seq 0 (e_w e)))).
  rewrite map_length, seq_length in H. exact H.
Qed.
Lemma eval_wf e s x : eval e s x < wmod (e_w e).
Proof. unfold eval. apply eval_gen_wf. apply load_wf. Qed.
Lemma lane_load e r off i : (i < e_w e)%nat -> lane i (load e r off) = b8 (dbyte e r (e_base e + off + i)).
Proof.
  intros Hi. unfold load. rewrite lane_pack by (rewrite map_length, seq_length; exact Hi).
  f_equal. apply (nth_map_seq (fun i => dbyte e r (e_base e + off + i))). exact Hi.
Qed.

(* ---- decidable equalities ------------------------------------------------------------------------------- *)
Lemma dref_eqb_eq a b : dref_eqb a b = true -> a = b.
Proof. destruct a, b; cbn; congruence. Qed.
Lemma expr_eqb_eq a : forall b, expr_eqb a b = true -> a = b.
Proof.
  induction a; intros b0 H; destruct b0; cbn [expr_eqb] in H; try discriminate;
    repeat match type of H with (_ && _)%bool = true => let H' := fresh "H" in apply andb_true_iff in H; destruct H as [H H'] end;
    repeat match goal with
           | H : Nat.eqb _ _ = true |- _ => apply Nat.eqb_eq in H; subst
           | H : N.eqb _ _ = true |- _ => apply N.eqb_eq in H; subst
           | H : dref_eqb _ _ = true |- _ => apply dref_eqb_eq in H; subst
           | IH : forall b, expr_eqb ?a b = true -> ?a = b, H : expr_eqb ?a _ = true |- _ => apply IH in H; subst
           end; reflexivity.
Qed.
Lemma body_eqb_eq a : forall b, body_eqb a b = true -> a = b.
Proof.
  induction a as [|[x e] a IH]; intros [|[y f] b] H; cbn [body_eqb] in H; try discriminate; [reflexivity|].
  apply andb_true_iff in H. destruct H as [H H3]. apply andb_true_iff in H. destruct H as [H1 H2].
  apply Nat.eqb_eq in H1. apply expr_eqb_eq in H2. apply IH in H3. subst. reflexivity.
Qed.
Lemma helper_eqb_eq a b : helper_eqb a b = true -> a = b.
Proof.
  unfold helper_eqb. intros H. apply andb_true_iff in H. destruct H as [H H3]. apply andb_true_iff in H. destruct H as [H1 H2].
  apply Nat.eqb_eq in H1, H3. apply body_eqb_eq in H2. destruct a, b. cbn in *. subst. reflexivity.
Qed.
Lemma wmod4 : wmod 4 = 2^32. Proof. reflexivity. Qed.
Lemma wmod8 : wmod 8 = 2^64. Proof. reflexivity. Qed.
Lemma wrap_wrap w x : wrap w (wrap w x) = wrap w x.
Proof. apply wrap_small. apply wrap_lt. Qed.
Ltac wf_tac := repeat first [ assumption | apply wrap_lt | apply lxor_wf | apply land_wf | apply shiftr_wf | reflexivity ].
Ltac helper_run :=
  unfold run_helper, h_x2_32, h_x2_64, h_d2_32, h_d2_64, canon_x2, canon_d2; cbn [h_w h_body h_ret fold_left fst snd];
  unfold heval; cbn [eval_gen updN]; unfold getv; cbn [nth];
  repeat match goal with |- context [wrap ?w (N.land ?a ?b)] => rewrite (wrap_small w (N.land a b)) by wf_tac end;
  repeat match goal with |- context [wrap ?w (N.lxor ?a ?b)] => rewrite (wrap_small w (N.lxor a b)) by wf_tac end;
  repeat match goal with |- context [wrap ?w (N.shiftr ?a ?b)] => rewrite (wrap_small w (N.shiftr a b)) by wf_tac end;
  rewrite ?wrap_wrap;
  repeat match goal with |- context [wrap ?w (Npos ?c)] => rewrite (wrap_small w (Npos c)) by reflexivity end.
Lemma run_x2_32 v : v < 2^32 -> run_helper h_x2_32 v = x2_32 v.
Proof.
  intros Hv. rewrite <- wmod4 in Hv. helper_run. rewrite !(wrap_small 4 v) by exact Hv.
  repeat match goal with |- context [wrap ?w (N.land ?a ?b)] => rewrite (wrap_small w (N.land a b)) by wf_tac end.
  reflexivity.
Qed.
Lemma run_x2_64 v : v < 2^64 -> run_helper h_x2_64 v = x2_64 v.
Proof.
  intros Hv. rewrite <- wmod8 in Hv. helper_run. rewrite !(wrap_small 8 v) by exact Hv.
  repeat match goal with |- context [wrap ?w (N.land ?a ?b)] => rewrite (wrap_small w (N.land a b)) by wf_tac end.
  reflexivity.
Qed.
Lemma run_d2_32 v : v < 2^32 -> run_helper h_d2_32 v = d2_32 v.
Proof.
  intros Hv. rewrite <- wmod4 in Hv. helper_run. rewrite !(wrap_small 4 v) by exact Hv.
  repeat match goal with |- context [wrap ?w (N.land ?a ?b)] => rewrite (wrap_small w (N.land a b)) by wf_tac end.
  reflexivity.
Qed.
Lemma run_d2_64 v : v < 2^64 -> run_helper h_d2_64 v = d2_64 v.
Proof.
  intros Hv. rewrite <- wmod8 in Hv. helper_run. rewrite !(wrap_small 8 v) by exact Hv.
  repeat match goal with |- context [wrap ?w (N.land ?a ?b)] => rewrite (wrap_small w (N.land a b)) by wf_tac end.
  reflexivity.
Qed.

(* ---- lanes of the SWAR functions -------------------------------------------------------------------------- *)
Lemma pack4_pack b0 b1 b2 b3 : b0 < 256 -> b1 < 256 -> b2 < 256 -> b3 < 256 -> pack4 b0 b1 b2 b3 = pack [b0; b1; b2; b3].
Proof.
  intros. unfold pack4, pack. cbn [fold_right]. rewrite !b8_id by assumption.
  change (2 ^ 8) with 256. change (2 ^ 16) with 65536. change (2 ^ 24) with 16777216. lia.
Qed.
Lemma pack8_pack b0 b1 b2 b3 b4 b5 b6 b7 :
  b0 < 256 -> b1 < 256 -> b2 < 256 -> b3 < 256 -> b4 < 256 -> b5 < 256 -> b6 < 256 -> b7 < 256 ->
  pack8 b0 b1 b2 b3 b4 b5 b6 b7 = pack [b0; b1; b2; b3; b4; b5; b6; b7].
Proof.
  intros. rewrite pack8_nest. unfold pack. cbn [fold_right]. rewrite !b8_id by assumption. lia.
Qed.

Lemma lanes_fn4 (f F : N -> N) :
  (forall b0 b1 b2 b3, b0 < 256 -> b1 < 256 -> b2 < 256 -> b3 < 256 -> F (pack4 b0 b1 b2 b3) = pack4 (f b0) (f b1) (f b2) (f b3)) ->
  (forall b, b < 256 -> f b < 256) ->
  forall v i, v < 2 ^ 32 -> (i < 4)%nat -> lane i (F v) = f (lane i v).
Proof.
  intros HF Hf v i Hv Hi.
  destruct (word_is_pack4 v Hv) as [b0 [b1 [b2 [b3 [H0 [H1 [H2 [H3 ->]]]]]]]].
  rewrite HF by assumption. rewrite !pack4_pack by auto. rewrite !lane_pack by exact Hi.
  destruct i as [|[|[|[|i]]]]; cbn [nth]; try lia; rewrite !b8_id by auto; reflexivity.
Qed.
Lemma lanes_fn8 (f F : N -> N) :
  (forall b0 b1 b2 b3 b4 b5 b6 b7, b0 < 256 -> b1 < 256 -> b2 < 256 -> b3 < 256 -> b4 < 256 -> b5 < 256 -> b6 < 256 -> b7 < 256 ->
     F (pack8 b0 b1 b2 b3 b4 b5 b6 b7) = pack8 (f b0) (f b1) (f b2) (f b3) (f b4) (f b5) (f b6) (f b7)) ->
  (forall b, b < 256 -> f b < 256) ->
  forall v i, v < 2 ^ 64 -> (i < 8)%nat -> lane i (F v) = f (lane i v).
Proof.
  intros HF Hf v i Hv Hi.
  destruct (word_is_pack8 v Hv) as [b0 [b1 [b2 [b3 [b4 [b5 [b6 [b7 [H0 [H1 [H2 [H3 [H4 [H5 [H6 [H7 ->]]]]]]]]]]]]]]]].
  rewrite HF by assumption. rewrite !pack8_pack by auto. rewrite !lane_pack by exact Hi.
  destruct i as [|[|[|[|[|[|[|[|i]]]]]]]]; cbn [nth]; try lia; rewrite !b8_id by auto; reflexivity.
Qed.

(* what a recognised helper does to every lane *)
Definition hmul (c : coef) (b : N) : N :=
  match c with CTwo => Snap.GF.Gf.xtime b | CHalf => Snap.Raid.GenModel.dtime b | _ => b end.

Lemma helper_lane hd c v i : helper_coef hd = Some c -> v < wmod (h_w hd) -> (i < h_w hd)%nat ->
  lane i (run_helper hd v) = hmul c (lane i v).
Proof.
  unfold helper_coef. intros Hc Hv Hi.
  destruct (helper_eqb hd h_x2_32) eqn:E1.
  { apply helper_eqb_eq in E1. subst hd. cbn [orb] in Hc. inversion Hc; subst c. cbn [h_w h_x2_32] in Hv, Hi.
    rewrite run_x2_32 by exact Hv.
    exact (lanes_fn4 Swar.xtime x2_32 x2_32_lanes xtime_range v i Hv Hi). }
  destruct (helper_eqb hd h_x2_64) eqn:E2.
  { apply helper_eqb_eq in E2. subst hd. cbn [orb] in Hc. inversion Hc; subst c. cbn [h_w h_x2_64] in Hv, Hi.
    rewrite run_x2_64 by exact Hv.
    exact (lanes_fn8 Swar.xtime x2_64 x2_64_lanes xtime_range v i Hv Hi). }
  cbn [orb] in Hc.
  destruct (helper_eqb hd h_d2_32) eqn:E3.
  { apply helper_eqb_eq in E3. subst hd. cbn [orb] in Hc. inversion Hc; subst c. cbn [h_w h_d2_32] in Hv, Hi.
    rewrite run_d2_32 by exact Hv.
    exact (lanes_fn4 Swar64.dtime d2_32 d2_32_lanes dtime_range v i Hv Hi). }
  destruct (helper_eqb hd h_d2_64) eqn:E4.
  { apply helper_eqb_eq in E4. subst hd. cbn [orb] in Hc. inversion Hc; subst c. cbn [h_w h_d2_64] in Hv, Hi.
    rewrite run_d2_64 by exact Hv.
    exact (lanes_fn8 Swar64.dtime d2_64 d2_64_lanes dtime_range v i Hv Hi). }
  discriminate.
Qed.
Lemma hmul_lt c b : b < 256 -> hmul c b < 256.
Proof. intros Hb. destruct c; cbn [hmul]; [exact Hb|apply xtime_range; exact Hb|apply dtime_range; exact Hb|exact Hb]. Qed.
