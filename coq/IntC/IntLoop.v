(* From the checker's verdict to one iteration of the block loop, and to the parity buffers: under the conditions
   that [checker] tests, every store logged by [run_chunk] holds, lane by lane, the GF(2^8) dot product of the
   column with the row of the closed-form matrix, and the stores of a chunk cover [c*step, (c+1)*step) of every
   parity buffer. *)
From Coq Require Import NArith List Bool Arith Lia.
From Snap.Gen Require Import Tables.
From Snap.GF Require Import Gf TablesOk.
From Snap.Raid Require Import GenModel GenProofs.
From Snap.Simd Require Import SimdDefs SimdSem SimdBytes SimdLog.
From Snap.IntC Require Import IntDefs IntSem IntCheck IntLanes IntAbs IntMath.
Import ListNotations.
Local Open Scope N_scope.

Lemma Forall2_in_r {A B} (R : A -> B -> Prop) l l' y : Forall2 R l l' -> In y l' -> exists x, In x l /\ R x y.
Proof.
  induction 1 as [|a b l l' H H' IH]; intros Hin; [contradiction|]. destruct Hin as [->|Hin].
  - exists a. split; [left; reflexivity|exact H].
  - destruct (IH Hin) as [x [Hx HR]]. exists x. split; [right; exact Hx|exact HR].
Qed.
Lemma Forall2_in_l {A B} (R : A -> B -> Prop) l l' x : Forall2 R l l' -> In x l -> exists y, In y l' /\ R x y.
Proof.
  induction 1 as [|a b l l' H H' IH]; intros Hin; [contradiction|]. destruct Hin as [->|Hin].
  - exists b. split; [left; reflexivity|exact H].
  - destruct (IH Hin) as [y [Hy HR]]. exists y. split; [right; exact Hy|exact HR].
Qed.
Lemma fold_left_ext_in {A B} (f g : A -> B -> A) l a :
  (forall a x, In x l -> f a x = g a x) -> fold_left f l a = fold_left g l a.
Proof.
  revert a. induction l as [|x l IH]; intros a H; [reflexivity|]. cbn [fold_left].
  rewrite H by (left; reflexivity). apply IH. intros a' x' Hx. apply H. right. exact Hx.
Qed.
Lemma nth_map_default {A B} (f : A -> B) l d da db : (d < length l)%nat -> nth d (map f l) db = f (nth d l da).
Proof. intros H. rewrite nth_indep with (d' := f da) by (rewrite map_length; exact H). apply map_nth. Qed.
Lemma kind_eqb_eq a b : kind_eqb a b = true -> a = b.
Proof. destruct a, b; cbn [kind_eqb]; try discriminate; try reflexivity. intros H. apply Nat.eqb_eq in H. congruence. Qed.

Section Prog.
  Variable m : rmode.
  Variable g : genfn.
  Variable p : prog.
  Variable data : list block.
  Let w := wbytes p.
  Let hs := helpers p.
  Let l := (length data - 1)%nat.
  Let rows := rows_of_gen g.
  Let np := length rows.
  Let B := base_state (nvars p).
  Let ai := aexec_block w hs (chunk_init p) B.
  Let ab := aexec_block w hs (loop_body p) B.
  Let af := aexec_block w hs (chunk_fini p) B.
  Let M := gen_mat m g.
  Let ds := disks (loop_from p) (loop_lo p) l.

  Hypothesis Hw : (0 < w)%nat.
  Hypothesis Hnd : (1 <= length data <= 251)%nat.
  Hypothesis Hdata : data_ok data.
  Hypothesis Hadm : gen_admissible m g.
  Hypothesis Hstyle : if style_tab g then loop_from p = O /\ loop_lo p = 1%nat else loop_from p = 1%nat /\ loop_lo p = O.
  Hypothesis Hi_nil : snd ai = [].
  Hypothesis Hb_nil : snd ab = [].
  Hypothesis Hstores : forallb (store_ok w (step p) (nvars p) rows (fst ai) (fst ab)) (snd af) = true.
  Hypothesis Hcov : covered w (step p) np (snd af) = true.

  Definition lanew (s : venv) (x i : nat) : N := lane i (getv w s x).
  Definition Dv (d x : nat) : N := b8 (nth x (nth d data []) 0).
  Definition spec (j x : nat) : N := spec_col M j (column data x).
  Definition is_acc (k : kind) (x off : nat) : Prop := acc_ok (fst ai) (fst ab) k x off = true.

  Lemma Dv_col d x : (d < length data)%nat -> Dv d x = nth d (column data x) 0.
  Proof.
    intros Hd. unfold column. rewrite (nth_map_default (fun blk => nth x blk 0) data d [] 0 Hd).
    cbv beta. unfold Dv. apply b8_id.
    assert (Hb : bytes (nth d data [])).
    { unfold data_ok in Hdata. rewrite Forall_forall in Hdata. apply Hdata. apply nth_In. exact Hd. }
    apply nth_bytes. exact Hb.
  Qed.

  Lemma acc_in k x off : is_acc k x off ->
    exists ni nb, aget (fst ai) x = ALin ni /\ aget (fst ab) x = ALin nb /\
                  nf_perm ni (init_nf k off) = true /\ nf_perm nb (step_nf k x off) = true.
  Proof.
    unfold is_acc, acc_ok. destruct (aget (fst ai) x) as [|ni]; [discriminate|].
    destruct (aget (fst ab) x) as [|nb]; [discriminate|]. intros H. apply andb_true_iff in H. destruct H as [H1 H2].
    exists ni, nb. auto.
  Qed.

  (* ---- meaning of the canonical normal forms ---------------------------------------------------------- *)
  Lemma eval_init e s k off i : e_l e = l -> e_data e = data ->
    eval_nf e s (init_nf k off) i = kinitv k (Dv l (e_base e + off + i)).
  Proof.
    intros El Ed. destruct k; cbn [init_nf kinitv]; try reflexivity;
      rewrite eval_single; cbn [cmul hmul sval]; unfold dval, dbyte, Dv; cbn [disk_of]; rewrite El, Ed; reflexivity.
  Qed.
  Lemma eval_step e s k x off i : e_w e = w -> e_data e = data -> e_m e = m ->
    eval_nf e s (step_nf k x off) i = kstepv m k (e_d e) (lanew s x i) (Dv (e_d e) (e_base e + off + i)).
  Proof.
    intros Ew Ed Em. unfold lanew. rewrite <- Ew.
    destruct k as [| | |[|j]]; cbn [step_nf eval_nf fold_right fst snd cmul hmul sval kstepv];
      rewrite ?N.lxor_0_r; unfold dval, dbyte, Dv; cbn [disk_of]; rewrite ?Ed, ?Em; reflexivity.
  Qed.
  Lemma eval_final e s k x off i : e_w e = w -> e_data e = data ->
    eval_nf e s (final_nf k x off) i = kfinalv k (lanew s x i) (Dv 0 (e_base e + off + i)).
  Proof.
    intros Ew Ed. unfold lanew. rewrite <- Ew.
    destruct k; cbn [final_nf eval_nf fold_right fst snd cmul hmul sval kfinalv];
      rewrite ?N.lxor_0_r; unfold dval, dbyte, Dv; cbn [disk_of]; rewrite ?Ed; reflexivity.
  Qed.

  Lemma log_nil e s al gl : log_ok e s al gl -> al = [] -> gl = [].
  Proof. intros H E. subst al. inversion H. reflexivity. Qed.

  (* ---- the three phases of a chunk ---------------------------------------------------------------------- *)
  Lemma init_ok base s :
    snd (exec_block (mkenv m p data l l base) (chunk_init p) s) = [] /\
    forall k x off, is_acc k x off -> forall i, (i < w)%nat ->
      lanew (fst (exec_block (mkenv m p data l l base) (chunk_init p) s)) x i = kinitv k (Dv l (base + off + i)).
  Proof.
    set (e := mkenv m p data l l base).
    destruct (exec_block_ok e s (chunk_init p) B s (base_sat e s (nvars p))) as [HS HL].
    change (aexec_block (e_w e) (e_hs e) (chunk_init p) B) with ai in HS, HL.
    split; [exact (log_nil e s _ _ HL Hi_nil)|].
    intros k x off Hacc i Hi. destruct (acc_in k x off Hacc) as [ni [nb [Ei [_ [Pi _]]]]].
    specialize (HS x). rewrite Ei in HS. unfold lanew. etransitivity; [exact (HS i Hi)|].
    rewrite (nf_perm_eval e s ni _ i Pi). apply eval_init; reflexivity.
  Qed.

  Lemma body_ok base d s :
    snd (exec_block (mkenv m p data l d base) (loop_body p) s) = [] /\
    forall k x off, is_acc k x off -> forall i, (i < w)%nat ->
      lanew (fst (exec_block (mkenv m p data l d base) (loop_body p) s)) x i = kstepv m k d (lanew s x i) (Dv d (base + off + i)).
  Proof.
    set (e := mkenv m p data l d base).
    destruct (exec_block_ok e s (loop_body p) B s (base_sat e s (nvars p))) as [HS HL].
    change (aexec_block (e_w e) (e_hs e) (loop_body p) B) with ab in HS, HL.
    split; [exact (log_nil e s _ _ HL Hb_nil)|].
    intros k x off Hacc i Hi. destruct (acc_in k x off Hacc) as [ni [nb [_ [Eb [_ Pb]]]]].
    specialize (HS x). rewrite Eb in HS. unfold lanew at 1. etransitivity; [exact (HS i Hi)|].
    rewrite (nf_perm_eval e s nb _ i Pb). apply (eval_step e s k x off i); reflexivity.
  Qed.

  Lemma loop_ok base dl : forall s g0,
    snd (fold_left (loop_step m p data l base) dl (s, g0)) = g0 /\
    forall k x off, is_acc k x off -> forall i, (i < w)%nat ->
      lanew (fst (fold_left (loop_step m p data l base) dl (s, g0))) x i =
      fold_left (fun a d => kstepv m k d a (Dv d (base + off + i))) dl (lanew s x i).
  Proof.
    induction dl as [|d dl IH]; intros s g0.
    - cbn [fold_left fst snd]. auto.
    - cbn [fold_left].
      destruct (body_ok base d s) as [Hnil Hacc].
      assert (E : loop_step m p data l base (s, g0) d = (fst (exec_block (mkenv m p data l d base) (loop_body p) s), g0)).
      { unfold loop_step. cbn [fst snd]. rewrite Hnil. reflexivity. }
      rewrite E.
      destruct (IH (fst (exec_block (mkenv m p data l d base) (loop_body p) s)) g0) as [H2 H3]. split; [exact H2|].
      intros k x off Hin i Hi. rewrite (H3 k x off Hin i Hi). rewrite (Hacc k x off Hin i Hi). reflexivity.
  Qed.

  (* ---- a store of a chunk -------------------------------------------------------------------------------- *)
  Definition good_store (base : nat) (y : nat * nat * vec) : Prop :=
    (fst (fst y) < np)%nat /\ length (snd y) = w /\
    exists off, snd (fst y) = (base + off)%nat /\ (off + w <= step p)%nat /\
                forall i, (i < w)%nat -> nth i (snd y) 0 = spec (fst (fst y)) (base + off + i).

  Lemma ds_style k : In k rows -> ds = if is_tab k then disks 0 1 l else disks 1 0 l.
  Proof.
    intros Hk. unfold ds. unfold rows, rows_of_gen in Hk. destruct g as [| | |n]; cbn [style_tab] in Hstyle; destruct Hstyle as [-> ->].
    - destruct Hk as [<-|[]]. reflexivity.
    - destruct Hk as [<-|[<-|[]]]; reflexivity.
    - destruct Hk as [<-|[<-|[<-|[]]]]; reflexivity.
    - apply in_map_iff in Hk. destruct Hk as [j [<- _]]. reflexivity.
  Qed.

  Lemma column_total j k x : nth_error rows j = Some k ->
    kfinalv k (fold_left (fun a d => kstepv m k d a (Dv d x)) ds (kinitv k (Dv l x))) (Dv 0 x) = spec j x.
  Proof.
    intros Hk.
    assert (Hlen : length (column data x) = length data) by (unfold column; apply map_length).
    destruct (krow_gen m g j k (column data x) Hk Hadm ltac:(rewrite Hlen; lia)) as [Hkk Hrow].
    unfold spec, M. rewrite Hrow.
    rewrite <- (total_ok m k (column data x)).
    - unfold total. rewrite Hlen. fold l. rewrite (ds_style k (nth_error_In _ _ Hk)).
      rewrite !Dv_col by (unfold l; lia). f_equal. apply fold_left_ext_in.
      intros a d Hd. rewrite Dv_col; [reflexivity|].
      destruct (is_tab k); [rewrite disks_01 in Hd|rewrite disks_10 in Hd; unfold loop_disks in Hd];
        apply in_rev in Hd; apply in_seq in Hd; unfold l in *; lia.
    - apply column_bytes. exact Hdata.
    - rewrite Hlen. exact Hnd.
    - exact Hkk.
  Qed.

  Lemma chunk_ok c s glog :
    exists g3, snd (run_chunk m p data l (s, glog) c) = g3 ++ glog /\
               (forall y, In y g3 -> good_store (c * step p) y) /\
               (forall j k, (j < np)%nat -> (k < step p / w)%nat ->
                  exists y, In y g3 /\ fst (fst y) = j /\ snd (fst y) = (c * step p + k * w)%nat).
  Proof.
    unfold run_chunk. cbn [fst snd]. set (base := (c * step p)%nat).
    destruct (init_ok base s) as [N1 A1].
    set (st1 := exec_block (mkenv m p data l l base) (chunk_init p) s) in *.
    assert (Est1 : st1 = (fst st1, [])) by (rewrite <- N1; destruct st1; reflexivity).
    rewrite Est1. fold ds.
    destruct (loop_ok base ds (fst st1) []) as [N2 A2].
    set (st2 := fold_left (loop_step m p data l base) ds (fst st1, [])).
    assert (N2' : snd st2 = []) by exact N2.
    assert (A2' : forall k x off, is_acc k x off -> forall i, (i < w)%nat ->
              lanew (fst st2) x i = fold_left (fun a d => kstepv m k d a (Dv d (base + off + i))) ds (lanew (fst st1) x i))
      by exact A2.
    clear N2 A2. rename N2' into N2. rename A2' into A2.
    rewrite N2. cbn [app].
    set (e := mkenv m p data l O base).
    destruct (exec_block_ok e (fst st2) (chunk_fini p) B (fst st2) (base_sat e (fst st2) (nvars p))) as [HS HL].
    change (aexec_block (e_w e) (e_hs e) (chunk_fini p) B) with af in HS, HL.
    exists (snd (exec_block e (chunk_fini p) (fst st2))). split; [reflexivity|]. split.
    - intros y Hy. destruct (Forall2_in_r _ _ _ y HL Hy) as [x [Hx [R1 [R2 [R3 R4]]]]].
      assert (Hst := Hstores). rewrite forallb_forall in Hst. specialize (Hst x Hx).
      destruct x as [[j off] a]. cbn [fst snd] in *. unfold store_ok in Hst.
      apply andb_true_iff in Hst. destruct Hst as [Hs2 Hs3]. apply Nat.leb_le in Hs2.
      destruct a as [|n]; [discriminate|].
      destruct (nth_error rows j) as [k|] eqn:Ek; [|discriminate].
      apply existsb_exists in Hs3. destruct Hs3 as [x' [_ Hs3]].
      apply andb_true_iff in Hs3. destruct Hs3 as [Hacc Pn].
      assert (Hj : (j < np)%nat) by (apply nth_error_Some; unfold rows in Ek; unfold np, rows; congruence).
      split; [rewrite R1; exact Hj|]. split; [exact R3|]. exists off. split; [exact R2|]. split; [exact Hs2|].
      intros i Hi. rewrite (R4 i Hi).
      rewrite (nf_perm_eval e (fst st2) n _ i Pn). rewrite (eval_final e (fst st2) k x' off i eq_refl eq_refl).
      rewrite (A2 k x' off Hacc i Hi). rewrite (A1 k x' off Hacc i Hi).
      change (e_base e) with base. rewrite R1. apply column_total. exact Ek.
    - intros j k Hj Hk. assert (Hcv := Hcov). unfold covered in Hcv. rewrite forallb_forall in Hcv.
      specialize (Hcv j ltac:(apply in_seq; lia)). rewrite forallb_forall in Hcv.
      specialize (Hcv k ltac:(apply in_seq; lia)). apply existsb_exists in Hcv. destruct Hcv as [x [Hx Hc]].
      apply andb_true_iff in Hc. destruct Hc as [C1 C2]. apply Nat.eqb_eq in C1, C2.
      destruct (Forall2_in_l _ _ _ x HL Hx) as [y [Hy [R1 [R2 _]]]].
      exists y. split; [exact Hy|]. split; [congruence|]. rewrite R2, C2. reflexivity.
  Qed.

  (* ---- all chunks ------------------------------------------------------------------------------------------ *)
  Lemma chunks_ok n s0 :
    let st := fold_left (run_chunk m p data l) (seq 0 n) (s0, []) in
    (forall y, In y (snd st) -> exists c, (c < n)%nat /\ good_store (c * step p) y) /\
    (forall c j k, (c < n)%nat -> (j < np)%nat -> (k < step p / w)%nat ->
       exists y, In y (snd st) /\ fst (fst y) = j /\ snd (fst y) = (c * step p + k * w)%nat).
  Proof.
    induction n as [|n IH]; cbn zeta.
    - cbn [seq fold_left fst snd]. split; [intros y []|intros; lia].
    - rewrite seq_S, fold_left_app. cbn [Nat.add fold_left].
      destruct IH as [H2 H3]. cbn zeta in H2, H3.
      set (st := fold_left (run_chunk m p data l) (seq 0 n) (s0, [])) in *.
      destruct (chunk_ok n (fst st) (snd st)) as [g3 [E [G C]]].
      replace (fst st, snd st) with st in E by (destruct st; reflexivity).
      rewrite E. split.
      + intros y Hy. apply in_app_iff in Hy. destruct Hy as [Hy|Hy].
        * exists n. split; [lia|apply G; exact Hy].
        * destruct (H2 y Hy) as [c [Hc Hg]]. exists c. split; [lia|exact Hg].
      + intros c j k Hc Hj Hk. destruct (Nat.eq_dec c n) as [->|Hne].
        * destruct (C j k Hj Hk) as [y [Hy Hy']]. exists y. split; [apply in_app_iff; left; exact Hy|exact Hy'].
        * destruct (H3 c j k ltac:(lia) Hj Hk) as [y [Hy Hy']]. exists y. split; [apply in_app_iff; right; exact Hy|exact Hy'].
  Qed.

  (* ---- the parity buffers after the block loop ----------------------------------------------------------- *)
  Lemma normal_path n s0 old : (0 < step p)%nat -> (step p mod w = 0)%nat ->
    length old = np -> (forall j, (j < np)%nat -> length (nth j old []) = (n * step p)%nat) ->
    apply_log (snd (fold_left (run_chunk m p data l) (seq 0 n) (s0, []))) old = spec_blocks M np (n * step p) data.
  Proof.
    intros Hst Hmod Lold Lblk.
    destruct (chunks_ok n s0) as [G C]. cbn zeta in G, C.
    set (L := snd (fold_left (run_chunk m p data l) (seq 0 n) (s0, []))) in *.
    apply blocks_ext with (n := np) (size := (n * step p)%nat).
    - rewrite apply_len. exact Lold.
    - apply spec_blocks_len.
    - intros j Hj. split; [rewrite apply_len_blk; apply Lblk; exact Hj|]. split.
      + rewrite spec_blocks_nth by exact Hj. rewrite map_length, seq_length. reflexivity.
      + intros x Hx. rewrite spec_blocks_nth by exact Hj.
        rewrite (nth_map_seq (fun x => spec_col M j (column data x)) _ x 0 Hx).
        change (spec_col M j (column data x)) with (spec j x).
        apply (apply_cov spec L old j x).
        * intros y Hy. destruct (G y Hy) as [c [_ [_ [Hlen [off [Hpos [_ Hv]]]]]]].
          intros i Hi. rewrite Hlen in Hi. rewrite Hpos. apply Hv. exact Hi.
        * set (S := step p) in *. set (c := (x / S)%nat). set (r := (x mod S)%nat).
          assert (Hx1 : x = (S * c + r)%nat) by (apply Nat.div_mod; lia).
          assert (Hr : (r < S)%nat) by (apply Nat.mod_upper_bound; lia).
          set (k := (r / w)%nat). set (r' := (r mod w)%nat).
          assert (Hr1 : r = (w * k + r')%nat) by (apply Nat.div_mod; lia).
          assert (Hr' : (r' < w)%nat) by (apply Nat.mod_upper_bound; lia).
          assert (HS : S = (w * (S / w))%nat) by (apply Nat.div_exact; [lia|exact Hmod]).
          assert (Hc : (c < n)%nat) by (apply Nat.div_lt_upper_bound; lia).
          assert (Hk : (k < S / w)%nat) by (apply Nat.div_lt_upper_bound; lia).
          destruct (C c j k Hc Hj Hk) as [y [Hy [Ej Ep]]]. exists y. split; [exact Hy|]. split; [exact Ej|].
          destruct (G y Hy) as [c' [_ [_ [Hlen _]]]]. rewrite Hlen, Ep. lia.
        * rewrite Lold. exact Hj.
        * rewrite (Lblk j Hj). exact Hx.
  Qed.
End Prog.
