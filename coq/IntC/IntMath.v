(* The arithmetic behind the recurrences of the portable generators:
     Horner rows (loop d = l-1 .. 0 from acc = D_l):  acc' = c.acc + D_d           c = 1, 2, 2^-1
     table rows  (loop d = l .. 1   from acc = 0):    acc' = acc + gfmul[D_d][gfgen[j][d]],  finally acc + D_0
   compute the GF(2^8) dot product of the column with the row of the closed-form matrix.
   Reuses the Horner lemmas of Raid/GenProofs.v and the list lemmas of Simd/SimdMath.v. *)
From Coq Require Import NArith List Bool Arith Lia.
From Snap.Gen Require Import Tables.
From Snap.GF Require Import Gf TablesOk.
From Snap.Raid Require Import GenModel GenProofs.
From Snap.Simd Require Import SimdDefs SimdSem SimdBytes SimdMath.
From Snap.IntC Require Import IntDefs IntSem IntCheck IntLanes.
Import ListNotations.
Local Open Scope N_scope.

Section Math.
  Variable m : rmode.

  Definition kinitv (k : kind) (v : N) : N := match k with KTab _ => 0 | _ => v end.
  Definition kstepv (k : kind) (d : nat) (acc v : N) : N :=
    match k with
    | KOne => N.lxor acc v
    | KTwo => N.lxor (xtime acc) v
    | KHalf => N.lxor (dtime acc) v
    | KTab O => N.lxor acc v
    | KTab j => N.lxor acc (b8 (tabmul m j d v))
    end.
  Definition kfinalv (k : kind) (acc v : N) : N := match k with KTab _ => N.lxor acc v | _ => acc end.
  Definition total (k : kind) (col : list N) : N :=
    let l := (length col - 1)%nat in
    let ds := if is_tab k then disks 0 1 l else disks 1 0 l in
    kfinalv k (fold_left (fun a d => kstepv k d a (nth d col 0)) ds (kinitv k (nth l col 0))) (nth 0 col 0).

  Definition krow (k : kind) : nat -> N :=
    match k with KOne => c_one | KTwo => c_pow | KHalf => c_ipow | KTab j => matN m j end.

  Lemma disks_10 l : disks 1 0 l = loop_disks 0 l.
  Proof. unfold disks, loop_disks. f_equal. f_equal. lia. Qed.
  Lemma disks_01 l : disks 0 1 l = rev (seq 1 l).
  Proof. unfold disks. f_equal. f_equal. lia. Qed.

  Lemma nth_bytes (col : list N) d : bytes col -> nth d col 0 < 256.
  Proof.
    intros Hb. destruct (nth_in_or_default d col 0) as [H|H]; [|rewrite H; reflexivity].
    unfold bytes in Hb. rewrite Forall_forall in Hb. apply Hb. exact H.
  Qed.

  Lemma tab_term j d v : (j < rows_of m)%nat -> (d < 251)%nat -> v < 256 ->
    b8 (tabmul m j d v) = gmul (matN m j d) v.
  Proof.
    intros Hj Hd Hv. unfold tabmul.
    assert (Hj6 : (j < 6)%nat) by (destruct m; cbn [rows_of] in Hj; lia).
    rewrite t_gfgen_ok by (destruct m; cbn [rows_of] in Hj; lia). rewrite !Nat2N.id.
    assert (Hr : matN m j d < 256) by (apply matN_range; assumption).
    rewrite t_gfmul_ok by assumption. rewrite b8_id by (apply gmul_range; assumption).
    apply gmul_comm; assumption.
  Qed.

  Lemma total_tab j (col : list N) : (j < rows_of m)%nat -> (1 <= length col <= 251)%nat -> bytes col ->
    total (KTab j) col = spec_from (matN m j) 0 col.
  Proof.
    intros Hj Hlen Hb. unfold total. cbn [is_tab kinitv kfinalv]. set (l := (length col - 1)%nat).
    assert (Hl : length col = S l) by (unfold l; lia).
    assert (Hj6 : (j < 6)%nat) by (destruct m; cbn [rows_of] in Hj; lia).
    set (f := fun d => gmul (matN m j d) (nth d col 0)).
    assert (Ef : forall ds a, (forall d, In d ds -> (d < 251)%nat) ->
               fold_left (fun a d => kstepv (KTab j) d a (nth d col 0)) ds a = fold_left (fun a d => N.lxor a (f d)) ds a).
    { intros ds. induction ds as [|d ds IH]; intros a Hd; [reflexivity|]. cbn [fold_left].
      rewrite <- IH by (intros d' Hd'; apply Hd; right; exact Hd'). f_equal.
      assert (Hd1 : (d < 251)%nat) by (apply Hd; left; reflexivity).
      assert (Hv := nth_bytes col d Hb). unfold f.
      destruct j as [|j']; cbn [kstepv].
      - assert (E : matN m 0 d = 1) by (destruct m; reflexivity). rewrite E, gmul_1_l by exact Hv. reflexivity.
      - rewrite tab_term by assumption. reflexivity. }
    rewrite disks_01. rewrite Ef.
    2:{ intros d Hd. apply in_rev in Hd. apply in_seq in Hd. lia. }
    rewrite fold_xsum, xsum_rev, N.lxor_0_l.
    rewrite spec_from_xsum. rewrite Hl. cbn [Nat.add].
    change (fun i => gmul (matN m j i) (nth i col 0)) with f.
    change (seq 0 (S l)) with (O :: seq 1 l). rewrite xsum_cons.
    assert (E0 : f O = nth 0 col 0).
    { unfold f. rewrite mat_col0 by exact Hj6. apply gmul_1_l. apply nth_bytes. exact Hb. }
    rewrite E0. apply N.lxor_comm.
  Qed.

  Theorem total_ok k (col : list N) : bytes col -> (1 <= length col <= 251)%nat ->
    match k with KTab j => (j < rows_of m)%nat | _ => True end ->
    total k col = spec_from (krow k) 0 col.
  Proof.
    intros Hb Hlen Hk.
    set (l := (length col - 1)%nat). assert (Hl : length col = S l) by (unfold l; lia).
    destruct k; try (unfold total; cbn [is_tab kinitv kstepv kfinalv krow]; fold l; rewrite disks_10).
    - rewrite <- horner_one by exact Hb. exact (total_horner O (fun x => x) col l Hl (or_introl eq_refl)).
    - rewrite <- horner_pow by exact Hb. exact (total_horner O xtime col l Hl (or_introl eq_refl)).
    - rewrite <- horner_ipow by exact Hb. exact (total_horner O dtime col l Hl (or_introl eq_refl)).
    - cbn [krow]. apply total_tab; assumption.
  Qed.

  (* ---- rows of the generator families -------------------------------------------------------------- *)
  Lemma rows_tab n j k : nth_error (map KTab (seq 0 n)) j = Some k -> k = KTab j /\ (j < n)%nat.
  Proof.
    intros H. assert (Hj : (j < n)%nat).
    { assert (H' : nth_error (map KTab (seq 0 n)) j <> None) by congruence.
      apply nth_error_Some in H'. rewrite map_length, seq_length in H'. exact H'. }
    split; [|exact Hj]. rewrite nth_error_map in H. rewrite nth_error_nth' with (d := O) in H by (rewrite seq_length; exact Hj).
    rewrite seq_nth in H by exact Hj. cbn in H. congruence.
  Qed.
  Lemma krow_gen g j k col : nth_error (rows_of_gen g) j = Some k -> gen_admissible m g -> (length col <= 251)%nat ->
    match k with KTab j => (j < rows_of m)%nat | _ => True end /\
    spec_col (gen_mat m g) j col = spec_from (krow k) 0 col.
  Proof.
    intros Hk Ha Hl. rewrite spec_col_from.
    assert (R1 : spec_from (cauchyN 1) 0 col = spec_from c_pow 0 col).
    { apply spec_from_ext. intros i Hi. unfold c_pow. apply cauchy_row1. lia. }
    destruct g as [| | |n]; cbn [rows_of_gen gen_mat] in *.
    - destruct j as [|[|j]]; cbn [nth_error] in Hk; inversion Hk; subst; split; [exact I|reflexivity].
    - destruct j as [|[|[|j]]]; cbn [nth_error] in Hk; inversion Hk; subst; split; try exact I; [reflexivity|exact R1].
    - destruct j as [|[|[|[|j]]]]; cbn [nth_error] in Hk; inversion Hk; subst; split; try exact I; reflexivity.
    - destruct (rows_tab n j k Hk) as [-> Hj]. cbn [gen_admissible] in Ha. split; [lia|reflexivity].
  Qed.
End Math.
