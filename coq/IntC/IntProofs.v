(* gen_int_correct: a program accepted by [checker] computes, under the word semantics of IntSem.v, exactly the
   GF(2^8) matrix product with the closed-form matrix -- for every number of disks 1..251, every size that is a
   multiple of the program's step, every content, whatever the locals and the parity buffers held before, in
   both modes of raid_gfgen (for the table-driven functions as far as the mode has the rows). *)
From Coq Require Import NArith List Bool Arith Lia.
From Snap.Gen Require Import Tables.
From Snap.GF Require Import Gf TablesOk.
From Snap.Raid Require Import GenModel GenProofs.
From Snap.Simd Require Import SimdDefs SimdSem SimdBytes SimdLog.
From Snap.Simd Require SimdProofs.
From Snap.IntC Require Import IntDefs IntSem IntCheck IntLanes IntAbs IntMath IntLoop.
Import ListNotations.
Local Open Scope N_scope.

Definition old_ok := SimdProofs.old_ok.

Lemma isnil_nil {A} (l : list A) : isnil l = true -> l = [].
Proof. destruct l; [reflexivity|discriminate]. Qed.

Lemma rows_len g : length (rows_of_gen g) = gen_np g.
Proof. destruct g; cbn [rows_of_gen gen_np length]; try reflexivity. rewrite map_length, seq_length. reflexivity. Qed.

Lemma checker_facts g p : checker g p = true ->
  (0 < wbytes p)%nat /\ (0 < step p)%nat /\ (step p mod wbytes p = 0)%nat /\
  (if style_tab g then loop_from p = O /\ loop_lo p = 1%nat else loop_from p = 1%nat /\ loop_lo p = O) /\
  snd (an_init (analyse p)) = [] /\ snd (an_body (analyse p)) = [] /\
  forallb (store_ok (wbytes p) (step p) (nvars p) (rows_of_gen g) (fst (an_init (analyse p))) (fst (an_body (analyse p))))
          (snd (an_fini (analyse p))) = true /\
  covered (wbytes p) (step p) (length (rows_of_gen g)) (snd (an_fini (analyse p))) = true.
Proof.
  unfold checker. cbv zeta. intros H.
  repeat match type of H with (_ && _)%bool = true => let H' := fresh "C" in apply andb_true_iff in H; destruct H as [H H'] end.
  split.
  { apply orb_true_iff in H. destruct H as [H|H]; [apply orb_true_iff in H; destruct H as [H|H]|]; apply Nat.eqb_eq in H; rewrite H; lia. }
  split; [apply Nat.ltb_lt; assumption|].
  split; [apply Nat.eqb_eq; assumption|].
  split.
  { destruct (style_tab g); apply andb_true_iff in C3; destruct C3 as [X Y]; apply Nat.eqb_eq in X, Y; auto. }
  split; [apply isnil_nil; assumption|].
  split; [apply isnil_nil; assumption|].
  split; assumption.
Qed.

Theorem prog_correct g p : checker g p = true ->
  forall (m : rmode) (data : list block) (size : nat) (s0 : venv) (old : list block),
  (1 <= length data <= 251)%nat -> data_ok data -> gen_admissible m g ->
  (exists n, size = (n * step p)%nat) -> old_ok (gen_np g) size old ->
  exec_prog m p data size s0 old = spec_blocks (gen_mat m g) (gen_np g) size data.
Proof.
  intros Hc m data size s0 old Hnd Hdata Hadm [n Hsize] Hold.
  destruct (checker_facts g p Hc) as [Fw [Fst [Fmod [Fsty [Fi [Fb [Fs Fcov]]]]]]].
  unfold exec_prog. subst size. rewrite SimdProofs.nchunks_mult by exact Fst.
  destruct Hold as [Lold Lblk]. rewrite <- (rows_len g) in Lold, Lblk |- *.
  exact (normal_path m g p data Fw Hnd Hdata Hadm Fsty Fi Fb Fs Fcov n s0 old Fst Fmod Lold Lblk).
Qed.

(* ---- non-vacuity: hand-written programs --------------------------------------------------------------- *)
(* a 16-bit-step xor generator written with 1-byte words: accepted; with the loop stopping at disk 1: rejected *)
Definition demo_prog : prog :=
  {| wbytes := 1; step := 2; nvars := 2; helpers := [];
     chunk_init := [SAssign 0 (ELoad Last 0); SAssign 1 (ELoad Last 1)];
     loop_from := 1; loop_lo := 0;
     loop_body := [SAssign 1 (EXor (ELoad Cur 1) (EVar 1)); SAssign 0 (EXor (EVar 0) (ELoad Cur 0))];
     chunk_fini := [SStore 0 1 (EVar 1); SStore 0 0 (EVar 0)] |}.
Lemma demo_checked : checker G1 demo_prog = true.
Proof. vm_compute. reflexivity. Qed.
Definition demo_bad : prog :=
  {| wbytes := 1; step := 2; nvars := 2; helpers := [];
     chunk_init := [SAssign 0 (ELoad Last 0); SAssign 1 (ELoad Last 1)];
     loop_from := 1; loop_lo := 1;
     loop_body := [SAssign 1 (EXor (ELoad Cur 1) (EVar 1)); SAssign 0 (EXor (EVar 0) (ELoad Cur 0))];
     chunk_fini := [SStore 0 1 (EVar 1); SStore 0 0 (EVar 0)] |}.
Lemma demo_bad_rejected : checker G1 demo_bad = false.
Proof. vm_compute. reflexivity. Qed.
(* the x2_32 helper with a wrong mask constant is not recognised *)
Definition h_x2_32_bad : helper := {| h_w := 4; h_body := canon_x2 0x80808080 0xfefefefe 0x1d1d1d1c; h_ret := 0 |}.
Lemma helper_recognised : helper_coef h_x2_32 = Some CTwo /\ helper_coef h_d2_64 = Some CHalf /\ helper_coef h_x2_32_bad = None.
Proof. vm_compute. auto. Qed.
