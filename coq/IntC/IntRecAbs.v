(* Soundness of the abstract interpreter of IntRecCheck.v for one iteration of the byte loop (one column), and the
   meaning of the checker's verdict: the new bytes pa[b][i] are the expected xor of table products. *)
From Coq Require Import NArith List Bool Arith Lia.
From Snap.Gen Require Import Tables.
From Snap.GF Require Import Gf.
From Snap.Raid Require Import GenModel RecModel RecProofs.
From Snap.Simd Require Import SimdSem SimdBytes RecDefs RecSem.
From Snap.IntC Require Import IntSem IntAbs IntRecDefs IntRecSem IntRecCheck.
Import ListNotations.
Local Open Scope N_scope.

Section Col.
  Variable e : cenv.
  Variable pa0 : list N.              (* the bytes pa[k][i] on entry of the iteration *)
  Let n := ce_n e.

  Definition atom_val (a : atom) : N :=
    match a with AtP k => b8 (nth k (ce_p e) 0) | AtPa k => b8 (nth k pa0 0) end.
  Definition xs_val (x : xs) : N := fold_right (fun a r => N.lxor (atom_val a) r) 0 x.
  Definition term_val (t : term) : N :=
    match fst t with TOne => xs_val (snd t) | TMul vi => b8 (t_gfmul (nth vi (ce_V e) 0) (xs_val (snd t))) end.
  Definition nf_val (m : nf) : N := fold_right (fun t r => N.lxor (term_val t) r) 0 m.
  Definition val_ok (a : av) (v : N) : Prop := match a with AJunk => True | ALin m => v = nf_val m end.
  Definition sat (A : astate) (s : venv) : Prop := forall x, val_ok (aget A x) (b8 (nth x s 0)).
  Definition pa_inv (l : alog) (pa : list N) : Prop :=
    length pa = length pa0 /\
    forall b, (b < length pa)%nat ->
      match lookup b l with Some a => val_ok a (nth b pa 0) | None => nth b pa 0 = nth b pa0 0 end.

  Lemma xs_val_app a b : xs_val (a ++ b) = N.lxor (xs_val a) (xs_val b).
  Proof.
    unfold xs_val. induction a as [|t a IH]; cbn [app fold_right]; [rewrite N.lxor_0_l; reflexivity|].
    rewrite IH, N.lxor_assoc. reflexivity.
  Qed.
  Lemma nf_val_app a b : nf_val (a ++ b) = N.lxor (nf_val a) (nf_val b).
  Proof.
    unfold nf_val. induction a as [|t a IH]; cbn [app fold_right]; [rewrite N.lxor_0_l; reflexivity|].
    rewrite IH, N.lxor_assoc. reflexivity.
  Qed.
  Lemma atom_eqb_eq a b : atom_eqb a b = true -> a = b.
  Proof. destruct a, b; cbn [atom_eqb]; try discriminate; intros H; apply Nat.eqb_eq in H; congruence. Qed.
  Lemma rm_atom_val a l l' : rm_atom a l = Some l' -> xs_val l = N.lxor (atom_val a) (xs_val l').
  Proof.
    revert l'. induction l as [|x r IH]; intros l' H; [discriminate|]. cbn [rm_atom] in H.
    destruct (atom_eqb a x) eqn:E.
    - apply atom_eqb_eq in E. inversion H; subst. reflexivity.
    - destruct (rm_atom a r) as [r'|] eqn:E2; [|discriminate]. inversion H; subst.
      specialize (IH r' eq_refl). change (xs_val (x :: r)) with (N.lxor (atom_val x) (xs_val r)).
      change (xs_val (x :: r')) with (N.lxor (atom_val x) (xs_val r')).
      rewrite IH. rewrite <- !N.lxor_assoc. f_equal. apply N.lxor_comm.
  Qed.
  Lemma xs_perm_val a : forall b, xs_perm a b = true -> xs_val a = xs_val b.
  Proof.
    induction a as [|t a IH]; intros b H; cbn [xs_perm] in H.
    - destruct b; [reflexivity|discriminate].
    - destruct (rm_atom t b) as [b'|] eqn:E; [|discriminate].
      rewrite (rm_atom_val t b b' E). rewrite <- (IH b' H). reflexivity.
  Qed.
  Lemma term_eqb_val a b : term_eqb a b = true -> term_val a = term_val b.
  Proof.
    unfold term_eqb, term_val. intros H. apply andb_true_iff in H. destruct H as [H1 H2].
    apply xs_perm_val in H2. destruct (fst a), (fst b); cbn [tcoef_eqb] in H1; try discriminate.
    - exact H2.
    - apply Nat.eqb_eq in H1. subst. rewrite H2. reflexivity.
  Qed.
  Lemma rm_term_val t l l' : rm_term t l = Some l' -> nf_val l = N.lxor (term_val t) (nf_val l').
  Proof.
    revert l'. induction l as [|x r IH]; intros l' H; [discriminate|]. cbn [rm_term] in H.
    destruct (term_eqb t x) eqn:E.
    - apply term_eqb_val in E. inversion H; subst. change (nf_val (x :: l')) with (N.lxor (term_val x) (nf_val l')).
      rewrite E. reflexivity.
    - destruct (rm_term t r) as [r'|] eqn:E2; [|discriminate]. inversion H; subst.
      specialize (IH r' eq_refl). change (nf_val (x :: r)) with (N.lxor (term_val x) (nf_val r)).
      change (nf_val (x :: r')) with (N.lxor (term_val x) (nf_val r')).
      rewrite IH. rewrite <- !N.lxor_assoc. f_equal. apply N.lxor_comm.
  Qed.
  Lemma nf_perm_val a : forall b, nf_perm a b = true -> nf_val a = nf_val b.
  Proof.
    induction a as [|t a IH]; intros b H; cbn [nf_perm] in H.
    - destruct b; [reflexivity|discriminate].
    - destruct (rm_term t b) as [b'|] eqn:E; [|discriminate].
      rewrite (rm_term_val t b b' E). rewrite <- (IH b' H). reflexivity.
  Qed.
  Lemma pure_val m : forall s, pure m = Some s -> nf_val m = xs_val s.
  Proof.
    induction m as [|[c x] m IH]; intros s H; cbn [pure] in H.
    - inversion H. reflexivity.
    - destruct c; [|discriminate]. destruct (pure m) as [y|]; [|discriminate]. inversion H; subst.
      rewrite xs_val_app. rewrite <- (IH y eq_refl). reflexivity.
  Qed.

  Lemma aget_aupd x v A x' : aget (aupd x v A) x' = if Nat.eqb x' x then v else aget A x'.
  Proof.
    unfold aget. revert A x'. induction x as [|x IH]; intros A x'.
    - destruct A; destruct x'; cbn [aupd nth Nat.eqb]; try reflexivity. destruct x'; reflexivity.
    - destruct A as [|h t]; destruct x'; cbn [aupd nth Nat.eqb]; try reflexivity.
      + rewrite IH. destruct (Nat.eqb x' x); [reflexivity|]. destruct x'; reflexivity.
      + apply IH.
  Qed.

  Lemma beval_lt st jk x : beval e st jk x < 256.
  Proof. induction x; cbn [beval]; try apply b8_lt. apply lxor_range; assumption. Qed.

  Lemma aeval_ok A l s pa jk x : sat A s -> pa_inv l pa -> val_ok (aeval n (A, l) jk x) (beval e (s, pa) jk x).
  Proof.
    intros HS [HL HI]. induction x; cbn [aeval beval fst snd].
    - apply HS.
    - apply HS.
    - destruct (N.eqb_spec c 0) as [->|]; [reflexivity|exact I].
    - cbn [val_ok nf_val term_val xs_val fold_right fst snd atom_val]. rewrite !N.lxor_0_r. reflexivity.
    - destruct l as [|y l]; [|exact I].
      cbn [val_ok nf_val term_val xs_val fold_right fst snd atom_val]. rewrite !N.lxor_0_r. f_equal.
      destruct (Nat.lt_ge_cases (ival jk b) (length pa)) as [Hb|Hb].
      + exact (HI _ Hb).
      + rewrite !nth_overflow by lia. reflexivity.
    - destruct (aeval n (A, l) jk x1) as [|m1]; [exact I|]. destruct (aeval n (A, l) jk x2) as [|m2]; [exact I|].
      cbn [val_ok] in *. rewrite nf_val_app, <- IHx1, <- IHx2. reflexivity.
    - destruct (aeval n (A, l) jk x) as [|m]; [exact I|]. destruct (pure m) as [s'|] eqn:Ep; [|exact I].
      cbn [val_ok] in *. cbn [nf_val term_val fold_right fst snd]. rewrite N.lxor_0_r.
      rewrite IHx, (pure_val m s' Ep). reflexivity.
  Qed.

  Lemma lookup_cons b b' a l : lookup b ((b', a) :: l) = if Nat.eqb b b' then Some a else lookup b l.
  Proof. reflexivity. Qed.

  Lemma bexec_ok A l s pa x : sat A s -> pa_inv l pa ->
    sat (fst (aexec n (A, l) x)) (fst (bexec e (s, pa) x)) /\ pa_inv (snd (aexec n (A, l) x)) (snd (bexec e (s, pa) x)).
  Proof.
    intros HS HP. assert (Hv := fun ex => aeval_ok A l s pa (snd x) ex HS HP).
    unfold aexec, bexec. destruct (fst x) as [v ex|i ex|b ex|bd|bd]; cbn [fst snd]; try (split; assumption).
    - split; [|exact HP]. intros x'. rewrite aget_aupd, nth_updN. destruct (Nat.eqb x' v); [|apply HS].
      rewrite b8_id by apply beval_lt. apply Hv.
    - split; [|exact HP]. intros x'. rewrite aget_aupd, nth_updN. destruct (Nat.eqb x' (arr_base + ival (snd x) i)); [|apply HS].
      rewrite b8_id by apply beval_lt. apply Hv.
    - split; [exact HS|]. destruct HP as [HL HI]. split; [rewrite set_nth_length; exact HL|].
      intros b' Hb'. rewrite set_nth_length in Hb'. rewrite lookup_cons, nth_set_nth.
      destruct (Nat.eqb_spec b' (ival (snd x) b)) as [->|Hne]; cbn [andb].
      + assert (E : (ival (snd x) b <? length pa)%nat = true) by (apply Nat.ltb_lt; exact Hb'). rewrite E. apply Hv.
      + apply HI. exact Hb'.
  Qed.

  Lemma run_ok code : forall A l s pa, sat A s -> pa_inv l pa ->
    pa_inv (snd (fold_left (aexec n) code (A, l))) (snd (fold_left (bexec e) code (s, pa))).
  Proof.
    induction code as [|x code IH]; intros A l s pa HS HP; [exact HP|]. cbn [fold_left].
    destruct (bexec_ok A l s pa x HS HP) as [H1 H2].
    destruct (aexec n (A, l) x) as [A' l']. destruct (bexec e (s, pa) x) as [s' pa']. apply IH; assumption.
  Qed.

  Lemma init_sat s : sat [] s.
  Proof. intros x. unfold aget. destruct x; exact I. Qed.
  Lemma init_inv : pa_inv [] pa0.
  Proof. split; [reflexivity|]. intros b _. reflexivity. Qed.

  (* the verdict of the checker on the unrolled body *)
  Lemma final_ok_val kd code s0 b :
    final_ok kd n (snd (fold_left (aexec n) code (([] : astate), ([] : alog)))) b = true -> (b < length pa0)%nat ->
    nth b (snd (fold_left (bexec e) code (s0, pa0))) 0 = nf_val (expected kd n b).
  Proof.
    intros H Hb. destruct (run_ok code [] [] s0 pa0 (init_sat s0) init_inv) as [HL HI].
    unfold final_ok in H. assert (Hb' : (b < length (snd (fold_left (bexec e) code (s0, pa0))))%nat) by (rewrite HL; exact Hb).
    specialize (HI b Hb').
    destruct (lookup b (snd (fold_left (aexec n) code (([] : astate), ([] : alog))))) as [[|m]|]; try discriminate.
    cbn [val_ok] in HI. rewrite HI. apply nf_perm_val. exact H.
  Qed.
  Lemma final_length code s0 : length (snd (fold_left (bexec e) code (s0, pa0))) = length pa0.
  Proof. exact (proj1 (run_ok code [] [] s0 pa0 (init_sat s0) init_inv)). Qed.
End Col.
