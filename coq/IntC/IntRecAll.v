(* The decoder programs of Gen/IntRecProgs.v (REGENERATED from raid/int.c, raid/raid.c, raid/gf.h on every run) pass the
   checker, are of the kind their slot in raid_rec_ptr[] needs, and hence return the lost data.  A function that the
   translator could not handle is `None` there and is REJECTED here. *)
From Coq Require Import NArith List Bool String.
From Snap.Raid Require Import GenModel GenProofs RecModel RecProofs.
From Snap.IntC Require Import IntSem IntRecDefs IntRecSem IntRecCheck IntRecModel IntRecProofs.
From Snap.Gen Require Import IntRecProgs.
Import ListNotations.

Lemma chk_rec1_int8 : prog_okb KRec1 raid_rec1_int8 = true. Proof. vm_compute. reflexivity. Qed.
Lemma chk_rec2_int8 : prog_okb KRec2 raid_rec2_int8 = true. Proof. vm_compute. reflexivity. Qed.
Lemma chk_recX_int8 : prog_okb KRecX raid_recX_int8 = true. Proof. vm_compute. reflexivity. Qed.
Lemma chk_rec2of2_int8 : prog_okb KRec2of2 raid_rec2of2_int8 = true. Proof. vm_compute. reflexivity. Qed.
Lemma rec1of1_recognised : recognised_raid_rec1of1 = true. Proof. reflexivity. Qed.
Lemma delta_gen_recognised : recognised_raid_delta_gen = true. Proof. reflexivity. Qed.

Definition gen_family : family := (raid_rec1_int8, raid_rec2_int8, raid_recX_int8, raid_rec2of2_int8).
Lemma gen_family_ok : fam_okb gen_family = true. Proof. vm_compute. reflexivity. Qed.
Lemma all_listed : map fst all_int_rec_progs = ["raid_rec1_int8"; "raid_rec2_int8"; "raid_recX_int8"; "raid_rec2of2_int8"]%string.
Proof. reflexivity. Qed.

Theorem int_decoders_correct : forall m id ip size orig data par s0,
  (1 <= List.length id <= 6)%nat ->
  sorted_lt id = true -> sorted_lt ip = true -> List.length ip = List.length id ->
  (forall d, In d id -> (d < 251)%nat) -> (forall q, In q ip -> (q < rows_of m)%nat) ->
  (forall x, (x < size)%nat -> rec_hyps m id ip (column orig x) (column data x) (column par x)) ->
  fam_decode gen_family m id ip size data par s0 = Some (map (fun d => map (fun x => nth x (nth d orig []) 0%N) (seq 0 size)) id).
Proof. intros m id ip size orig data par s0. apply fam_decode_correct. exact gen_family_ok. Qed.

(* non-vacuity: a concrete stripe (4 disks of 16 bytes, 3 parities; garbage in the lost disks) meets the hypotheses, and the
   interpreted decoders return the lost blocks: disks 1, 3 with P, Q (raid_rec2_int8 -> raid_rec2of2_int8), disks 1, 3 with
   Q, R (the general path of raid_rec2_int8), disks 0, 1, 3 (raid_recX_int8), disk 2 with Q (raid_rec1_int8) *)
Definition ex_orig : list block :=
  [[1; 2; 3; 4; 5; 6; 7; 8; 9; 10; 11; 12; 13; 14; 15; 255]; [16; 32; 48; 64; 80; 96; 112; 128; 144; 160; 176; 192; 208; 224; 240; 0];
   [129; 3; 7; 250; 77; 91; 200; 100; 50; 25; 12; 6; 3; 1; 0; 254]; [9; 8; 7; 6; 5; 4; 3; 2; 1; 0; 255; 254; 253; 252; 251; 250]]%N.
Definition ex_par : list block := spec_blocks cauchyN 3 16 ex_orig.
Definition garble (ks : list nat) : list block := map (fun i => if existsb (Nat.eqb i) ks then repeat (N.of_nat (85 + i)) 16 else nth i ex_orig []) (seq 0 4).
Definition ex_s0 (c : nat) : venv := [N.of_nat (200 + c); 77; 1000]%N.
Definition lost (ks : list nat) : list block := map (fun i => nth i ex_orig []) ks.
Lemma ex_run :
  fam_decode gen_family Cauchy [1; 3]%nat [0; 1]%nat 16 (garble [1; 3]%nat) ex_par ex_s0 = Some (lost [1; 3]%nat) /\
  fam_decode gen_family Cauchy [1; 3]%nat [1; 2]%nat 16 (garble [1; 3]%nat) ex_par ex_s0 = Some (lost [1; 3]%nat) /\
  fam_decode gen_family Cauchy [0; 1; 3]%nat [0; 1; 2]%nat 16 (garble [0; 1; 3]%nat) ex_par ex_s0 = Some (lost [0; 1; 3]%nat) /\
  fam_decode gen_family Cauchy [2]%nat [1]%nat 16 (garble [2]%nat) ex_par ex_s0 = Some (lost [2]%nat).
Proof. repeat split; vm_compute; reflexivity. Qed.
