(* Checker of the decoder byte loops (definitions only; extracted for per-function diagnostics).  The loop body,
   unrolled for a concrete N, is run over abstract values ("xor of table products of xors of the input bytes
   p[k][i], pa[k][i]"); [ichecker] then requires the final store into pa[b] to be, up to permutation of the xors,

       rec1 / rec2 / recX :   XOR_k  gfmul[V[b*N+k]][ p[k] ^ pa[k] ]
       rec2of2            :   pa[1] = Dy = gfmul[T[0]][p[0]^pa[0]] ^ gfmul[T[1]][p[1]^pa[1]],   pa[0] = (p[0]^pa[0]) ^ Dy

   every pa[b], b < N, to be stored, and no pa[] to be read after the first store.  The coefficients stay symbolic. *)
From Coq Require Import NArith List Bool Arith.
From Snap.Simd Require Import RecDefs RecSem.
From Snap.IntC Require Import IntRecDefs IntRecSem.
Import ListNotations.
Local Open Scope N_scope.

Inductive atom := AtP (k : nat) | AtPa (k : nat).        (* p[k][i], pa[k][i] on entry of the iteration *)
Definition xs := list atom.                                (* their xor *)
Inductive tcoef := TOne | TMul (vi : nat).                 (* x ; gfmul[coefficient vi][x] *)
Definition term := (tcoef * xs)%type.
Definition nf := list term.
Inductive av := AJunk | ALin (n : nf).

Definition atom_eqb (a b : atom) : bool :=
  match a, b with AtP x, AtP y | AtPa x, AtPa y => Nat.eqb x y | _, _ => false end.
Fixpoint rm_atom (a : atom) (l : xs) : option xs :=
  match l with
  | [] => None
  | x :: r => if atom_eqb a x then Some r else match rm_atom a r with Some r' => Some (x :: r') | None => None end
  end.
Fixpoint xs_perm (a b : xs) : bool :=
  match a with
  | [] => match b with [] => true | _ => false end
  | t :: a' => match rm_atom t b with Some b' => xs_perm a' b' | None => false end
  end.
Definition tcoef_eqb (a b : tcoef) : bool :=
  match a, b with TOne, TOne => true | TMul x, TMul y => Nat.eqb x y | _, _ => false end.
Definition term_eqb (a b : term) : bool := tcoef_eqb (fst a) (fst b) && xs_perm (snd a) (snd b).
Fixpoint rm_term (t : term) (l : nf) : option nf :=
  match l with
  | [] => None
  | x :: r => if term_eqb t x then Some r else match rm_term t r with Some r' => Some (x :: r') | None => None end
  end.
Fixpoint nf_perm (a b : nf) : bool :=
  match a with
  | [] => match b with [] => true | _ => false end
  | t :: a' => match rm_term t b with Some b' => nf_perm a' b' | None => false end
  end.

(* a value that is a plain xor of inputs *)
Fixpoint pure (n : nf) : option xs :=
  match n with
  | [] => Some []
  | (TOne, x) :: r => match pure r with Some y => Some (x ++ y) | None => None end
  | _ => None
  end.

Definition astate := list av.
Definition aget (A : astate) (r : nat) : av := nth r A AJunk.
Fixpoint aupd (r : nat) (v : av) (A : astate) : astate :=
  match r, A with
  | O, [] => [v]
  | O, _ :: t => v :: t
  | S r', [] => AJunk :: aupd r' v []
  | S r', h :: t => h :: aupd r' v t
  end.

Definition alog := list (nat * av).                  (* buffer index, value; newest first *)
Definition ast := (astate * alog)%type.

Fixpoint aeval (n : nat) (st : ast) (jk : nat * nat) (x : bexpr) : av :=
  match x with
  | BVar v => aget (fst st) v
  | BArr i => aget (fst st) (arr_base + ival jk i)
  | BConst c => if N.eqb c 0 then ALin [] else AJunk
  | BP b => ALin [(TOne, [AtP (ival jk b)])]
  | BPa b => match snd st with [] => ALin [(TOne, [AtPa (ival jk b)])] | _ => AJunk end
  | BXor a b => match aeval n st jk a, aeval n st jk b with ALin x, ALin y => ALin (x ++ y) | _, _ => AJunk end
  | BTab t a => match aeval n st jk a with
                | ALin m => match pure m with Some s => ALin [(TMul (tflat n jk t), s)] | None => AJunk end
                | AJunk => AJunk
                end
  end.
Definition aexec (n : nat) (st : ast) (x : bstmt * (nat * nat)) : ast :=
  match fst x with
  | BSet v ex => (aupd v (aeval n st (snd x) ex) (fst st), snd st)
  | BSetArr i ex => (aupd (arr_base + ival (snd x) i) (aeval n st (snd x) ex) (fst st), snd st)
  | BStore b ex => (fst st, (ival (snd x) b, aeval n st (snd x) ex) :: snd st)
  | _ => st
  end.
Definition analyse (p : iprog) (n : nat) : ast := fold_left (aexec n) (bflat n (i_body p)) ([], []).

Definition dk (k : nat) : xs := [AtP k; AtPa k].
Definition expected (kd : ikind) (n b : nat) : nf :=
  match kd with
  | KRec2of2 => match b with
                | O => [(TOne, [AtP 0]); (TOne, [AtPa 0]); (TMul 0, dk 0); (TMul 1, dk 1)]
                | _ => [(TMul 0, dk 0); (TMul 1, dk 1)]
                end
  | _ => map (fun k => (TMul (b * n + k), dk k)) (seq 0 n)
  end.
Fixpoint lookup (b : nat) (l : alog) : option av :=
  match l with [] => None | (b', a) :: t => if Nat.eqb b b' then Some a else lookup b t end.
(* the value that pa[b] holds at the end of the iteration is the expected one *)
Definition final_ok (kd : ikind) (n : nat) (l : alog) (b : nat) : bool :=
  match lookup b l with Some (ALin m) => nf_perm m (expected kd n b) | _ => false end.

Definition icheck_n (p : iprog) (n : nat) : bool :=
  Nat.ltb 0 n && forallb (final_ok (i_kind p) n (snd (analyse p n))) (seq 0 n) &&
  forallb (fun s : nat * av => Nat.ltb (fst s) n) (snd (analyse p n)).

(* N = 1 / 2 for rec1 / rec2, rec2of2; every nr in 1..6 for recX *)
Definition ichecker (p : iprog) : bool :=
  match i_kind p with
  | KRec1 => icheck_n p 1
  | KRec2 | KRec2of2 => icheck_n p 2
  | KRecX => forallb (icheck_n p) (seq 1 6)
  end.
Definition ichecker_opt (p : option iprog) : bool := match p with Some p => ichecker p | None => false end.
