(* raid_rec / raid_data with the portable decoder family: the C part (argument checks, choice of the parities, matrix
   set-up and inversion, raid_delta_gen, the fast-path delegations, raid_rec1of1, regeneration of the failed parities)
   is the hand model of Raid/RecModel.v, the byte loop of each decoder is the interpreted generated program.
   Definitions only (extracted; run against the real raid_rec / raid_data by harness/py/c03_int.py). *)
From Coq Require Import NArith List Bool Arith.
From Snap.Gen Require Import Tables.
From Snap.GF Require Import Gf.
From Snap.Raid Require Import GenModel RecModel.
From Snap.IntC Require Import IntSem IntRecDefs IntRecSem.
Import ListNotations.
Local Open Scope N_scope.

Definition is_p0 (ip : list nat) : bool := match ip with [O] => true | _ => false end.
Definition is_p01 (ip : list nat) : bool := match ip with [O; 1%nat] => true | _ => false end.

(* raid_rec2of2_int8: T[0] = table(inv(pow2(id[1] - id[0]) ^ 1)), T[1] = table(inv(pow2(id[0]) ^ pow2(id[1]))) with the
   BUG_ONs of pow2() and inv(); raid_delta_gen(2, ...); then the byte loop with p = v[nd], q = v[nd + 1] *)
Definition decode22 (q : iprog) (m : rmode) (id : list nat) (size : nat) (data par : list block) (s0 : nat -> venv)
  : option (list block) :=
  let x := nth 0 id 0%nat in let y := nth 1 id 0%nat in
  if (254 <? y - x)%nat || (254 <? y)%nat then None else
  let a := N.lxor (t_gfexp (N.of_nat (y - x))) 1 in
  let b := N.lxor (t_gfexp (N.of_nat x)) (t_gfexp (N.of_nat y)) in
  if (a =? 0) || (b =? 0) then None else
  let delta := transpose 2 (map (fun c => delta_col m id [0; 1]%nat (column data c)) (seq 0 size)) in
  Some (exec_iloop q 2 [t_gfinv a; t_gfinv b] [nth 0 par []; nth 1 par []] delta size s0).

(* the general path of raid_rec1_int8 / raid_rec2_int8 / raid_recX_int8 *)
Definition inv_decode (p : iprog) (m : rmode) (id ip : list nat) (size : nat) (data par : list block) (s0 : nat -> venv)
  : option (list block) :=
  let nr := length id in
  let G : mxN := fun j k => coefA m (nth j ip 0%nat) (nth k id 0%nat) in
  match invertN G nr with
  | None => None
  | Some V =>
      let delta := transpose nr (map (fun c => delta_col m id ip (column data c)) (seq 0 size)) in
      let pb := map (fun j => nth (nth j ip 0%nat) par []) (seq 0 nr) in
      Some (exec_iloop p nr (list_of_mx nr V) pb delta size s0)
  end.

(* raid_rec{1,2,X}_int8 / raid_rec2of2_int8 (nr, id, ip, nd, size, vv): the blocks recovered for the disks id;
   q22 = the translated raid_rec2of2_int8, to which raid_rec2_int8 delegates *)
Definition int_decode (p : iprog) (q22 : option iprog) (m : rmode) (id ip : list nat) (size : nat) (data par : list block)
  (s0 : nat -> venv) : option (list block) :=
  match i_kind p with
  | KRec1 =>
      if i_fast p && is_p0 ip then
        Some [map (fun c => nth 0 (rec1of1_col (nth 0 id 0%nat) (column data c) (column par c)) 0) (seq 0 size)]
      else inv_decode p m id ip size data par s0
  | KRec2 =>
      if i_fast p && is_p01 ip then
        match q22 with Some q => decode22 q m id size data par s0 | None => None end
      else inv_decode p m id ip size data par s0
  | KRecX => inv_decode p m id ip size data par s0
  | KRec2of2 => decode22 p m id size data par s0
  end.

(* the family: raid_rec_ptr[0], [1], [2..5], and raid_rec2of2_int8 *)
Definition family := (option iprog * option iprog * option iprog * option iprog)%type.
Definition fam_prog (f : family) (nr : nat) : option iprog :=
  match nr with 1%nat => fst (fst (fst f)) | 2%nat => snd (fst (fst f)) | _ => snd (fst f) end.
Definition fam_decode (f : family) (m : rmode) (id ip : list nat) (size : nat) (data par : list block) (s0 : nat -> venv)
  : option (list block) :=
  match fam_prog f (length id) with
  | None => None
  | Some p => int_decode p (snd f) m id ip size data par s0
  end.

Definition int_raid_rec_blocks (f : family) (m : rmode) (nd np : nat) (ir : list nat) (size : nat) (bufs : list block)
  (s0 : nat -> venv) : option (list block) :=
  let data := firstn nd bufs in let par := skipn nd bufs in
  let nr := length ir in
  if negb (nr <=? np)%nat || negb (np <=? 6)%nat || negb (sorted_lt ir) then None
  else if (0 <? nr)%nat && negb (last ir 0%nat <? nd + np)%nat then None
  else
    let id := filter (fun i => (i <? nd)%nat) ir in
    let fp := map (fun i => (i - nd)%nat) (filter (fun i => negb (i <? nd)%nat) ir) in
    let nrd := length id in
    let ip := firstn nrd (filter (fun p => negb (existsb (Nat.eqb p) fp)) (seq 0 np)) in
    let data' := match nrd with
                 | O => Some data
                 | _ => match fam_decode f m id ip size data par s0 with
                        | None => None
                        | Some rec => Some (set_many id rec data)
                        end
                 end in
    match data' with
    | None => None
    | Some d =>
        match fp with
        | [] => Some (d ++ par)
        | _ => let k := S (last fp 0%nat) in
               let g := transpose k (map (fun c => raid_gen_col m k (column d c)) (seq 0 size)) in
               Some (d ++ g ++ skipn k par)
        end
    end.

(* raid_data: argument checks (BUG_ON -> None), then raid_rec_ptr[nr - 1] *)
Definition int_raid_data_blocks (f : family) (m : rmode) (nd np : nat) (id ip : list nat) (size : nat) (bufs : list block)
  (s0 : nat -> venv) : option (list block) :=
  let data := firstn nd bufs in let par := skipn nd bufs in
  let nr := length id in
  if negb (nr <=? nd)%nat || negb (nr <=? 6)%nat || negb (sorted_lt id) || negb (sorted_lt ip)
     || negb (Nat.eqb (length ip) nr) then None
  else if (0 <? nr)%nat && negb (last id 0%nat <? nd)%nat then None
  else match nr with
       | O => Some (data ++ par)
       | _ => match fam_decode f m id ip size data par s0 with
              | None => None
              | Some rec => Some (set_many id rec data ++ par)
              end
       end.
