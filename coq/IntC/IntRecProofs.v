(* rec_int_correct (the byte loop of an accepted decoder computes V . (P + Pa), resp. the Dx/Dy formulas of
   raid_rec2of2_int8) and its composition with the proofs about the C part (Raid/RecProofs.v, Raid/InvertProofs.v):
   the portable decoders return exactly the lost data. *)
From Coq Require Import NArith List Bool Arith Lia.
From Snap.Gen Require Import Tables.
From Snap.GF Require Import Gf TablesOk.
From Snap.Raid Require Import GenModel GenProofs RecModel Xsum RecProofs.
From Snap.Raid Require InvertProofs.
From Snap.Simd Require Import SimdSem SimdBytes SimdMath RecDefs RecSem.
From Snap.Simd Require RecProofs.
From Snap.IntC Require Import IntSem IntRecDefs IntRecSem IntRecCheck IntRecAbs IntRecModel.
Import ListNotations.
Local Open Scope N_scope.

(* ---- the loop ------------------------------------------------------------------------------------------------ *)
Definition nr_allowed (p : iprog) (nr : nat) : Prop :=
  match i_kind p with KRec1 => nr = 1%nat | KRec2 | KRec2of2 => nr = 2%nat | KRecX => (1 <= nr <= 6)%nat end.

Lemma ichecker_n p nr : ichecker p = true -> nr_allowed p nr -> loop_n p nr = nr /\ icheck_n p nr = true.
Proof.
  unfold ichecker, loop_n, nr_allowed. destruct (i_kind p); intros H Hn; try (subst nr; auto).
  split; [reflexivity|]. rewrite forallb_forall in H. apply H. apply in_seq. lia.
Qed.

Definition col_env (nr : nat) (V : list N) (pb : list block) (x : nat) : cenv :=
  {| ce_n := nr; ce_V := V; ce_p := column pb x |}.

(* every byte of the output is the expected xor-sum *)
Theorem rec_int_loop p nr V pb pa0 size s0 :
  ichecker p = true -> nr_allowed p nr -> length pa0 = nr ->
  exec_iloop p nr V pb pa0 size s0
  = map (fun b => map (fun x => nf_val (col_env nr V pb x) (column pa0 x) (expected (i_kind p) nr b)) (seq 0 size)) (seq 0 nr).
Proof.
  intros Hc Ha Lpa. destruct (ichecker_n p nr Hc Ha) as [En Hn].
  unfold icheck_n in Hn. apply andb_true_iff in Hn. destruct Hn as [Hn _]. apply andb_true_iff in Hn. destruct Hn as [_ Hf].
  rewrite forallb_forall in Hf.
  unfold exec_iloop, transpose. unfold block in *. rewrite Lpa. apply map_ext_in. intros b Hb. rewrite map_map. apply map_ext_in. intros x Hx.
  unfold col_run. rewrite En.
  apply (final_ok_val (col_env nr V pb x) (column pa0 x) (i_kind p) (bflat nr (i_body p)) (s0 x) b).
  - exact (Hf b Hb).
  - unfold column. rewrite map_length, Lpa. apply in_seq in Hb. lia.
Qed.

Lemma nf_val_map e pa0 (g : nat -> term) l : nf_val e pa0 (map g l) = xsum (fun k => term_val e pa0 (g k)) l.
Proof. induction l as [|k l IH]; [reflexivity|]. cbn [map]. unfold nf_val in *. cbn [fold_right]. rewrite IH. reflexivity. Qed.

Lemma dk_val e pa0 k : xs_val e pa0 (dk k) = N.lxor (b8 (nth k (ce_p e) 0)) (b8 (nth k pa0 0)).
Proof. unfold dk, xs_val. cbn [fold_right atom_val]. rewrite N.lxor_0_r. reflexivity. Qed.
Lemma dk_lt e pa0 k : xs_val e pa0 (dk k) < 256.
Proof. rewrite dk_val. apply lxor_range; apply b8_lt. Qed.

Lemma mul_val v d : v < 256 -> d < 256 -> b8 (t_gfmul v d) = gmul v d.
Proof. intros Hv Hd. rewrite t_gfmul_ok by assumption. apply b8_id. apply gmul_range; assumption. Qed.

(* the general decoders: out_b = XOR_k V[b*nr+k] . (p[k] ^ pa[k]) for every byte *)
Theorem rec_int_correct p nr V pb pa0 size s0 :
  ichecker p = true -> nr_allowed p nr -> i_kind p <> KRec2of2 ->
  (forall i, nth i V 0 < 256) -> length pa0 = nr ->
  exec_iloop p nr V pb pa0 size s0
  = map (fun b => map (fun x => xsum (fun k => gmul (nth (b * nr + k) V 0)
                                                   (N.lxor (b8 (nth x (nth k pb []) 0)) (b8 (nth x (nth k pa0 []) 0)))) (seq 0 nr))
                      (seq 0 size)) (seq 0 nr).
Proof.
  intros Hc Ha Hk HV Lpa. rewrite (rec_int_loop p nr V pb pa0 size s0 Hc Ha Lpa).
  apply map_ext. intros b. apply map_ext. intros x.
  assert (E : expected (i_kind p) nr b = map (fun k => (TMul (b * nr + k), dk k)) (seq 0 nr)) by (destruct (i_kind p); try reflexivity; contradiction).
  rewrite E, nf_val_map. apply xsum_ext. intros k. unfold term_val. cbn [fst snd].
  rewrite mul_val by (try apply HV; apply dk_lt). rewrite dk_val. cbn [col_env ce_p ce_V].
  rewrite !Snap.Simd.RecProofs.column_nth. reflexivity.
Qed.

(* raid_rec2of2_int8: Dy = T0.Pd + T1.Qd, Dx = Pd + Dy *)
Lemma dk_split e pa0 k r :
  N.lxor (xs_val e pa0 [AtP k]) (N.lxor (xs_val e pa0 [AtPa k]) r) = N.lxor (xs_val e pa0 (dk k)) r.
Proof. unfold xs_val, dk. cbn [fold_right]. rewrite !N.lxor_0_r, N.lxor_assoc. reflexivity. Qed.

Theorem rec_int_2of2 p T0 T1 pb pa0 size s0 :
  ichecker p = true -> i_kind p = KRec2of2 -> T0 < 256 -> T1 < 256 -> length pa0 = 2%nat ->
  exec_iloop p 2 [T0; T1] pb pa0 size s0
  = let Pd x := N.lxor (b8 (nth x (nth 0 pb []) 0)) (b8 (nth x (nth 0 pa0 []) 0)) in
    let Qd x := N.lxor (b8 (nth x (nth 1 pb []) 0)) (b8 (nth x (nth 1 pa0 []) 0)) in
    let Dy x := N.lxor (gmul T0 (Pd x)) (gmul T1 (Qd x)) in
    [map (fun x => N.lxor (Pd x) (Dy x)) (seq 0 size); map Dy (seq 0 size)].
Proof.
  intros Hc Hk H0 H1 Lpa. assert (Ha : nr_allowed p 2) by (unfold nr_allowed; rewrite Hk; reflexivity).
  rewrite (rec_int_loop p 2 [T0; T1] pb pa0 size s0 Hc Ha Lpa). rewrite Hk. cbv zeta. cbn [seq map].
  f_equal; [|f_equal]; apply map_ext; intros x; cbn [expected]; unfold nf_val, term_val; cbn [fold_right fst snd];
    rewrite ?dk_split, ?N.lxor_0_r; cbn [col_env ce_V nth]; rewrite !mul_val by (assumption || apply dk_lt); rewrite !dk_val;
    cbn [col_env ce_p]; rewrite !Snap.Simd.RecProofs.column_nth; reflexivity.
Qed.

(* ---- composition with the C part ------------------------------------------------------------------------------- *)
Lemma nth_transpose n (cols : list (list N)) b : (b < n)%nat -> nth b (transpose n cols) [] = map (fun r => nth b r 0) cols.
Proof. intros Hb. unfold transpose. exact (SimdBytes.nth_map_seq (fun j => map (fun r => nth j r 0) cols) n b [] Hb). Qed.
Lemma length_transpose n (cols : list (list N)) : length (transpose n cols) = n.
Proof. unfold transpose. rewrite map_length, seq_length. reflexivity. Qed.

Lemma delta_byte m id ip (data : list block) size k x : (k < length id)%nat -> (x < size)%nat ->
  nth x (nth k (transpose (length id) (map (fun c => delta_col m id ip (column data c)) (seq 0 size))) []) 0
  = nth k (delta_col m id ip (column data x)) 0.
Proof.
  intros Hk Hx. rewrite nth_transpose by exact Hk. rewrite map_map.
  exact (SimdBytes.nth_map_seq (fun c => nth k (delta_col m id ip (column data c)) 0) size x 0 Hx).
Qed.

(* ranges of the two inputs of the loop under the hypotheses of the recovery theorems *)
Lemma input_ranges m id ip orig col par k : rec_hyps m id ip orig col par -> (k < length id)%nat ->
  nth (nth k ip 0%nat) par 0 < 256 /\ nth k (delta_col m id ip col) 0 < 256.
Proof.
  intros Hh Hk. pose proof Hh as [Hg [H1 [H251 [_ [_ [Hlip [Hbid Hpar]]]]]]].
  assert (Hink : In (nth k ip 0%nat) ip) by (apply nth_In; lia).
  destruct (Hpar _ Hink) as [Hr HP].
  assert (Hr6 : (nth k ip 0%nat < 6)%nat) by (pose proof (rows_of_le6 m); lia).
  split.
  - rewrite HP. apply spec_col_range; [exact Hr6|exact H251|apply Hg].
  - rewrite (nth_delta_col m id ip _ _ _ k Hh) by lia. destruct (rec_hyps_col _ _ _ _ _ _ Hh) as [_ [Hle Hbz]].
    apply spec_col_range; assumption.
Qed.

Theorem inv_decode_correct p m id ip size orig data par s0 :
  ichecker p = true -> nr_allowed p (length id) -> i_kind p <> KRec2of2 ->
  sorted_lt id = true -> sorted_lt ip = true -> length ip = length id ->
  (forall d, In d id -> (d < 251)%nat) -> (forall q, In q ip -> (q < rows_of m)%nat) ->
  (forall x, (x < size)%nat -> rec_hyps m id ip (column orig x) (column data x) (column par x)) ->
  inv_decode p m id ip size data par s0 = Some (map (fun d => map (fun x => nth x (nth d orig []) 0) (seq 0 size)) id).
Proof.
  intros Hc Ha Hk Hsid Hsip Hlip Hid251 Hipr Hcols. unfold inv_decode. cbv zeta.
  set (nr := length id) in *.
  destruct (@InvertProofs.invertN_ok m id ip nr Hsid Hsip eq_refl Hlip Hid251 Hipr) as [V [EV [bV sV]]].
  cbv zeta in EV. rewrite EV.
  set (delta := transpose nr (map (fun c => delta_col m id ip (column data c)) (seq 0 size))).
  set (pb := map (fun j => nth (nth j ip 0%nat) par []) (seq 0 nr)).
  assert (Ld : length delta = nr) by apply length_transpose.
  rewrite (rec_int_correct p nr (list_of_mx nr V) pb delta size s0 Hc Ha Hk (Snap.Simd.RecProofs.list_of_mx_range nr V bV) Ld).
  f_equal. rewrite (list_as_map_nth id 0%nat) at 1. rewrite map_map. fold nr.
  apply map_ext_in. intros j Hj. apply in_seq in Hj. apply map_ext_in. intros x Hx. apply in_seq in Hx.
  assert (Hjn : (j < nr)%nat) by lia. assert (Hxs : (x < size)%nat) by lia.
  pose proof (Hcols x Hxs) as Hh. pose proof (recX_col_hyps m id ip _ _ _ Hh) as HX.
  unfold recX_col in HX. cbv zeta in HX. fold nr in HX. rewrite EV in HX. inversion HX as [HX']. clear HX.
  assert (E := f_equal (fun l => nth j l 0) HX'). cbv beta in E.
  rewrite (SimdBytes.nth_map_seq (fun j => fold_left N.lxor (map (fun k => t_gfmul (V j k) (nth k (map (fun j0 => N.lxor (nth (nth j0 ip 0%nat) (column par x) 0)
              (nth j0 (delta_col m id ip (column data x)) 0)) (seq 0 nr)) 0)) (seq 0 nr)) 0) nr j 0 Hjn) in E.
  rewrite (nth_map_lt (fun d => nth d (column orig x) 0) id j 0 0%nat) in E by exact Hjn.
  rewrite Snap.Simd.RecProofs.column_nth in E. rewrite <- E. rewrite fold_left_xsumN, Snap.Simd.RecProofs.xsum_xsumN.
  apply xsumN_ext. intros k Hk'.
  rewrite (SimdBytes.nth_map_seq (fun j0 => N.lxor (nth (nth j0 ip 0%nat) (column par x) 0) (nth j0 (delta_col m id ip (column data x)) 0)) nr k 0 Hk').
  rewrite Snap.Simd.RecProofs.list_of_mx_nth by assumption.
  assert (Hpk : nth x (nth k pb []) 0 = nth (nth k ip 0%nat) (column par x) 0).
  { unfold pb. rewrite (SimdBytes.nth_map_seq (fun j => nth (nth j ip 0%nat) par []) nr k [] Hk'). symmetry. apply Snap.Simd.RecProofs.column_nth. }
  assert (Hdk : nth x (nth k delta []) 0 = nth k (delta_col m id ip (column data x)) 0) by (apply delta_byte; assumption).
  unfold block in *. rewrite Hpk, Hdk.
  destruct (input_ranges m id ip _ _ _ k Hh Hk') as [B1 B2].
  rewrite !b8_id by assumption.
  symmetry. apply t_gfmul_ok; [apply bV; assumption|apply lxor_range; assumption].
Qed.

Theorem decode22_correct q m x y size orig data par s0 :
  ichecker q = true -> i_kind q = KRec2of2 -> (x < y)%nat -> (y < 251)%nat ->
  (forall c, (c < size)%nat -> rec_hyps m [x; y] [0; 1]%nat (column orig c) (column data c) (column par c)) ->
  decode22 q m [x; y] size data par s0
  = Some [map (fun c => nth c (nth x orig []) 0) (seq 0 size); map (fun c => nth c (nth y orig []) 0) (seq 0 size)].
Proof.
  intros Hc Hk Hxy Hy Hcols. unfold decode22. cbn [nth]. cbv zeta.
  destruct (Nat.ltb_spec 254 (y - x)) as [?|_]; [lia|].
  destruct (Nat.ltb_spec 254 y) as [?|_]; [lia|]. cbn [orb].
  assert (Ee : t_gfexp (N.of_nat (y - x)) = pow2N (y - x)) by (rewrite t_gfexp_ok by lia; rewrite Nat2N.id; reflexivity).
  assert (Eu : t_gfexp (N.of_nat x) = pow2N x) by (rewrite t_gfexp_ok by lia; rewrite Nat2N.id; reflexivity).
  assert (Ev : t_gfexp (N.of_nat y) = pow2N y) by (rewrite t_gfexp_ok by lia; rewrite Nat2N.id; reflexivity).
  set (a := N.lxor (t_gfexp (N.of_nat (y - x))) 1) in *. set (b := N.lxor (t_gfexp (N.of_nat x)) (t_gfexp (N.of_nat y))) in *.
  assert (Ha : a <> 0).
  { unfold a. rewrite Ee. intros E. apply N.lxor_eq in E. rewrite <- pow2N_0 in E. apply pow2N_inj in E; lia. }
  assert (Hb : b <> 0).
  { unfold b. rewrite Eu, Ev. intros E. apply N.lxor_eq in E. apply pow2N_inj in E; lia. }
  assert (ba : a < 256) by (unfold a; rewrite Ee; apply lxor_range; [apply pow2N_range|lia]).
  assert (bb : b < 256) by (unfold b; rewrite Eu, Ev; apply lxor_range; apply pow2N_range).
  destruct (N.eqb_spec a 0) as [?|_]; [contradiction|]. destruct (N.eqb_spec b 0) as [?|_]; [contradiction|]. cbn [orb].
  assert (bT0 : t_gfinv a < 256) by (rewrite t_gfinv_ok by assumption; apply (gmul_inv ba Ha)).
  assert (bT1 : t_gfinv b < 256) by (rewrite t_gfinv_ok by assumption; apply (gmul_inv bb Hb)).
  set (delta := transpose 2 (map (fun c => delta_col m [x; y] [0; 1]%nat (column data c)) (seq 0 size))).
  assert (Ld : length delta = 2%nat) by apply length_transpose.
  rewrite (rec_int_2of2 q (t_gfinv a) (t_gfinv b) [nth 0 par []; nth 1 par []] delta size s0 Hc Hk bT0 bT1 Ld). cbv zeta.
  (* per column *)
  assert (Col : forall c, (c < size)%nat ->
            let Pd := N.lxor (b8 (nth c (nth 0 par []) 0)) (b8 (nth c (nth 0 delta []) 0)) in
            let Qd := N.lxor (b8 (nth c (nth 1 par []) 0)) (b8 (nth c (nth 1 delta []) 0)) in
            let Dy := N.lxor (gmul (t_gfinv a) Pd) (gmul (t_gfinv b) Qd) in
            N.lxor Pd Dy = nth c (nth x orig []) 0 /\ Dy = nth c (nth y orig []) 0).
  { intros c Hcs. cbv zeta. pose proof (Hcols c Hcs) as Hh. pose proof (rec2of2_hyps m x y _ _ _ Hh) as E.
    unfold rec2of2_col in E. cbn [nth] in E. cbv zeta in E. fold a b in E.
    destruct (Nat.ltb_spec 254 (y - x)) as [?|_]; [lia|]. destruct (Nat.ltb_spec 254 y) as [?|_]; [lia|]. cbn [orb] in E.
    destruct (N.eqb_spec a 0) as [?|_]; [contradiction|]. destruct (N.eqb_spec b 0) as [?|_]; [contradiction|]. cbn [orb] in E.
    destruct (input_ranges m [x; y] [0; 1]%nat _ _ _ 0%nat Hh ltac:(cbn; lia)) as [P0 D0].
    destruct (input_ranges m [x; y] [0; 1]%nat _ _ _ 1%nat Hh ltac:(cbn; lia)) as [P1 D1]. cbn [nth] in P0, P1.
    assert (E0 : nth c (nth 0 delta []) 0 = nth 0 (delta_col m [x; y] [0; 1]%nat (column data c)) 0)
      by (apply (delta_byte m [x; y] [0; 1]%nat data size 0 c); [cbn; lia|exact Hcs]).
    assert (E1 : nth c (nth 1 delta []) 0 = nth 1 (delta_col m [x; y] [0; 1]%nat (column data c)) 0)
      by (apply (delta_byte m [x; y] [0; 1]%nat data size 1 c); [cbn; lia|exact Hcs]).
    unfold block in *. rewrite E0, E1. rewrite <- !Snap.Simd.RecProofs.column_nth. rewrite !b8_id by assumption.
    set (Pd := N.lxor (nth 0 (column par c) 0) (nth 0 (delta_col m [x; y] [0; 1]%nat (column data c)) 0)) in *.
    set (Qd := N.lxor (nth 1 (column par c) 0) (nth 1 (delta_col m [x; y] [0; 1]%nat (column data c)) 0)) in *.
    assert (bP : Pd < 256) by (apply lxor_range; assumption). assert (bQ : Qd < 256) by (apply lxor_range; assumption).
    rewrite !t_gfmul_ok in E by assumption. inversion E as [[E2 E3]]. rewrite E3. split; reflexivity. }
  f_equal. f_equal; [|f_equal]; apply map_ext_in; intros c Hcs; apply in_seq in Hcs; destruct (Col c ltac:(lia)) as [C1 C2]; cbv zeta in C1, C2; assumption.
Qed.

(* ---- every decoder, with its delegations ---------------------------------------------------------------------------- *)
Definition q22_ok (p : iprog) (q22 : option iprog) : Prop :=
  i_kind p = KRec2 -> i_fast p = true -> exists q, q22 = Some q /\ ichecker q = true /\ i_kind q = KRec2of2.

Lemma lost_two x y (orig : list block) size :
  map (fun d => map (fun c => nth c (nth d orig []) 0) (seq 0 size)) [x; y]
  = [map (fun c => nth c (nth x orig []) 0) (seq 0 size); map (fun c => nth c (nth y orig []) 0) (seq 0 size)].
Proof. reflexivity. Qed.

Theorem int_decode_correct p q22 m id ip size orig data par s0 :
  ichecker p = true -> q22_ok p q22 -> nr_allowed p (length id) -> (i_kind p = KRec2of2 -> ip = [0; 1]%nat) ->
  sorted_lt id = true -> sorted_lt ip = true -> length ip = length id ->
  (forall d, In d id -> (d < 251)%nat) -> (forall q, In q ip -> (q < rows_of m)%nat) ->
  (forall x, (x < size)%nat -> rec_hyps m id ip (column orig x) (column data x) (column par x)) ->
  int_decode p q22 m id ip size data par s0 = Some (map (fun d => map (fun x => nth x (nth d orig []) 0) (seq 0 size)) id).
Proof.
  intros Hc Hq Ha H22 Hsid Hsip Hlip Hid251 Hipr Hcols.
  assert (Two : forall q, ichecker q = true -> i_kind q = KRec2of2 -> length id = 2%nat -> ip = [0; 1]%nat ->
            decode22 q m id size data par s0 = Some (map (fun d => map (fun x => nth x (nth d orig []) 0) (seq 0 size)) id)).
  { intros q Hcq Hkq Hl2 Eip. destruct id as [|x [|y [|z id']]]; try discriminate. subst ip.
    assert (Hxy : (x < y)%nat).
    { cbn [sorted_lt] in Hsid. apply andb_true_iff in Hsid. destruct Hsid as [Hs _]. apply Nat.ltb_lt. exact Hs. }
    rewrite lost_two. apply decode22_correct; try assumption. apply Hid251. right. left. reflexivity. }
  unfold int_decode. unfold nr_allowed in Ha. destruct (i_kind p) eqn:Ek.
  - destruct (i_fast p && is_p0 ip)%bool eqn:Ef.
    + apply andb_true_iff in Ef. destruct Ef as [_ Ep]. destruct ip as [|[|q] [|q' ip']]; try discriminate.
      destruct id as [|i0 [|i1 id']]; try discriminate. cbn [map nth]. f_equal. f_equal.
      apply map_ext_in. intros x Hx. apply in_seq in Hx.
      rewrite (rec1of1_hyps m i0 _ _ _ (Hcols x ltac:(lia))). cbn [nth]. apply Snap.Simd.RecProofs.column_nth.
    + apply inv_decode_correct; try assumption; [unfold nr_allowed; rewrite Ek; exact Ha|rewrite Ek; discriminate].
  - destruct (i_fast p && is_p01 ip)%bool eqn:Ef.
    + apply andb_true_iff in Ef. destruct Ef as [Ef Ep]. destruct (Hq Ek Ef) as [q [-> [Hcq Hkq]]].
      apply Two; try assumption. destruct ip as [|[|?] [|[|[|?]] [|? ?]]]; try discriminate. reflexivity.
    + apply inv_decode_correct; try assumption; [unfold nr_allowed; rewrite Ek; exact Ha|rewrite Ek; discriminate].
  - apply inv_decode_correct; try assumption; [unfold nr_allowed; rewrite Ek; exact Ha|rewrite Ek; discriminate].
  - apply Two; try assumption. apply H22. reflexivity.
Qed.

(* the family behind raid_rec_ptr[] *)
Definition prog_okb (k : ikind) (p : option iprog) : bool :=
  match p with
  | Some q => ichecker q && match i_kind q, k with KRec1, KRec1 | KRec2, KRec2 | KRecX, KRecX | KRec2of2, KRec2of2 => true | _, _ => false end
  | None => false
  end.
Definition fam_okb (f : family) : bool :=
  prog_okb KRec1 (fst (fst (fst f))) && prog_okb KRec2 (snd (fst (fst f))) && prog_okb KRecX (snd (fst f)) && prog_okb KRec2of2 (snd f).
Lemma prog_okb_ok k p : prog_okb k p = true -> exists q, p = Some q /\ ichecker q = true /\ i_kind q = k.
Proof.
  destruct p as [q|]; [|discriminate]. cbn [prog_okb]. intros H. apply andb_true_iff in H. destruct H as [H1 H2].
  exists q. split; [reflexivity|]. split; [exact H1|]. destruct (i_kind q), k; try discriminate; reflexivity.
Qed.

Theorem fam_decode_correct f m id ip size orig data par s0 :
  fam_okb f = true -> (1 <= length id <= 6)%nat ->
  sorted_lt id = true -> sorted_lt ip = true -> length ip = length id ->
  (forall d, In d id -> (d < 251)%nat) -> (forall q, In q ip -> (q < rows_of m)%nat) ->
  (forall x, (x < size)%nat -> rec_hyps m id ip (column orig x) (column data x) (column par x)) ->
  fam_decode f m id ip size data par s0 = Some (map (fun d => map (fun x => nth x (nth d orig []) 0) (seq 0 size)) id).
Proof.
  intros Hf Hn Hsid Hsip Hlip Hid251 Hipr Hcols. unfold fam_okb in Hf.
  apply andb_true_iff in Hf. destruct Hf as [Hf H4]. apply andb_true_iff in Hf. destruct Hf as [Hf H3].
  apply andb_true_iff in Hf. destruct Hf as [H1 H2].
  destruct (prog_okb_ok _ _ H1) as [p1 [E1 [C1 K1]]]. destruct (prog_okb_ok _ _ H2) as [p2 [E2 [C2 K2]]].
  destruct (prog_okb_ok _ _ H3) as [px [E3 [C3 K3]]]. destruct (prog_okb_ok _ _ H4) as [p22 [E4 [C4 K4]]].
  unfold fam_decode, fam_prog.
  destruct (length id) as [|[|[|n]]] eqn:El; [lia| | |]; cbv beta iota.
  - rewrite E1. apply int_decode_correct; try assumption; try (rewrite El; exact Hlip).
    + intros Hk. rewrite K1 in Hk. discriminate.
    + unfold nr_allowed. rewrite K1. exact El.
    + intros Hk. rewrite K1 in Hk. discriminate.
  - rewrite E2. apply int_decode_correct; try assumption; try (rewrite El; exact Hlip).
    + intros _ _. exists p22. auto.
    + unfold nr_allowed. rewrite K2. exact El.
    + intros Hk. rewrite K2 in Hk. discriminate.
  - rewrite E3. apply int_decode_correct; try assumption; try (rewrite El; exact Hlip).
    + intros Hk. rewrite K3 in Hk. discriminate.
    + unfold nr_allowed. rewrite K3. lia.
    + intros Hk. rewrite K3 in Hk. discriminate.
Qed.
