(* Semantics of the byte loops of the portable decoders (IntRecDefs.iprog).  Definitions only (extracted).

   Every subscript of a block in an accepted loop is exactly [i] (IntRecDefs), so iteration i reads and writes byte i
   of the buffers p[], pa[] and nothing else; the locals are declared inside the loop body (fresh garbage in every
   iteration).  The semantics is therefore given per COLUMN (one byte offset): [col_run] executes the loop body once
   on  pcol = the bytes p[k][i],  pacol = the bytes pa[k][i]  (read AND written: real state) and returns the new
   pa[k][i]; [exec_iloop] does this for every offset.  Counted loops over j, k are unrolled ([flat]): the bodies
   never assign j, k or N.  A table T<t> is gfmul[c] of the REGENERATED Gen.Tables, c = coefficient t of the vector
   V handed over by the C part; all values are uint8_t (reduced mod 256 wherever C stores them). *)
From Coq Require Import NArith List Bool Arith.
From Snap.Gen Require Import Tables.
From Snap.Raid Require Import GenModel RecModel.
From Snap.Simd Require Import SimdSem RecDefs RecSem.
From Snap.IntC Require Import IntRecDefs IntSem.
Import ListNotations.
Local Open Scope N_scope.

Fixpoint bflat_stmt (n j k : nat) (s : bstmt) : list (bstmt * (nat * nat)) :=
  match s with
  | BForJ b => flat_map (fun jj => flat_map (bflat_stmt n jj k) b) (seq 0 n)
  | BForK b => flat_map (fun kk => flat_map (bflat_stmt n j kk) b) (seq 0 n)
  | _ => [(s, (j, k))]
  end.
Definition bflat (n : nat) (b : list bstmt) : list (bstmt * (nat * nat)) := flat_map (bflat_stmt n O O) b.

Definition arr_base : nat := 32.                      (* PD[k] lives at local arr_base + k *)
Definition tflat (n : nat) (jk : nat * nat) (t : tidx) : nat :=
  match t with TAt m => m | TJK => (fst jk * n + snd jk)%nat end.

Record cenv := { ce_n : nat; ce_V : list N; ce_p : list N }.
Definition cstate := (venv * list N)%type.          (* locals, the bytes pa[k][i] *)

Fixpoint beval (e : cenv) (st : cstate) (jk : nat * nat) (x : bexpr) : N :=
  match x with
  | BVar v => b8 (nth v (fst st) 0)
  | BArr i => b8 (nth (arr_base + ival jk i) (fst st) 0)
  | BConst c => b8 c
  | BP b => b8 (nth (ival jk b) (ce_p e) 0)
  | BPa b => b8 (nth (ival jk b) (snd st) 0)
  | BXor a b => N.lxor (beval e st jk a) (beval e st jk b)
  | BTab t a => b8 (t_gfmul (nth (tflat (ce_n e) jk t) (ce_V e) 0) (beval e st jk a))
  end.

Definition bexec (e : cenv) (st : cstate) (x : bstmt * (nat * nat)) : cstate :=
  match fst x with
  | BSet v ex => (updN v (beval e st (snd x) ex) (fst st), snd st)
  | BSetArr i ex => (updN (arr_base + ival (snd x) i) (beval e st (snd x) ex) (fst st), snd st)
  | BStore b ex => (fst st, set_nth (ival (snd x) b) (beval e st (snd x) ex) (snd st))
  | _ => st
  end.

Definition loop_n (p : iprog) (nr : nat) : nat :=
  match i_kind p with KRec1 => 1%nat | KRec2 | KRec2of2 => 2%nat | KRecX => nr end.

Definition col_run (p : iprog) (nr : nat) (V pcol pacol : list N) (s0 : venv) : list N :=
  let n := loop_n p nr in
  snd (fold_left (bexec {| ce_n := n; ce_V := V; ce_p := pcol |}) (bflat n (i_body p)) (s0, pacol)).

(* the byte loop: pb = the buffers p[], pa0 = the buffers pa[] on entry, s0 c = the garbage in the locals in
   iteration c; result = the buffers pa[] on exit *)
Definition exec_iloop (p : iprog) (nr : nat) (V : list N) (pb pa0 : list block) (size : nat) (s0 : nat -> venv) : list block :=
  transpose (length pa0) (map (fun c => col_run p nr V (column pb c) (column pa0 c) (s0 c)) (seq 0 size)).
