(* Executable semantics of the portable generators (IntDefs.prog).  Definitions only: this file is extracted and
   the interpreter [exec_prog] is run against the real functions on every check (harness/py/c02_int.py), which
   validates translator + semantics against the compiled C.

   A local holds an unsigned word of W = wbytes bytes: a value in N, reduced mod 2^(8W) when it is read (C: the
   type cannot hold more; locals are uninitialised on entry, [s0] is whatever they held).  Loads assemble the word
   from W consecutive bytes of a data block, LITTLE-ENDIAN (byte at the lowest address = least significant, as on
   the machine the check runs on); stores split it the same way.  << and - wrap around mod 2^(8W) as C unsigned
   arithmetic does; the constants are < 2^(8W) (the translator refuses others).  Tables are read from the
   REGENERATED Gen.Tables through GenModel.t_gfmul / t_gfgen (raid_gfgen = gfcauchy or gfvandermonde by mode).
   The parity buffers are never read; stores are logged and applied at the end ([SimdSem.apply_log], exact because
   data and parity buffers do not overlap: caller's contract, outside the model). *)
From Coq Require Import NArith List Bool Arith.
From Snap.Gen Require Import Tables.
From Snap.Raid Require Import GenModel.
From Snap.Simd Require Import SimdDefs SimdSem.
From Snap.IntC Require Import IntDefs.
Import ListNotations.
Local Open Scope N_scope.

Definition wmod (w : nat) : N := 2 ^ (8 * N.of_nat w).
Definition wrap (w : nat) (x : N) : N := x mod wmod w.

(* little-endian assembly of bytes into a word, and back *)
Definition pack (bs : list N) : N := fold_right (fun b acc => b8 b + 256 * acc) 0 bs.
Definition lane (i : nat) (x : N) : N := b8 (N.shiftr x (8 * N.of_nat i)).
Definition unpack (w : nat) (x : N) : list N := map (fun i => lane i x) (seq 0 w).

Definition venv := list N.
Fixpoint updN (x : nat) (v : N) (s : venv) : venv :=
  match x, s with
  | O, [] => [v]
  | O, _ :: t => v :: t
  | S x', [] => 0 :: updN x' v []
  | S x', h :: t => h :: updN x' v t
  end.
Definition getv (w : nat) (s : venv) (x : nat) : N := wrap w (nth x s 0).

(* expressions without memory, calls and tables: the helper bodies *)
Section Eval.
  Variable w : nat.
  Variable load : dref -> nat -> N.
  Variable call : nat -> N -> N.
  Variable mulgen : N -> nat -> dref -> N.
  Fixpoint eval_gen (s : venv) (e : expr) : N :=
    match e with
    | EVar x => getv w s x
    | EConst c => wrap w c
    | ELoad r off => load r off
    | EXor a b => N.lxor (eval_gen s a) (eval_gen s b)
    | EAnd a b => N.land (eval_gen s a) (eval_gen s b)
    | EShl a k => wrap w (N.shiftl (eval_gen s a) k)
    | EShr a k => N.shiftr (eval_gen s a) k
    | ESub a b => wrap w (eval_gen s a + wmod w - eval_gen s b)
    | ECall h a => wrap w (call h (eval_gen s a))
    | EMulGen a j r => wrap w (mulgen (eval_gen s a) j r)
    end.
End Eval.

Definition heval (w : nat) : venv -> expr -> N := eval_gen w (fun _ _ => 0) (fun _ _ => 0) (fun _ _ _ => 0).
Definition run_helper (h : helper) (v : N) : N :=
  getv (h_w h) (fold_left (fun s xe => updN (fst xe) (heval (h_w h) s (snd xe)) s) (h_body h) [v]) (h_ret h).

Record env := { e_m : rmode; e_w : nat; e_hs : list helper; e_data : list block; e_l : nat; e_d : nat; e_base : nat }.
Definition disk_of (e : env) (r : dref) : nat := match r with Cur => e_d e | Last => e_l e | First => O end.
Definition dbyte (e : env) (r : dref) (x : nat) : N := nth x (nth (disk_of e r) (e_data e) []) 0.
Definition load (e : env) (r : dref) (off : nat) : N :=
  pack (map (fun i => dbyte e r (e_base e + off + i)) (seq 0 (e_w e))).
Definition call (e : env) (h : nat) (v : N) : N :=
  match nth_error (e_hs e) h with Some hd => run_helper hd v | None => 0 end.
Definition tabmul (m : rmode) (j d : nat) (b : N) : N := t_gfmul b (t_gfgen m (N.of_nat j) (N.of_nat d)).
Definition mulgen (e : env) (b : N) (j : nat) (r : dref) : N := tabmul (e_m e) j (disk_of e r) b.
Definition eval (e : env) : venv -> expr -> N := eval_gen (e_w e) (load e) (call e) (mulgen e).

Definition state := (venv * wlog)%type.
Definition exec_stmt (e : env) (st : state) (x : stmt) : state :=
  match x with
  | SAssign v ex => (updN v (eval e (fst st) ex) (fst st), snd st)
  | SStore j off ex => (fst st, (j, (e_base e + off)%nat, unpack (e_w e) (eval e (fst st) ex)) :: snd st)
  end.
(* a block starts with an empty log: the result is (locals, stores of this block), newest first *)
Definition exec_block (e : env) (b : list stmt) (s : venv) : state := fold_left (exec_stmt e) b (s, []).

Definition mkenv (m : rmode) (p : prog) (data : list block) (l d base : nat) : env :=
  {| e_m := m; e_w := wbytes p; e_hs := helpers p; e_data := data; e_l := l; e_d := d; e_base := base |}.

(* the disks visited by `for (d = l - from; d >= lo; --d)` (none when l - from < lo) *)
Definition disks (from lo l : nat) : list nat := rev (seq lo (S l - from - lo)).

Definition loop_step (m : rmode) (p : prog) (data : list block) (l base : nat) (st : state) (d : nat) : state :=
  let r := exec_block (mkenv m p data l d base) (loop_body p) (fst st) in (fst r, snd r ++ snd st).

Definition run_chunk (m : rmode) (p : prog) (data : list block) (l : nat) (st : state) (c : nat) : state :=
  let base := (c * step p)%nat in
  let st1 := exec_block (mkenv m p data l l base) (chunk_init p) (fst st) in
  let st2 := fold_left (loop_step m p data l base) (disks (loop_from p) (loop_lo p) l) st1 in
  let st3 := exec_block (mkenv m p data l O base) (chunk_fini p) (fst st2) in
  (fst st3, snd st3 ++ snd st2 ++ snd st).

(* s0 = the locals on entry (arbitrary), old = the np parity buffers before the call *)
Definition exec_prog (m : rmode) (p : prog) (data : list block) (size : nat) (s0 : venv) (old : list block) : list block :=
  let l := (length data - 1)%nat in
  apply_log (snd (fold_left (run_chunk m p data l) (seq 0 (nchunks size (step p))) (s0, []))) old.
