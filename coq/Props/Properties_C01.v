(* C01 -- Complete recovery from any loss within the parity level.
   Statements only; model: Fix/FixModel.v (check.c repair / repair_step / state_check_process); proofs: Fix/RepairProofs.v,
   Fix/StripeProofs.v.  The invariant of C06 is reused through Array/SyncProofsDefs.v (slot_of, stripe_synced, enc_ok: the
   vector v that ParOK gives for a synced stripe).

   Vocabulary (Fix/RepairProofs.v):
     fm_ok fm buf        the entries to recover are not marked out-of-date, have a recorded hash (BLK/REP), index the buffer
     hv_ok fm v          the recorded vector v passes the hash test of every entry (hash over the block length + zero padding)
     cf_junk fm          collision freedom, part 1: a junk reconstruction (id >= JBASE) never passes a hash test
     cf_rec fm rec v     collision freedom, part 2: a block (at any position: with plain xor parity a block MOVED inside the stripe
                         can come out, FixModel.reconstruct) of a vector encoded by one of the parity blocks READ passes the
                         hash test of an entry only if it is the recorded block of that entry (finite: the blocks in `rec`)
     cf_vec fm v         collision freedom, part 3: a block of the recorded vector v at ANOTHER disk position (with plain xor
                         parity and a stale parity block the data read from another disk can come out: the xor of the
                         blocks cancels, FixModel.reconstruct / xor_ids) passes the hash test of an entry only if it is the
                         recorded block of that entry
     cf_search ...       a block fetched from another file of the array (state_search_fetch) is the recorded one; in the stripe
                         theorems it is assumed for ANY file system fsx: the search reads the candidates as they are when it looks
                         (FixModel.search_view: what fix wrote meanwhile is seen, a vanished candidate does not match)
     good_level v rec l  the parity block read for level l is the encoding of v
     restored F v b b'   b' = b with the positions of F replaced by v;  full v b b' : b' = v on the whole buffer
     blk_failed          the failed set of a stripe whose blocks are all BLK: bad entries with a recorded hash *)
From Coq Require Import NArith ZArith List Bool Arith Lia.
From Snap.Array Require Import ArrayDefs.
From Snap.Array Require Import SyncProofsDefs.
From Snap.Fix Require Import FixModel RepairProofs StripeProofs Examples.
Import ListNotations.

(* 1. repair_step (strategy with hashes) tries the parity combinations in order, rejects every combination that contains
      a damaged level, and succeeds with the recorded blocks as soon as |failed| intact levels exist: any number of
      disks, any number of levels, any failed set *)
Theorem C01_repair_step_good :
  forall (hashf : bid -> N -> hval) (padz : bid -> N -> bool) (bs : N) (nlev pos : nat) (fm : list fent) (rec : list penc)
         (v buf : list bid) (jn : N),
    fm_ok fm buf -> hv_ok hashf padz bs fm v -> cf_junk hashf padz bs fm -> cf_rec hashf padz bs fm rec v -> cf_vec hashf padz bs fm v ->
    agree_out (map fe_idx fm) v buf = true ->
    length fm <= length (filter (good_level v rec) (seq 0 nlev)) ->
    exists buf' jn' tags,
      repair_step hashf padz bs nlev pos fm rec buf jn = (ROk, buf', jn', tags)
      /\ restored (map fe_idx fm) v buf buf'.
Proof. exact repair_step_good. Qed.
Print Assumptions C01_repair_step_good.

(* 2. repair on a stripe whose blocks are all BLK: with at most (number of intact levels) bad blocks the whole buffer
      becomes the recorded vector, nothing is marked out-of-date (so nothing is reported unrecoverable) *)
Theorem C01_repair_restores :
  forall (hashf : bid -> N -> hval) (padz : bid -> N -> bool) (bs : N) (nlev : nat) (reduced : bool) (pos : nat)
         (nosearch : bool) (fs0 : list (option fsdisk)) (failed : list fent) (rec : list penc) (v buf : list bid) (jn : N),
    blk_failed failed buf ->
    hv_ok hashf padz bs failed v -> cf_junk hashf padz bs failed -> cf_rec hashf padz bs failed rec v -> cf_vec hashf padz bs failed v ->
    cf_search hashf bs nosearch fs0 failed v ->
    agree_out (map fe_idx failed) v buf = true ->
    length failed <= length (filter (good_level v rec) (seq 0 nlev)) ->
    exists buf' jn' tags,
      repair hashf padz bs nlev reduced pos nosearch fs0 failed rec buf jn = (ROk, failed, buf', jn', tags)
      /\ full v buf buf'.
Proof. exact repair_restores. Qed.
Print Assumptions C01_repair_restores.

(* 3. fix_restores, per stripe (the step function of the model: state_check_process for one stripe position, fix mode, no
      filters).  Hypotheses: the stripe is synced (all blocks BLK; C06's stripe_synced), v is the recorded vector (C06's
      enc_ok, which ParOK provides), recorded blocks are zero padded, no file of the stripe is LARGER than recorded (every
      other state is allowed: missing, short, any content), collision freedom on the blocks involved (the damaged blocks
      read, the junk reconstructions, the vectors encoded by the parity blocks read, the blocks of same-stamp files that
      state_search_fetch may pick), and the number of damaged data blocks does not exceed the number of intact parity
      levels (i.e. at most nlev damaged blocks in the stripe, data and parity together).
      Conclusion: every file block of the stripe holds the recorded block (the file is there and long enough), every
      level holds the encoding of the recorded vector, no unrecoverable error is counted, no file is marked DAMAGED
      (so none is renamed .unrecoverable) *)
Theorem C01_fix_step_restores :
  forall (hashf : bid -> N -> hval) (padz : bid -> N -> bool) (truncf : bid -> N -> bid) (bs : N) (nlev : nat) (reduced : bool)
         (newino : nat -> N -> N) (now : Z) (o : copts) (c : content) (fs0 : list (option fsdisk)) (pos : nat) (s : rstate) (v : list bid),
    plain nlev o -> co_fix o = true -> stripe_synced c pos -> length (r_fs s) = length (c_disks c) ->
    (forall j f idx b, slot_of c pos j = SFile f idx b ->
       (0 < block_len bs (cf_size f) idx)%N
       /\ (forall g, fs_find (r_fs s) j (cf_name f) = Some g -> (ff_size g <= cf_size f)%N)
       /\ (co_fix o = true \/ fl_missing (get_fl (r_flags s) (j, cf_name f)) = false \/ fs_find (r_fs s) j (cf_name f) = None)) ->
    enc_ok hashf bs c pos v ->
    (forall j f idx b, slot_of c pos j = SFile f idx b -> pad_ok padz bs (vnth v j) (block_len bs (cf_size f) idx) = true) ->
    (forall j f idx b y, slot_of c pos j = SFile f idx b -> read_block bs s j f idx = Some y -> hash_ok hashf bs f idx b y = true -> y = vnth v j) ->
    cf_junk hashf padz bs (flat_map (fent_of hashf bs c pos s) (seq 0 (length (c_disks c)))) ->
    cf_rec hashf padz bs (flat_map (fent_of hashf bs c pos s) (seq 0 (length (c_disks c)))) (map (prow (r_par s) pos) (seq 0 nlev)) v ->
    cf_vec hashf padz bs (flat_map (fent_of hashf bs c pos s) (seq 0 (length (c_disks c)))) v ->
    (forall fsx, cf_search hashf bs (co_nosearch o) fsx (flat_map (fent_of hashf bs c pos s) (seq 0 (length (c_disks c)))) v) ->
    length (filter (is_bad hashf bs c pos s) (seq 0 (length (c_disks c))))
      <= length (filter (good_level v (map (prow (r_par s) pos) (seq 0 nlev))) (seq 0 nlev)) ->
    nlev <= length (r_par s) ->
    (forall j f idx b, slot_of c pos j = SFile f idx b -> fl_damaged (get_fl (r_flags s) (j, cf_name f)) = false) ->
    (forall j f idx b, slot_of c pos j = SFile f idx b -> (N.of_nat idx * bs + block_len bs (cf_size f) idx <= cf_size f)%N) ->
    let s' := stripe_step hashf padz truncf bs nlev reduced newino now o c fs0 s pos in
    (forall j f idx b, slot_of c pos j = SFile f idx b ->
       exists g, fs_find (r_fs s') j (cf_name f) = Some g /\ nth idx (ff_blocks g) 0%N = vnth v j
                 /\ (N.of_nat idx * bs + block_len bs (cf_size f) idx <= ff_size g)%N /\ (ff_size g <= cf_size f)%N)
    /\ (forall l, l < nlev -> par_matches v (prow (r_par s') pos l) = true)
    /\ r_unrec s' = r_unrec s
    /\ keeps_damaged s s'
    /\ length (r_fs s') = length (r_fs s).
Proof. exact fix_step_restores. Qed.
Print Assumptions C01_fix_step_restores.

(* 4. ... and a following check of the stripe (a new run: fresh flags and counters, no filters) reports nothing, counts no
      error and changes nothing *)
Theorem C01_fix_then_check_quiet :
  forall (hashf : bid -> N -> hval) (padz : bid -> N -> bool) (truncf : bid -> N -> bid) (bs : N) (nlev : nat) (reduced : bool)
         (newino : nat -> N -> N) (now : Z) (o : copts) (c : content) (fs0 : list (option fsdisk)) (pos : nat) (s : rstate) (v : list bid),
    plain nlev o -> co_fix o = true -> stripe_synced c pos -> length (r_fs s) = length (c_disks c) ->
    (forall j f idx b, slot_of c pos j = SFile f idx b ->
       (0 < block_len bs (cf_size f) idx)%N
       /\ (forall g, fs_find (r_fs s) j (cf_name f) = Some g -> (ff_size g <= cf_size f)%N)
       /\ (co_fix o = true \/ fl_missing (get_fl (r_flags s) (j, cf_name f)) = false \/ fs_find (r_fs s) j (cf_name f) = None)) ->
    enc_ok hashf bs c pos v ->
    (forall j f idx b, slot_of c pos j = SFile f idx b -> pad_ok padz bs (vnth v j) (block_len bs (cf_size f) idx) = true) ->
    (forall j f idx b y, slot_of c pos j = SFile f idx b -> read_block bs s j f idx = Some y -> hash_ok hashf bs f idx b y = true -> y = vnth v j) ->
    cf_junk hashf padz bs (flat_map (fent_of hashf bs c pos s) (seq 0 (length (c_disks c)))) ->
    cf_rec hashf padz bs (flat_map (fent_of hashf bs c pos s) (seq 0 (length (c_disks c)))) (map (prow (r_par s) pos) (seq 0 nlev)) v ->
    cf_vec hashf padz bs (flat_map (fent_of hashf bs c pos s) (seq 0 (length (c_disks c)))) v ->
    (forall fsx, cf_search hashf bs (co_nosearch o) fsx (flat_map (fent_of hashf bs c pos s) (seq 0 (length (c_disks c)))) v) ->
    length (filter (is_bad hashf bs c pos s) (seq 0 (length (c_disks c))))
      <= length (filter (good_level v (map (prow (r_par s) pos) (seq 0 nlev))) (seq 0 nlev)) ->
    nlev <= length (r_par s) ->
    (forall j f idx b, slot_of c pos j = SFile f idx b -> fl_damaged (get_fl (r_flags s) (j, cf_name f)) = false) ->
    (forall j f idx b, slot_of c pos j = SFile f idx b -> (N.of_nat idx * bs + block_len bs (cf_size f) idx <= cf_size f)%N) ->
    forall o' : copts, plain nlev o' -> co_fix o' = false ->
    (forall j f idx b, slot_of c pos j = SFile f idx b -> (0 < block_len bs (cf_size f) idx)%N) ->
    let s' := stripe_step hashf padz truncf bs nlev reduced newino now o c fs0 s pos in
    let s0 := mkRS (r_fs s') [] (r_par s') 0 0 0 [] 0%N in
    let s'' := stripe_step hashf padz truncf bs nlev reduced newino now o' c (r_fs s') s0 pos in
    r_tags s'' = [] /\ r_err s'' = 0 /\ r_unrec s'' = 0 /\ r_fs s'' = r_fs s' /\ r_par s'' = r_par s'.
Proof. exact fix_then_check_quiet. Qed.
Print Assumptions C01_fix_then_check_quiet.

(* Non-vacuity: a stripe of two data disks and two parity levels with the file of disk 0 missing and level 1 overwritten
   satisfies every hypothesis of C01_fix_step_restores (Fix/Examples.v proves them one by one and applies the theorem) *)
Example C01_example_fix_restores :
  let s' := stripe_step x_hashf x_padz x_truncf x_bs 2 false x_newino 999 x_fix x_c x_fs x_s 0 in
  (forall j f idx b, slot_of x_c 0 j = SFile f idx b ->
     exists g, fs_find (r_fs s') j (cf_name f) = Some g /\ nth idx (ff_blocks g) 0%N = vnth x_v j
               /\ (N.of_nat idx * x_bs + block_len x_bs (cf_size f) idx <= ff_size g)%N /\ (ff_size g <= cf_size f)%N)
  /\ (forall l, l < 2 -> par_matches x_v (prow (r_par s') 0 l) = true)
  /\ r_unrec s' = r_unrec x_s /\ keeps_damaged x_s s' /\ length (r_fs s') = length (r_fs x_s).
Proof. exact x_fix_restores. Qed.
Print Assumptions C01_example_fix_restores.
