(* C01 -- Complete recovery from any loss within the parity level.
   Statements only; model: Fix/FixModel.v (check.c repair / repair_step / state_check_process); proofs: Fix/RepairProofs.v.

   Vocabulary (Fix/RepairProofs.v):
     fm_ok fm buf        the entries to recover are not marked out-of-date, have a recorded hash (BLK/REP), index the buffer
     hv_ok fm v          the recorded vector v passes the hash test of every entry (hash over the block length + zero padding)
     cf_junk fm          collision freedom, part 1: a junk reconstruction (id >= JBASE) never passes a hash test
     cf_rec fm rec v     collision freedom, part 2: a block of a vector encoded by one of the parity blocks READ passes the
                         hash test of an entry only if it is the recorded block (finite: the blocks in `rec`)
     cf_search ...       a block fetched from another file of the array (state_search_fetch) is the recorded one
     good_level v rec l  the parity block read for level l is the encoding of v
     restored F v b b'   b' = b with the positions of F replaced by v;  full v b b' : b' = v on the whole buffer
     blk_failed          the failed set of a stripe whose blocks are all BLK: bad entries with a recorded hash *)
From Coq Require Import NArith ZArith List Bool Arith Lia.
From Snap.Array Require Import ArrayDefs.
From Snap.Fix Require Import FixModel RepairProofs.
Import ListNotations.

(* 1. repair_step (strategy with hashes) tries the parity combinations in order, rejects every combination that contains
      a damaged level, and succeeds with the recorded blocks as soon as |failed| intact levels exist: any number of
      disks, any number of levels, any failed set *)
Theorem C01_repair_step_good :
  forall (hashf : bid -> N -> hval) (padz : bid -> N -> bool) (bs : N) (nlev pos : nat) (fm : list fent) (rec : list penc)
         (v buf : list bid) (jn : N),
    fm_ok fm buf -> hv_ok hashf padz bs fm v -> cf_junk hashf padz bs fm -> cf_rec hashf padz bs fm rec v ->
    agree_out (map fe_idx fm) v buf = true ->
    length fm <= length (filter (good_level v rec) (seq 0 nlev)) ->
    exists buf' jn' tags,
      repair_step hashf padz bs nlev pos fm rec buf jn = (ROk, buf', jn', tags)
      /\ restored (map fe_idx fm) v buf buf'.
Proof. exact repair_step_good. Qed.
Print Assumptions C01_repair_step_good.

(* 2. repair on a stripe whose blocks are all BLK: with at most (number of intact levels) bad blocks the whole buffer
      becomes the recorded vector, nothing is marked out-of-date (so nothing is reported unrecoverable) *)
Theorem C01_repair_restores :
  forall (hashf : bid -> N -> hval) (padz : bid -> N -> bool) (bs : N) (nlev : nat) (reduced : bool) (pos : nat)
         (nosearch : bool) (fs0 : list (option fsdisk)) (failed : list fent) (rec : list penc) (v buf : list bid) (jn : N),
    blk_failed failed buf ->
    hv_ok hashf padz bs failed v -> cf_junk hashf padz bs failed -> cf_rec hashf padz bs failed rec v ->
    cf_search hashf bs nosearch fs0 failed v ->
    agree_out (map fe_idx failed) v buf = true ->
    length failed <= length (filter (good_level v rec) (seq 0 nlev)) ->
    exists buf' jn' tags,
      repair hashf padz bs nlev reduced pos nosearch fs0 failed rec buf jn = (ROk, failed, buf', jn', tags)
      /\ full v buf buf'.
Proof. exact repair_restores. Qed.
Print Assumptions C01_repair_restores.
