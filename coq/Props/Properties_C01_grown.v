(* C01 -- Complete recovery from any loss within the parity level: THE WHOLE RUN, FILES LARGER THAN RECORDED INCLUDED.
   Statements only.  These are the whole-run statements of Props/Properties_C01_run.v WITHOUT the hypothesis `no_larger`: a file
   on disk may be larger than recorded by any amount, the excess is arbitrary, the blocks inside the recorded size may be damaged
   too (within the per-stripe bound of `recoverable`: at most as many damaged data blocks as intact parity levels).  Since
   /repo 993feac the first open of such a file in a fix run cuts it back to its recorded size, reports Size error + Fixed size,
   counts one error recovered and flags the file FIXED (C01_fix_open_truncates_grown_file), so that file_post gives it its
   recorded time-stamp back at its last block (C01_fix_post_restores_stamp).

   Proofs: Fix/GrownProofs.v.  Route: a simulation argument, stripe by stripe.  The loop over the disks of a stripe started in a
   state where not-yet-opened files of the stripe are larger than recorded ends in a state s1 where they are cut back
   (data_phase_G); seen from s1 -- which satisfies the hypotheses of the no_larger development -- the buffer, the failed list and
   the files are what the loop would have produced when started in s1, and the rest of the step is the one analysed by
   StripeProofs.v fix_step_full, replayed with the start state decoupled from the reference state (fix_step_full_T); the result
   is read back in terms of the start state (fix_step_grown = statement 0 below).  The run invariant of RunProofs.v is
   generalised: a file may be larger than recorded as long as it was never opened (rinvG).
   Vocabulary: Props/Properties_C01_run.v (synced_array, recoverable, objs_ok, restored, obj_good, uniq_stamp).
   Non-vacuity: Fix/GrownExamples.v. *)
From Coq Require Import NArith ZArith List Bool Arith Lia.
From Snap.Array Require Import ArrayDefs.
From Snap.Array Require Import SyncProofsDefs.
From Snap.Fix Require Import FixModel RepairProofs StripeProofs RunProofs Examples GrownProofs GrownExamples.
Import ListNotations.

(* 0. one stripe: files of the stripe may be larger than recorded provided they were never opened in this run.  The step restores
      the stripe (data and parity), counts nothing unrecoverable, flags nothing damaged; files without a block in the stripe are
      not touched (nor their FIXED / OPENED flags); of a file of the stripe the other blocks inside the recorded size stay, its
      size is cut to the recorded one and then grows at most to the end of the block written; FIXED is set exactly on the files
      cut back or written; at its last block a FIXED file gets its recorded time-stamp back *)
Theorem C01_fix_step_restores_grown :
  forall (hashf : bid -> N -> hval) (padz : bid -> N -> bool) (truncf : bid -> N -> bid) (bs : N) (nlev : nat) (reduced : bool)
         (newino : nat -> N -> N) (now : Z) (o : copts) (c : content) (fs0 : list (option fsdisk)) (pos : nat) (sA : rstate) (v : list bid),
    plain nlev o -> co_fix o = true -> stripe_synced c pos -> length (r_fs sA) = length (c_disks c) ->
    (forall j f idx b, slot_of c pos j = SFile f idx b ->
       (0 < block_len bs (cf_size f) idx)%N /\ (N.of_nat idx * bs + block_len bs (cf_size f) idx <= cf_size f)%N
       /\ (forall g, fs_find (r_fs sA) j (cf_name f) = Some g -> (cf_size f < ff_size g)%N ->
                     fl_opened (get_fl (r_flags sA) (j, cf_name f)) = false)) ->
    enc_ok hashf bs c pos v ->
    (forall j f idx b, slot_of c pos j = SFile f idx b -> pad_ok padz bs (vnth v j) (block_len bs (cf_size f) idx) = true) ->
    (forall j f idx b y, slot_of c pos j = SFile f idx b -> read_block bs sA j f idx = Some y -> hash_ok hashf bs f idx b y = true -> y = vnth v j) ->
    let n := length (c_disks c) in
    let rec := map (prow (r_par sA) pos) (seq 0 nlev) in
    let failed := flat_map (fent_of hashf bs c pos sA) (seq 0 n) in
    cf_junk hashf padz bs failed -> cf_rec hashf padz bs failed rec v -> cf_vec hashf padz bs failed v ->
    (forall fsx, cf_search hashf bs (co_nosearch o) fsx failed v) ->
    length (filter (is_bad hashf bs c pos sA) (seq 0 n)) <= length (filter (good_level v rec) (seq 0 nlev)) ->
    nlev <= length (r_par sA) ->
    (forall j f idx b, slot_of c pos j = SFile f idx b -> fl_damaged (get_fl (r_flags sA) (j, cf_name f)) = false) ->
    let s' := stripe_step hashf padz truncf bs nlev reduced newino now o c fs0 sA pos in
    (forall j f idx b, slot_of c pos j = SFile f idx b ->
       exists g, fs_find (r_fs s') j (cf_name f) = Some g /\ nth idx (ff_blocks g) 0%N = vnth v j
                 /\ (N.of_nat idx * bs + block_len bs (cf_size f) idx <= ff_size g)%N /\ (ff_size g <= cf_size f)%N)
    /\ (forall l, l < nlev -> par_matches v (prow (r_par s') pos l) = true)
    /\ r_unrec s' = r_unrec sA
    /\ keeps_damaged sA s'
    /\ length (r_fs s') = length (r_fs sA)
    /\ (forall l p, p <> pos -> nth p (nth l (r_par s') []) PNone = nth p (nth l (r_par sA) []) PNone)
    /\ length (r_par s') = length (r_par sA)
    /\ (forall j' n', (forall f idx b, slot_of c pos j' = SFile f idx b -> cf_name f <> n') ->
                      fs_find (r_fs s') j' n' = fs_find (r_fs sA) j' n'
                      /\ fl_fixed (get_fl (r_flags s') (j', n')) = fl_fixed (get_fl (r_flags sA) (j', n'))
                      /\ fl_opened (get_fl (r_flags s') (j', n')) = fl_opened (get_fl (r_flags sA) (j', n')))
    /\ (forall j f idx b, slot_of c pos j = SFile f idx b ->
          (forall i, i <> idx -> i < nblocks bs (cf_size f) -> fblk (r_fs s') j (cf_name f) i = fblk (r_fs sA) j (cf_name f) i)
          /\ (N.min (fsz (r_fs sA) j (cf_name f)) (cf_size f) <= fsz (r_fs s') j (cf_name f))%N
          /\ (fsz (r_fs s') j (cf_name f) <= N.max (N.min (fsz (r_fs sA) j (cf_name f)) (cf_size f)) (N.of_nat idx * bs + block_len bs (cf_size f) idx))%N
          /\ fl_fixed (get_fl (r_flags s') (j, cf_name f))
             = fl_fixed (get_fl (r_flags sA) (j, cf_name f)) || grownb c pos sA j || is_bad hashf bs c pos sA j
          /\ (is_bad hashf bs c pos sA j = false -> grownb c pos sA j = false -> fl_fixed (get_fl (r_flags sA) (j, cf_name f)) = false ->
              fs_find (r_fs s') j (cf_name f) = fs_find (r_fs sA) j (cf_name f))
          /\ (uniq_stamp c j f -> S idx = length (cf_blocks f) -> fl_fixed (get_fl (r_flags s') (j, cf_name f)) = true ->
              exists g, fs_find (r_fs s') j (cf_name f) = Some g /\ ff_mtime g = cf_mtime f /\ ff_nsec g = cf_nsec f)).
Proof. exact fix_step_grown. Qed.
Print Assumptions C01_fix_step_restores_grown.

(* 1. fix, the whole array, files larger than recorded allowed: any damage that leaves, in every stripe, at most as many damaged
      data blocks as intact parity levels is repaired completely: every recorded file exists with EXACTLY its recorded size and
      content, every parity block of every level encodes the recorded data, nothing is unrecoverable, no file is flagged damaged,
      exit status 0.  (C01_fix_run_restores of Properties_C01_run.v without `no_larger c fs`.) *)
Theorem C01_fix_run_restores_grown :
  forall (hashf : bid -> N -> hval) (padz : bid -> N -> bool) (truncf : bid -> N -> bid) (bs : N) (nlev : nat) (reduced : bool)
         (newino : nat -> N -> N) (now : Z) (o : copts) (c : content) (bm : nat) (fs : list (option fsdisk)) (par : parity)
         (vs : nat -> list bid) (objs : list obj),
    plain nlev o -> co_fix o = true -> synced_array hashf padz bs c bm vs ->
    length fs = length (c_disks c) -> nlev <= length par ->
    recoverable hashf padz bs nlev (co_nosearch o) c bm fs par vs -> objs_ok c objs ->
    let out := check_run hashf padz truncf bs nlev reduced newino now o c par fs objs (seq 0 bm) in
    restored nlev c bm vs (r_fs (out_st out)) (r_par (out_st out))
    /\ out_fail out = false /\ r_unrec (out_st out) = 0
    /\ (forall key, fl_damaged (get_fl (r_flags (out_st out)) key) = false)
    /\ length (r_par (out_st out)) = length par.
Proof. exact run_fix_restores_grown. Qed.
Print Assumptions C01_fix_run_restores_grown.

(* 2. the time-stamps: after the run every file with blocks has its recorded size and is either exactly the file it was before
      the run (never written, not larger than recorded) or carries its recorded time-stamp *)
Theorem C01_fix_run_stamps_grown :
  forall (hashf : bid -> N -> hval) (padz : bid -> N -> bool) (truncf : bid -> N -> bid) (bs : N) (nlev : nat) (reduced : bool)
         (newino : nat -> N -> N) (now : Z) (o : copts) (c : content) (bm : nat) (fs : list (option fsdisk)) (par : parity)
         (vs : nat -> list bid) (objs : list obj),
    plain nlev o -> co_fix o = true -> synced_array hashf padz bs c bm vs ->
    length fs = length (c_disks c) -> nlev <= length par ->
    recoverable hashf padz bs nlev (co_nosearch o) c bm fs par vs -> objs_ok c objs ->
    let out := check_run hashf padz truncf bs nlev reduced newino now o c par fs objs (seq 0 bm) in
    forall p j f i b, slot_of c p j = SFile f i b -> uniq_stamp c j f ->
      exists g, fs_find (r_fs (out_st out)) j (cf_name f) = Some g /\ ff_size g = cf_size f
                /\ ((ff_mtime g = cf_mtime f /\ ff_nsec g = cf_nsec f) \/ fs_find fs j (cf_name f) = Some g).
Proof. exact run_fix_stamps_grown. Qed.
Print Assumptions C01_fix_run_stamps_grown.

(* 3. a file that WAS larger than recorded: after the run it has its recorded size, every one of its blocks is the recorded block
      and, when no other file of the disk has its size and time-stamp, it carries its recorded time-stamp (not the time of the cut) *)
Theorem C01_fix_run_grown_file :
  forall (hashf : bid -> N -> hval) (padz : bid -> N -> bool) (truncf : bid -> N -> bid) (bs : N) (nlev : nat) (reduced : bool)
         (newino : nat -> N -> N) (now : Z) (o : copts) (c : content) (bm : nat) (fs : list (option fsdisk)) (par : parity)
         (vs : nat -> list bid) (objs : list obj),
    plain nlev o -> co_fix o = true -> synced_array hashf padz bs c bm vs ->
    length fs = length (c_disks c) -> nlev <= length par ->
    recoverable hashf padz bs nlev (co_nosearch o) c bm fs par vs -> objs_ok c objs ->
    let out := check_run hashf padz truncf bs nlev reduced newino now o c par fs objs (seq 0 bm) in
    forall p j f i b g0, slot_of c p j = SFile f i b -> fs_find fs j (cf_name f) = Some g0 -> (cf_size f < ff_size g0)%N ->
      exists g, fs_find (r_fs (out_st out)) j (cf_name f) = Some g /\ ff_size g = cf_size f
                /\ (forall p' i' b', slot_of c p' j = SFile f i' b' -> nth i' (ff_blocks g) 0%N = vnth (vs p') j)
                /\ (uniq_stamp c j f -> ff_mtime g = cf_mtime f /\ ff_nsec g = cf_nsec f).
Proof. exact run_fix_grown_file. Qed.
Print Assumptions C01_fix_run_grown_file.

(* 4. the empty files and hard links of the run are in order afterwards *)
Theorem C01_fix_run_objects_grown :
  forall (hashf : bid -> N -> hval) (padz : bid -> N -> bool) (truncf : bid -> N -> bid) (bs : N) (nlev : nat) (reduced : bool)
         (newino : nat -> N -> N) (now : Z) (o : copts) (c : content) (bm : nat) (fs : list (option fsdisk)) (par : parity)
         (vs : nat -> list bid) (objs : list obj),
    plain nlev o -> co_fix o = true -> synced_array hashf padz bs c bm vs ->
    length fs = length (c_disks c) -> nlev <= length par ->
    recoverable hashf padz bs nlev (co_nosearch o) c bm fs par vs -> objs_ok c objs ->
    (forall ob, In ob objs -> ob_disk ob < length (c_disks c)) -> NoDup (map okey objs) ->
    let out := check_run hashf padz truncf bs nlev reduced newino now o c par fs objs (seq 0 bm) in
    forall ob, In ob objs -> ob_kind ob = KEmpty \/ ob_kind ob = KHard -> obj_good (r_fs (out_st out)) ob.
Proof. exact run_fix_objects_grown. Qed.
Print Assumptions C01_fix_run_objects_grown.

(* 5. ... and a following check of the whole array reports nothing and changes nothing *)
Theorem C01_fix_run_grown_then_check_quiet :
  forall (hashf : bid -> N -> hval) (padz : bid -> N -> bool) (truncf : bid -> N -> bid) (bs : N) (nlev : nat) (reduced : bool)
         (newino : nat -> N -> N) (now : Z) (o o' : copts) (c : content) (bm : nat) (fs : list (option fsdisk)) (par : parity)
         (vs : nat -> list bid) (objs objs' : list obj),
    plain nlev o -> co_fix o = true -> synced_array hashf padz bs c bm vs ->
    length fs = length (c_disks c) -> nlev <= length par ->
    recoverable hashf padz bs nlev (co_nosearch o) c bm fs par vs -> objs_ok c objs ->
    plain nlev o' -> co_fix o' = false ->
    let out := check_run hashf padz truncf bs nlev reduced newino now o c par fs objs (seq 0 bm) in
    (forall ob, In ob objs' -> obj_good (r_fs (out_st out)) ob) ->
    let out' := check_run hashf padz truncf bs nlev reduced newino now o' c (r_par (out_st out)) (r_fs (out_st out)) objs' (seq 0 bm) in
    r_tags (out_st out') = [] /\ r_err (out_st out') = 0 /\ r_unrec (out_st out') = 0 /\ out_fail out' = false
    /\ r_fs (out_st out') = r_fs (out_st out) /\ r_par (out_st out') = r_par (out_st out).
Proof. exact run_fix_grown_then_check_quiet. Qed.
Print Assumptions C01_fix_run_grown_then_check_quiet.

(* Non-vacuity (Fix/GrownExamples.v), on the one-stripe array of Fix/Examples.v (two disks, two levels):
   a. the grown-file state of C01_example_grown_file_restored (file 1 has 2048 bytes for 1024 recorded, time-stamp 200 for 100,
      recorded block intact): every hypothesis of statement 1 holds, no_larger does not;
   b. the same with the recorded block of the grown file overwritten as well (block 77 for 11): idem; the theorem for grown files
      (statement 3) gives size 1024, block 11, time-stamp 100; the run computed agrees (Size error, Fixed size, Data error, Fixed
      data error, recovered; exit 0; a following check is silent) *)
Example C01_example_grown_run_restores :
  let out := check_run x_hashf x_padz x_truncf x_bs 2 false x_newino 999 x_fix x_c x_par_ok gx0_fs [] (seq 0 1) in
  ~ no_larger x_c gx0_fs
  /\ restored 2 x_c 1 gx_vs (r_fs (out_st out)) (r_par (out_st out))
  /\ out_fail out = false /\ r_unrec (out_st out) = 0
  /\ (forall key, fl_damaged (get_fl (r_flags (out_st out)) key) = false)
  /\ length (r_par (out_st out)) = length x_par_ok.
Proof. exact gx0_fix_run_restores. Qed.
Print Assumptions C01_example_grown_run_restores.

Example C01_example_grown_damaged_run_restores :
  let out := check_run x_hashf x_padz x_truncf x_bs 2 false x_newino 999 x_fix x_c x_par_ok gx_fs [] (seq 0 1) in
  ~ no_larger x_c gx_fs
  /\ restored 2 x_c 1 gx_vs (r_fs (out_st out)) (r_par (out_st out))
  /\ out_fail out = false /\ r_unrec (out_st out) = 0
  /\ (forall key, fl_damaged (get_fl (r_flags (out_st out)) key) = false)
  /\ length (r_par (out_st out)) = length x_par_ok.
Proof. exact gx_fix_run_restores. Qed.
Print Assumptions C01_example_grown_damaged_run_restores.

Example C01_example_grown_damaged_file :
  let out := check_run x_hashf x_padz x_truncf x_bs 2 false x_newino 999 x_fix x_c x_par_ok gx_fs [] (seq 0 1) in
  exists g, fs_find (r_fs (out_st out)) 0 1%N = Some g /\ ff_size g = 1024%N /\ nth 0 (ff_blocks g) 0%N = 11%N
            /\ ff_mtime g = 100%Z /\ ff_nsec g = 0%Z.
Proof. exact gx_fix_run_grown_file. Qed.
Print Assumptions C01_example_grown_damaged_file.

Example C01_example_grown_damaged_run_computed :
  let out := check_run x_hashf x_padz x_truncf x_bs 2 false x_newino 999 x_fix x_c x_par_ok gx_fs [] (seq 0 1) in
  let out' := check_run x_hashf x_padz x_truncf x_bs 2 false x_newino 999 x_check x_c (r_par (out_st out)) (r_fs (out_st out)) [] (seq 0 1) in
  r_fs (out_st out) = x_fs_ok /\ r_par (out_st out) = x_par_ok
  /\ map fst (r_tags (out_st out)) = [K_ERR_SIZE; K_FIXED_SIZE; K_ERR_DATA; K_FIXED; K_ST_RECOVERED]
  /\ out_fail out = false /\ r_err (out_st out) = 2 /\ r_rec (out_st out) = 2 /\ r_unrec (out_st out) = 0
  /\ r_tags (out_st out') = [] /\ out_fail out' = false.
Proof. exact gx_fix_run_computed. Qed.
Print Assumptions C01_example_grown_damaged_run_computed.
