(* C01 -- Complete recovery from any loss within the parity level: THE WHOLE RUN.
   Statements only.  Model: check_run of Fix/FixModel.v (state_check: the loop of the stripe step over positions 0 .. blockmax-1,
   then the empty files / links / dirs, then the removal of unfinished files, then the exit status).  Proofs: Fix/RunProofs.v
   (loop invariants over Fix/StripeProofs.v fix_step_full = C01_fix_step_restores + its frame), Fix/FlagWalk.v (how the per-file
   flags evolve over a step, for the clean-up).  Non-vacuity: Fix/RunExamples.v.

   Vocabulary (Fix/RunProofs.v):
     synced_array hashf padz bs c bm vs   c_blockmax c = bm; EVERY stripe p < bm is synced (all blocks BLK, at least one file
                         block: no hole, no DELETED/CHG/REP block anywhere -- the state after a complete sync); vs p is a vector
                         that fits the recorded hashes of stripe p (enc_ok) and is zero padded; geom: the shape of the content
                         file that the run relies on -- two slots of one disk with the same file name are blocks of that one file
                         in position order, a mapped block lies inside the recorded size, nothing is mapped at or beyond bm, block
                         indices are indices of the file's block list, the LAST block of every mapped file is mapped and ends at
                         the recorded size.  (geom is what C06's MapOK + distinct names + cf_blocks = nblocks(size) give; it is
                         taken as a hypothesis here, and proved for the example.)  vs_of_ParOK (RunProofs.v): with C06's ParOK for
                         the parity par0 that sync wrote, vs p can be taken as the vector level 0 of par0 holds at p.
     no_larger c fs      no file on the disks is larger than recorded (missing, truncated, corrupted files are all allowed).
                         Growth is excluded from the run theorems; it is handled by the tool and the model (truncation, FIXED,
                         time-stamp restored since 993feac): step-level statements 4a / 4b and the computed example below.
     recoverable hashf padz bs nlev nosearch c bm fs par vs      for EVERY stripe p < bm of the damaged array (fs, par):
                         the collision-freedom side conditions of C01_fix_step_restores (a block read / reconstructed / fetched
                         that passes the hash test of a slot is the recorded block; junk never passes) and
                         #damaged data blocks of p <= #levels whose block at p still encodes vs p.
     objs_ok c objs      the empty files / links handled after the loop do not bear the name of a file with blocks on the same
                         disk; hard links point to files with blocks
     restored nlev c bm vs fs par   every file that has blocks EXISTS with size = recorded size and EVERY block = the recorded
                         block; every parity row of every level < nlev encodes the recorded vector, for every stripe < bm
     obj_good fs ob      the empty file exists with size 0 / the hard link exists and shares the inode of its target /
                         (symlink, dir) the status handed to the model is OK
   Not covered: holes and partially synced arrays (every stripe is assumed synced); -d/-f filters, -a, import (plain options);
   symlinks and dirs are status-in / tag-out in the model, so "restored" is not expressible for them. *)
From Coq Require Import NArith ZArith List Bool Arith Lia.
From Snap.Array Require Import ArrayDefs.
From Snap.Array Require Import SyncProofsDefs.
From Snap.Fix Require Import FixModel RepairProofs StripeProofs RunProofs Examples RunExamples.
Import ListNotations.

(* 1. fix, the whole array: any damage that leaves, in every stripe, at most as many damaged data blocks as intact parity
      levels is repaired completely: every recorded file exists with its recorded size and content, every parity block of
      every level encodes the recorded data, nothing is unrecoverable, no file is flagged damaged, exit status 0 *)
Theorem C01_fix_run_restores :
  forall (hashf : bid -> N -> hval) (padz : bid -> N -> bool) (truncf : bid -> N -> bid) (bs : N) (nlev : nat) (reduced : bool)
         (newino : nat -> N -> N) (now : Z) (o : copts) (c : content) (bm : nat) (fs : list (option fsdisk)) (par : parity)
         (vs : nat -> list bid) (objs : list obj),
    plain nlev o -> co_fix o = true -> synced_array hashf padz bs c bm vs ->
    length fs = length (c_disks c) -> nlev <= length par -> no_larger c fs ->
    recoverable hashf padz bs nlev (co_nosearch o) c bm fs par vs -> objs_ok c objs ->
    let out := check_run hashf padz truncf bs nlev reduced newino now o c par fs objs (seq 0 bm) in
    restored nlev c bm vs (r_fs (out_st out)) (r_par (out_st out))
    /\ out_fail out = false /\ r_unrec (out_st out) = 0
    /\ (forall key, fl_damaged (get_fl (r_flags (out_st out)) key) = false)
    /\ length (r_par (out_st out)) = length par.
Proof. exact run_fix_restores. Qed.
Print Assumptions C01_fix_run_restores.

(* 2. ... and the empty files and hard links of the run are in order afterwards.  bm = 0 is allowed: an array without any
      block still gets them repaired (state_check: `blockstart < blockmax || blockmax == 0`, repaired by 1f26379) *)
Theorem C01_fix_run_objects :
  forall (hashf : bid -> N -> hval) (padz : bid -> N -> bool) (truncf : bid -> N -> bid) (bs : N) (nlev : nat) (reduced : bool)
         (newino : nat -> N -> N) (now : Z) (o : copts) (c : content) (bm : nat) (fs : list (option fsdisk)) (par : parity)
         (vs : nat -> list bid) (objs : list obj),
    plain nlev o -> co_fix o = true -> synced_array hashf padz bs c bm vs ->
    length fs = length (c_disks c) -> nlev <= length par -> no_larger c fs ->
    recoverable hashf padz bs nlev (co_nosearch o) c bm fs par vs -> objs_ok c objs ->
    (forall ob, In ob objs -> ob_disk ob < length (c_disks c)) -> NoDup (map okey objs) ->
    let out := check_run hashf padz truncf bs nlev reduced newino now o c par fs objs (seq 0 bm) in
    forall ob, In ob objs -> ob_kind ob = KEmpty \/ ob_kind ob = KHard -> obj_good (r_fs (out_st out)) ob.
Proof. exact run_fix_objects. Qed.
Print Assumptions C01_fix_run_objects.


(* 2b. the time-stamps: after the run every file with blocks is either exactly the file it was before the run (no block of it was
       damaged, fix never wrote it) or carries its recorded time-stamp (file_post, at the last block of a file flagged FIXED).
       uniq_stamp c j f (Fix/StripeProofs.v): no other file of disk j has the size and the time-stamp of f -- in that case
       check.c does not set the time and reports `collision:` *)
Theorem C01_fix_run_stamps :
  forall (hashf : bid -> N -> hval) (padz : bid -> N -> bool) (truncf : bid -> N -> bid) (bs : N) (nlev : nat) (reduced : bool)
         (newino : nat -> N -> N) (now : Z) (o : copts) (c : content) (bm : nat) (fs : list (option fsdisk)) (par : parity)
         (vs : nat -> list bid) (objs : list obj),
    plain nlev o -> co_fix o = true -> synced_array hashf padz bs c bm vs ->
    length fs = length (c_disks c) -> nlev <= length par -> no_larger c fs ->
    recoverable hashf padz bs nlev (co_nosearch o) c bm fs par vs -> objs_ok c objs ->
    let out := check_run hashf padz truncf bs nlev reduced newino now o c par fs objs (seq 0 bm) in
    forall p j f i b, slot_of c p j = SFile f i b -> uniq_stamp c j f ->
      exists g, fs_find (r_fs (out_st out)) j (cf_name f) = Some g
                /\ ((ff_mtime g = cf_mtime f /\ ff_nsec g = cf_nsec f) \/ fs_find fs j (cf_name f) = Some g).
Proof. exact run_fix_stamps. Qed.
Print Assumptions C01_fix_run_stamps.

(* 3. a check of the whole array after the fix (a new run: fresh flags and counters; objs' = what the second run finds for the
      empty files / links / dirs) emits no tag at all, counts no error, changes nothing, exit status 0 *)
Theorem C01_fix_run_then_check_quiet :
  forall (hashf : bid -> N -> hval) (padz : bid -> N -> bool) (truncf : bid -> N -> bid) (bs : N) (nlev : nat) (reduced : bool)
         (newino : nat -> N -> N) (now : Z) (o o' : copts) (c : content) (bm : nat) (fs : list (option fsdisk)) (par : parity)
         (vs : nat -> list bid) (objs objs' : list obj),
    plain nlev o -> co_fix o = true -> synced_array hashf padz bs c bm vs ->
    length fs = length (c_disks c) -> nlev <= length par -> no_larger c fs ->
    recoverable hashf padz bs nlev (co_nosearch o) c bm fs par vs -> objs_ok c objs ->
    plain nlev o' -> co_fix o' = false ->
    let out := check_run hashf padz truncf bs nlev reduced newino now o c par fs objs (seq 0 bm) in
    (forall ob, In ob objs' -> obj_good (r_fs (out_st out)) ob) ->
    let out' := check_run hashf padz truncf bs nlev reduced newino now o' c (r_par (out_st out)) (r_fs (out_st out)) objs' (seq 0 bm) in
    r_tags (out_st out') = [] /\ r_err (out_st out') = 0 /\ r_unrec (out_st out') = 0 /\ out_fail out' = false
    /\ r_fs (out_st out') = r_fs (out_st out) /\ r_par (out_st out') = r_par (out_st out).
Proof. exact run_fix_then_check_quiet. Qed.
Print Assumptions C01_fix_run_then_check_quiet.

(* Non-vacuity (Fix/RunExamples.v): two disks, two levels, three stripes; file 1 (disk 0) spans stripes 0-2, file 2 (disk 1)
   spans stripes 0-1; file 2 is deleted entirely and level 1 is overwritten in stripe 2.  Every hypothesis of
   C01_fix_run_restores holds (proved one by one), and the run computed by vm_compute agrees: both blocks of file 2 are back, with
   the recorded time-stamp, the parity block is rewritten, three blocks recovered, exit status 0. *)
Example C01_example_fix_run_restores :
  let out := check_run x_hashf x_padz x_truncf x_bs 2 false x_newino 999 rx_fix rx_c rx_par rx_fs [] (seq 0 3) in
  restored 2 rx_c 3 rx_vs (r_fs (out_st out)) (r_par (out_st out))
  /\ out_fail out = false /\ r_unrec (out_st out) = 0
  /\ (forall key, fl_damaged (get_fl (r_flags (out_st out)) key) = false)
  /\ length (r_par (out_st out)) = length rx_par.
Proof. exact rx_fix_run_restores. Qed.
Print Assumptions C01_example_fix_run_restores.

Example C01_example_fix_run_computed :
  let out := check_run x_hashf x_padz x_truncf x_bs 2 false x_newino 999 rx_fix rx_c rx_par rx_fs [] (seq 0 3) in
  r_fs (out_st out) = [Some [mkFF 1 2560 100 0 1 [11; 12; 13]%N]; Some [mkFF 2 2048 100 0 902 [21; 22]%N]]
  /\ r_par (out_st out) = rx_par_ok /\ out_fail out = false /\ r_unrec (out_st out) = 0 /\ r_rec (out_st out) = 3.
Proof. exact rx_fix_run_computed. Qed.
Print Assumptions C01_example_fix_run_computed.

Example C01_example_fix_run_stamps :
  let out := check_run x_hashf x_padz x_truncf x_bs 2 false x_newino 999 rx_fix rx_c rx_par rx_fs [] (seq 0 3) in
  forall p j f i b, slot_of rx_c p j = SFile f i b ->
    exists g, fs_find (r_fs (out_st out)) j (cf_name f) = Some g
              /\ ((ff_mtime g = cf_mtime f /\ ff_nsec g = cf_nsec f) \/ fs_find rx_fs j (cf_name f) = Some g).
Proof. exact rx_fix_run_stamps. Qed.
Print Assumptions C01_example_fix_run_stamps.

Example C01_example_fix_run_then_check_quiet :
  let out := check_run x_hashf x_padz x_truncf x_bs 2 false x_newino 999 rx_fix rx_c rx_par rx_fs [] (seq 0 3) in
  let out' := check_run x_hashf x_padz x_truncf x_bs 2 false x_newino 999 rx_check rx_c (r_par (out_st out)) (r_fs (out_st out)) [] (seq 0 3) in
  r_tags (out_st out') = [] /\ r_err (out_st out') = 0 /\ r_unrec (out_st out') = 0 /\ out_fail out' = false
  /\ r_fs (out_st out') = r_fs (out_st out) /\ r_par (out_st out') = r_par (out_st out).
Proof. exact rx_fix_then_check_quiet. Qed.
Print Assumptions C01_example_fix_run_then_check_quiet.

(* an array with no block at all whose only entry, an empty file, is missing: fix recreates it *)
Example C01_example_fix_run_no_blocks :
  let out := check_run x_hashf x_padz x_truncf x_bs 2 false x_newino 999 rx_fix rx_c0 [[]; []] [Some []] [rx_ob0] (seq 0 0) in
  obj_good (r_fs (out_st out)) rx_ob0 /\ out_fail out = false.
Proof. exact rx_fix_no_blocks. Qed.
Print Assumptions C01_example_fix_run_no_blocks.

(* Files LARGER than recorded (excluded from the run theorems above by no_larger; finding F-C01-grown-file-mtime-not-restored,
   repaired by 993feac: the truncation now flags the file FIXED).  What is proved for them, at the level of the step:
   4a. the first open of a grown file in a fix run cuts it back to its recorded size, reports Size error + Fixed size, counts one
       error recovered, and sets FIXED; nothing else moves (other files, other flags, parity, unrecoverable count);
   4b. at the last block of a file flagged FIXED (and not DAMAGED) file_post gives the file its recorded time-stamp back (when no
       other file of the disk has the same size and time-stamp) and keeps FIXED; a file not flagged FIXED is not touched.
   From the first open on, the file has its recorded size, so every later step sees it under the hypotheses of
   C01_fix_step_restores (not larger than recorded); the whole-run statements keep no_larger: lifting 4a through the data
   phase invariant of Fix/StripeProofs.v (dinv) is not done.  The example below computes the whole run on a grown file. *)
Theorem C01_fix_open_truncates_grown_file :
  forall (bs : N) (nlev : nat) (newino : nat -> N -> N) (now : Z) (o : copts) (pos j : nat) (f : cfile) (s : rstate) (g : fsfile),
    plain nlev o -> co_fix o = true -> fs_find (r_fs s) j (cf_name f) = Some g -> (cf_size f < ff_size g)%N ->
    fl_opened (get_fl (r_flags s) (j, cf_name f)) = false ->
    exists s4, open_step bs newino now o pos j f s = Some s4
      /\ r_fs s4 = fs_put (r_fs s) j (mkFF (cf_name f) (cf_size f) now 0 (ff_inode g) (firstn (nblocks bs (cf_size f)) (ff_blocks g)))
      /\ r_tags s4 = r_tags s ++ [tg K_ERR_SIZE [pos; j] [cf_name f]; tg K_FIXED_SIZE [pos; j] [cf_name f]]
      /\ r_err s4 = r_err s + 1 /\ r_rec s4 = r_rec s + 1 /\ r_unrec s4 = r_unrec s /\ r_par s4 = r_par s
      /\ fl_fixed (get_fl (r_flags s4) (j, cf_name f)) = true /\ fl_opened (get_fl (r_flags s4) (j, cf_name f)) = true
      /\ fl_damaged (get_fl (r_flags s4) (j, cf_name f)) = fl_damaged (get_fl (r_flags s) (j, cf_name f))
      /\ (forall k', k' <> (j, cf_name f) -> get_fl (r_flags s4) k' = get_fl (r_flags s) k').
Proof. intros bs nlev newino now. exact (open_larger_fix bs nlev newino now). Qed.
Print Assumptions C01_fix_open_truncates_grown_file.

Theorem C01_fix_post_restores_stamp :
  forall (nlev : nat) (o : copts) (c : content) (pos : nat) (s : rstate) (j : nat) (f : cfile) (idx : nat) (b : fblock),
    plain nlev o -> co_fix o = true -> slot_of c pos j = SFile f idx b -> fl_damaged (get_fl (r_flags s) (j, cf_name f)) = false ->
    fl_fixed (get_fl (r_flags (file_post o c pos s j)) (j, cf_name f)) = fl_fixed (get_fl (r_flags s) (j, cf_name f))
    /\ fl_damaged (get_fl (r_flags (file_post o c pos s j)) (j, cf_name f)) = false
    /\ (fl_fixed (get_fl (r_flags s) (j, cf_name f)) = false -> fs_find (r_fs (file_post o c pos s j)) j (cf_name f) = fs_find (r_fs s) j (cf_name f))
    /\ (uniq_stamp c j f -> S idx = length (cf_blocks f) -> fl_fixed (get_fl (r_flags s) (j, cf_name f)) = true ->
        forall g, fs_find (r_fs s) j (cf_name f) = Some g -> fs_find (r_fs (file_post o c pos s j)) j (cf_name f) = Some (restamp f g)).
Proof. exact file_post_at. Qed.
Print Assumptions C01_fix_post_restores_stamp.

Example C01_example_grown_file_restored :
  let fs := [Some [mkFF 1 2048 200 0 1 [11; 55]%N]; Some [mkFF 2 1024 100 0 2 [12]%N]] in
  let out := check_run x_hashf x_padz x_truncf x_bs 2 false x_newino 999 x_fix x_c x_par_ok fs [] (seq 0 1) in
  let out' := check_run x_hashf x_padz x_truncf x_bs 2 false x_newino 999 x_check x_c (r_par (out_st out)) (r_fs (out_st out)) [] (seq 0 1) in
  ~ no_larger x_c fs
  /\ r_fs (out_st out) = x_fs_ok /\ r_par (out_st out) = x_par_ok
  /\ r_tags (out_st out) = [(K_ERR_SIZE, [0; 0; 1]%N); (K_FIXED_SIZE, [0; 0; 1]%N); (K_ST_RECOVERED, [0; 1]%N)]
  /\ out_fail out = false /\ r_err (out_st out) = 1 /\ r_rec (out_st out) = 1 /\ r_unrec (out_st out) = 0
  /\ r_tags (out_st out') = [] /\ out_fail out' = false.
Proof. exact rx_grown_file_restored. Qed.
Print Assumptions C01_example_grown_file_restored.
