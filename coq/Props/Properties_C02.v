(* C02 -- Parity equals its algebraic definition in every implementation.
   Statements only; every proof is `exact <lemma>`.  Gen.Tables is regenerated from raid/tables.c. *)
From Coq Require Import NArith List Lia.
From Snap.Gen Require Import Tables.
From Snap.GF Require Import Gf TablesOk Swar.
From Snap.Raid Require Import GenModel GenProofs.
Import ListNotations.
Local Open Scope N_scope.

(* --- every lookup table is consistent with the field and the matrix ---------------------------------- *)
Theorem C02_table_gfmul : forall a b, a < 256 -> b < 256 -> t_gfmul a b = gmul a b.
Proof. exact t_gfmul_ok. Qed.
Theorem C02_table_gfexp : forall k, k < 256 -> t_gfexp k = pow2N (N.to_nat k).
Proof. exact t_gfexp_ok. Qed.
Theorem C02_table_gfinv : forall a, a < 256 -> a <> 0 -> t_gfinv a = ginv a.
Proof. exact t_gfinv_ok. Qed.
Theorem C02_table_gfgen : forall m j d,
  j < (match m with Cauchy => 6 | Vandermonde => 3 end) -> d < 251 ->
  t_gfgen m j d = matN m (N.to_nat j) (N.to_nat d).
Proof. exact t_gfgen_ok. Qed.
Theorem C02_table_gfcauchy_all : gfcauchy_rows = cf_matrix cauchyN 6.
Proof. exact gfcauchy_ok. Qed.
Theorem C02_table_gfvandermonde_all : gfvandermonde_rows = cf_matrix powerN 3.
Proof. exact gfvandermonde_ok. Qed.
Theorem C02_table_gfcauchypshufb : gfcauchypshufb_rows = cf_cauchypshufb.
Proof. exact gfcauchypshufb_ok. Qed.
Theorem C02_table_gfmulpshufb : gfmulpshufb_rows = cf_mulpshufb.
Proof. exact gfmulpshufb_ok. Qed.

(* --- GF(2^8)/0x11d is a field (commutative ring laws + inverses; no sweep above 2^16) ----------------- *)
Theorem C02_gf_mul_comm : forall a b, a < 256 -> b < 256 -> gmul a b = gmul b a.
Proof. exact gmul_comm. Qed.
Theorem C02_gf_mul_assoc : forall a b c, a < 256 -> b < 256 -> c < 256 -> gmul a (gmul b c) = gmul (gmul a b) c.
Proof. exact gmul_assoc. Qed.
Theorem C02_gf_distr : forall a b c, a < 256 -> b < 256 -> c < 256 ->
  gmul a (N.lxor b c) = N.lxor (gmul a b) (gmul a c).
Proof. exact gmul_distr_r. Qed.
Theorem C02_gf_inverse : forall a, a < 256 -> a <> 0 -> gmul a (ginv a) = 1 /\ ginv a < 256.
Proof. exact gmul_inv. Qed.

(* --- the SWAR trick of gf.h acts lane-wise, for every 32-bit word -------------------------------------- *)
Theorem C02_x2_32_lanes : forall b0 b1 b2 b3, b0 < 256 -> b1 < 256 -> b2 < 256 -> b3 < 256 ->
  x2_32 (pack4 b0 b1 b2 b3) = pack4 (Swar.xtime b0) (Swar.xtime b1) (Swar.xtime b2) (Swar.xtime b3).
Proof. exact x2_32_lanes. Qed.
Theorem C02_xtime_is_mul2 : forall a, a < 256 -> Gf.xtime a = gmul 2 a.
Proof. exact xtime_is_gmul2. Qed.
Theorem C02_dtime_is_div2 : forall a, a < 256 -> dtime a = gmul 142 a /\ gmul 2 142 = 1.
Proof. intros a Ha. split; [exact (dtime_is_gmul a Ha)|vm_compute; reflexivity]. Qed.

(* --- every generator model = matrix product with the closed-form matrix -------------------------------- *)
(* for all nd in 1..251, every size, every content; GK n is raid_gen<n>_int8 (3 <= n <= 6), in Vandermonde
   mode only up to 3 rows exist *)
Theorem C02_gen_blocks_correct : forall m g size data,
  gen_admissible m g -> data <> [] -> (length data <= 251)%nat -> data_ok data ->
  gen_blocks m g size data = spec_blocks (gen_mat m g) (gen_np g) size data.
Proof. exact gen_blocks_correct. Qed.

(* non-vacuity: a concrete 3-disk stripe meets the hypotheses and the sextuple parity is computed *)
Example C02_nonvacuous :
  let data := [[1; 2; 255]; [7; 0; 128]; [200; 100; 50]] in
  gen_admissible Cauchy (GK 6) /\ data <> [] /\ (length data <= 251)%nat /\ data_ok data /\
  gen_blocks Cauchy (GK 6) 3 data = spec_blocks cauchyN 6 3 data /\
  length (gen_blocks Cauchy (GK 6) 3 data) = 6%nat.
Proof.
  cbv zeta. split; [cbn; lia|]. split; [discriminate|]. split; [cbn; lia|].
  split; [repeat constructor; cbn; lia|]. split; vm_compute; reflexivity.
Qed.

Print Assumptions C02_table_gfmul.
Print Assumptions C02_table_gfcauchypshufb.
Print Assumptions C02_gf_mul_assoc.
Print Assumptions C02_gf_distr.
Print Assumptions C02_x2_32_lanes.
Print Assumptions C02_gen_blocks_correct.
