(* C02 continued -- the PORTABLE generators of raid/int.c, raid/intz.c tied to the specification by TRANSLATION:
   Gen/IntProgs.v is regenerated from the C source (and the bodies of x2_32, x2_64, d2_32, d2_64 from raid/gf.h) on
   every run (harness/gen/intc.py), IntSem.exec_prog is the word-level semantics (little-endian words assembled
   from bytes, C unsigned wrap-around; validated against the compiled functions by the check), and the theorems
   below say that every translated generator computes the GF(2^8) matrix product with the closed-form matrix.
   Statements only. *)
From Coq Require Import NArith List Bool String.
From Snap.Gen Require Import Tables IntProgs.
From Snap.GF Require Import Gf Swar Swar64.
From Snap.Raid Require Import GenModel GenProofs.
From Snap.IntC Require Import IntDefs IntSem IntCheck IntLanes IntAbs IntMath IntProofs IntAll.
Import ListNotations.
Local Open Scope N_scope.

(* --- the translated helper bodies ARE the word functions proved lane-wise in Properties_C02 / _swar ----------------- *)
Theorem C02_int_helper_x2_32 : forall v, v < 2 ^ 32 -> run_helper h_x2_32 v = x2_32 v.
Proof. exact run_x2_32. Qed.
Theorem C02_int_helper_x2_64 : forall v, v < 2 ^ 64 -> run_helper h_x2_64 v = x2_64 v.
Proof. exact run_x2_64. Qed.
Theorem C02_int_helper_d2_32 : forall v, v < 2 ^ 32 -> run_helper h_d2_32 v = d2_32 v.
Proof. exact run_d2_32. Qed.
Theorem C02_int_helper_d2_64 : forall v, v < 2 ^ 64 -> run_helper h_d2_64 v = d2_64 v.
Proof. exact run_d2_64. Qed.
(* hence a recognised helper multiplies every byte lane of every word by 2 (CTwo) or 2^-1 (CHalf) *)
Theorem C02_int_helper_lanes : forall hd c v i, helper_coef hd = Some c -> v < wmod (h_w hd) -> (i < h_w hd)%nat ->
  lane i (run_helper hd v) = hmul c (lane i v).
Proof. exact helper_lane. Qed.
(* little-endian words: lane i of an assembled word is byte i; every evaluated expression fits the word *)
Theorem C02_int_lane_pack : forall bs i, (i < List.length bs)%nat -> lane i (pack bs) = SimdSem.b8 (nth i bs 0).
Proof. exact lane_pack. Qed.
Theorem C02_int_eval_fits : forall e s x, eval e s x < wmod (e_w e).
Proof. exact eval_wf. Qed.

(* --- soundness of the checker: any accepted program computes the matrix product, for all nd in 1..251, all sizes that
       are multiples of the step, all contents, both table modes (as far as the mode has the rows), whatever the locals
       (s0) and the parity buffers (old) held before; nothing but the np parity blocks is written ------------------------ *)
Theorem C02_int_checker_sound : forall g p, checker g p = true ->
  forall (m : rmode) (data : list block) (size : nat) (s0 : venv) (old : list block),
  (1 <= List.length data <= 251)%nat -> data_ok data -> gen_admissible m g ->
  (exists n, size = (n * step p)%nat) -> old_ok (gen_np g) size old ->
  exec_prog m p data size s0 old = spec_blocks (gen_mat m g) (gen_np g) size data.
Proof. exact prog_correct. Qed.

(* --- every program generated from the working tree is translated and accepted ---------------------------------------- *)
Theorem C02_int_gen1_int32 : checker_opt G1 raid_gen1_int32 = true. Proof. exact chk_gen1_int32. Qed.
Theorem C02_int_gen1_int64 : checker_opt G1 raid_gen1_int64 = true. Proof. exact chk_gen1_int64. Qed.
Theorem C02_int_gen2_int32 : checker_opt G2 raid_gen2_int32 = true. Proof. exact chk_gen2_int32. Qed.
Theorem C02_int_gen2_int64 : checker_opt G2 raid_gen2_int64 = true. Proof. exact chk_gen2_int64. Qed.
Theorem C02_int_gen3_int8 : checker_opt (GK 3) raid_gen3_int8 = true. Proof. exact chk_gen3_int8. Qed.
Theorem C02_int_gen4_int8 : checker_opt (GK 4) raid_gen4_int8 = true. Proof. exact chk_gen4_int8. Qed.
Theorem C02_int_gen5_int8 : checker_opt (GK 5) raid_gen5_int8 = true. Proof. exact chk_gen5_int8. Qed.
Theorem C02_int_gen6_int8 : checker_opt (GK 6) raid_gen6_int8 = true. Proof. exact chk_gen6_int8. Qed.
Theorem C02_int_genz_int32 : checker_opt GZ raid_genz_int32 = true. Proof. exact chk_genz_int32. Qed.
Theorem C02_int_genz_int64 : checker_opt GZ raid_genz_int64 = true. Proof. exact chk_genz_int64. Qed.
Theorem C02_int_all_checked : forallb entry_ok all_int_progs = true.
Proof. exact all_checked. Qed.
Theorem C02_int_all_listed : map (fun x => fst (fst x)) all_int_progs =
  ["raid_gen1_int32"; "raid_gen1_int64"; "raid_gen2_int32"; "raid_gen2_int64"; "raid_gen3_int8"; "raid_gen4_int8";
   "raid_gen5_int8"; "raid_gen6_int8"; "raid_genz_int32"; "raid_genz_int64"]%string.
Proof. exact all_listed. Qed.

(* --- hence: gen_int_correct ------------------------------------------------------------------------------------------- *)
Theorem C02_gen_int_correct : forall f g p, In (f, g, Some p) all_int_progs ->
  forall (m : rmode) (data : list block) (size : nat) (s0 : venv) (old : list block),
  (1 <= List.length data <= 251)%nat -> data_ok data -> gen_admissible m g ->
  (exists n, size = (n * step p)%nat) -> old_ok (gen_np g) size old ->
  exec_prog m p data size s0 old = spec_blocks (gen_mat m g) (gen_np g) size data.
Proof. exact gen_int_correct. Qed.

(* non-vacuity: the checker accepts a small hand-written program (xors written in another order than int.c) and rejects
   it with the disk loop stopping at d >= 1; a helper with one wrong mask constant is not recognised; the hypotheses of
   gen_int_correct hold on concrete calls of the generated raid_genz_int64 and raid_gen6_int8 *)
Example C02_int_checker_accepts : checker G1 demo_prog = true.
Proof. exact demo_checked. Qed.
Example C02_int_checker_rejects : checker G1 demo_bad = false.
Proof. exact demo_bad_rejected. Qed.
Example C02_int_helper_recognition :
  helper_coef h_x2_32 = Some CTwo /\ helper_coef h_d2_64 = Some CHalf /\ helper_coef h_x2_32_bad = None.
Proof. exact helper_recognised. Qed.
Example C02_int_nonvacuous_genz :
  match raid_genz_int64 with
  | Some p => In ("raid_genz_int64"%string, GZ, Some p) all_int_progs /\ (exists n, 16 = n * step p)%nat /\
              exec_prog Cauchy p demo_data 16 demo_s0 (demo_old 3) = spec_blocks powerN 3 16 demo_data /\
              List.length (exec_prog Cauchy p demo_data 16 demo_s0 (demo_old 3)) = 3%nat
  | None => False
  end.
Proof. exact demo_run_z. Qed.
Example C02_int_nonvacuous_gen6 :
  match raid_gen6_int8 with
  | Some p => In ("raid_gen6_int8"%string, GK 6, Some p) all_int_progs /\ (exists n, 16 = n * step p)%nat /\
              gen_admissible Cauchy (GK 6) /\
              exec_prog Cauchy p demo_data 16 demo_s0 (demo_old 6) = spec_blocks cauchyN 6 16 demo_data /\
              List.length (exec_prog Cauchy p demo_data 16 demo_s0 (demo_old 6)) = 6%nat
  | None => False
  end.
Proof. exact demo_run_6. Qed.

Print Assumptions C02_int_checker_sound.
Print Assumptions C02_int_all_checked.
Print Assumptions C02_gen_int_correct.
Print Assumptions C02_int_helper_lanes.
Print Assumptions C02_int_helper_x2_64.
