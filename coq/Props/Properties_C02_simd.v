(* C02 continued -- the SIMD variants of raid/x86.c, raid/x86z.c tied to the specification by TRANSLATION:
   Gen/X86Progs.v is regenerated from the C source on every run (harness/gen/x86asm.py), SimdSem.exec_prog is the
   byte-lane semantics (validated against the silicon by the check), and the theorems below say that every translated
   generator computes the GF(2^8) matrix product with the closed-form matrix.  Statements only. *)
From Coq Require Import NArith List Bool String.
From Snap.Gen Require Import Tables X86Progs.
From Snap.GF Require Import Gf.
From Snap.Raid Require Import GenModel GenProofs.
From Snap.Simd Require Import SimdDefs SimdSem SimdCheck SimdBytes SimdAbs SimdMath SimdProofs SimdAll.
Import ListNotations.
Local Open Scope N_scope.

(* --- the byte idioms: x2 = pxor/pcmpgtb/paddb/pand poly/pxor, the nibble split behind pshufb ------------------------ *)
Theorem C02_simd_x2_idiom : forall x, x < 256 -> N.lxor (b8 (2 * x)) (if 128 <=? x then 29 else 0) = xtime x.
Proof. exact x2_idiom. Qed.
Theorem C02_simd_sign_mask : forall x, x < 256 -> bcmpgt 0 x = if 128 <=? x then 255 else 0.
Proof. exact cmp_sign. Qed.
Theorem C02_simd_word_shift_nibble : forall x y ev, x < 256 -> y < 256 -> N.land (srl_byte 4 x y ev) 15 = N.shiftr x 4.
Proof. exact srl4_lo. Qed.
Theorem C02_simd_pshufb_tables : forall d j v, (d < 251)%nat -> (j < 4)%nat -> v < 256 ->
  N.lxor (tabbyte d j 0 (N.to_nat (N.land v 15))) (tabbyte d j 1 (N.to_nat (N.shiftr v 4))) = gmul (cauchyN (j + 2) d) v.
Proof. exact tmul_ok. Qed.

(* --- soundness of the checker: any accepted program computes the matrix product, for all nd, sizes, contents,
       whatever the registers (s0) and the parity buffers (old) held before ------------------------------------------ *)
Theorem C02_simd_checker_sound : forall g p, checker g p = true ->
  forall (data : list block) (size : nat) (s0 : regs) (old : list block),
  (1 <= List.length data <= 251)%nat -> data_ok data -> (exists n, size = (n * step p)%nat) -> old_ok (gen_np g) size old ->
  exec_prog p data size s0 old = spec_blocks (gen_mat Cauchy g) (gen_np g) size data.
Proof. exact prog_correct. Qed.

(* --- every program generated from the working tree is accepted ------------------------------------------------------ *)
Theorem C02_simd_gen1_sse2 : checker_opt G1 raid_gen1_sse2 = true. Proof. exact chk_gen1_sse2. Qed.
Theorem C02_simd_gen1_avx2 : checker_opt G1 raid_gen1_avx2 = true. Proof. exact chk_gen1_avx2. Qed.
Theorem C02_simd_gen2_sse2 : checker_opt G2 raid_gen2_sse2 = true. Proof. exact chk_gen2_sse2. Qed.
Theorem C02_simd_gen2_avx2 : checker_opt G2 raid_gen2_avx2 = true. Proof. exact chk_gen2_avx2. Qed.
Theorem C02_simd_gen2_sse2ext : checker_opt G2 raid_gen2_sse2ext = true. Proof. exact chk_gen2_sse2ext. Qed.
Theorem C02_simd_gen3_ssse3 : checker_opt (GK 3) raid_gen3_ssse3 = true. Proof. exact chk_gen3_ssse3. Qed.
Theorem C02_simd_gen3_ssse3ext : checker_opt (GK 3) raid_gen3_ssse3ext = true. Proof. exact chk_gen3_ssse3ext. Qed.
Theorem C02_simd_gen3_avx2ext : checker_opt (GK 3) raid_gen3_avx2ext = true. Proof. exact chk_gen3_avx2ext. Qed.
Theorem C02_simd_gen4_ssse3 : checker_opt (GK 4) raid_gen4_ssse3 = true. Proof. exact chk_gen4_ssse3. Qed.
Theorem C02_simd_gen4_ssse3ext : checker_opt (GK 4) raid_gen4_ssse3ext = true. Proof. exact chk_gen4_ssse3ext. Qed.
Theorem C02_simd_gen4_avx2ext : checker_opt (GK 4) raid_gen4_avx2ext = true. Proof. exact chk_gen4_avx2ext. Qed.
Theorem C02_simd_gen5_ssse3 : checker_opt (GK 5) raid_gen5_ssse3 = true. Proof. exact chk_gen5_ssse3. Qed.
Theorem C02_simd_gen5_ssse3ext : checker_opt (GK 5) raid_gen5_ssse3ext = true. Proof. exact chk_gen5_ssse3ext. Qed.
Theorem C02_simd_gen5_avx2ext : checker_opt (GK 5) raid_gen5_avx2ext = true. Proof. exact chk_gen5_avx2ext. Qed.
Theorem C02_simd_gen6_ssse3 : checker_opt (GK 6) raid_gen6_ssse3 = true. Proof. exact chk_gen6_ssse3. Qed.
Theorem C02_simd_gen6_ssse3ext : checker_opt (GK 6) raid_gen6_ssse3ext = true. Proof. exact chk_gen6_ssse3ext. Qed.
Theorem C02_simd_gen6_avx2ext : checker_opt (GK 6) raid_gen6_avx2ext = true. Proof. exact chk_gen6_avx2ext. Qed.
Theorem C02_simd_genz_sse2 : checker_opt GZ raid_genz_sse2 = true. Proof. exact chk_genz_sse2. Qed.
Theorem C02_simd_genz_sse2ext : checker_opt GZ raid_genz_sse2ext = true. Proof. exact chk_genz_sse2ext. Qed.
Theorem C02_simd_genz_avx2ext : checker_opt GZ raid_genz_avx2ext = true. Proof. exact chk_genz_avx2ext. Qed.
Theorem C02_simd_all_checked : forallb entry_ok all_gen_progs = true.
Proof. exact all_checked. Qed.

(* --- hence: gen_simd_correct ------------------------------------------------------------------------------------------ *)
Theorem C02_gen_simd_correct : forall f g p, In (f, g, Some p) all_gen_progs ->
  forall (data : list block) (size : nat) (s0 : regs) (old : list block),
  (1 <= List.length data <= 251)%nat -> data_ok data -> (exists n, size = (n * step p)%nat) -> old_ok (gen_np g) size old ->
  exec_prog p data size s0 old = spec_blocks (gen_mat Cauchy g) (gen_np g) size data.
Proof. exact gen_simd_correct. Qed.

(* non-vacuity: the checker accepts a small hand-written program and rejects it with two stores swapped; the
   hypotheses of gen_simd_correct hold on a concrete call of the generated raid_gen3_ssse3 *)
Example C02_simd_checker_accepts : checker G1 demo_prog = true.
Proof. exact demo_checked. Qed.
Example C02_simd_checker_rejects : checker G1 demo_bad = false.
Proof. exact demo_bad_rejected. Qed.
Example C02_simd_nonvacuous :
  match raid_gen3_ssse3 with
  | Some p => In ("raid_gen3_ssse3"%string, GK 3, Some p) all_gen_progs /\ (exists n, 16 = n * step p)%nat /\
              exec_prog p demo_data 16 [] demo_old = spec_blocks cauchyN 3 16 demo_data /\
              List.length (exec_prog p demo_data 16 [] demo_old) = 3%nat
  | None => True
  end.
Proof. exact demo_run. Qed.

Print Assumptions C02_simd_checker_sound.
Print Assumptions C02_simd_all_checked.
Print Assumptions C02_gen_simd_correct.
Print Assumptions C02_simd_pshufb_tables.
