(* C02 / C03 -- the property quantifies over EVERY block size that is a multiple of 64; the per-function theorems of
   Properties_C02_simd / _int and Properties_C03_simd are stated for sizes that are multiples of the loop step of the
   translated program.  These obligations close the gap: the step of every translated generator and decoder divides 64
   (so each theorem covers all multiples of 64; an unrolling to 128 bytes per iteration without a tail breaks this). *)
From Coq Require Import NArith List Bool String Arith.
From Snap.Gen Require Import X86Progs X86RecProgs IntProgs.
From Snap.Simd Require Import SimdDefs SimdAll RecDefs RecAll.
From Snap.IntC Require Import IntDefs IntAll.
Import ListNotations.

Definition divides64 (s : nat) : bool := negb (Nat.eqb s 0) && Nat.eqb (64 mod s) 0.

Lemma simd_steps_ok :
  forallb (fun x => match snd x with Some p => divides64 (SimdDefs.step p) | None => false end) all_gen_progs = true.
Proof. vm_compute. reflexivity. Qed.
Lemma rec_steps_ok :
  forallb (fun x => match snd x with Some p => divides64 (r_step p) | None => false end) all_rec_progs = true.
Proof. vm_compute. reflexivity. Qed.
Lemma int_steps_ok :
  forallb (fun x => match snd x with Some p => divides64 (IntDefs.step p) | None => false end) all_int_progs = true.
Proof. vm_compute. reflexivity. Qed.

Lemma divides64_mult s : divides64 s = true -> forall k, exists n, (64 * k = n * s)%nat.
Proof.
  unfold divides64. intros H k. apply andb_prop in H. destruct H as [Hs Hm].
  apply negb_true_iff in Hs. apply Nat.eqb_neq in Hs. apply Nat.eqb_eq in Hm.
  exists (k * (64 / s))%nat.
  pose proof (Nat.div_mod 64 s Hs) as D. rewrite Hm, Nat.add_0_r in D.
  rewrite <- Nat.mul_assoc. rewrite (Nat.mul_comm (64 / s) s). rewrite <- D. apply Nat.mul_comm.
Qed.

Theorem C02_steps_simd_generators_divide_64 :
  forallb (fun x => match snd x with Some p => divides64 (SimdDefs.step p) | None => false end) all_gen_progs = true.
Proof. exact simd_steps_ok. Qed.
Print Assumptions C02_steps_simd_generators_divide_64.

Theorem C02_steps_int_generators_divide_64 :
  forallb (fun x => match snd x with Some p => divides64 (IntDefs.step p) | None => false end) all_int_progs = true.
Proof. exact int_steps_ok. Qed.
Print Assumptions C02_steps_int_generators_divide_64.

Theorem C02_steps_simd_decoders_divide_64 :
  forallb (fun x => match snd x with Some p => divides64 (r_step p) | None => false end) all_rec_progs = true.
Proof. exact rec_steps_ok. Qed.
Print Assumptions C02_steps_simd_decoders_divide_64.

Theorem C02_steps_every_multiple_of_64_is_covered :
  forall s, divides64 s = true -> forall k, exists n, (64 * k = n * s)%nat.
Proof. exact divides64_mult. Qed.
Print Assumptions C02_steps_every_multiple_of_64_is_covered.
