(* C02 continued -- the SWAR word operations of raid/gf.h act lane-wise for EVERY 32/64-bit word
   (C unsigned wrap-around written out as mod 2^32 / mod 2^64 in the definitions of Swar.v, Swar64.v). *)
From Coq Require Import NArith List Lia.
From Snap.GF Require Gf.
From Snap.Raid Require GenModel.
From Snap.GF Require Import Swar Swar64.
Local Open Scope N_scope.

Theorem C02_x2_64_lanes : forall b0 b1 b2 b3 b4 b5 b6 b7,
  b0 < 256 -> b1 < 256 -> b2 < 256 -> b3 < 256 -> b4 < 256 -> b5 < 256 -> b6 < 256 -> b7 < 256 ->
  x2_64 (pack8 b0 b1 b2 b3 b4 b5 b6 b7) =
  pack8 (xtime b0) (xtime b1) (xtime b2) (xtime b3) (xtime b4) (xtime b5) (xtime b6) (xtime b7).
Proof. exact x2_64_lanes. Qed.
Theorem C02_d2_32_lanes : forall b0 b1 b2 b3, b0 < 256 -> b1 < 256 -> b2 < 256 -> b3 < 256 ->
  d2_32 (pack4 b0 b1 b2 b3) = pack4 (dtime b0) (dtime b1) (dtime b2) (dtime b3).
Proof. exact d2_32_lanes. Qed.
Theorem C02_d2_64_lanes : forall b0 b1 b2 b3 b4 b5 b6 b7,
  b0 < 256 -> b1 < 256 -> b2 < 256 -> b3 < 256 -> b4 < 256 -> b5 < 256 -> b6 < 256 -> b7 < 256 ->
  d2_64 (pack8 b0 b1 b2 b3 b4 b5 b6 b7) =
  pack8 (dtime b0) (dtime b1) (dtime b2) (dtime b3) (dtime b4) (dtime b5) (dtime b6) (dtime b7).
Proof. exact d2_64_lanes. Qed.
(* every word is a pack of bytes, so these are statements about all words *)
Theorem C02_word32_is_pack4 : forall v, v < 2^32 -> exists b0 b1 b2 b3,
  b0 < 256 /\ b1 < 256 /\ b2 < 256 /\ b3 < 256 /\ v = pack4 b0 b1 b2 b3.
Proof. exact word_is_pack4. Qed.
Theorem C02_word64_is_pack8 : forall v, v < 2^64 -> exists b0 b1 b2 b3 b4 b5 b6 b7,
  b0 < 256 /\ b1 < 256 /\ b2 < 256 /\ b3 < 256 /\ b4 < 256 /\ b5 < 256 /\ b6 < 256 /\ b7 < 256 /\
  v = pack8 b0 b1 b2 b3 b4 b5 b6 b7.
Proof. exact word_is_pack8. Qed.
(* the lane functions of the two files coincide with the ones the generator models use *)
Theorem C02_lane_functions_agree : forall a, Swar.xtime a = Snap.GF.Gf.xtime a /\ Swar64.dtime a = Snap.Raid.GenModel.dtime a.
Proof. intros a. split; reflexivity. Qed.

Print Assumptions C02_x2_64_lanes.
Print Assumptions C02_d2_32_lanes.
Print Assumptions C02_d2_64_lanes.
