(* C03 -- Any erasure pattern within the parity count is exactly recoverable.
   Statements only; every proof is `exact <lemma>`. *)
From mathcomp Require Import all_ssreflect all_algebra.
From Coq Require Import NArith.
From Snap.GF Require Import Gf GfField.
From Snap.Raid Require Import CauchyK ExtCauchyK Mds MdsPower GaussJordan.
Set Implicit Arguments.
Unset Strict Implicit.
Import GRing.Theory.
Local Open Scope ring_scope.

(* --- every square sub-matrix of the generator matrices is invertible (no enumeration: root counting) ---- *)
(* extended Cauchy matrix, closed form A (Mds.v), 6 x 251: trivial right and left kernel of every minor *)
Theorem C03_mds_cauchy : forall k (rows : 'I_k -> 'I_6) (cols : 'I_k -> 'I_251) (c : 'I_k -> gf),
  injective rows -> injective cols ->
  (forall a, \sum_(b < k) A (rows a) (cols b) * c b = 0) -> forall b, c b = 0.
Proof. exact mds_kernel. Qed.
Theorem C03_mds_cauchy_left : forall k (rows : 'I_k -> 'I_6) (cols : 'I_k -> 'I_251) (c : 'I_k -> gf),
  injective rows -> injective cols ->
  (forall b, \sum_(a < k) c a * A (rows a) (cols b) = 0) -> forall a, c a = 0.
Proof. exact mds_cauchy_left. Qed.
(* power matrix 1, 2^i, 2^-i of the alternate triple-parity mode, 3 x 251 *)
Theorem C03_mds_power : forall k (rows : 'I_k -> 'I_3) (cols : 'I_k -> 'I_251) (c : 'I_k -> gf),
  injective rows -> injective cols ->
  (forall a, \sum_(b < k) P (rows a) (cols b) * c b = 0) -> forall b, c b = 0.
Proof. exact mds_power_kernel. Qed.
Theorem C03_mds_power_left : forall k (rows : 'I_k -> 'I_3) (cols : 'I_k -> 'I_251) (c : 'I_k -> gf),
  injective rows -> injective cols ->
  (forall b, \sum_(a < k) c a * P (rows a) (cols b) = 0) -> forall a, c a = 0.
Proof. exact mds_power_left. Qed.

(* --- Gauss-Jordan without pivoting (the algorithm of raid_invert), any field, any size ------------------- *)
Theorem C03_no_zero_pivot : forall (F : fieldType) (n : nat) (G : mx F),
  (forall (m : nat) (x : nat -> F), (m <= n)%nat -> in_ker m G x -> forall j : nat, (j < m)%nat -> x j = 0) ->
  forall t : nat, (t < n)%nat -> (run G t).1 t t != 0.
Proof. exact no_zero_pivot. Qed.
Theorem C03_invert_sound : forall (F : fieldType) (n : nat) (G : mx F),
  (forall (m : nat) (x : nat -> F), (m <= n)%nat -> in_ker m G x -> forall j : nat, (j < m)%nat -> x j = 0) ->
  forall i j : nat, (i < n)%nat -> (j < n)%nat -> \sum_(l < n) (run G n).2 i l * G l j = (i == j)%:R.
Proof. exact invert_sound. Qed.

Print Assumptions C03_mds_cauchy.
Print Assumptions C03_mds_cauchy_left.
Print Assumptions C03_mds_power.
Print Assumptions C03_mds_power_left.
Print Assumptions C03_no_zero_pivot.
Print Assumptions C03_invert_sound.
