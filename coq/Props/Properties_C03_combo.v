(* C03 continued -- the combination enumerator of raid/combo.h (used by raid_scan) and the sorting helpers of
   raid/helper.c, for ALL r, n (resp. all lists of length <= 6). *)
From Coq Require Import List Arith Lia Sorted Permutation.
From Snap.Raid Require Import RecModel ComboProofs.
Import ListNotations.

Theorem C03_comb_next_spec : forall r n c, 0 < r -> is_comb r n c ->
  (c = seq (n - r) r /\ comb_next r n c = None) \/
  (c <> seq (n - r) r /\
   exists c', comb_next r n c = Some c' /\ is_comb r n c' /\ lex_lt c c' /\
     (forall d, is_comb r n d -> lex_lt c d -> d = c' \/ lex_lt c' d) /\
     (forall d, is_comb r n d -> ~ (lex_lt c d /\ lex_lt d c'))).
Proof. exact comb_next_spec. Qed.

(* the goto loop never runs out of the model's fuel: None always means "no next combination" *)
Theorem C03_comb_next_fuel : forall r n c, 0 < r ->
  comb_bump3 (S r) (r - 1) n c <> BFuel /\ comb_bump3 r (r - 1) n c <> BFuel.
Proof. exact comb_next_fuel_ok. Qed.

Theorem C03_comb_all_complete : forall r n, 0 < r <= n ->
  let L := comb_all (binom n r) r n (comb_first r) in
  (forall c, In c L <-> is_comb r n c) /\
  StronglySorted lex_lt L /\
  NoDup L /\
  length L = binom n r /\
  L = combs n r 0 /\
  last L [] = seq (n - r) r /\ comb_next r n (last L []) = None /\
  (forall f, binom n r - 1 <= f -> comb_all f r n (comb_first r) = L) /\
  (forall f, length (comb_all f r n (comb_first r)) = Nat.min (S f) (binom n r)).
Proof. exact comb_all_complete. Qed.

Theorem C03_raid_sort_sorts : forall v, length v <= 6 ->
  Sorted le (raid_sort_model v) /\ Permutation (raid_sort_model v) v.
Proof. exact raid_sort_sorts. Qed.
Theorem C03_raid_insert_sorted : forall v x, Sorted le v ->
  Sorted le (raid_insert_model v x) /\ Permutation (raid_insert_model v x) (x :: v).
Proof. exact raid_insert_sorted. Qed.

Example C03_combo_nonvacuous : is_comb 3 7 [1; 4; 6] /\ comb_next 3 7 [1; 4; 6] = Some [1; 5; 6].
Proof. split; [repeat split; cbn; lia|reflexivity]. Qed.

Print Assumptions C03_comb_all_complete.
Print Assumptions C03_raid_sort_sorts.
Print Assumptions C03_raid_insert_sorted.
