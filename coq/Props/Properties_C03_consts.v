(* C02 / C03 -- the geometry bounds used by every raid theorem (6 parity levels, 251 data disks) are RAID_PARITY_MAX and
   RAID_DATA_MAX of raid/raid.h, and the tool's LEV_MAX is the library's RAID_PARITY_MAX (Gen/Consts.v). *)
From Coq Require Import ZArith.
From Snap.Gen Require Import Consts.
Local Open Scope Z_scope.

Theorem C03_consts_geometry : c_RAID_PARITY_MAX = 6 /\ c_RAID_DATA_MAX = 251 /\ c_LEV_MAX = c_RAID_PARITY_MAX /\
                              c_RAID_DATA_MAX + c_RAID_PARITY_MAX <= 257.
Proof. repeat split; try exact eq_refl; discriminate. Qed.
Print Assumptions C03_consts_geometry.
