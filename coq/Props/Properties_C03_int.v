(* C03 continued -- the PORTABLE decoders raid_rec1_int8, raid_rec2_int8, raid_recX_int8 (raid/int.c) and raid_rec2of2_int8
   (raid/raid.c) tied to the recovery theorems by TRANSLATION of their byte loop: Gen/IntRecProgs.v is regenerated from the C
   source on every run (harness/gen/intc_rec.py), IntRecSem.exec_iloop is the semantics of the loop, and the C part (matrix
   set-up, raid_invert, the T[] coefficients of rec2of2, raid_delta_gen, pointer set-up, the fast-path delegations,
   raid_rec1of1) is recognised token for token by the translator and is the hand model of Raid/RecModel.v with its proofs.
   Statements only. *)
From Coq Require Import NArith List Bool String.
From Snap.Gen Require Import Tables IntRecProgs.
From Snap.GF Require Import Gf.
From Snap.Raid Require Import GenModel GenProofs RecModel RecProofs.
From Snap.Simd Require Import SimdSem SimdMath.
From Snap.IntC Require Import IntSem IntRecDefs IntRecSem IntRecCheck IntRecAbs IntRecModel IntRecProofs IntRecAll.
Import ListNotations.
Local Open Scope N_scope.

(* --- rec_int_correct: an accepted general loop computes  out_b = XOR_k V[b*nr+k] . (p[k] ^ pa[k])  for every byte, for every
       nr it serves, every byte matrix V, every size, whatever the locals held at the start of each iteration ------------- *)
Theorem C03_rec_int_correct : forall p nr V pb pa0 size s0,
  ichecker p = true -> nr_allowed p nr -> i_kind p <> KRec2of2 ->
  (forall i, nth i V 0 < 256) -> List.length pa0 = nr ->
  exec_iloop p nr V pb pa0 size s0
  = map (fun b => map (fun x => xsum (fun k => gmul (nth (b * nr + k) V 0)
                                                   (N.lxor (b8 (nth x (nth k pb []) 0)) (b8 (nth x (nth k pa0 []) 0)))) (seq 0 nr))
                      (seq 0 size)) (seq 0 nr).
Proof. exact rec_int_correct. Qed.

(* --- the loop of raid_rec2of2_int8: Dy = T0.Pd + T1.Qd, Dx = Pd + Dy ----------------------------------------------------- *)
Theorem C03_rec_int_2of2 : forall p T0 T1 pb pa0 size s0,
  ichecker p = true -> i_kind p = KRec2of2 -> T0 < 256 -> T1 < 256 -> List.length pa0 = 2%nat ->
  exec_iloop p 2 [T0; T1] pb pa0 size s0
  = let Pd x := N.lxor (b8 (nth x (nth 0 pb []) 0)) (b8 (nth x (nth 0 pa0 []) 0)) in
    let Qd x := N.lxor (b8 (nth x (nth 1 pb []) 0)) (b8 (nth x (nth 1 pa0 []) 0)) in
    let Dy x := N.lxor (gmul T0 (Pd x)) (gmul T1 (Qd x)) in
    [map (fun x => N.lxor (Pd x) (Dy x)) (seq 0 size); map Dy (seq 0 size)].
Proof. exact rec_int_2of2. Qed.

(* --- composed with the C part: every accepted decoder returns exactly the lost blocks (the result IS the list of the
       nr rewritten buffers v[id[k]]; no other buffer is written by the loop) -------------------------------------------- *)
Theorem C03_int_decode_correct : forall p q22 m id ip size orig data par s0,
  ichecker p = true -> q22_ok p q22 -> nr_allowed p (List.length id) -> (i_kind p = KRec2of2 -> ip = [0; 1]%nat) ->
  sorted_lt id = true -> sorted_lt ip = true -> List.length ip = List.length id ->
  (forall d, In d id -> (d < 251)%nat) -> (forall q, In q ip -> (q < rows_of m)%nat) ->
  (forall x, (x < size)%nat -> rec_hyps m id ip (column orig x) (column data x) (column par x)) ->
  int_decode p q22 m id ip size data par s0 = Some (map (fun d => map (fun x => nth x (nth d orig []) 0) (seq 0 size)) id).
Proof. exact int_decode_correct. Qed.

(* --- every decoder generated from the working tree is translated, accepted and of the kind of its slot; the two pointer
       routines have their known text ----------------------------------------------------------------------------------------- *)
Theorem C03_int_rec1_int8 : prog_okb KRec1 raid_rec1_int8 = true. Proof. exact chk_rec1_int8. Qed.
Theorem C03_int_rec2_int8 : prog_okb KRec2 raid_rec2_int8 = true. Proof. exact chk_rec2_int8. Qed.
Theorem C03_int_recX_int8 : prog_okb KRecX raid_recX_int8 = true. Proof. exact chk_recX_int8. Qed.
Theorem C03_int_rec2of2_int8 : prog_okb KRec2of2 raid_rec2of2_int8 = true. Proof. exact chk_rec2of2_int8. Qed.
Theorem C03_int_rec1of1_recognised : recognised_raid_rec1of1 = true. Proof. exact rec1of1_recognised. Qed.
Theorem C03_int_delta_gen_recognised : recognised_raid_delta_gen = true. Proof. exact delta_gen_recognised. Qed.
Theorem C03_int_family_ok : fam_okb gen_family = true. Proof. exact gen_family_ok. Qed.
Theorem C03_int_all_listed :
  map fst all_int_rec_progs = ["raid_rec1_int8"; "raid_rec2_int8"; "raid_recX_int8"; "raid_rec2of2_int8"]%string.
Proof. exact all_listed. Qed.

(* --- hence, for the generated family behind raid_rec_ptr[] (nr = 1: rec1, 2: rec2 -> rec2of2 when P, Q are used, 3..6: recX) --- *)
Theorem C03_int_decoders_correct : forall m id ip size orig data par s0,
  (1 <= List.length id <= 6)%nat ->
  sorted_lt id = true -> sorted_lt ip = true -> List.length ip = List.length id ->
  (forall d, In d id -> (d < 251)%nat) -> (forall q, In q ip -> (q < rows_of m)%nat) ->
  (forall x, (x < size)%nat -> rec_hyps m id ip (column orig x) (column data x) (column par x)) ->
  fam_decode gen_family m id ip size data par s0 = Some (map (fun d => map (fun x => nth x (nth d orig []) 0) (seq 0 size)) id).
Proof. exact int_decoders_correct. Qed.

(* non-vacuity: four concrete recoveries on a 4-disk stripe, through each of the four translated loops *)
Example C03_int_nonvacuous :
  fam_decode gen_family Cauchy [1; 3]%nat [0; 1]%nat 16 (garble [1; 3]%nat) ex_par ex_s0 = Some (lost [1; 3]%nat) /\
  fam_decode gen_family Cauchy [1; 3]%nat [1; 2]%nat 16 (garble [1; 3]%nat) ex_par ex_s0 = Some (lost [1; 3]%nat) /\
  fam_decode gen_family Cauchy [0; 1; 3]%nat [0; 1; 2]%nat 16 (garble [0; 1; 3]%nat) ex_par ex_s0 = Some (lost [0; 1; 3]%nat) /\
  fam_decode gen_family Cauchy [2]%nat [1]%nat 16 (garble [2]%nat) ex_par ex_s0 = Some (lost [2]%nat).
Proof. exact ex_run. Qed.

Print Assumptions C03_rec_int_correct.
Print Assumptions C03_rec_int_2of2.
Print Assumptions C03_int_decode_correct.
Print Assumptions C03_int_family_ok.
Print Assumptions C03_int_decoders_correct.
