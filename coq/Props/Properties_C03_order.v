(* C03 -- raid_delta_gen (raid/raid.c) points every UNUSED lower parity at the buffer of the highest used parity and relies,
   as its own comment says, on every generator storing the parities in ASCENDING order (the last store into the shared
   buffer is then the one of the highest used parity).  This is an obligation on every translated generator: within one
   chunk of the block loop, for every byte offset, the parity indexes of the stores to that offset never decrease.  (A generator that stores P after T computes
   every parity correctly into distinct buffers - C02 holds - and silently breaks recovery with delta parity.) *)
From Coq Require Import NArith List Bool String Arith.
From Snap.Gen Require Import X86Progs IntProgs.
From Snap.Simd Require Import SimdDefs SimdAll.
From Snap.IntC Require Import IntDefs IntAll.
Import ListNotations.

Fixpoint ascending (l : list nat) : bool :=
  match l with
  | a :: ((b :: _) as t) => Nat.leb a b && ascending t
  | _ => true
  end.

(* the stores of one chunk as (level, byte offset inside the chunk); for every offset the levels must be ascending *)
Definition per_offset_ok (st : list (nat * nat)) : bool :=
  forallb (fun o => ascending (map fst (filter (fun x => Nat.eqb (snd x) o) st))) (map snd st).

Definition simd_stores (l : list SimdDefs.instr) : list (nat * nat) :=
  flat_map (fun i => match i with SimdDefs.Store (MemPar j off) _ => [(j, off)] | _ => [] end) l.
Definition simd_order_ok (p : SimdDefs.prog) : bool :=
  per_offset_ok (simd_stores (SimdDefs.chunk_init p ++ SimdDefs.loop_body p ++ SimdDefs.chunk_mid p ++ SimdDefs.chunk_fini p)).

Definition int_stores (l : list IntDefs.stmt) : list (nat * nat) :=
  flat_map (fun s => match s with SStore j off _ => [(j, off)] | _ => [] end) l.
Definition int_order_ok (p : IntDefs.prog) : bool :=
  per_offset_ok (int_stores (IntDefs.chunk_init p ++ IntDefs.loop_body p ++ IntDefs.chunk_fini p)).

Lemma simd_order : forallb (fun x => match snd x with Some p => simd_order_ok p | None => false end) all_gen_progs = true.
Proof. vm_compute. reflexivity. Qed.
Lemma int_order : forallb (fun x => match snd x with Some p => int_order_ok p | None => false end) all_int_progs = true.
Proof. vm_compute. reflexivity. Qed.

Theorem C03_order_simd_generators_store_ascending :
  forallb (fun x => match snd x with Some p => simd_order_ok p | None => false end) all_gen_progs = true.
Proof. exact simd_order. Qed.
Print Assumptions C03_order_simd_generators_store_ascending.

Theorem C03_order_int_generators_store_ascending :
  forallb (fun x => match snd x with Some p => int_order_ok p | None => false end) all_int_progs = true.
Proof. exact int_order. Qed.
Print Assumptions C03_order_int_generators_store_ascending.

Example C03_order_rejects_p_last :
  per_offset_ok [(1, 0); (2, 0); (3, 0); (4, 0); (0, 0)] = false /\ per_offset_ok [(0, 0); (1, 0); (0, 16); (1, 16)] = true.
Proof. split; reflexivity. Qed.
