(* C03 continued -- the recovery code of raid/raid.c, raid/int.c, raid/check.c (models in Raid/RecModel.v, reading the
   REGENERATED tables) reproduces the lost blocks exactly, for every geometry, failure set and content, with frame.
   Statements are per column (one byte offset), which is how every routine works; the block-level functions of
   RecModel.v are maps over the columns. *)
From Coq Require Import NArith List Arith Lia.
From Snap.GF Require Import Gf.
From Snap.Raid Require Import GenModel GenProofs RecModel Xsum RecProofs CheckProofs.
Import ListNotations.
Local Open Scope N_scope.

(* raid_rec: any mix of lost data and parity blocks (ir sorted, at most np of them), any admissible geometry:
   the data column is restored to the original, every parity up to the highest lost one is regenerated to the
   generator's value, parities above it and - when no parity is lost - all parities are left untouched *)
Theorem C03_raid_rec_correct : forall m nd np ir orig col par,
  nd = length orig -> (1 <= nd <= 251)%nat -> (np <= rows_of m)%nat -> (length ir <= np)%nat ->
  sorted_lt ir = true -> (forall i, In i ir -> (i < nd + np)%nat) -> length par = np ->
  good m orig col (filter (fun i => (i <? nd)%nat) ir) ->
  (forall p, (p < np)%nat -> ~ In (nd + p)%nat ir -> nth p par 0 = spec_col (matN m) p orig) ->
  exists par', raid_rec_col m nd np ir col par = Some (orig, par') /\ length par' = np /\
    (forall p q, In (nd + q)%nat ir -> (p <= q)%nat -> nth p par' 0 = spec_col (matN m) p orig) /\
    (forall p, (forall q, In (nd + q)%nat ir -> (q < p)%nat) -> nth p par' 0 = nth p par 0) /\
    ((forall q, ~ In (nd + q)%nat ir) -> par' = par).
Proof. exact raid_rec_col_correct. Qed.

(* raid_data: any admissible choice ip of surviving parities (not only the first ones) *)
Theorem C03_raid_data_correct : forall m id ip orig col par,
  good m orig col id -> (length orig <= 251)%nat ->
  sorted_lt id = true -> sorted_lt ip = true -> length ip = length id ->
  (forall d, In d id -> (d < length orig)%nat) ->
  (forall p, In p ip -> (p < rows_of m)%nat /\ nth p par 0 = spec_col (matN m) p orig) ->
  raid_data_col m (length orig) id ip col par = Some orig.
Proof. exact raid_data_col_correct. Qed.

(* the decoders themselves, including the fast paths raid_rec1of1 and raid_rec2of2_int8 (whose BUG_ON guards are
   shown unreachable inside the proof) *)
Theorem C03_rec_data_correct : forall m id ip orig col par,
  good m orig col id -> (1 <= length id)%nat -> (length orig <= 251)%nat ->
  sorted_lt id = true -> sorted_lt ip = true -> length ip = length id ->
  (forall d, In d id -> (d < length orig)%nat) ->
  (forall p, In p ip -> (p < rows_of m)%nat /\ nth p par 0 = spec_col (matN m) p orig) ->
  rec_data_col m id ip col par = Some (map (fun d => nth d orig 0) id).
Proof. exact rec_data_col_correct. Qed.

(* raid_invert on any sub-matrix of the generator: never aborts (no zero pivot) and returns the inverse *)
Theorem C03_invert_ok : forall m (id ip : list nat) nr,
  sorted_lt id = true -> sorted_lt ip = true -> length id = nr -> length ip = nr ->
  (forall d, In d id -> (d < 251)%nat) -> (forall p, In p ip -> (p < rows_of m)%nat) ->
  let G := fun j k => coefA m (nth j ip 0%nat) (nth k id 0%nat) in
  exists V, invertN G nr = Some V /\
    (forall i j, (i < nr)%nat -> (j < nr)%nat -> V i j < 256) /\
    (forall i j, (i < nr)%nat -> (j < nr)%nat -> xsumN nr (fun l => gmul (V i l) (G l j)) = idN i j).
Proof. exact Snap.Raid.InvertProofs.invertN_ok. Qed.
(* and on an arbitrary byte matrix: whenever it returns, the result is a left inverse *)
Theorem C03_invert_sound : forall (G : mxN) n V,
  (forall i j, (i < n)%nat -> (j < n)%nat -> G i j < 256) -> invertN G n = Some V ->
  (forall i j, (i < n)%nat -> (j < n)%nat -> V i j < 256) /\
  (forall i j, (i < n)%nat -> (j < n)%nat -> xsumN n (fun l => gmul (V i l) (G l j)) = idN i j).
Proof. exact Snap.Raid.InvertProofs.invertN_sound_general. Qed.

(* every square sub-matrix of the table-level matrices has trivial kernel (N-level form of the MDS theorem) *)
Theorem C03_mdsN : forall m (rs cs : list nat) (x : list N),
  sorted_lt rs = true -> sorted_lt cs = true -> length rs = length cs -> length x = length cs ->
  (forall r, In r rs -> (r < rows_of m)%nat) -> (forall c, In c cs -> (c < 251)%nat) -> bytes x ->
  (forall a, (a < length rs)%nat ->
     xsumN (length cs) (fun b => gmul (matN m (nth a rs 0%nat) (nth b cs 0%nat)) (nth b x 0)) = 0) ->
  forall b, (b < length cs)%nat -> nth b x 0 = 0.
Proof. exact Snap.Raid.Bridge.mdsN. Qed.

(* the consistency test: accepts the true failure set, rejects a set that leaves one more wrong block unlisted *)
Theorem C03_check_accepts_true_set : forall m nd np ir orig col par,
  nd = length orig -> (nd <= 251)%nat -> (np <= rows_of m)%nat -> (length ir < np)%nat ->
  sorted_lt ir = true -> (forall i, In i ir -> (i < nd + np)%nat) ->
  good m orig col (filter (fun i => (i <? nd)%nat) ir) ->
  (forall p, (p < np)%nat -> ~ In (nd + p)%nat ir -> nth p par 0 = spec_col (matN m) p orig) ->
  raid_check_col m nd np ir col par = Some true.
Proof. exact check_accepts_true_set. Qed.
Theorem C03_check_rejects_one_more : forall m nd np ir orig col par,
  nd = length orig -> (nd <= 251)%nat -> (np <= rows_of m)%nat -> (length ir < np)%nat ->
  sorted_lt ir = true -> (forall i, In i ir -> (i < nd + np)%nat) ->
  bytes orig -> bytes col -> length col = length orig -> bytes par ->
  forall bad, (bad < nd + np)%nat -> ~ In bad ir ->
  (if (bad <? nd)%nat then nth bad col 0 <> nth bad orig 0
   else nth (bad - nd) par 0 <> spec_col (matN m) (bad - nd) orig) ->
  (forall d, (d < nd)%nat -> ~ In d ir -> d <> bad -> nth d col 0 = nth d orig 0) ->
  (forall p, (p < np)%nat -> ~ In (nd + p)%nat ir -> (nd + p)%nat <> bad -> nth p par 0 = spec_col (matN m) p orig) ->
  raid_check_col m nd np ir col par = Some false.
Proof. exact check_rejects_one_more. Qed.

(* non-vacuity: a concrete 4-disk, 3-parity column with two lost data bytes and one lost parity *)
Example C03_rec_nonvacuous : exists m nd np ir orig col par par',
  raid_rec_col m nd np ir col par = Some (orig, par') /\ length ir = 3%nat /\ orig <> col.
Proof.
  exists Cauchy, 4%nat, 3%nat, [1; 3; 4]%nat, [17; 200; 3; 99], [17; 0; 3; 0],
         [77; spec_col cauchyN 1 [17; 200; 3; 99]; spec_col cauchyN 2 [17; 200; 3; 99]],
         [spec_col cauchyN 0 [17; 200; 3; 99]; spec_col cauchyN 1 [17; 200; 3; 99]; spec_col cauchyN 2 [17; 200; 3; 99]].
  split; [vm_compute; reflexivity|split; [reflexivity|discriminate]].
Qed.

Print Assumptions C03_raid_rec_correct.
Print Assumptions C03_raid_data_correct.
Print Assumptions C03_invert_ok.
Print Assumptions C03_mdsN.
Print Assumptions C03_check_accepts_true_set.
Print Assumptions C03_check_rejects_one_more.
