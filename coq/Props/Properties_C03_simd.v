(* C03 continued -- the SIMD decoders raid_rec{1,2,X}_{ssse3,avx2} of raid/x86.c tied to the recovery theorems by
   TRANSLATION of their asm loop: Gen/X86RecProgs.v is regenerated from the C source on every run
   (harness/gen/x86asm_rec.py), RecSem.exec_rloop is the byte-lane semantics (SimdSem's vector operations), and the C part
   (matrix set-up, raid_invert, raid_delta_gen, pointer set-up, the raid_rec1of1 fast path) is the hand model of
   Raid/RecModel.v with its proofs.  Statements only. *)
From Coq Require Import NArith List Bool String.
From Snap.Gen Require Import Tables X86RecProgs.
From Snap.GF Require Import Gf.
From Snap.Raid Require Import GenModel GenProofs RecModel RecProofs.
From Snap.Simd Require Import SimdDefs SimdSem SimdMath RecDefs RecSem RecCheck RecAbs RecLoop RecSimdModel RecProofs RecAll.
Import ListNotations.
Local Open Scope N_scope.

(* --- gfmulpshufb (regenerated) is the nibble table of the multiplication by m ---------------------------------------- *)
Theorem C03_simd_mul_tables : forall m v, m < 256 -> v < 256 ->
  N.lxor (mtab m 0 (N.to_nat (N.land v 15))) (mtab m 1 (N.to_nat (N.shiftr v 4))) = gmul m v.
Proof. exact mmul_ok. Qed.

(* --- rec_simd_correct: an accepted loop computes  out_b = XOR_k V[b*nr+k] . (p[k] ^ pa[k])  for every byte,
       for every nr it serves, every byte matrix V, every size multiple of the step, any initial registers ------------- *)
Theorem C03_rec_simd_correct : forall p nr V pb pa0 size s0,
  rchecker p = true -> nr_allowed p nr ->
  (forall i, nth i V 0 < 256) -> (exists m, size = (m * r_step p)%nat) ->
  List.length pa0 = nr -> (forall b, (b < nr)%nat -> List.length (nth b pa0 []) = size) ->
  exec_rloop p nr V pb pa0 size s0
  = map (fun b => map (fun x => xsum (fun k => gmul (nth (b * nr + k) V 0)
                                                   (N.lxor (b8 (nth x (nth k pb []) 0)) (b8 (nth x (nth k pa0 []) 0)))) (seq 0 nr))
                      (seq 0 size)) (seq 0 nr).
Proof. exact rec_simd_correct. Qed.

(* --- composed with the C part: the decoder returns exactly the lost blocks ---------------------------------------------- *)
Theorem C03_simd_decode_correct : forall p m id ip size orig data par s0,
  rchecker p = true -> nr_allowed p (List.length id) -> (exists mm, size = (mm * r_step p)%nat) ->
  sorted_lt id = true -> sorted_lt ip = true -> List.length ip = List.length id ->
  (forall d, In d id -> (d < 251)%nat) -> (forall q, In q ip -> (q < rows_of m)%nat) ->
  (forall x, (x < size)%nat -> rec_hyps m id ip (column orig x) (column data x) (column par x)) ->
  simd_decode p m id ip size data par s0 = Some (map (fun d => map (fun x => nth x (nth d orig []) 0) (seq 0 size)) id).
Proof. exact simd_decode_correct. Qed.

(* --- every decoder generated from the working tree is accepted, and serves the nr of its slot in raid_rec_ptr ------------- *)
Theorem C03_simd_rec1_ssse3 : rchecker_opt raid_rec1_ssse3 = true. Proof. exact chk_rec1_ssse3. Qed.
Theorem C03_simd_rec2_ssse3 : rchecker_opt raid_rec2_ssse3 = true. Proof. exact chk_rec2_ssse3. Qed.
Theorem C03_simd_recX_ssse3 : rchecker_opt raid_recX_ssse3 = true. Proof. exact chk_recX_ssse3. Qed.
Theorem C03_simd_rec1_avx2 : rchecker_opt raid_rec1_avx2 = true. Proof. exact chk_rec1_avx2. Qed.
Theorem C03_simd_rec2_avx2 : rchecker_opt raid_rec2_avx2 = true. Proof. exact chk_rec2_avx2. Qed.
Theorem C03_simd_recX_avx2 : rchecker_opt raid_recX_avx2 = true. Proof. exact chk_recX_avx2. Qed.
Theorem C03_simd_all_rec_checked : forallb (fun x => rchecker_opt (snd x)) all_rec_progs = true.
Proof. exact all_rec_checked. Qed.
Theorem C03_simd_rec1_ssse3_serves : serves raid_rec1_ssse3 [1%nat] true. Proof. exact serves_rec1_ssse3. Qed.
Theorem C03_simd_rec2_ssse3_serves : serves raid_rec2_ssse3 [2%nat] false. Proof. exact serves_rec2_ssse3. Qed.
Theorem C03_simd_recX_ssse3_serves : serves raid_recX_ssse3 [1; 2; 3; 4; 5; 6]%nat false. Proof. exact serves_recX_ssse3. Qed.
Theorem C03_simd_rec1_avx2_serves : serves raid_rec1_avx2 [1%nat] true. Proof. exact serves_rec1_avx2. Qed.
Theorem C03_simd_rec2_avx2_serves : serves raid_rec2_avx2 [2%nat] false. Proof. exact serves_rec2_avx2. Qed.
Theorem C03_simd_recX_avx2_serves : serves raid_recX_avx2 [1; 2; 3; 4; 5; 6]%nat false. Proof. exact serves_recX_avx2. Qed.

(* --- hence, for the generated decoders ------------------------------------------------------------------------------------ *)
Theorem C03_simd_decoders_correct : forall f p, In (f, Some p) all_rec_progs ->
  forall m id ip size orig data par s0,
  nr_allowed p (List.length id) -> (exists mm, size = (mm * r_step p)%nat) ->
  sorted_lt id = true -> sorted_lt ip = true -> List.length ip = List.length id ->
  (forall d, In d id -> (d < 251)%nat) -> (forall q, In q ip -> (q < rows_of m)%nat) ->
  (forall x, (x < size)%nat -> rec_hyps m id ip (column orig x) (column data x) (column par x)) ->
  simd_decode p m id ip size data par s0 = Some (map (fun d => map (fun x => nth x (nth d orig []) 0) (seq 0 size)) id).
Proof. exact simd_decoders_correct. Qed.

(* non-vacuity: disks 1 and 3 of a 4-disk stripe are recovered by the interpreted raid_rec2_ssse3 *)
Example C03_simd_nonvacuous :
  match raid_rec2_ssse3 with
  | Some p => simd_decode p Cauchy [1; 3]%nat [0; 1]%nat 16 ex_data ex_par [] = Some [nth 1 ex_orig []; nth 3 ex_orig []]
  | None => True
  end.
Proof. exact ex_run. Qed.

Print Assumptions C03_rec_simd_correct.
Print Assumptions C03_simd_decode_correct.
Print Assumptions C03_simd_all_rec_checked.
Print Assumptions C03_simd_decoders_correct.
