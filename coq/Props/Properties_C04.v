(* C04 -- Every silent corruption of synced data or parity is detected and located.
   Statements only; models: Fix/FixModel.v (check.c state_check_process, one stripe = stripe_step / data_phase /
   compare_phase) and Fix/ScrubStep.v (scrub.c readers and comparisons over C15's Scrub/ScrubModel.v stripe_outcome);
   proofs: Fix/StripeProofs.v, Fix/ScrubProofs.v.  The invariant of C06 enters through Array/SyncProofsDefs.v
   (slot_of, stripe_synced, enc_ok).

   Vocabulary (Fix/StripeProofs.v), for a stripe `pos` of content `c` and a run state `s` (file system, flags, parity, counters):
     plain o            no filter option: not -a, not -e, nothing excluded, every parity level opened and not excluded
     is_bad j           the block of disk position j cannot be read in full or does not hash to the recorded hash
     bufval j           what the data loop puts in the buffer for position j (the block read; zero if none)
     tag_of j           the error tag of position j: error:<pos>:<disk>:<file>: Data error | Read error | Open error
     wrong_level rec buf l   the parity block read for level l is there and is NOT the encoding of the buffer
     prow par pos l     the parity block of level l at this position
   (Fix/ScrubProofs.v)  sbad j / pbad l / dtags j: the same for the scrub readers *)
From Coq Require Import NArith ZArith List Bool Arith Lia.
From Snap.Array Require Import ArrayDefs SyncProofsDefs.
From Snap.Fix Require Import FixModel ScrubStep RepairProofs StripeProofs ScrubProofs Examples.
Require Snap.Scrub.ScrubModel.
Import ListNotations.

(* 1. check_locates, data (check, check -a and fix alike: it is the loop over the disks): on a stripe whose blocks are all
      BLK the error tags emitted are EXACTLY one tag per damaged block, in disk order, each naming position, disk, file and
      block index; one error is counted per tag; the failed set handed to repair is exactly the damaged blocks.  Valid
      for every state of the files except "larger than recorded" (which additionally gives a Size error). *)
Theorem C04_data_errors_located :
  forall (hashf : bid -> N -> hval) (padz : bid -> N -> bool) (truncf : bid -> N -> bid) (bs : N) (nlev : nat)
         (newino : nat -> N -> N) (now : Z) (o : copts) (c : content) (pos : nat) (s : rstate),
    plain nlev o -> stripe_synced c pos -> length (r_fs s) = length (c_disks c) ->
    (forall j f idx b, slot_of c pos j = SFile f idx b ->
       (0 < block_len bs (cf_size f) idx)%N
       /\ (forall g, fs_find (r_fs s) j (cf_name f) = Some g -> (ff_size g <= cf_size f)%N)
       /\ (co_fix o = true \/ fl_missing (get_fl (r_flags s) (j, cf_name f)) = false \/ fs_find (r_fs s) j (cf_name f) = None)) ->
    let a := data_phase hashf bs newino now o c pos s in
    r_tags (da_st a) = r_tags s ++ flat_map (tag_of hashf bs o c pos s) (seq 0 (length (c_disks c)))
    /\ r_err (da_st a) = r_err s + length (filter (is_bad hashf bs c pos s) (seq 0 (length (c_disks c))))
    /\ map fe_idx (da_failed a) = filter (is_bad hashf bs c pos s) (seq 0 (length (c_disks c)))
    /\ (forall j, tag_of hashf bs o c pos s j = [] <-> is_bad hashf bs c pos s j = false)
    /\ (forall j t, In t (tag_of hashf bs o c pos s j) ->
          exists f idx b k, slot_of c pos j = SFile f idx b /\ t = tg k [pos; j] [cf_name f; N.of_nat idx]
                            /\ (k = K_ERR_DATA \/ k = K_ERR_READ \/ k = K_ERR_OPEN)).
Proof. intros hashf padz truncf. exact (data_errors_located hashf padz truncf). Qed.
Print Assumptions C04_data_errors_located.

(* 2. a block is flagged iff it is not the recorded block (collision freedom between the block read and the recorded one) *)
Theorem C04_is_bad_iff_damaged :
  forall (hashf : bid -> N -> hval) (bs : N) (c : content) (pos : nat) (s : rstate) (v : list bid) (j : nat) (f : cfile) (idx : nat) (b : fblock),
    slot_of c pos j = SFile f idx b -> enc_ok hashf bs c pos v -> j < length (c_disks c) ->
    (forall y, read_block bs s j f idx = Some y -> hash_ok hashf bs f idx b y = true -> y = vnth v j) ->
    (is_bad hashf bs c pos s j = false <-> read_block bs s j f idx = Some (vnth v j)).
Proof. exact is_bad_iff. Qed.
Print Assumptions C04_is_bad_iff_damaged.

(* 3. check_locates, parity: the comparison of the parity read with the parity computed from the (repaired) buffer emits
      EXACTLY one parity_error:<pos>:<level> tag per level whose block is there and is not the encoding of the buffer,
      counts one error each, and marks exactly those levels for rewriting; with C01_repair_restores the buffer is the
      recorded vector, so these are exactly the damaged levels *)
Theorem C04_parity_errors_located :
  forall (nlev pos : nat) (rec : list penc) (buf : list bid) (s : rstate),
    compare_phase nlev pos rec buf s
    = (map (fun l => if wrong_level rec buf l then PNone else nth l rec PNone) (seq 0 nlev),
       mkRS (r_fs s) (r_flags s) (r_par s) (r_err s + length (filter (wrong_level rec buf) (seq 0 nlev))) (r_rec s) (r_unrec s)
            (r_tags s ++ map (fun l => tg K_PAR_DATA [pos; l] []) (filter (wrong_level rec buf) (seq 0 nlev))) (r_jn s)).
Proof. exact compare_phase_spec. Qed.
Print Assumptions C04_parity_errors_located.

(* 4. no_false_alarm, check: on an undamaged stripe (every block reads and hashes to the recorded hash, every level encodes
      what was read) the whole stripe step of `check` reports nothing, counts nothing and changes nothing *)
Theorem C04_check_no_false_alarm :
  forall (hashf : bid -> N -> hval) (padz : bid -> N -> bool) (truncf : bid -> N -> bid) (bs : N) (nlev : nat) (reduced : bool)
         (newino : nat -> N -> N) (now : Z) (o : copts) (c : content) (fs0 : list (option fsdisk)) (pos : nat) (s : rstate),
    plain nlev o -> co_fix o = false -> stripe_synced c pos -> length (r_fs s) = length (c_disks c) ->
    (forall j f idx b, slot_of c pos j = SFile f idx b ->
       (0 < block_len bs (cf_size f) idx)%N
       /\ (forall g, fs_find (r_fs s) j (cf_name f) = Some g -> (ff_size g <= cf_size f)%N)
       /\ (co_fix o = true \/ fl_missing (get_fl (r_flags s) (j, cf_name f)) = false \/ fs_find (r_fs s) j (cf_name f) = None)) ->
    (forall j, is_bad hashf bs c pos s j = false) ->
    (forall l, l < nlev -> par_matches (map (bufval bs c pos s) (seq 0 (length (c_disks c)))) (prow (r_par s) pos l) = true) ->
    (forall j f idx b, slot_of c pos j = SFile f idx b ->
       fl_damaged (get_fl (r_flags s) (j, cf_name f)) = false /\ fl_fixed (get_fl (r_flags s) (j, cf_name f)) = false) ->
    let s' := stripe_step hashf padz truncf bs nlev reduced newino now o c fs0 s pos in
    r_tags s' = r_tags s /\ r_err s' = r_err s /\ r_rec s' = r_rec s /\ r_unrec s' = r_unrec s /\ r_fs s' = r_fs s /\ r_par s' = r_par s.
Proof. exact check_step_quiet. Qed.
Print Assumptions C04_check_no_false_alarm.

(* 5. scrub_locates: on a synced stripe whose files keep size and time-stamp (silent corruption) and whose levels all have a
      block, scrub marks the stripe bad IFF a data block does not hash to its recorded hash or (the data being fine) a
      level is not the encoding of the data; the tags are exactly the damaged data blocks, plus -- only when no data block
      is damaged, as scrub.c compares the parity only then -- the damaged levels; silent errors are counted accordingly;
      the stripe's time-stamp is refreshed iff it is not marked bad *)
Theorem C04_scrub_locates :
  forall (hashf : bid -> N -> hval) (bs : N) (nlev : nat) (io_limit : N) (c : content) (par : parity) (fs : list (option fsdisk)) (pos : nat),
    stripe_synced c pos ->
    (forall j f idx b, slot_of c pos j = SFile f idx b ->
       exists g, fs_find fs j (cf_name f) = Some g /\ ff_size g = cf_size f /\ ff_mtime g = cf_mtime f /\ ff_nsec g = cf_nsec f
                 /\ (N.of_nat idx * bs + block_len bs (cf_size f) idx <= cf_size f)%N) ->
    (forall l, l < nlev -> prow par pos l <> PNone) ->
    forall cnt, exists o,
      scrub_stripe hashf bs nlev io_limit cnt c par fs pos = Some o
      /\ so_bad o = existsb (sbad hashf bs c fs pos) (seq 0 (length (c_disks c))) || existsb (pbad c par fs pos) (seq 0 nlev)
      /\ so_refreshed o = negb (so_bad o)
      /\ so_tags o = flat_map (dtags hashf bs c fs pos) (seq 0 (length (c_disks c)))
                     ++ (if existsb (sbad hashf bs c fs pos) (seq 0 (length (c_disks c))) then []
                         else map (fun l => (K_SC_PAR_DATA, [N.of_nat pos; N.of_nat l])) (filter (pbad c par fs pos) (seq 0 nlev)))
      /\ ScrubModel.c_error (so_cnt o) = ScrubModel.c_error cnt /\ ScrubModel.c_io (so_cnt o) = ScrubModel.c_io cnt
      /\ ScrubModel.c_silent (so_cnt o)
         = (ScrubModel.c_silent cnt + N.of_nat (length (filter (sbad hashf bs c fs pos) (seq 0 (length (c_disks c)))))
            + (if existsb (sbad hashf bs c fs pos) (seq 0 (length (c_disks c))) then 0
               else N.of_nat (length (filter (pbad c par fs pos) (seq 0 nlev)))))%N.
Proof. exact scrub_stripe_spec. Qed.
Print Assumptions C04_scrub_locates.

(* 6. no_false_alarm, scrub: nothing damaged -> nothing reported, nothing marked, counters unchanged, time-stamp refreshed *)
Theorem C04_scrub_no_false_alarm :
  forall (hashf : bid -> N -> hval) (bs : N) (nlev : nat) (io_limit : N) (c : content) (par : parity) (fs : list (option fsdisk)) (pos : nat),
    stripe_synced c pos ->
    (forall j f idx b, slot_of c pos j = SFile f idx b ->
       exists g, fs_find fs j (cf_name f) = Some g /\ ff_size g = cf_size f /\ ff_mtime g = cf_mtime f /\ ff_nsec g = cf_nsec f
                 /\ (N.of_nat idx * bs + block_len bs (cf_size f) idx <= cf_size f)%N) ->
    (forall l, l < nlev -> prow par pos l <> PNone) ->
    forall cnt,
    (forall j, sbad hashf bs c fs pos j = false) -> (forall l, l < nlev -> pbad c par fs pos l = false) ->
    exists o, scrub_stripe hashf bs nlev io_limit cnt c par fs pos = Some o
              /\ so_bad o = false /\ so_refreshed o = true /\ so_tags o = []
              /\ ScrubModel.c_error (so_cnt o) = ScrubModel.c_error cnt /\ ScrubModel.c_io (so_cnt o) = ScrubModel.c_io cnt
              /\ ScrubModel.c_silent (so_cnt o) = ScrubModel.c_silent cnt.
Proof. exact scrub_stripe_quiet. Qed.
Print Assumptions C04_scrub_no_false_alarm.

(* Non-vacuity (Fix/Examples.v): the undamaged two-disk two-level stripe satisfies the hypotheses of C04_check_no_false_alarm;
   with level 1 overwritten scrub marks it bad and names the level *)
Example C04_example_check_quiet :
  let s' := stripe_step x_hashf x_padz x_truncf x_bs 2 false x_newino 999 x_check x_c x_fs_ok x_s_ok 0 in
  r_tags s' = [] /\ r_err s' = 0 /\ r_rec s' = 0 /\ r_unrec s' = 0 /\ r_fs s' = x_fs_ok /\ r_par s' = x_par_ok.
Proof. exact x_check_quiet. Qed.
Print Assumptions C04_example_check_quiet.
Example C04_example_scrub_detects :
  exists o, scrub_stripe x_hashf x_bs 2 100 {| ScrubModel.c_error := 0; ScrubModel.c_silent := 0; ScrubModel.c_io := 0 |} x_c
                         [[PEnc [11; 12]%N]; [PJunk 7]] x_fs_ok 0 = Some o
            /\ so_bad o = true /\ so_tags o = [(K_SC_PAR_DATA, [0; 1]%N)].
Proof. exact x_scrub_detects. Qed.
Print Assumptions C04_example_scrub_detects.
