(* C04 -- Every silent corruption of synced data or parity is detected and located.  (first part; see below) *)
From Coq Require Import NArith ZArith List Bool Arith.
From Snap.Array Require Import ArrayDefs.
From Snap.Fix Require Import FixModel.
Import ListNotations.

(* nothing failed: repair reports nothing and changes nothing *)
Theorem C04_repair_nothing_failed :
  forall hashf padz bs nlev reduced pos nosearch fs0 rec buf jn,
    repair hashf padz bs nlev reduced pos nosearch fs0 [] rec buf jn = (ROk, [], buf, jn, []).
Proof. reflexivity. Qed.
Print Assumptions C04_repair_nothing_failed.
