(* C04 -- check / scrub locate every damage and raise no false alarm: THE WHOLE RUN.
   Statements only.  Models: check_run of Fix/FixModel.v in check mode (state_check), scrub_run of Fix/ScrubStep.v (the loop of
   state_scrub_process over the selected stripes).  Proofs: Fix/RunProofs.v (check), Fix/ScrubRun.v (scrub); per stripe:
   Fix/StripeProofs.v check_step_full (new: the whole check step on a damaged, recoverable stripe) and check_step_quiet,
   Fix/ScrubProofs.v scrub_stripe_spec.  Fix/FlagWalk.v: in check mode no step writes the files or the parity, and MISSING is
   only ever set on a file that is absent.  Non-vacuity: Fix/RunExamples.v.

   Vocabulary (Fix/RunProofs.v; synced_array / no_larger / recoverable / restored / obj_good as in Properties_C01_run.v):
     is_located t        t is a "located error" tag: error:<pos>:<disk>:<file>: Open / Read / Data error at position <n>, or
                         parity_error:<pos>:<level>: Read / Data error
     located_of hashf bs nlev o c fs par vs p     what check must report for stripe p of the damaged array (fs, par):
                         for every disk in order, the tag of its block if that block is damaged (absent file: Open error; file
                         too short: Read error; block not hashing to the recorded hash: Data error; tag_of of StripeProofs.v,
                         see C04_data_errors_located) ++ one parity Read error per level without a block at p ++ one parity
                         Data error per level whose block at p does not encode the recorded vector vs p
   The other tags check emits (parity_error:...:mismatch lines of the recovery attempts, hash_unknown, status:recoverable /
   unrecoverable per file, the tags of empty files / links / dirs) are not "located error" tags and are left unconstrained.
   Hypotheses that remain for check: plain options; every stripe synced; no file larger than recorded; and `recoverable`: in
   every stripe #damaged data blocks <= #intact levels plus collision freedom -- needed because check.c compares the parity
   with the data AFTER repairing the data in memory: on an unrecoverable stripe no parity_error is ever reported.
   Scrub: the side conditions of C04_scrub_locates (silent corruption only: size and time-stamp unchanged; every level has a
   block), for every selected stripe; no recoverability condition. *)
From Coq Require Import NArith ZArith List Bool Arith Lia.
From Snap.Array Require Import ArrayDefs.
From Snap.Array Require Import SyncProofsDefs.
From Snap.Fix Require Import FixModel ScrubStep RepairProofs StripeProofs ScrubProofs RunProofs ScrubRun Examples RunExamples.
Require Snap.Scrub.ScrubModel.
Import ListNotations.

(* 1. check, the whole array, any damage (files missing, truncated, silently corrupted, parity blocks overwritten or lost), as
      long as every stripe is recoverable: the located error tags of the whole run are EXACTLY, stripe after stripe, one tag per
      damaged data block and one per damaged level; one error is counted per such tag; the files and the parity are not
      touched; the exit status is non-zero iff there is at least one damage *)
Theorem C04_check_run_exact :
  forall (hashf : bid -> N -> hval) (padz : bid -> N -> bool) (truncf : bid -> N -> bid) (bs : N) (nlev : nat) (reduced : bool)
         (newino : nat -> N -> N) (now : Z) (o : copts) (c : content) (bm : nat) (fs : list (option fsdisk)) (par : parity)
         (vs : nat -> list bid) (objs : list obj),
    plain nlev o -> co_fix o = false -> synced_array hashf padz bs c bm vs ->
    length fs = length (c_disks c) -> no_larger c fs ->
    recoverable hashf padz bs nlev (co_nosearch o) c bm fs par vs -> (forall ob, In ob objs -> obj_good fs ob) ->
    let out := check_run hashf padz truncf bs nlev reduced newino now o c par fs objs (seq 0 bm) in
    let expected := flat_map (located_of hashf bs nlev o c fs par vs) (seq 0 bm) in
    filter is_located (r_tags (out_st out)) = expected
    /\ r_err (out_st out) = length expected
    /\ r_unrec (out_st out) = 0
    /\ (out_fail out = true <-> expected <> [])
    /\ r_fs (out_st out) = fs /\ r_par (out_st out) = par.
Proof. exact run_check_exact. Qed.
Print Assumptions C04_check_run_exact.

(* 2. nothing is expected on an undamaged stripe: every block reads and hashes to the recorded hash, every level encodes the
      recorded vector *)
Theorem C04_located_of_quiet :
  forall (hashf : bid -> N -> hval) (bs : N) (nlev : nat) (o : copts) (c : content) (fs : list (option fsdisk)) (par : parity)
         (vs : nat -> list bid) (p : nat),
    (forall j, is_bad hashf bs c p (st0 fs par) j = false) ->
    (forall l, l < nlev -> par_matches (vs p) (prow par p l) = true) ->
    located_of hashf bs nlev o c fs par vs p = [].
Proof. exact located_of_quiet. Qed.
Print Assumptions C04_located_of_quiet.

(* 3. no false alarm, the whole array: on an undamaged array check emits NO tag at all (not only no located one), counts
      nothing, changes nothing, exit status 0 *)
Theorem C04_check_run_no_false_alarm :
  forall (hashf : bid -> N -> hval) (padz : bid -> N -> bool) (truncf : bid -> N -> bid) (bs : N) (nlev : nat) (reduced : bool)
         (newino : nat -> N -> N) (now : Z) (o : copts) (c : content) (bm : nat) (fs : list (option fsdisk)) (par : parity)
         (vs : nat -> list bid) (objs : list obj),
    plain nlev o -> co_fix o = false -> synced_array hashf padz bs c bm vs ->
    restored nlev c bm vs fs par -> (forall ob, In ob objs -> obj_good fs ob) ->
    let out := check_run hashf padz truncf bs nlev reduced newino now o c par fs objs (seq 0 bm) in
    r_tags (out_st out) = [] /\ r_err (out_st out) = 0 /\ r_unrec (out_st out) = 0 /\ out_fail out = false
    /\ r_fs (out_st out) = fs /\ r_par (out_st out) = par.
Proof. exact run_check_quiet. Qed.
Print Assumptions C04_check_run_no_false_alarm.

(* 4. scrub, a whole plan sel (any list of positions): the tags of the run are exactly, stripe after stripe, the damaged data
      blocks plus -- only when no data block of the stripe is damaged -- the damaged levels; the stripes marked bad are exactly
      the damaged ones, the others get their time refreshed; silent errors are counted accordingly, no other error; the run
      does not bail out; exit status non-zero iff a selected stripe is damaged *)
Theorem C04_scrub_run_exact :
  forall (hashf : bid -> N -> hval) (bs : N) (nlev : nat) (io_limit : N) (c : content) (par : parity) (fs : list (option fsdisk))
         (sel : list nat),
    (forall p, In p sel -> sc_ok bs nlev c par fs p) ->
    let r := scrub_run hashf bs nlev io_limit c par fs sel in
    sr_bailed r = false
    /\ sr_tags r = flat_map (sc_tags hashf bs nlev c par fs) sel
    /\ sr_bad r = filter (sc_bad hashf bs nlev c par fs) sel
    /\ sr_refreshed r = filter (fun p => negb (sc_bad hashf bs nlev c par fs p)) sel
    /\ ScrubModel.c_error (sr_cnt r) = 0%N /\ ScrubModel.c_io (sr_cnt r) = 0%N
    /\ ScrubModel.c_silent (sr_cnt r) = fold_right (fun p a => (sc_silent hashf bs nlev c par fs p + a)%N) 0%N sel
    /\ (scrub_fails r = true <-> exists p, In p sel /\ sc_bad hashf bs nlev c par fs p = true).
Proof. exact scrub_run_exact. Qed.
Print Assumptions C04_scrub_run_exact.

(* Non-vacuity (Fix/RunExamples.v; the array of Properties_C01_run.v).  (a) block 1 of file 1 silently corrupted (stripe 1) and
   level 1 overwritten in stripe 2: the hypotheses of C04_check_run_exact hold and the run computed agrees: exactly one data
   error and one parity error *)
Example C04_example_check_run_exact :
  let out := check_run x_hashf x_padz x_truncf x_bs 2 false x_newino 999 rx_check rx_c rx_par rx_fs2 [] (seq 0 3) in
  let expected := flat_map (located_of x_hashf x_bs 2 rx_check rx_c rx_fs2 rx_par rx_vs) (seq 0 3) in
  filter is_located (r_tags (out_st out)) = expected
  /\ r_err (out_st out) = length expected /\ r_unrec (out_st out) = 0 /\ (out_fail out = true <-> expected <> [])
  /\ r_fs (out_st out) = rx_fs2 /\ r_par (out_st out) = rx_par.
Proof. exact rx_check_run_exact. Qed.
Print Assumptions C04_example_check_run_exact.
Example C04_example_check_run_computed :
  let out := check_run x_hashf x_padz x_truncf x_bs 2 false x_newino 999 rx_check rx_c rx_par rx_fs2 [] (seq 0 3) in
  flat_map (located_of x_hashf x_bs 2 rx_check rx_c rx_fs2 rx_par rx_vs) (seq 0 3) = [(K_ERR_DATA, [1; 0; 1; 1]%N); (K_PAR_DATA, [2; 1]%N)]
  /\ filter is_located (r_tags (out_st out)) = [(K_ERR_DATA, [1; 0; 1; 1]%N); (K_PAR_DATA, [2; 1]%N)]
  /\ out_fail out = true /\ r_err (out_st out) = 2.
Proof. exact rx_check_run_computed. Qed.
Print Assumptions C04_example_check_run_computed.

(* (b) file 2 deleted entirely (stripes 0 and 1) and level 1 overwritten in stripe 2: one Open error per block of the deleted
   file, one parity error *)
Example C04_example_check_run_exact_deleted :
  let out := check_run x_hashf x_padz x_truncf x_bs 2 false x_newino 999 rx_check rx_c rx_par rx_fs [] (seq 0 3) in
  let expected := flat_map (located_of x_hashf x_bs 2 rx_check rx_c rx_fs rx_par rx_vs) (seq 0 3) in
  filter is_located (r_tags (out_st out)) = expected
  /\ r_err (out_st out) = length expected /\ r_unrec (out_st out) = 0 /\ (out_fail out = true <-> expected <> [])
  /\ r_fs (out_st out) = rx_fs /\ r_par (out_st out) = rx_par.
Proof. exact rx_check_run_exact_deleted. Qed.
Print Assumptions C04_example_check_run_exact_deleted.
Example C04_example_check_run_computed_deleted :
  let out := check_run x_hashf x_padz x_truncf x_bs 2 false x_newino 999 rx_check rx_c rx_par rx_fs [] (seq 0 3) in
  filter is_located (r_tags (out_st out)) = [(K_ERR_OPEN, [0; 1; 2; 0]%N); (K_ERR_OPEN, [1; 1; 2; 1]%N); (K_PAR_DATA, [2; 1]%N)]
  /\ flat_map (located_of x_hashf x_bs 2 rx_check rx_c rx_fs rx_par rx_vs) (seq 0 3)
     = [(K_ERR_OPEN, [0; 1; 2; 0]%N); (K_ERR_OPEN, [1; 1; 2; 1]%N); (K_PAR_DATA, [2; 1]%N)]
  /\ out_fail out = true /\ r_err (out_st out) = 3.
Proof. exact rx_check_run_computed_deleted. Qed.
Print Assumptions C04_example_check_run_computed_deleted.

(* (c) scrub over the three stripes of (a) *)
Example C04_example_scrub_run_exact :
  let r := scrub_run x_hashf x_bs 2 100 rx_c rx_par rx_fs2 (seq 0 3) in
  sr_bailed r = false
  /\ sr_tags r = flat_map (sc_tags x_hashf x_bs 2 rx_c rx_par rx_fs2) (seq 0 3)
  /\ sr_bad r = filter (sc_bad x_hashf x_bs 2 rx_c rx_par rx_fs2) (seq 0 3)
  /\ sr_refreshed r = filter (fun p => negb (sc_bad x_hashf x_bs 2 rx_c rx_par rx_fs2 p)) (seq 0 3)
  /\ ScrubModel.c_error (sr_cnt r) = 0%N /\ ScrubModel.c_io (sr_cnt r) = 0%N
  /\ ScrubModel.c_silent (sr_cnt r) = fold_right (fun p a => (sc_silent x_hashf x_bs 2 rx_c rx_par rx_fs2 p + a)%N) 0%N (seq 0 3)
  /\ (scrub_fails r = true <-> exists p, In p (seq 0 3) /\ sc_bad x_hashf x_bs 2 rx_c rx_par rx_fs2 p = true).
Proof. exact rx_scrub_run_exact. Qed.
Print Assumptions C04_example_scrub_run_exact.
Example C04_example_scrub_run_computed :
  let r := scrub_run x_hashf x_bs 2 100 rx_c rx_par rx_fs2 (seq 0 3) in
  sr_tags r = [(K_SC_DATA, [1; 0; 1; 1]%N); (K_SC_PAR_DATA, [2; 1]%N)] /\ sr_bad r = [1; 2] /\ sr_refreshed r = [0] /\ scrub_fails r = true.
Proof. exact rx_scrub_run_computed. Qed.
Print Assumptions C04_example_scrub_run_computed.

(* Why `recoverable` remains a hypothesis of C04_check_run_exact (model witness, by computation): stripe 0 with both data blocks
   damaged and level 1 overwritten is unrecoverable; check reports the data errors and `unrecoverable`, exits non-zero, but the
   Data error of level 1 at stripe 0 -- listed by located_of -- is NOT reported: check.c compares the parity only with data it
   could repair in memory.  (scrub is not affected: C04_scrub_run_exact has no such hypothesis, but it reports the levels only on
   stripes whose data is intact.) *)
Example C04_unrecoverable_stripe_parity_error_not_reported_witness :
  let out := check_run x_hashf x_padz x_truncf x_bs 2 false x_newino 999 rx_check rx_c rx_par3 rx_fs3 [] (seq 0 3) in
  flat_map (located_of x_hashf x_bs 2 rx_check rx_c rx_fs3 rx_par3 rx_vs) (seq 0 3)
  = [(K_ERR_DATA, [0; 0; 1; 0]%N); (K_ERR_OPEN, [0; 1; 2; 0]%N); (K_PAR_DATA, [0; 1]%N); (K_ERR_OPEN, [1; 1; 2; 1]%N)]
  /\ filter is_located (r_tags (out_st out)) = [(K_ERR_DATA, [0; 0; 1; 0]%N); (K_ERR_OPEN, [0; 1; 2; 0]%N); (K_ERR_OPEN, [1; 1; 2; 1]%N)]
  /\ r_unrec (out_st out) = 1 /\ out_fail out = true
  /\ ~ (length (filter (is_bad x_hashf x_bs rx_c 0 (st0 rx_fs3 rx_par3)) (seq 0 2))
        <= length (filter (good_level (rx_vs 0) (map (prow rx_par3 0) (seq 0 2))) (seq 0 2))).
Proof. exact rx_unrecoverable_stripe_no_parity_error. Qed.
Print Assumptions C04_unrecoverable_stripe_parity_error_not_reported_witness.

(* a file larger than recorded (excluded above by no_larger): check reports exactly one `Size error` for it (at its first open), no
   located error, touches nothing, exits non-zero (computed on the model; the harness compares the model with the tool) *)
Example C04_example_grown_file_check :
  let fs := [Some [mkFF 1 2048 200 0 1 [11; 55]%N]; Some [mkFF 2 1024 100 0 2 [12]%N]] in
  let out := check_run x_hashf x_padz x_truncf x_bs 2 false x_newino 999 x_check x_c x_par_ok fs [] (seq 0 1) in
  r_tags (out_st out) = [(K_ERR_SIZE, [0; 0; 1]%N)] /\ out_fail out = true /\ r_err (out_st out) = 1 /\ r_fs (out_st out) = fs.
Proof. exact rx_grown_file_check. Qed.
Print Assumptions C04_example_grown_file_check.
