(* C05 -- Fix never silently leaves or produces wrong data.
   Statements only; model: Fix/FixModel.v (check.c) + Fix/HistModel.v (scan step, sync command over Array/SyncModel.v,
   damage, the version-store judge); proofs: Fix/Witnesses.v.

   The full-strength statement `fix_never_wrong` is FALSE on the faithful model, three different ways (a fourth one, F-C05a, was repaired in /repo); each refutation is
   a concrete history evaluated inside Coq and replayed on the real binary by harness/py/check_C05.py
   (corpus/C05/f_c05{b,c,d}.json -> open findings F-C05b..d; f_c05a.json is a regression case). *)
From Coq Require Import NArith ZArith List Bool Arith.
From Snap.Array Require Import ArrayDefs SyncModel.
From Snap.Fix Require Import FixModel HistModel Witnesses.
Import ListNotations.

(* the statement (Witnesses.fix_never_wrong), unfolded once so that it can be read here *)
Theorem C05_statement :
  fix_never_wrong <->
  (forall hashf padz truncf bs nlev reduced newino now ndisk ops,
     hash_injective hashf -> (0 < bs)%N -> wf_hist bs ops = true ->
     all_fine (run_hist hashf padz truncf bs nlev reduced newino now ndisk ops) = true).
Proof. unfold fix_never_wrong. split; intro H; exact H. Qed.
Print Assumptions C05_statement.

(* a: REPAIRED (/repo 0d034b0).  sync.c used to store the hash of the new data in a CHG block although the stripe was then
      skipped (finding F-C05a).  Regression statement on the same history: the CHG block keeps its past hash after the skipped
      stripe, fix recognises the rebuilt old data ("maybe old data") and the file is reported, not 'recovered' *)
Theorem C05_regression_a :
  wf_hist 1024 ops_a = true /\ all_fine (run false ops_a) = true
  /\ said_recovered (run false ops_a) 0 1 = false
  /\ chg_hash_after_skipped_sync = Some (w_hashf 11%N 1024%N).
Proof. exact regression_a. Qed.
Print Assumptions C05_regression_a.

(* b: check.c:445 compares the rebuilt block with the past hash over the NEW block length *)
Theorem C05_fix_never_wrong_refuted_b : ~ fix_never_wrong.
Proof. exact fix_never_wrong_refuted_b. Qed.
Print Assumptions C05_fix_never_wrong_refuted_b.
Theorem C05_witness_b :
  wf_hist 1024 ops_b = true /\ all_fine (run false ops_b) = false
  /\ file_blocks (run false ops_b) 0 1 = Some [111%N] /\ said_recovered (run false ops_b) 0 1 = true.
Proof. exact witness_b. Qed.
Print Assumptions C05_witness_b.

(* c: stripes whose blocks are all DELETED are dropped without a parity update; ZERO past hash over stale parity *)
Theorem C05_fix_never_wrong_refuted_c : ~ fix_never_wrong.
Proof. exact fix_never_wrong_refuted_c. Qed.
Print Assumptions C05_fix_never_wrong_refuted_c.
Theorem C05_witness_c :
  wf_hist 1024 ops_c = true /\ all_fine (run false ops_c) = false
  /\ file_blocks (run false ops_c) 0 6 = Some [31; 22; 23]%N /\ said_recovered (run false ops_c) 0 6 = true.
Proof. exact witness_c. Qed.
Print Assumptions C05_witness_c.

(* d: with a reduced hash size the INVALID / ZERO markers are not recognised (elem.h hash_is_invalid / hash_is_zero) *)
Theorem C05_fix_never_wrong_refuted_d : ~ fix_never_wrong.
Proof. exact fix_never_wrong_refuted_d. Qed.
Print Assumptions C05_fix_never_wrong_refuted_d.
Theorem C05_witness_d :
  wf_hist 1024 ops_d = true /\ all_fine (run true ops_d) = false
  /\ file_blocks (run true ops_d) 0 4 = Some [41%N] /\ said_recovered (run true ops_d) 0 4 = true.
Proof. exact witness_d. Qed.
Print Assumptions C05_witness_d.
(* the same history with the full hash size is handled as the property demands *)
Theorem C05_witness_d_full_hash : all_fine (run false ops_d) = true /\ said_recovered (run false ops_d) 0 4 = false.
Proof. exact witness_d_full_hash. Qed.
Print Assumptions C05_witness_d_full_hash.
