(* C05 -- Fix never silently leaves or produces wrong data.
   Statements only; model: Fix/FixModel.v (check.c) + Fix/HistModel.v (scan step, sync command over Array/SyncModel.v,
   damage, the version-store judge); proofs: Fix/Witnesses.v.

   The full-strength statement `fix_never_wrong` is FALSE on the faithful model, four different ways; each refutation is
   a concrete history evaluated inside Coq and replayed on the real binary by harness/py/check_C05.py
   (corpus/C05/f_c05{a,b,c,d}.json -> known findings F-C05a..d). *)
From Coq Require Import NArith ZArith List Bool Arith.
From Snap.Array Require Import ArrayDefs SyncModel.
From Snap.Fix Require Import FixModel HistModel Witnesses.
Import ListNotations.

(* the statement (Witnesses.fix_never_wrong), unfolded once so that it can be read here *)
Theorem C05_statement :
  fix_never_wrong <->
  (forall hashf padz truncf bs nlev reduced newino now ndisk ops,
     hash_injective hashf -> (0 < bs)%N -> wf_hist bs ops = true ->
     all_fine (run_hist hashf padz truncf bs nlev reduced newino now ndisk ops) = true).
Proof. unfold fix_never_wrong. split; intro H; exact H. Qed.
Print Assumptions C05_statement.

(* a: sync.c:1015 stores the hash of the new data in a CHG block although the stripe is then skipped *)
Theorem C05_fix_never_wrong_refuted_a : ~ fix_never_wrong.
Proof. exact fix_never_wrong_refuted_a. Qed.
Print Assumptions C05_fix_never_wrong_refuted_a.
Theorem C05_witness_a :
  wf_hist 1024 ops_a = true /\ all_fine (run false ops_a) = false
  /\ file_blocks (run false ops_a) 0 1 = Some [11%N] /\ said_recovered (run false ops_a) 0 1 = true.
Proof. exact witness_a. Qed.
Print Assumptions C05_witness_a.

(* b: check.c:445 compares the rebuilt block with the past hash over the NEW block length *)
Theorem C05_fix_never_wrong_refuted_b : ~ fix_never_wrong.
Proof. exact fix_never_wrong_refuted_b. Qed.
Print Assumptions C05_fix_never_wrong_refuted_b.
Theorem C05_witness_b :
  wf_hist 1024 ops_b = true /\ all_fine (run false ops_b) = false
  /\ file_blocks (run false ops_b) 0 1 = Some [111%N] /\ said_recovered (run false ops_b) 0 1 = true.
Proof. exact witness_b. Qed.
Print Assumptions C05_witness_b.

(* c: stripes whose blocks are all DELETED are dropped without a parity update; ZERO past hash over stale parity *)
Theorem C05_fix_never_wrong_refuted_c : ~ fix_never_wrong.
Proof. exact fix_never_wrong_refuted_c. Qed.
Print Assumptions C05_fix_never_wrong_refuted_c.
Theorem C05_witness_c :
  wf_hist 1024 ops_c = true /\ all_fine (run false ops_c) = false
  /\ file_blocks (run false ops_c) 0 6 = Some [31; 22; 23]%N /\ said_recovered (run false ops_c) 0 6 = true.
Proof. exact witness_c. Qed.
Print Assumptions C05_witness_c.

(* d: with a reduced hash size the INVALID / ZERO markers are not recognised (elem.h hash_is_invalid / hash_is_zero) *)
Theorem C05_fix_never_wrong_refuted_d : ~ fix_never_wrong.
Proof. exact fix_never_wrong_refuted_d. Qed.
Print Assumptions C05_fix_never_wrong_refuted_d.
Theorem C05_witness_d :
  wf_hist 1024 ops_d = true /\ all_fine (run true ops_d) = false
  /\ file_blocks (run true ops_d) 0 4 = Some [41%N] /\ said_recovered (run true ops_d) 0 4 = true.
Proof. exact witness_d. Qed.
Print Assumptions C05_witness_d.
(* the same history with the full hash size is handled as the property demands *)
Theorem C05_witness_d_full_hash : all_fine (run false ops_d) = true /\ said_recovered (run false ops_d) 0 4 = false.
Proof. exact witness_d_full_hash. Qed.
Print Assumptions C05_witness_d_full_hash.
