(* C05 -- Fix never silently leaves or produces wrong data.
   Statements only; model: Fix/FixModel.v (check.c) + Fix/HistModel.v (scan step, sync command over Array/SyncModel.v,
   damage, the version-store judge); proofs: Fix/Witnesses.v.

   The full-strength statement `fix_never_wrong` is FALSE on the faithful model, three different ways (a fourth one, F-C05a, was repaired in /repo); each refutation is
   a concrete history evaluated inside Coq and replayed on the real binary by harness/py/check_C05.py
   (corpus/C05/f_c05{b,c,d}.json -> open findings F-C05b..d; f_c05a.json is a regression case). *)
From Coq Require Import NArith ZArith List Bool Arith.
From Snap.Array Require Import ArrayDefs SyncModel.
From Snap.Fix Require Import FixModel HistModel Witnesses RepairProofs StripeProofs PartialProofs Examples RunProofs RunExamples.
Import ListNotations.

(* the statement (Witnesses.fix_never_wrong), unfolded once so that it can be read here *)
Theorem C05_statement :
  fix_never_wrong <->
  (forall hashf padz truncf bs nlev reduced newino now ndisk ops,
     hash_injective hashf -> (0 < bs)%N -> wf_hist bs ops = true ->
     all_fine (run_hist hashf padz truncf bs nlev reduced newino now ndisk ops) = true).
Proof. unfold fix_never_wrong. split; intro H; exact H. Qed.
Print Assumptions C05_statement.

(* a: REPAIRED (/repo 0d034b0).  sync.c used to store the hash of the new data in a CHG block although the stripe was then
      skipped (finding F-C05a).  Regression statement on the same history: the CHG block keeps its past hash after the skipped
      stripe, fix recognises the rebuilt old data ("maybe old data") and the file is reported, not 'recovered' *)
Theorem C05_regression_a :
  wf_hist 1024 ops_a = true /\ all_fine (run false ops_a) = true
  /\ said_recovered (run false ops_a) 0 1 = false
  /\ chg_hash_after_skipped_sync = Some (w_hashf 11%N 1024%N).
Proof. exact regression_a. Qed.
Print Assumptions C05_regression_a.

(* b: check.c:445 compares the rebuilt block with the past hash over the NEW block length *)
Theorem C05_fix_never_wrong_refuted_b : ~ fix_never_wrong.
Proof. exact fix_never_wrong_refuted_b. Qed.
Print Assumptions C05_fix_never_wrong_refuted_b.
Theorem C05_witness_b :
  wf_hist 1024 ops_b = true /\ all_fine (run false ops_b) = false
  /\ file_blocks (run false ops_b) 0 1 = Some [111%N] /\ said_recovered (run false ops_b) 0 1 = true.
Proof. exact witness_b. Qed.
Print Assumptions C05_witness_b.

(* c: stripes whose blocks are all DELETED are dropped without a parity update; ZERO past hash over stale parity *)
Theorem C05_fix_never_wrong_refuted_c : ~ fix_never_wrong.
Proof. exact fix_never_wrong_refuted_c. Qed.
Print Assumptions C05_fix_never_wrong_refuted_c.
Theorem C05_witness_c :
  wf_hist 1024 ops_c = true /\ all_fine (run false ops_c) = false
  /\ file_blocks (run false ops_c) 0 6 = Some [31; 22; 23]%N /\ said_recovered (run false ops_c) 0 6 = true.
Proof. exact witness_c. Qed.
Print Assumptions C05_witness_c.

(* d: with a reduced hash size the INVALID / ZERO markers are not recognised (elem.h hash_is_invalid / hash_is_zero) *)
Theorem C05_fix_never_wrong_refuted_d : ~ fix_never_wrong.
Proof. exact fix_never_wrong_refuted_d. Qed.
Print Assumptions C05_fix_never_wrong_refuted_d.
Theorem C05_witness_d :
  wf_hist 1024 ops_d = true /\ all_fine (run true ops_d) = false
  /\ file_blocks (run true ops_d) 0 4 = Some [41%N] /\ said_recovered (run true ops_d) 0 4 = true.
Proof. exact witness_d. Qed.
Print Assumptions C05_witness_d.
(* the same history with the full hash size is handled as the property demands *)
Theorem C05_witness_d_full_hash : all_fine (run false ops_d) = true /\ said_recovered (run false ops_d) 0 4 = false.
Proof. exact witness_d_full_hash. Qed.
Print Assumptions C05_witness_d_full_hash.

(* The positive part: fix_never_wrong_partial.  PastHashInv (PartialProofs.past_hash_inv e ob) for a CHG entry e and the
   block ob that the parity encoded at its position before the pending change:
     past hash INVALID : nothing;   ZERO : ob = 0;   a data hash : blockcmp hash (length compared NOW) ob = true,
   i.e. the recorded past hash is the hash of the old block AND it was taken over the length the comparison uses.
   Under it, with the full hash size (reduced = false), whatever the damage and whatever the parity holds: when repair
   succeeds, a bad CHG block that is not marked out-of-date (so: written back and counted as fixed) is NOT the old block.
   The four findings are exactly the four ways to leave this hypothesis: a (repaired) the hash was not the old block's,
   b the length differs, c ZERO although the parity encodes data, d reduced hash size. *)
Theorem C05_fix_never_wrong_partial :
  forall (hashf : bid -> N -> hval) (padz : bid -> N -> bool) (bs : N) (nlev pos : nat) (nosearch : bool) (fs0 : list (option fsdisk))
         (failed : list fent) (rec : list penc) (buf : list bid) (jn : N) (failed' : list fent) (buf' : list bid) (jn' : N) (tags : list (N * list N)),
    repair hashf padz bs nlev false pos nosearch fs0 failed rec buf jn = (ROk, failed', buf', jn', tags) ->
    forall e', In e' failed' -> fe_bad e' = true -> fe_is SChg e' = true -> fe_ood e' = false ->
    forall ob, past_hash_inv hashf padz bs e' ob -> vnth buf' (fe_idx e') <> ob.
Proof. exact repair_never_accepts_old. Qed.
Print Assumptions C05_fix_never_wrong_partial.

(* the hypothesis is satisfiable, and is what the witnesses b and c break *)
Example C05_past_hash_inv_holds :
  past_hash_inv x_hashf x_padz x_bs (mkFE true false 0 (Some SChg) (x_hashf 11%N 1024%N) (Some (x_f1, 0%nat))) 11%N.
Proof. exact x_past_hash_inv_holds. Qed.
Print Assumptions C05_past_hash_inv_holds.
Example C05_past_hash_inv_broken_by_length :
  ~ past_hash_inv x_hashf x_padz x_bs
      (mkFE true false 0 (Some SChg) (x_hashf 11%N 1024%N) (Some (mkCF 1 100 200 0 4 false [mkFB SChg 0 (x_hashf 11%N 1024%N)], 0%nat))) 11%N.
Proof. exact x_past_hash_inv_broken_by_length. Qed.
Print Assumptions C05_past_hash_inv_broken_by_length.
Example C05_past_hash_inv_broken_by_zero :
  ~ past_hash_inv x_hashf x_padz x_bs (mkFE true false 0 (Some SChg) HZero (Some (x_f1, 0%nat))) 22%N.
Proof. exact x_past_hash_inv_broken_by_zero. Qed.
Print Assumptions C05_past_hash_inv_broken_by_zero.

(* OPEN finding F-C05-fix-start-range-recovers-file-with-hole (model witness, by computation; the harness replays the recipe on the
   tool in every run): `fix -S 1` on an array whose file 1 (positions 0 1 2) is missing creates the file at position 1, rebuilds
   blocks 1 and 2, finishes it at its last block: reported recovered, recorded time-stamp, exit status 0 -- block 0 is the zero
   block, not the recorded block 11: a wrong file left under its name without any report *)
Example C05_fix_start_range_hole_witness :
  let fs := [Some []; Some [mkFF 2 2048 100 0 2 [21; 22]%N]] in
  let out := check_run x_hashf x_padz x_truncf x_bs 2 false x_newino 999 rx_fix rx_c rx_par_ok fs [] [1; 2] in
  fs_find (r_fs (out_st out)) 0 1 = Some (mkFF 1 2560 100 0 901 [0; 12; 13]%N)
  /\ In (K_ST_RECOVERED, [0; 1]%N) (r_tags (out_st out))
  /\ out_fail out = false /\ r_unrec (out_st out) = 0
  /\ nth 0 [0; 12; 13]%N 0%N <> vnth (rx_vs 0) 0.
Proof. exact rx_fix_start_range_hole. Qed.
Print Assumptions C05_fix_start_range_hole_witness.

(* The UNSYNCED test (size / time-stamp of the file on disk against the content file) is made once per file and run: opening a file
   that is already flagged OPENED -- e.g. after fix has written a repaired block into it, which changes its time-stamp -- changes
   the UNSYNCED flag of no file, emits no tag and counts no error.  So under -e / -b (which skip UNSYNCED files) the later bad
   blocks of a fragmented file are still repaired after its first block was.  (The rehash-aware hash comparison of repair,
   blockcmp with prevhash, is not in the fix model: histories with a hash migration in progress are judged by the oracle only.) *)
Theorem C05_unsynced_test_once_per_file :
  forall (bs : N) (newino : nat -> N -> N) (now : Z) (o : copts) (pos j : nat) (f : cfile) (s s4 : rstate),
    fl_opened (get_fl (r_flags s) (j, cf_name f)) = true -> open_step bs newino now o pos j f s = Some s4 ->
    (forall k, fl_unsynced (get_fl (r_flags s4) k) = fl_unsynced (get_fl (r_flags s) k))
    /\ r_tags s4 = r_tags s /\ r_err s4 = r_err s.
Proof. exact open_step_opened_keeps_unsynced. Qed.
Print Assumptions C05_unsynced_test_once_per_file.
