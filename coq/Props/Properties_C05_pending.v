(* C05 -- Fix never silently leaves or produces wrong data: ARRAYS WITH PENDING CHANGES, THE WHOLE RUN, full hash size.
   Statements only.  Props/Properties_C05.v: the full-strength statement is refuted on arrays with unsynced blocks, and
   C05_fix_never_wrong_partial is about ONE call of repair.  Props/Properties_C05_run.v: fully synced arrays, any damage.
   Here the block map may hold CHG / REP / DELETED entries anywhere (the states a scan leaves; the model has no separate NEW state:
   a new block is CHG with the ZERO or INVALID past hash), the damage is arbitrary, and the statements are about check_run:

   1. PastHashInvAll, the run-level hypothesis: a predicate on the INITIAL content file and parity (every CHG entry at a position
      the run visits satisfies PartialProofs.past_hash_inv w.r.t. the block that every parity level holding an encoding encodes at
      its position); it is decidable (phi_check).
   2. every call of repair made by the run (ANY options) never accepts the old block (the literal lifting of the partial theorem).
   2b. every bad entry with a recorded hash (BLK, REP) that repair accepts holds a block that passes the recorded hash.
   3. the stripe step on ANY stripe and ANY state (plain options, fix): a name that is not the file of the stripe at its disk is
      not touched; a file of the stripe is renamed away at its last block when flagged DAMAGED, or keeps every other block inside
      its recorded size; the block of the stripe is the block before the step (which, for a BLK / REP block of a file not flagged
      DAMAGED, hashes to the recorded hash) or a rebuilt block x written zero padded -- and then the file is flagged DAMAGED, or:
      for a CHG block x is not the stale old block, for a BLK / REP block x hashes to the recorded hash.
   4. the whole run: at the end every mapped block (any state) belongs to a file flagged DAMAGED, or is the block that was on the
      disk before the run (0 when the file was absent), or is a rebuilt block written at its stripe -- which for a CHG block is NOT
      the stale old block and for a BLK / REP block hashes to the recorded hash; the exit status fails iff something is counted unrecoverable, and a file flagged DAMAGED is always
      counted (failing exit status).  4b: under PastHashInvAll, "not the block any parity level encoded at that position".
      4c: exit status 0 and PastHashInvAll: every CHG block is the block of the disk or a rebuilt block that is not the old one.
      4d: every BLK / REP block of a file not flagged DAMAGED hashes to its recorded hash at the end of the run (any stripe).
      4e: a file that was intact in the damaged array is not touched at all and not flagged.

   4f-4h. a file flagged DAMAGED is reported (status:unrecoverable in the log), renamed away, counted, failing exit status (4f);
      under collision freedom AT the recorded hashes (collision_free_blk) every BLK / REP block of ANY stripe is in a DAMAGED file
      or IS the recorded block (4g); 4h = C05_pending_fix_never_wrong, the property on the model: see its comment for what "the
      recorded block" means for BLK, REP and CHG blocks.
   4i-4j. "reported recovered": status:recovered:<disk>:<file> is in the log iff at the end the file is flagged FIXED and not DAMAGED
      (4i), hence the property phrased with the tag (4j).
   4k. the recorded SIZE: a file not flagged DAMAGED is present at the end under its name with exactly its recorded size, whatever
      its size in the damaged array (larger: cut back at the first open; shorter or missing: grown by the writes of the rebuilt
      blocks).  4h and 4j include it.
   4l-4m. "reported unrecoverable": status:unrecoverable:<disk>:<file> is in the log iff at the end the file is flagged DAMAGED
      (4l: 4f and its converse), and every status:unrecoverable line of the log is for a file of the content file flagged DAMAGED
      (4m: none for any other name).
   5. mixed arrays: a block of an ENTIRELY SYNCED stripe, in an array whose other stripes may hold pending changes, belongs at the
      end to a file flagged DAMAGED or is exactly the recorded block (the recorded vectors, the padding and collision freedom are
      asked of the synced stripes only: synced_part, collision_free_synced).

   WHAT REMAINS OUTSIDE (the `_partial` names of 4b / 4c are kept for continuity; 4h has none): the time stamps / inode of the
   files that the run rewrites are not stated here (for the files it does not touch: statement 4e); options are plain (no -d /
   -f / -m / -e filter, no -a, no import), hash size full (reduced = false: finding d), and the hypotheses PastHashInvAll (findings b, c are its failures) and geom (the shape of the
   content file) are assumed, not derived from the history of the array.
   Proofs: Fix/PendingProofs.v.  Non-vacuity and the findings: Fix/PendingExamples.v. *)
From Coq Require Import NArith ZArith List Bool Arith Lia.
From Snap.Array Require Import ArrayDefs SyncModel.
From Snap.Array Require Import SyncProofsDefs.
From Snap.Fix Require Import FixModel HistModel Witnesses RepairProofs StripeProofs RunProofs PartialProofs Examples GrownProofs SoundProofs PendingProofs PendingExamples.
Import ListNotations.

(* 1. the run-level hypothesis is decidable *)
Theorem C05_pending_past_hash_inv_all_decidable :
  forall (hashf : bid -> N -> hval) (padz : bid -> N -> bool) (bs : N) (c : content) (par : parity),
    phi_check hashf padz bs c par = true <->
    (forall pos j f idx b, pos < c_blockmax c -> slot_of c pos j = SFile f idx b -> fb_state b = SChg ->
     forall l v, nth pos (nth l par []) PNone = PEnc v -> past_hash_inv hashf padz bs (ent j f idx b true) (vnth v j)).
Proof. exact phi_check_spec. Qed.
Print Assumptions C05_pending_past_hash_inv_all_decidable.

(* 2. every call of repair made by the run, any options, any block map, any damage *)
Theorem C05_pending_run_repair_calls_never_accept_old :
  forall (hashf : bid -> N -> hval) (padz : bid -> N -> bool) (truncf : bid -> N -> bid) (bs : N) (nlev : nat)
         (newino : nat -> N -> N) (now : Z) (o : copts) (c : content) (par : parity) (fs : list (option fsdisk)) (k : nat),
    let s := fold_left (fun s pos => if block_enabled nlev o c pos then stripe_step hashf padz truncf bs nlev false newino now o c fs s pos else s)
                       (seq 0 k) (mkRS fs [] par 0 0 0 [] 0%N) in
    let a := data_phase hashf bs newino now o c k s in
    let rec := fst (parity_phase nlev o k (da_st a)) in
    let s1a := snd (parity_phase nlev o k (da_st a)) in
    forall failed' buf jn' rtags,
      repair hashf padz bs nlev false k (co_nosearch o) (search_view fs (r_fs s1a)) (da_failed a) rec (da_buf a) (r_jn s1a) = (ROk, failed', buf, jn', rtags) ->
      forall e', In e' failed' -> fe_bad e' = true -> fe_is SChg e' = true -> fe_ood e' = false ->
      forall ob, past_hash_inv hashf padz bs e' ob -> vnth buf (fe_idx e') <> ob.
Proof. exact run_repair_calls_never_accept_old. Qed.
Print Assumptions C05_pending_run_repair_calls_never_accept_old.

(* 2b. ... and every bad entry WITH a recorded hash (BLK, REP) that repair accepts (answer ROk, entry not marked out-of-date) holds
       a block that hashes to the recorded hash: blocks fetched from other files, blocks rebuilt by strategy 1 (parity updated) and
       by strategy 2 (parity old) alike.  Any damage, any parity, no collision hypothesis. *)
Theorem C05_pending_repair_ok_hash_verified :
  forall (hashf : bid -> N -> hval) (padz : bid -> N -> bool) (bs : N) (nlev pos : nat) (nosearch : bool) (fs0 : list (option fsdisk))
         (failed : list fent) (rec : list penc) (buf : list bid) (jn : N) (failed' : list fent) (buf' : list bid) (jn' : N) (tags : list (N * list N)),
    NoDup (map fe_idx failed) -> (forall e, In e failed -> fe_idx e < length buf) ->
    repair hashf padz bs nlev false pos nosearch fs0 failed rec buf jn = (ROk, failed', buf', jn', tags) ->
    forall e', In e' failed' -> fe_bad e' = true -> fe_ood e' = false -> fe_updated_hash e' = true ->
      hval_eqb (hashf (vnth buf' (fe_idx e')) (fe_len bs e')) (fe_hash e') = true.
Proof. exact repair_ok_hash_verified. Qed.
Print Assumptions C05_pending_repair_ok_hash_verified.

(* 3. the stripe step, any stripe, any state *)
Theorem C05_pending_fix_step :
  forall (hashf : bid -> N -> hval) (padz : bid -> N -> bool) (truncf : bid -> N -> bid) (bs : N) (nlev : nat)
         (newino : nat -> N -> N) (now : Z) (o : copts) (c : content) (fs0 : list (option fsdisk)) (pos : nat) (s : rstate),
    plain nlev o -> co_fix o = true -> length (r_fs s) = length (c_disks c) ->
    let s' := stripe_step hashf padz truncf bs nlev false newino now o c fs0 s pos in
    length (r_fs s') = length (r_fs s)
    /\ (forall j n, (forall f idx b, slot_of c pos j = SFile f idx b -> cf_name f <> n) -> fs_find (r_fs s') j n = fs_find (r_fs s) j n)
    /\ (forall j f idx b, slot_of c pos j = SFile f idx b ->
          (fs_find (r_fs s') j (cf_name f) = None /\ fl_damaged (get_fl (r_flags s') (j, cf_name f)) = true /\ S idx = length (cf_blocks f))
          \/ ((forall i, i <> idx -> i < nblocks bs (cf_size f) -> fblk (r_fs s') j (cf_name f) i = fblk (r_fs s) j (cf_name f) i)
              /\ (idx < nblocks bs (cf_size f) ->
                    (fblk (r_fs s') j (cf_name f) idx = fblk (r_fs s) j (cf_name f) idx
                     /\ (fb_state b <> SChg ->
                         fl_damaged (get_fl (r_flags s') (j, cf_name f)) = true \/ hash_ok hashf bs f idx b (fblk (r_fs s) j (cf_name f) idx) = true))
                    \/ exists x, fblk (r_fs s') j (cf_name f) idx = wbv padz truncf bs f idx x
                                 /\ (fb_state b = SChg ->
                                     fl_damaged (get_fl (r_flags s') (j, cf_name f)) = true \/ NotOld hashf padz bs j f idx b x)
                                 /\ (fb_state b <> SChg ->
                                     fl_damaged (get_fl (r_flags s') (j, cf_name f)) = true \/ hash_ok hashf bs f idx b x = true))))
    /\ (r_unrec s <= r_unrec s' /\ (r_unrec s' = r_unrec s -> forall k, fl_damaged (get_fl (r_flags s') k) = fl_damaged (get_fl (r_flags s) k))).
Proof. exact fix_step_pending. Qed.
Print Assumptions C05_pending_fix_step.

(* 4. the whole run *)
Theorem C05_pending_fix_run_chg :
  forall (hashf : bid -> N -> hval) (padz : bid -> N -> bool) (truncf : bid -> N -> bid) (bs : N) (nlev : nat)
         (newino : nat -> N -> N) (now : Z) (o : copts) (c : content) (bm : nat) (fs : list (option fsdisk)) (par : parity) (objs : list obj),
    plain nlev o -> co_fix o = true -> geom bs c bm -> c_blockmax c = bm ->
    length fs = length (c_disks c) -> nlev <= length par -> objs_ok c objs ->
    let out := check_run hashf padz truncf bs nlev false newino now o c par fs objs (seq 0 bm) in
    (out_fail out = true <-> r_unrec (out_st out) <> 0)
    /\ (forall key, fl_damaged (get_fl (r_flags (out_st out)) key) = true -> r_unrec (out_st out) <> 0 /\ out_fail out = true)
    /\ forall p j f i b, slot_of c p j = SFile f i b ->
         fl_damaged (get_fl (r_flags (out_st out)) (j, cf_name f)) = true
         \/ (fblk (r_fs (out_st out)) j (cf_name f) i = fblk fs j (cf_name f) i
             /\ (fb_state b <> SChg -> hash_ok hashf bs f i b (fblk fs j (cf_name f) i) = true))
         \/ exists x, fblk (r_fs (out_st out)) j (cf_name f) i = wbv padz truncf bs f i x /\ (fb_state b = SChg -> NotOld hashf padz bs j f i b x)
                      /\ (fb_state b <> SChg -> hash_ok hashf bs f i b x = true).
Proof. exact run_fix_chg_pending. Qed.
Print Assumptions C05_pending_fix_run_chg.

(* 4b. ... under PastHashInvAll *)
Theorem C05_pending_fix_run_never_old_partial :
  forall (hashf : bid -> N -> hval) (padz : bid -> N -> bool) (truncf : bid -> N -> bid) (bs : N) (nlev : nat)
         (newino : nat -> N -> N) (now : Z) (o : copts) (c : content) (bm : nat) (fs : list (option fsdisk)) (par : parity) (objs : list obj),
    plain nlev o -> co_fix o = true -> geom bs c bm -> c_blockmax c = bm ->
    length fs = length (c_disks c) -> nlev <= length par -> objs_ok c objs ->
    PastHashInvAll hashf padz bs c par ->
    let out := check_run hashf padz truncf bs nlev false newino now o c par fs objs (seq 0 bm) in
    forall p j f i b, slot_of c p j = SFile f i b -> fb_state b = SChg ->
      fl_damaged (get_fl (r_flags (out_st out)) (j, cf_name f)) = true
      \/ fblk (r_fs (out_st out)) j (cf_name f) i = fblk fs j (cf_name f) i
      \/ exists x, fblk (r_fs (out_st out)) j (cf_name f) i = wbv padz truncf bs f i x
                   /\ forall l v, nth p (nth l par []) PNone = PEnc v -> x <> vnth v j.
Proof. exact run_fix_chg_not_old_partial. Qed.
Print Assumptions C05_pending_fix_run_never_old_partial.

(* 4c. exit status 0: no file is flagged DAMAGED, hence every CHG block of the map is the block that was on the disk before the run
       or a rebuilt block that is not the block any parity level encoded at its position *)
Theorem C05_pending_fix_run_exit0_never_old_partial :
  forall (hashf : bid -> N -> hval) (padz : bid -> N -> bool) (truncf : bid -> N -> bid) (bs : N) (nlev : nat)
         (newino : nat -> N -> N) (now : Z) (o : copts) (c : content) (bm : nat) (fs : list (option fsdisk)) (par : parity) (objs : list obj),
    plain nlev o -> co_fix o = true -> geom bs c bm -> c_blockmax c = bm ->
    length fs = length (c_disks c) -> nlev <= length par -> objs_ok c objs ->
    PastHashInvAll hashf padz bs c par ->
    let out := check_run hashf padz truncf bs nlev false newino now o c par fs objs (seq 0 bm) in
    out_fail out = false ->
    forall p j f i b, slot_of c p j = SFile f i b -> fb_state b = SChg ->
      fblk (r_fs (out_st out)) j (cf_name f) i = fblk fs j (cf_name f) i
      \/ exists x, fblk (r_fs (out_st out)) j (cf_name f) i = wbv padz truncf bs f i x
                   /\ forall l v, nth p (nth l par []) PNone = PEnc v -> x <> vnth v j.
Proof. exact run_fix_exit0_chg_not_old_partial. Qed.
Print Assumptions C05_pending_fix_run_exit0_never_old_partial.

(* 4d. the blocks WITH a recorded hash (BLK, REP), in ANY stripe (pending or not), whatever the damage and the parity: at the end
       of the run the file is flagged DAMAGED (hence counted, failing exit status: statement 4), or the block is a block x that
       hashes to the recorded hash -- the block of the disk left as it was, or a rebuilt block written zero padded.  No collision
       hypothesis, no PastHashInvAll. *)
Theorem C05_pending_fix_run_blk_verified :
  forall (hashf : bid -> N -> hval) (padz : bid -> N -> bool) (truncf : bid -> N -> bid) (bs : N) (nlev : nat)
         (newino : nat -> N -> N) (now : Z) (o : copts) (c : content) (bm : nat) (fs : list (option fsdisk)) (par : parity) (objs : list obj),
    plain nlev o -> co_fix o = true -> geom bs c bm -> c_blockmax c = bm ->
    length fs = length (c_disks c) -> nlev <= length par -> objs_ok c objs ->
    let out := check_run hashf padz truncf bs nlev false newino now o c par fs objs (seq 0 bm) in
    forall p j f i b, slot_of c p j = SFile f i b -> fb_state b <> SChg ->
      fl_damaged (get_fl (r_flags (out_st out)) (j, cf_name f)) = true
      \/ exists x, (fblk (r_fs (out_st out)) j (cf_name f) i = x \/ fblk (r_fs (out_st out)) j (cf_name f) i = wbv padz truncf bs f i x)
                   /\ hash_ok hashf bs f i b x = true.
Proof. exact run_fix_blk_verified. Qed.
Print Assumptions C05_pending_fix_run_blk_verified.

(* 4e. a file that was intact in the damaged array (not larger than recorded, every mapped block readable and, when it has a
       recorded hash, hashing to it) is not touched -- content, size, time-stamp, inode -- and not flagged, whatever happens to the
       other files of its stripes *)
Theorem C05_pending_fix_run_intact_untouched :
  forall (hashf : bid -> N -> hval) (padz : bid -> N -> bool) (truncf : bid -> N -> bid) (bs : N) (nlev : nat)
         (newino : nat -> N -> N) (now : Z) (o : copts) (c : content) (bm : nat) (fs : list (option fsdisk)) (par : parity) (objs : list obj),
    plain nlev o -> co_fix o = true -> geom bs c bm -> c_blockmax c = bm ->
    length fs = length (c_disks c) -> nlev <= length par -> objs_ok c objs ->
    let out := check_run hashf padz truncf bs nlev false newino now o c par fs objs (seq 0 bm) in
    forall p j f i b, slot_of c p j = SFile f i b -> intact_pending hashf bs c fs par j f ->
      fs_find (r_fs (out_st out)) j (cf_name f) = fs_find fs j (cf_name f)
      /\ fl_damaged (get_fl (r_flags (out_st out)) (j, cf_name f)) = false.
Proof. exact run_fix_intact_untouched. Qed.
Print Assumptions C05_pending_fix_run_intact_untouched.

(* 4f. a file flagged DAMAGED: status:unrecoverable:<disk>:<file> is in the log, the file is renamed away (the model removes it
       from its name), it is counted and the exit status fails *)
Theorem C05_pending_fix_run_damaged_reported :
  forall (hashf : bid -> N -> hval) (padz : bid -> N -> bool) (truncf : bid -> N -> bid) (bs : N) (nlev : nat)
         (newino : nat -> N -> N) (now : Z) (o : copts) (c : content) (bm : nat) (fs : list (option fsdisk)) (par : parity) (objs : list obj),
    plain nlev o -> co_fix o = true -> geom bs c bm -> c_blockmax c = bm ->
    length fs = length (c_disks c) -> nlev <= length par -> objs_ok c objs ->
    let out := check_run hashf padz truncf bs nlev false newino now o c par fs objs (seq 0 bm) in
    forall p j f i b, slot_of c p j = SFile f i b -> fl_damaged (get_fl (r_flags (out_st out)) (j, cf_name f)) = true ->
      fs_find (r_fs (out_st out)) j (cf_name f) = None /\ In (K_ST_UNREC, [N.of_nat j; cf_name f]) (r_tags (out_st out))
      /\ r_unrec (out_st out) <> 0 /\ out_fail out = true.
Proof. exact run_fix_damaged_reported. Qed.
Print Assumptions C05_pending_fix_run_damaged_reported.

(* 4g. collision freedom AT the recorded hashes (collision_free_blk: rb p j is the recorded block of the BLK / REP slot (p, j), it
       hashes to the recorded hash, it is zero padded, and a block that hashes to the recorded hash of the slot is rb p j): every
       block with a recorded hash, in ANY stripe -- also the stripes that hold pending changes -- is in a file flagged DAMAGED or
       IS the recorded block *)
Theorem C05_pending_fix_run_blk_exact :
  forall (hashf : bid -> N -> hval) (padz : bid -> N -> bool) (truncf : bid -> N -> bid) (bs : N) (nlev : nat)
         (newino : nat -> N -> N) (now : Z) (o : copts) (c : content) (bm : nat) (fs : list (option fsdisk)) (par : parity) (objs : list obj)
         (rb : nat -> nat -> bid),
    plain nlev o -> co_fix o = true -> geom bs c bm -> c_blockmax c = bm ->
    length fs = length (c_disks c) -> nlev <= length par -> objs_ok c objs ->
    collision_free_blk hashf padz bs c bm rb ->
    let out := check_run hashf padz truncf bs nlev false newino now o c par fs objs (seq 0 bm) in
    forall p j f i b, slot_of c p j = SFile f i b -> fb_state b <> SChg ->
      fl_damaged (get_fl (r_flags (out_st out)) (j, cf_name f)) = true
      \/ fblk (r_fs (out_st out)) j (cf_name f) i = rb p j.
Proof. exact run_fix_blk_exact. Qed.
Print Assumptions C05_pending_fix_run_blk_exact.

(* 4h. THE PROPERTY on the model, full hash size, plain options, under PastHashInvAll and collision freedom at the recorded hashes:
       whatever the block map (pending changes anywhere) and whatever the damage, after fix every file recorded in the content file
       is EITHER reported unrecoverable (DAMAGED flag, status:unrecoverable line, renamed away, counted, failing exit status) OR left
       under its name, not flagged, with
         - exactly its recorded size;
         - at every block WITH a recorded hash (BLK; REP, whose hash is inherited from the source of the copy) exactly the
           recorded block;
         - at every CHG block -- a block WITHOUT a recorded hash: the content file only knows the past hash of what the parity
           encoded there, the new data was never hashed, so "the recorded version" is not defined for it and "not the stale old
           block" is the strongest statement the content file supports -- the block that was on the disk before the run, or a
           rebuilt block that is not the block any parity level encoded at that position.
       The exit status fails iff something is counted unrecoverable. *)
Theorem C05_pending_fix_never_wrong :
  forall (hashf : bid -> N -> hval) (padz : bid -> N -> bool) (truncf : bid -> N -> bid) (bs : N) (nlev : nat)
         (newino : nat -> N -> N) (now : Z) (o : copts) (c : content) (bm : nat) (fs : list (option fsdisk)) (par : parity) (objs : list obj)
         (rb : nat -> nat -> bid),
    plain nlev o -> co_fix o = true -> geom bs c bm -> c_blockmax c = bm ->
    length fs = length (c_disks c) -> nlev <= length par -> objs_ok c objs ->
    PastHashInvAll hashf padz bs c par -> collision_free_blk hashf padz bs c bm rb ->
    let out := check_run hashf padz truncf bs nlev false newino now o c par fs objs (seq 0 bm) in
    (out_fail out = true <-> r_unrec (out_st out) <> 0)
    /\ forall p j f i b, slot_of c p j = SFile f i b ->
         (fl_damaged (get_fl (r_flags (out_st out)) (j, cf_name f)) = true
          /\ fs_find (r_fs (out_st out)) j (cf_name f) = None /\ In (K_ST_UNREC, [N.of_nat j; cf_name f]) (r_tags (out_st out))
          /\ r_unrec (out_st out) <> 0 /\ out_fail out = true)
         \/ (fl_damaged (get_fl (r_flags (out_st out)) (j, cf_name f)) = false
             /\ (exists g, fs_find (r_fs (out_st out)) j (cf_name f) = Some g /\ ff_size g = cf_size f)
             /\ (fb_state b <> SChg -> fblk (r_fs (out_st out)) j (cf_name f) i = rb p j)
             /\ (fb_state b = SChg ->
                   fblk (r_fs (out_st out)) j (cf_name f) i = fblk fs j (cf_name f) i
                   \/ exists x, fblk (r_fs (out_st out)) j (cf_name f) i = wbv padz truncf bs f i x
                                /\ forall l v, nth p (nth l par []) PNone = PEnc v -> x <> vnth v j)).
Proof. exact run_fix_never_wrong. Qed.
Print Assumptions C05_pending_fix_never_wrong.

(* 4i. "reported recovered".  What check_run really does: file_post, at the LAST block of a file, says status:recovered for it iff
       the file is flagged FIXED (a block of it was rebuilt and written by this run, or the file was cut back to its recorded size
       at its first open) and not DAMAGED; nothing else in the stripe loop says status:recovered (the walk of FlagWalk.v replayed
       for that tag), the empty files / links say it for other names.  Over the whole run: status:recovered:<disk>:<file> is in
       the log exactly when, at the end, the file is flagged FIXED and not DAMAGED *)
Theorem C05_pending_fix_run_recovered_iff :
  forall (hashf : bid -> N -> hval) (padz : bid -> N -> bool) (truncf : bid -> N -> bid) (bs : N) (nlev : nat)
         (newino : nat -> N -> N) (now : Z) (o : copts) (c : content) (bm : nat) (fs : list (option fsdisk)) (par : parity) (objs : list obj),
    plain nlev o -> co_fix o = true -> geom bs c bm -> c_blockmax c = bm ->
    length fs = length (c_disks c) -> nlev <= length par -> objs_ok c objs ->
    let out := check_run hashf padz truncf bs nlev false newino now o c par fs objs (seq 0 bm) in
    forall p j f i b, slot_of c p j = SFile f i b ->
      (In (K_ST_RECOVERED, [N.of_nat j; cf_name f]) (r_tags (out_st out)) <->
       fl_fixed (get_fl (r_flags (out_st out)) (j, cf_name f)) = true /\ fl_damaged (get_fl (r_flags (out_st out)) (j, cf_name f)) = false).
Proof. exact run_fix_recovered_iff. Qed.
Print Assumptions C05_pending_fix_run_recovered_iff.

(* 4j. the property phrased with the tag, as Properties_C05.v's said_recovered does: a file REPORTED RECOVERED is present with its
       recorded size and holds at every block with a recorded hash the recorded block, and at every CHG block the block of the disk or a rebuilt block that is not the stale
       old block *)
Theorem C05_pending_fix_recovered_never_wrong :
  forall (hashf : bid -> N -> hval) (padz : bid -> N -> bool) (truncf : bid -> N -> bid) (bs : N) (nlev : nat)
         (newino : nat -> N -> N) (now : Z) (o : copts) (c : content) (bm : nat) (fs : list (option fsdisk)) (par : parity) (objs : list obj)
         (rb : nat -> nat -> bid),
    plain nlev o -> co_fix o = true -> geom bs c bm -> c_blockmax c = bm ->
    length fs = length (c_disks c) -> nlev <= length par -> objs_ok c objs ->
    PastHashInvAll hashf padz bs c par -> collision_free_blk hashf padz bs c bm rb ->
    let out := check_run hashf padz truncf bs nlev false newino now o c par fs objs (seq 0 bm) in
    forall p j f i b, slot_of c p j = SFile f i b -> In (K_ST_RECOVERED, [N.of_nat j; cf_name f]) (r_tags (out_st out)) ->
      (exists g, fs_find (r_fs (out_st out)) j (cf_name f) = Some g /\ ff_size g = cf_size f)
      /\ (fb_state b <> SChg -> fblk (r_fs (out_st out)) j (cf_name f) i = rb p j)
      /\ (fb_state b = SChg ->
            fblk (r_fs (out_st out)) j (cf_name f) i = fblk fs j (cf_name f) i
            \/ exists x, fblk (r_fs (out_st out)) j (cf_name f) i = wbv padz truncf bs f i x
                         /\ forall l v, nth p (nth l par []) PNone = PEnc v -> x <> vnth v j).
Proof. exact run_fix_recovered_never_wrong. Qed.
Print Assumptions C05_pending_fix_recovered_never_wrong.

(* 4k. the recorded size of the files the run leaves not flagged *)
Theorem C05_pending_fix_run_size_exact :
  forall (hashf : bid -> N -> hval) (padz : bid -> N -> bool) (truncf : bid -> N -> bid) (bs : N) (nlev : nat)
         (newino : nat -> N -> N) (now : Z) (o : copts) (c : content) (bm : nat) (fs : list (option fsdisk)) (par : parity) (objs : list obj),
    plain nlev o -> co_fix o = true -> geom bs c bm -> c_blockmax c = bm ->
    length fs = length (c_disks c) -> nlev <= length par -> objs_ok c objs ->
    let out := check_run hashf padz truncf bs nlev false newino now o c par fs objs (seq 0 bm) in
    forall p j f i b, slot_of c p j = SFile f i b ->
      fl_damaged (get_fl (r_flags (out_st out)) (j, cf_name f)) = false ->
      exists g, fs_find (r_fs (out_st out)) j (cf_name f) = Some g /\ ff_size g = cf_size f.
Proof. exact run_fix_size_exact. Qed.
Print Assumptions C05_pending_fix_run_size_exact.

(* 4l. "reported unrecoverable".  What check_run really does: file_post, at the LAST block of a file flagged DAMAGED, renames it
       away and says status:unrecoverable; nothing else in the run says it (the walk replayed for that tag; the empty files /
       links never say it); DAMAGED is never reset.  Over the whole run: the line is in the log exactly when the file is
       flagged DAMAGED at the end *)
Theorem C05_pending_fix_run_unrec_iff :
  forall (hashf : bid -> N -> hval) (padz : bid -> N -> bool) (truncf : bid -> N -> bid) (bs : N) (nlev : nat)
         (newino : nat -> N -> N) (now : Z) (o : copts) (c : content) (bm : nat) (fs : list (option fsdisk)) (par : parity) (objs : list obj),
    plain nlev o -> co_fix o = true -> geom bs c bm -> c_blockmax c = bm ->
    length fs = length (c_disks c) -> nlev <= length par -> objs_ok c objs ->
    let out := check_run hashf padz truncf bs nlev false newino now o c par fs objs (seq 0 bm) in
    forall p j f i b, slot_of c p j = SFile f i b ->
      (In (K_ST_UNREC, [N.of_nat j; cf_name f]) (r_tags (out_st out)) <-> fl_damaged (get_fl (r_flags (out_st out)) (j, cf_name f)) = true).
Proof. exact run_fix_unrec_iff. Qed.
Print Assumptions C05_pending_fix_run_unrec_iff.

(* 4m. no status:unrecoverable line for any other name *)
Theorem C05_pending_fix_run_unrec_only :
  forall (hashf : bid -> N -> hval) (padz : bid -> N -> bool) (truncf : bid -> N -> bid) (bs : N) (nlev : nat)
         (newino : nat -> N -> N) (now : Z) (o : copts) (c : content) (bm : nat) (fs : list (option fsdisk)) (par : parity) (objs : list obj),
    plain nlev o -> co_fix o = true -> geom bs c bm -> c_blockmax c = bm ->
    length fs = length (c_disks c) -> nlev <= length par -> objs_ok c objs ->
    let out := check_run hashf padz truncf bs nlev false newino now o c par fs objs (seq 0 bm) in
    forall t, fst t = K_ST_UNREC -> In t (r_tags (out_st out)) ->
      exists p j f i b, slot_of c p j = SFile f i b /\ t = (K_ST_UNREC, [N.of_nat j; cf_name f])
                        /\ fl_damaged (get_fl (r_flags (out_st out)) (j, cf_name f)) = true.
Proof. exact run_fix_unrec_only. Qed.
Print Assumptions C05_pending_fix_run_unrec_only.

(* 5. mixed arrays: the blocks of the entirely synced stripes *)
Theorem C05_pending_fix_run_synced_stripes :
  forall (hashf : bid -> N -> hval) (padz : bid -> N -> bool) (truncf : bid -> N -> bid) (bs : N) (nlev : nat)
         (newino : nat -> N -> N) (now : Z) (o : copts) (c : content) (bm : nat) (fs : list (option fsdisk)) (par : parity)
         (vs : nat -> list bid) (objs : list obj),
    plain nlev o -> co_fix o = true -> geom bs c bm -> c_blockmax c = bm ->
    length fs = length (c_disks c) -> nlev <= length par -> objs_ok c objs ->
    synced_part hashf padz bs c bm vs ->
    collision_free_synced hashf padz bs nlev (co_nosearch o) c bm fs par vs ->
    let out := check_run hashf padz truncf bs nlev false newino now o c par fs objs (seq 0 bm) in
    forall p j f i b, slot_of c p j = SFile f i b -> stripe_synced c p ->
      fl_damaged (get_fl (r_flags (out_st out)) (j, cf_name f)) = true
      \/ fblk (r_fs (out_st out)) j (cf_name f) i = vnth (vs p) j.
Proof. exact run_fix_synced_stripes. Qed.
Print Assumptions C05_pending_fix_run_synced_stripes.

(* Non-vacuity (Fix/PendingExamples.v): the state a scan inside sync leaves after file 1 was replaced by a version of the same
   size (history ops_ok of the vocabulary of Witnesses.v), the new file then lost: PastHashInvAll holds, the hypotheses of 4b
   hold, and the run computed agrees (the rebuilt block is the old one, repair recognises it, the file is reported unrecoverable) *)
Example C05_pending_example_scanned_state :
  h_c (run false ops_ok) = px_c /\ h_par (run false ops_ok) = px_par /\ h_fs (run false ops_ok) = px_fs.
Proof. exact px_is_scanned_state. Qed.
Print Assumptions C05_pending_example_scanned_state.

Example C05_pending_example_past_hash_inv_all : PastHashInvAll w_hashf w_padz 1024 px_c px_par.
Proof. exact px_past_hash_inv_all. Qed.
Print Assumptions C05_pending_example_past_hash_inv_all.

Example C05_pending_example_run :
  let out := check_run w_hashf w_padz w_truncf 1024 2 false w_newino 999 x_fix px_c px_par px_fs [] (seq 0 2) in
  fl_damaged (get_fl (r_flags (out_st out)) (0, 1%N)) = true
  \/ fblk (r_fs (out_st out)) 0 1%N 0 = fblk px_fs 0 1%N 0
  \/ exists x, fblk (r_fs (out_st out)) 0 1%N 0 = wbv w_padz w_truncf 1024 px_f1 0 x
               /\ forall l v, nth 0 (nth l px_par []) PNone = PEnc v -> x <> vnth v 0.
Proof. exact px_fix_run_chg_not_old. Qed.
Print Assumptions C05_pending_example_run.

Example C05_pending_example_run_computed :
  let out := check_run w_hashf w_padz w_truncf 1024 2 false w_newino 999 x_fix px_c px_par px_fs [] (seq 0 2) in
  fl_damaged (get_fl (r_flags (out_st out)) (0, 1%N)) = true /\ fs_find (r_fs (out_st out)) 0 1%N = None
  /\ out_fail out = true /\ r_unrec (out_st out) = 1.
Proof. exact px_fix_run_computed. Qed.
Print Assumptions C05_pending_example_run_computed.

(* the same array with file 2 (stripe 1, entirely synced) lost as well: statement 5 applies to stripe 1, and the run computed
   restores file 2 while file 1 (the pending change) is reported unrecoverable *)
Example C05_pending_example_mixed :
  let out := check_run w_hashf w_padz w_truncf 1024 2 false w_newino 999 x_fix px_c px_par px_fs2 [] (seq 0 2) in
  fl_damaged (get_fl (r_flags (out_st out)) (0, 2%N)) = true \/ fblk (r_fs (out_st out)) 0 2%N 0 = 12%N.
Proof. exact px_fix_run_synced_stripes. Qed.
Print Assumptions C05_pending_example_mixed.
Example C05_pending_example_intact :
  let out := check_run w_hashf w_padz w_truncf 1024 2 false w_newino 999 x_fix px_c px_par px_fs2 [] (seq 0 2) in
  fs_find (r_fs (out_st out)) 1 3%N = fs_find px_fs2 1 3%N /\ fl_damaged (get_fl (r_flags (out_st out)) (1, 3%N)) = false.
Proof. exact px_fix_run_intact. Qed.
Print Assumptions C05_pending_example_intact.
Example C05_pending_example_collision_free_blk : collision_free_blk w_hashf w_padz 1024 px_c 2 px_rb.
Proof. exact px_collision_free_blk. Qed.
Print Assumptions C05_pending_example_collision_free_blk.
Example C05_pending_example_never_wrong :
  let out := check_run w_hashf w_padz w_truncf 1024 2 false w_newino 999 x_fix px_c px_par px_fs2 [] (seq 0 2) in
  (out_fail out = true <-> r_unrec (out_st out) <> 0)
  /\ forall p j f i b, slot_of px_c p j = SFile f i b ->
       (fl_damaged (get_fl (r_flags (out_st out)) (j, cf_name f)) = true
        /\ fs_find (r_fs (out_st out)) j (cf_name f) = None /\ In (K_ST_UNREC, [N.of_nat j; cf_name f]) (r_tags (out_st out))
        /\ r_unrec (out_st out) <> 0 /\ out_fail out = true)
       \/ (fl_damaged (get_fl (r_flags (out_st out)) (j, cf_name f)) = false
           /\ (exists g, fs_find (r_fs (out_st out)) j (cf_name f) = Some g /\ ff_size g = cf_size f)
           /\ (fb_state b <> SChg -> fblk (r_fs (out_st out)) j (cf_name f) i = px_rb p j)
           /\ (fb_state b = SChg ->
                 fblk (r_fs (out_st out)) j (cf_name f) i = fblk px_fs2 j (cf_name f) i
                 \/ exists x, fblk (r_fs (out_st out)) j (cf_name f) i = wbv w_padz w_truncf 1024 f i x
                              /\ forall l v, nth p (nth l px_par []) PNone = PEnc v -> x <> vnth v j)).
Proof. exact px_fix_never_wrong. Qed.
Print Assumptions C05_pending_example_never_wrong.
Example C05_pending_example_recovered_iff :
  let out := check_run w_hashf w_padz w_truncf 1024 2 false w_newino 999 x_fix px_c px_par px_fs2 [] (seq 0 2) in
  (In (K_ST_RECOVERED, [0; 2]%N) (r_tags (out_st out)) <->
   fl_fixed (get_fl (r_flags (out_st out)) (0, 2%N)) = true /\ fl_damaged (get_fl (r_flags (out_st out)) (0, 2%N)) = false)
  /\ (In (K_ST_RECOVERED, [0; 1]%N) (r_tags (out_st out)) <->
      fl_fixed (get_fl (r_flags (out_st out)) (0, 1%N)) = true /\ fl_damaged (get_fl (r_flags (out_st out)) (0, 1%N)) = false).
Proof. exact px_fix_run_recovered_iff. Qed.
Print Assumptions C05_pending_example_recovered_iff.
Example C05_pending_example_recovered_computed :
  let out := check_run w_hashf w_padz w_truncf 1024 2 false w_newino 999 x_fix px_c px_par px_fs2 [] (seq 0 2) in
  filter (fun t => N.eqb (fst t) K_ST_RECOVERED || N.eqb (fst t) K_ST_UNREC) (r_tags (out_st out))
  = [(K_ST_UNREC, [0; 1]%N); (K_ST_RECOVERED, [0; 2]%N)].
Proof. exact px_fix_run_recovered_computed. Qed.
Print Assumptions C05_pending_example_recovered_computed.
(* the size: file 2 truncated to nothing (px_fs3) or grown to two blocks (px_fs4) ends with its recorded 1024 bytes and block *)
Example C05_pending_example_size_exact :
  forall fs, fs = px_fs3 \/ fs = px_fs4 ->
  let out := check_run w_hashf w_padz w_truncf 1024 2 false w_newino 999 x_fix px_c px_par fs [] (seq 0 2) in
  forall p j f i b, slot_of px_c p j = SFile f i b ->
    fl_damaged (get_fl (r_flags (out_st out)) (j, cf_name f)) = false ->
    exists g, fs_find (r_fs (out_st out)) j (cf_name f) = Some g /\ ff_size g = cf_size f.
Proof. exact px_fix_size_exact. Qed.
Print Assumptions C05_pending_example_size_exact.
Example C05_pending_example_size_computed :
  let out3 := check_run w_hashf w_padz w_truncf 1024 2 false w_newino 999 x_fix px_c px_par px_fs3 [] (seq 0 2) in
  let out4 := check_run w_hashf w_padz w_truncf 1024 2 false w_newino 999 x_fix px_c px_par px_fs4 [] (seq 0 2) in
  (option_map ff_size (fs_find (r_fs (out_st out3)) 0 2%N) = Some 1024%N /\ option_map ff_blocks (fs_find (r_fs (out_st out3)) 0 2%N) = Some [12%N]
   /\ fl_damaged (get_fl (r_flags (out_st out3)) (0, 2%N)) = false)
  /\ (option_map ff_size (fs_find (r_fs (out_st out4)) 0 2%N) = Some 1024%N /\ option_map ff_blocks (fs_find (r_fs (out_st out4)) 0 2%N) = Some [12%N]
      /\ fl_damaged (get_fl (r_flags (out_st out4)) (0, 2%N)) = false).
Proof. exact px_fix_size_computed. Qed.
Print Assumptions C05_pending_example_size_computed.
Example C05_pending_example_unrec_iff :
  let out := check_run w_hashf w_padz w_truncf 1024 2 false w_newino 999 x_fix px_c px_par px_fs2 [] (seq 0 2) in
  (In (K_ST_UNREC, [0; 1]%N) (r_tags (out_st out)) <-> fl_damaged (get_fl (r_flags (out_st out)) (0, 1%N)) = true)
  /\ (In (K_ST_UNREC, [0; 2]%N) (r_tags (out_st out)) <-> fl_damaged (get_fl (r_flags (out_st out)) (0, 2%N)) = true)
  /\ forall t, fst t = K_ST_UNREC -> In t (r_tags (out_st out)) ->
        exists p j f i b, slot_of px_c p j = SFile f i b /\ t = (K_ST_UNREC, [N.of_nat j; cf_name f])
                          /\ fl_damaged (get_fl (r_flags (out_st out)) (j, cf_name f)) = true.
Proof. exact px_fix_run_unrec_iff. Qed.
Print Assumptions C05_pending_example_unrec_iff.
Example C05_pending_example_mixed_computed :
  let out := check_run w_hashf w_padz w_truncf 1024 2 false w_newino 999 x_fix px_c px_par px_fs2 [] (seq 0 2) in
  fs_find (r_fs (out_st out)) 0 2%N = Some (mkFF 2 1024 100 0 902 [12%N])
  /\ fl_damaged (get_fl (r_flags (out_st out)) (0, 2%N)) = false
  /\ fl_damaged (get_fl (r_flags (out_st out)) (0, 1%N)) = true /\ fs_find (r_fs (out_st out)) 0 1%N = None
  /\ out_fail out = true.
Proof. exact px_fix_run_mixed_computed. Qed.
Print Assumptions C05_pending_example_mixed_computed.

(* the open findings b and c are failures of PastHashInvAll in the state before the fix; the repaired a keeps it, and so does d,
   whose failure is the reduced hash size (excluded here by reduced = false) *)
Example C05_pending_witness_b_breaks_hypothesis :
  ~ PastHashInvAll w_hashf w_padz 1024 (h_c (run false (firstn 7 ops_b))) (h_par (run false (firstn 7 ops_b))).
Proof. exact witness_b_breaks_past_hash_inv_all. Qed.
Print Assumptions C05_pending_witness_b_breaks_hypothesis.
Example C05_pending_witness_c_breaks_hypothesis :
  ~ PastHashInvAll w_hashf w_padz 1024 (h_c (run false (firstn 13 ops_c))) (h_par (run false (firstn 13 ops_c))).
Proof. exact witness_c_breaks_past_hash_inv_all. Qed.
Print Assumptions C05_pending_witness_c_breaks_hypothesis.
Example C05_pending_regression_a_keeps_hypothesis :
  PastHashInvAll w_hashf w_padz 1024 (h_c (run false (firstn 7 ops_a))) (h_par (run false (firstn 7 ops_a))).
Proof. exact regression_a_keeps_past_hash_inv_all. Qed.
Print Assumptions C05_pending_regression_a_keeps_hypothesis.
Example C05_pending_witness_d_keeps_hypothesis :
  PastHashInvAll w_hashf w_padz 1024 (h_c (run false (firstn 9 ops_d))) (h_par (run false (firstn 9 ops_d))).
Proof. exact witness_d_keeps_past_hash_inv_all. Qed.
Print Assumptions C05_pending_witness_d_keeps_hypothesis.
