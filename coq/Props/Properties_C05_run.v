(* C05 -- Fix never silently leaves or produces wrong data: FULLY SYNCED ARRAYS, THE WHOLE RUN, NO BOUND ON THE DAMAGE.
   Statements only.  Props/Properties_C05.v refutes the full-strength statement on arrays with unsynced (CHG) blocks and keeps the
   repair-level lemma C05_fix_never_wrong_partial.  For an array that is entirely synced (every stripe: all blocks BLK, no hole)
   the statement IS a theorem of the run model (Fix/FixModel.v check_run), whatever the damage -- more failed devices than parity
   levels, files missing / truncated / corrupted / larger than recorded, parity missing / overwritten:

     after fix, every file recorded in the content file either exists with exactly its recorded size and every one of its blocks
     is the recorded block, or is flagged DAMAGED: reported unrecoverable (status:unrecoverable, at its last block), renamed away
     (the model removes it from its name: the tool renames it to <name>.unrecoverable), counted (r_unrec > 0) and reflected in a
     failing exit status.  The exit status is 0 iff nothing is unrecoverable, and then the array is completely restored, parity
     included.  A file that was intact in the damaged array is not touched.

   The only hypothesis on the damage is collision freedom of the hash on the blocks involved (collision_free = `recoverable` of
   Properties_C01_run.v WITHOUT its counting clause "damaged data blocks <= intact parity levels").
   Proofs: Fix/SoundProofs.v (repair_ok_sound: an accepted combination passed the hash test of every failed entry;
   body_ok / body_fail: the step before file_post for both answers of repair, replaying StripeProofs.v fix_step_full with the
   reference state of GrownProofs.v; post_general: file_post also for files flagged DAMAGED; fix_step_sound; the run invariant
   rinvS).  Non-vacuity: Fix/SoundExamples.v.
   The log only grows (Rt, the walk of FlagWalk.v replayed for the tags), so the status:unrecoverable line of every flagged file is
   in the log at the end (statement 3b).
   Not covered: arrays with CHG / REP / DELETED blocks or holes (refuted in general: Properties_C05.v); filters, -a, import; that
   status:recovered is ONLY said of restored files is not stated (the tags are not characterised exactly in fix mode). *)
From Coq Require Import NArith ZArith List Bool Arith Lia.
From Snap.Array Require Import ArrayDefs.
From Snap.Array Require Import SyncProofsDefs.
From Snap.Fix Require Import FixModel RepairProofs StripeProofs RunProofs Examples RunExamples GrownProofs GrownExamples SoundProofs SoundExamples.
Import ListNotations.

(* 1. repair on a stripe whose failed blocks are all BLK (a synced stripe), NO hypothesis on the number of intact levels: the list
      of failed entries comes back unchanged, and if the answer is ROk the buffer holds the recorded vector *)
Theorem C05_repair_ok_sound :
  forall (hashf : bid -> N -> hval) (padz : bid -> N -> bool) (bs : N) (nlev : nat) (reduced : bool) (pos : nat) (nosearch : bool)
         (fs0 : list (option fsdisk)) (failed : list fent) (rec : list penc) (v buf : list bid) (jn : N)
         (res : rres) (failed' : list fent) (buf' : list bid) (jn' : N) (tags : list (N * list N)),
    blk_failed failed buf ->
    cf_junk hashf padz bs failed -> cf_rec hashf padz bs failed rec v -> cf_vec hashf padz bs failed v ->
    cf_search hashf bs nosearch fs0 failed v ->
    agree_out (map fe_idx failed) v buf = true ->
    repair hashf padz bs nlev reduced pos nosearch fs0 failed rec buf jn = (res, failed', buf', jn', tags) ->
    failed' = failed /\ (res = ROk -> full v buf buf').
Proof. exact repair_ok_sound. Qed.
Print Assumptions C05_repair_ok_sound.

(* 2. the stripe step, whatever repair answers; files of the stripe may already be flagged DAMAGED, and may be larger than
      recorded if never opened *)
Theorem C05_fix_step_sound :
  forall (hashf : bid -> N -> hval) (padz : bid -> N -> bool) (truncf : bid -> N -> bid) (bs : N) (nlev : nat) (reduced : bool)
         (newino : nat -> N -> N) (now : Z) (o : copts) (c : content) (fs0 : list (option fsdisk)) (pos : nat) (sA : rstate) (v : list bid),
    plain nlev o -> co_fix o = true -> stripe_synced c pos -> length (r_fs sA) = length (c_disks c) ->
    (forall j f idx b, slot_of c pos j = SFile f idx b ->
       (0 < block_len bs (cf_size f) idx)%N /\ (N.of_nat idx * bs + block_len bs (cf_size f) idx <= cf_size f)%N
       /\ (forall g, fs_find (r_fs sA) j (cf_name f) = Some g -> (cf_size f < ff_size g)%N ->
                     fl_opened (get_fl (r_flags sA) (j, cf_name f)) = false)) ->
    enc_ok hashf bs c pos v ->
    (forall j f idx b, slot_of c pos j = SFile f idx b -> pad_ok padz bs (vnth v j) (block_len bs (cf_size f) idx) = true) ->
    (forall j f idx b y, slot_of c pos j = SFile f idx b -> read_block bs sA j f idx = Some y -> hash_ok hashf bs f idx b y = true -> y = vnth v j) ->
    let n := length (c_disks c) in
    let rec := map (prow (r_par sA) pos) (seq 0 nlev) in
    let failed := flat_map (fent_of hashf bs c pos sA) (seq 0 n) in
    cf_junk hashf padz bs failed -> cf_rec hashf padz bs failed rec v -> cf_vec hashf padz bs failed v ->
    (forall fsx, cf_search hashf bs (co_nosearch o) fsx failed v) ->
    nlev <= length (r_par sA) ->
    let s' := stripe_step hashf padz truncf bs nlev reduced newino now o c fs0 sA pos in
    length (r_fs s') = length (r_fs sA)
    /\ (length (r_par s') = length (r_par sA) /\ forall l p, p <> pos -> nth p (nth l (r_par s') []) PNone = nth p (nth l (r_par sA) []) PNone)
    /\ r_unrec sA <= r_unrec s'
    (* the files that have no block in this stripe are not touched at all, nor are their DAMAGED, FIXED and OPENED flags *)
    /\ (forall j' n', (forall f idx b, slot_of c pos j' = SFile f idx b -> cf_name f <> n') ->
                      fs_find (r_fs s') j' n' = fs_find (r_fs sA) j' n'
                      /\ fl_damaged (get_fl (r_flags s') (j', n')) = fl_damaged (get_fl (r_flags sA) (j', n'))
                      /\ fl_fixed (get_fl (r_flags s') (j', n')) = fl_fixed (get_fl (r_flags sA) (j', n'))
                      /\ fl_opened (get_fl (r_flags s') (j', n')) = fl_opened (get_fl (r_flags sA) (j', n')))
    (* DAMAGED is never cleared *)
    /\ (forall k, fl_damaged (get_fl (r_flags sA) k) = true -> fl_damaged (get_fl (r_flags s') k) = true)
    (* the files of this stripe *)
    /\ (forall j f idx b, slot_of c pos j = SFile f idx b ->
          (* not flagged DAMAGED: the block of the stripe is the recorded block *)
          (fl_damaged (get_fl (r_flags s') (j, cf_name f)) = false ->
             exists g, fs_find (r_fs s') j (cf_name f) = Some g /\ nth idx (ff_blocks g) 0%N = vnth v j
                       /\ (N.of_nat idx * bs + block_len bs (cf_size f) idx <= ff_size g)%N /\ (ff_size g <= cf_size f)%N)
          (* flagged DAMAGED, last block: reported unrecoverable and renamed away *)
          /\ (fl_damaged (get_fl (r_flags s') (j, cf_name f)) = true -> S idx = length (cf_blocks f) ->
                fs_find (r_fs s') j (cf_name f) = None /\ In (K_ST_UNREC, [N.of_nat j; cf_name f]) (r_tags s'))
          (* frame for the other blocks of the file *)
          /\ ((S idx = length (cf_blocks f) /\ fl_damaged (get_fl (r_flags s') (j, cf_name f)) = true)
              \/ ((forall i, i <> idx -> i < nblocks bs (cf_size f) -> fblk (r_fs s') j (cf_name f) i = fblk (r_fs sA) j (cf_name f) i)
                  /\ (N.min (fsz (r_fs sA) j (cf_name f)) (cf_size f) <= fsz (r_fs s') j (cf_name f))%N
                  /\ (fsz (r_fs s') j (cf_name f) <= N.max (N.min (fsz (r_fs sA) j (cf_name f)) (cf_size f)) (N.of_nat idx * bs + block_len bs (cf_size f) idx))%N))
          /\ (fsz (r_fs s') j (cf_name f) <= cf_size f)%N
          (* where the flags come from *)
          /\ (fl_damaged (get_fl (r_flags s') (j, cf_name f)) = true ->
                fl_damaged (get_fl (r_flags sA) (j, cf_name f)) = true \/ is_bad hashf bs c pos sA j = true)
          /\ (fl_fixed (get_fl (r_flags s') (j, cf_name f)) = true ->
                fl_fixed (get_fl (r_flags sA) (j, cf_name f)) = true \/ grownb c pos sA j = true \/ is_bad hashf bs c pos sA j = true)
          /\ (fl_fixed (get_fl (r_flags sA) (j, cf_name f)) = true -> fl_fixed (get_fl (r_flags s') (j, cf_name f)) = true)
          /\ (fl_damaged (get_fl (r_flags s') (j, cf_name f)) = false -> fl_fixed (get_fl (r_flags s') (j, cf_name f)) = false ->
                fs_find (r_fs s') j (cf_name f) = fs_find (r_fs sA) j (cf_name f))
          /\ (uniq_stamp c j f -> S idx = length (cf_blocks f) -> fl_fixed (get_fl (r_flags s') (j, cf_name f)) = true ->
              fl_damaged (get_fl (r_flags s') (j, cf_name f)) = false ->
              exists g, fs_find (r_fs s') j (cf_name f) = Some g /\ ff_mtime g = cf_mtime f /\ ff_nsec g = cf_nsec f))
    (* nothing more unrecoverable: no new DAMAGED flag, the parity of the stripe is re-encoded *)
    /\ (r_unrec s' = r_unrec sA ->
          (forall k, fl_damaged (get_fl (r_flags s') k) = fl_damaged (get_fl (r_flags sA) k))
          /\ (forall l, l < nlev -> par_matches v (prow (r_par s') pos l) = true)).
Proof. exact fix_step_sound. Qed.
Print Assumptions C05_fix_step_sound.

(* 3. THE WHOLE RUN *)
Theorem C05_fix_run_sound :
  forall (hashf : bid -> N -> hval) (padz : bid -> N -> bool) (truncf : bid -> N -> bid) (bs : N) (nlev : nat) (reduced : bool)
         (newino : nat -> N -> N) (now : Z) (o : copts) (c : content) (bm : nat) (fs : list (option fsdisk)) (par : parity)
         (vs : nat -> list bid) (objs : list obj),
    plain nlev o -> co_fix o = true -> synced_array hashf padz bs c bm vs ->
    length fs = length (c_disks c) -> nlev <= length par ->
    collision_free hashf padz bs nlev (co_nosearch o) c bm fs par vs -> objs_ok c objs ->
    let out := check_run hashf padz truncf bs nlev reduced newino now o c par fs objs (seq 0 bm) in
    (* every recorded file: exactly the recorded version, or flagged unrecoverable, renamed away, counted, failing exit status *)
    (forall p j f i b, slot_of c p j = SFile f i b ->
       (fl_damaged (get_fl (r_flags (out_st out)) (j, cf_name f)) = false /\
        exists g, fs_find (r_fs (out_st out)) j (cf_name f) = Some g /\ ff_size g = cf_size f
                  /\ forall p' i' b', slot_of c p' j = SFile f i' b' -> nth i' (ff_blocks g) 0%N = vnth (vs p') j)
       \/ (fl_damaged (get_fl (r_flags (out_st out)) (j, cf_name f)) = true /\ fs_find (r_fs (out_st out)) j (cf_name f) = None
           /\ 0 < r_unrec (out_st out) /\ out_fail out = true))
    (* the exit status is 0 iff nothing is unrecoverable, and then everything is restored, parity included *)
    /\ (out_fail out = false <-> r_unrec (out_st out) = 0)
    /\ (r_unrec (out_st out) = 0 ->
          restored nlev c bm vs (r_fs (out_st out)) (r_par (out_st out))
          /\ forall key, fl_damaged (get_fl (r_flags (out_st out)) key) = false)
    (* a file that was intact in the damaged array is not touched, whatever happens to the other files of its stripes *)
    /\ (forall p j f i b, slot_of c p j = SFile f i b -> intact hashf bs c fs par j f ->
          fs_find (r_fs (out_st out)) j (cf_name f) = fs_find fs j (cf_name f)
          /\ fl_damaged (get_fl (r_flags (out_st out)) (j, cf_name f)) = false)
    (* a file left under its name carries its recorded time-stamp, or is exactly the file of the damaged array *)
    /\ (forall p j f i b g, slot_of c p j = SFile f i b -> uniq_stamp c j f -> fs_find (r_fs (out_st out)) j (cf_name f) = Some g ->
          fl_damaged (get_fl (r_flags (out_st out)) (j, cf_name f)) = false ->
          (ff_mtime g = cf_mtime f /\ ff_nsec g = cf_nsec f) \/ fs_find fs j (cf_name f) = Some g).
Proof. exact run_fix_sound. Qed.
Print Assumptions C05_fix_run_sound.

(* 3b. every file flagged unrecoverable was reported: status:unrecoverable:<disk>:<file> is in the log at the end of the run *)
Theorem C05_fix_run_reported :
  forall (hashf : bid -> N -> hval) (padz : bid -> N -> bool) (truncf : bid -> N -> bid) (bs : N) (nlev : nat) (reduced : bool)
         (newino : nat -> N -> N) (now : Z) (o : copts) (c : content) (bm : nat) (fs : list (option fsdisk)) (par : parity)
         (vs : nat -> list bid) (objs : list obj),
    plain nlev o -> co_fix o = true -> synced_array hashf padz bs c bm vs ->
    length fs = length (c_disks c) -> nlev <= length par ->
    collision_free hashf padz bs nlev (co_nosearch o) c bm fs par vs -> objs_ok c objs ->
    let out := check_run hashf padz truncf bs nlev reduced newino now o c par fs objs (seq 0 bm) in
    forall p j f i b, slot_of c p j = SFile f i b -> fl_damaged (get_fl (r_flags (out_st out)) (j, cf_name f)) = true ->
                      In (K_ST_UNREC, [N.of_nat j; cf_name f]) (r_tags (out_st out)).
Proof. exact run_fix_reported. Qed.
Print Assumptions C05_fix_run_reported.

(* 3c. exit status 0: a following check of the whole array reports nothing and changes nothing *)
Theorem C05_fix_run_sound_then_check_quiet :
  forall (hashf : bid -> N -> hval) (padz : bid -> N -> bool) (truncf : bid -> N -> bid) (bs : N) (nlev : nat) (reduced : bool)
         (newino : nat -> N -> N) (now : Z) (o o' : copts) (c : content) (bm : nat) (fs : list (option fsdisk)) (par : parity)
         (vs : nat -> list bid) (objs objs' : list obj),
    plain nlev o -> co_fix o = true -> synced_array hashf padz bs c bm vs ->
    length fs = length (c_disks c) -> nlev <= length par ->
    collision_free hashf padz bs nlev (co_nosearch o) c bm fs par vs -> objs_ok c objs ->
    plain nlev o' -> co_fix o' = false ->
    let out := check_run hashf padz truncf bs nlev reduced newino now o c par fs objs (seq 0 bm) in
    out_fail out = false ->
    (forall ob, In ob objs' -> obj_good (r_fs (out_st out)) ob) ->
    let out' := check_run hashf padz truncf bs nlev reduced newino now o' c (r_par (out_st out)) (r_fs (out_st out)) objs' (seq 0 bm) in
    r_tags (out_st out') = [] /\ r_err (out_st out') = 0 /\ r_unrec (out_st out') = 0 /\ out_fail out' = false
    /\ r_fs (out_st out') = r_fs (out_st out) /\ r_par (out_st out') = r_par (out_st out).
Proof. exact run_fix_sound_then_check_quiet. Qed.
Print Assumptions C05_fix_run_sound_then_check_quiet.

(* 4. the hypothesis on the damage is weaker than the one of C01 *)
Theorem C05_collision_free_of_recoverable :
  forall hashf padz bs nlev nosearch c bm fs par vs,
    recoverable hashf padz bs nlev nosearch c bm fs par vs -> collision_free hashf padz bs nlev nosearch c bm fs par vs.
Proof. exact recoverable_collision_free. Qed.
Print Assumptions C05_collision_free_of_recoverable.

(* Non-vacuity (Fix/SoundExamples.v), ONE parity level.
   a. two disks, one stripe, BOTH files destroyed: outside `recoverable`, inside the hypotheses of statement 3; its conclusion
      gives: both files flagged unrecoverable and gone, exit status failing; the run computed agrees *)
Example C05_example_beyond_parity :
  let out := check_run x_hashf x_padz x_truncf x_bs 1 false x_newino 999 sx_fix x_c sx_par sx_fs [] (seq 0 1) in
  ~ recoverable x_hashf x_padz x_bs 1 (co_nosearch sx_fix) x_c 1 sx_fs sx_par gx_vs
  /\ (forall p j f i b, slot_of x_c p j = SFile f i b ->
        fl_damaged (get_fl (r_flags (out_st out)) (j, cf_name f)) = true /\ fs_find (r_fs (out_st out)) j (cf_name f) = None)
  /\ 0 < r_unrec (out_st out) /\ out_fail out = true.
Proof. exact sx_fix_run_sound. Qed.
Print Assumptions C05_example_beyond_parity.

Example C05_example_beyond_parity_computed :
  let out := check_run x_hashf x_padz x_truncf x_bs 1 false x_newino 999 sx_fix x_c sx_par sx_fs [] (seq 0 1) in
  r_fs (out_st out) = [Some []; Some []] /\ r_par (out_st out) = sx_par
  /\ map fst (r_tags (out_st out)) = [K_ERR_READ; K_ERR_READ; K_UNREC; K_UNREC; K_ST_UNREC; K_ST_UNREC]
  /\ out_fail out = true /\ r_unrec (out_st out) = 1 /\ r_rec (out_st out) = 0.
Proof. exact sx_fix_run_computed. Qed.
Print Assumptions C05_example_beyond_parity_computed.

(* b. two disks, three stripes: stripe 1 recoverable (a block of file 2 overwritten), stripe 2 unrecoverable (the last block of
      file 1 overwritten and the parity block of the stripe overwritten): file 2 restored with its recorded time-stamp, file 1
      reported unrecoverable and gone, exit status failing; the run computed agrees *)
Example C05_example_mixed :
  let out := check_run x_hashf x_padz x_truncf x_bs 1 false x_newino 999 sx_fix rx_c sx2_par sx2_fs [] (seq 0 3) in
  ~ recoverable x_hashf x_padz x_bs 1 (co_nosearch sx_fix) rx_c 3 sx2_fs sx2_par rx_vs
  /\ (exists g, fs_find (r_fs (out_st out)) 1 2%N = Some g /\ ff_size g = 2048%N /\ nth 0 (ff_blocks g) 0%N = 21%N /\ nth 1 (ff_blocks g) 0%N = 22%N
                /\ ff_mtime g = 100%Z /\ ff_nsec g = 0%Z)
  /\ fl_damaged (get_fl (r_flags (out_st out)) (0, 1%N)) = true /\ fs_find (r_fs (out_st out)) 0 1%N = None
  /\ 0 < r_unrec (out_st out) /\ out_fail out = true.
Proof. exact sx2_fix_run_sound. Qed.
Print Assumptions C05_example_mixed.

Example C05_example_mixed_computed :
  let out := check_run x_hashf x_padz x_truncf x_bs 1 false x_newino 999 sx_fix rx_c sx2_par sx2_fs [] (seq 0 3) in
  r_fs (out_st out) = [Some []; Some [mkFF 2 2048 100 0 2 [21; 22]%N]]
  /\ r_par (out_st out) = sx2_par
  /\ map fst (r_tags (out_st out)) = [K_ERR_DATA; K_FIXED; K_ST_RECOVERED; K_ERR_DATA; K_PAR_TRY; K_UNREC; K_ST_UNREC]
  /\ out_fail out = true /\ r_unrec (out_st out) = 1 /\ r_rec (out_st out) = 1.
Proof. exact sx2_fix_run_computed. Qed.
Print Assumptions C05_example_mixed_computed.
