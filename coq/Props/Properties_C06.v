(* C06 -- placeholder until the invariant proofs land: definitional sanity of the sync model. *)
From Coq Require Import NArith List.
From Snap.Array Require Import ArrayDefs SyncModel.
Import ListNotations.
Theorem C06_enabled_needs_file : forall o slots, stripe_enabled o slots = true -> existsb slot_has_file slots = true.
Proof. intros o slots H. unfold stripe_enabled in H. apply Bool.andb_true_iff in H. exact (proj1 H). Qed.
Print Assumptions C06_enabled_needs_file.
