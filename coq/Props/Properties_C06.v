(* C06 -- stripes recorded as synced always have valid parity: the invariant of the sync model.
   Statements only; the proofs are in Array/SyncProofs{Defs,Stripe,Loop,Examples}.v, the model in
   Array/ArrayDefs.v + Array/SyncModel.v.

   Vocabulary (Array/SyncProofsDefs.v):
     slots c pos / slot_of c pos j   the slot of every disk position at stripe pos (no disk = SEmpty)
     MapOK c            per disk: no two file blocks share a position, positions strictly increase inside a file,
                        no duplicate DELETED position, no DELETED entry under a file block of the same disk
     stripe_synced c p  every slot at p is SEmpty or a BLK file block, and at least one is a file block
     stripe_quiet c p   same with "BLK, or CHG with a unique recorded hash"
     enc_ok c p v       |v| = number of disk positions; v_j hashes (over the block's length) to the recorded hash
                        of the file block at slot j; v_j = 0 at an empty slot
     ParOK c par        every synced stripe holds, in every level, PEnc v with enc_ok v (so the parity is long enough)
     PastOK c par p     if stripe p is quiet then every level holds PEnc v with enc_ok v: the soundness condition
                        of "parity_needs_to_be_updated = 0" (sync.c:1001-1010); established for every position by
                        loading with clear_past_hash (state.c, snapraid.c:1372, asserted at sync.c:699)
     faults_wf          the injected read outcome of a FILE slot is neither RdNone nor RdOk with a length other than
                        file_block_size: these two are not outcomes of sync_data_reader (see C06_fault_* below)
     same_views c c' p  the slots of c and c' at p agree on everything except the other blocks of the file
                        (name, size, mtime, nsec, inode, copy flag, block index, block state/position/hash) *)
From Coq Require Import NArith ZArith List Bool Arith.
From Snap.Array Require Import ArrayDefs SyncModel SyncProofsDefs SyncProofsStripe SyncProofsLoop SyncProofsExamples.
Import ListNotations.

(* 1. one iteration keeps the block map *)
Theorem C06_sync_stripe_map :
  forall (hashf : bid -> N -> hval) (bs : N) (nlev : nat) (o : sopts) (now : N) (iob : nat) (c : content)
         (par : list penc) (fs : list (option fsdisk)) (faults : list (option rd)) (pos : nat),
    MapOK c -> MapOK (so_content (sync_stripe hashf bs nlev o now iob c par fs faults pos)).
Proof. exact sync_stripe_map. Qed.
Print Assumptions C06_sync_stripe_map.

(* 2. frame: an iteration at pos changes nothing at another position and never a file's identity *)
Theorem C06_sync_stripe_other_stripes :
  forall (hashf : bid -> N -> hval) (bs : N) (nlev : nat) (o : sopts) (now : N) (iob : nat) (c : content)
         (par : list penc) (fs : list (option fsdisk)) (faults : list (option rd)) (pos : nat),
    let c' := so_content (sync_stripe hashf bs nlev o now iob c par fs faults pos) in
    map disk_attrs (c_disks c') = map disk_attrs (c_disks c) /\
    (forall p : nat, p <> pos ->
       same_views c c' p /\
       nth p (c_info c') None = nth p (c_info c) None /\
       (stripe_synced c' p <-> stripe_synced c p) /\
       (stripe_quiet c' p <-> stripe_quiet c p) /\
       (forall v : list bid, enc_ok hashf bs c' p v <-> enc_ok hashf bs c p v)).
Proof. exact sync_stripe_other_stripes. Qed.
Print Assumptions C06_sync_stripe_other_stripes.

(* 3. one iteration keeps the parity invariant (any options, any data on the disks, any well-formed faults,
      completed with or without a parity write, skipped, or bailing) *)
Theorem C06_sync_stripe_par :
  forall (hashf : bid -> N -> hval) (bs : N) (nlev : nat) (o : sopts) (now : N) (iob : nat) (c : content)
         (par : parity) (fs : list (option fsdisk)) (faults : list (option rd)) (pos : nat),
    faults_wf bs c pos faults ->
    ParOK hashf bs c par ->
    PastOK hashf bs c par pos ->
    let r := sync_stripe hashf bs nlev o now iob c (map (fun lv : list penc => nth pos lv PNone) par) fs faults pos in
    let par' := match so_write r with Some v => set_parity par pos v | None => par end in
    ParOK hashf bs (so_content r) par'.
Proof. exact sync_stripe_par. Qed.
Print Assumptions C06_sync_stripe_par.

(* 4. the loop: any list of distinct stripes, any stop point, bailing runs included *)
Theorem C06_sync_loop_inv :
  forall (hashf : bid -> N -> hval) (bs : N) (nlev : nat) (stripes : list nat) (o : sopts) (now : N)
         (fs : list (option fsdisk)) (faults : nat -> list (option rd)) (stop : option nat) (c : content)
         (par : parity) (ne ns ni : nat),
    NoDup stripes ->
    (forall p : nat, In p stripes -> faults_wf bs c p (faults p)) ->
    MapOK c ->
    ParOK hashf bs c par ->
    (forall p : nat, In p stripes -> PastOK hashf bs c par p) ->
    let r := sync_loop hashf bs nlev o now fs faults stripes stop c par ne ns ni in
    MapOK (ro_content r) /\ ParOK hashf bs (ro_content r) (ro_parity r).
Proof. exact sync_loop_inv. Qed.
Print Assumptions C06_sync_loop_inv.

(* 4'. the same without `NoDup stripes`: since the repair of F-C05a a skipped stripe changes no block, PastOK
       survives at the visited position as well (C06_sync_stripe_past), so positions may repeat *)
Theorem C06_sync_stripe_past :
  forall (hashf : bid -> N -> hval) (bs : N) (nlev : nat) (o : sopts) (now : N) (iob : nat) (c : content)
         (par : parity) (fs : list (option fsdisk)) (faults : list (option rd)) (pos : nat),
    faults_wf bs c pos faults ->
    ParOK hashf bs c par ->
    PastOK hashf bs c par pos ->
    let r := sync_stripe hashf bs nlev o now iob c (map (fun lv : list penc => nth pos lv PNone) par) fs faults pos in
    let par' := match so_write r with Some v => set_parity par pos v | None => par end in
    PastOK hashf bs (so_content r) par' pos.
Proof. exact sync_stripe_past. Qed.
Print Assumptions C06_sync_stripe_past.

Theorem C06_sync_loop_inv_any :
  forall (hashf : bid -> N -> hval) (bs : N) (nlev : nat) (stripes : list nat) (o : sopts) (now : N)
         (fs : list (option fsdisk)) (faults : nat -> list (option rd)) (stop : option nat) (c : content)
         (par : parity) (ne ns ni : nat),
    (forall p : nat, In p stripes -> faults_wf bs c p (faults p)) ->
    MapOK c ->
    ParOK hashf bs c par ->
    (forall p : nat, In p stripes -> PastOK hashf bs c par p) ->
    let r := sync_loop hashf bs nlev o now fs faults stripes stop c par ne ns ni in
    MapOK (ro_content r) /\ ParOK hashf bs (ro_content r) (ro_parity r).
Proof. exact sync_loop_inv_any. Qed.
Print Assumptions C06_sync_loop_inv_any.

(* 5. saving (DELETED entries dropped only where no file block remains) and loading with clear_past_hash *)
Theorem C06_save_normalise_inv :
  forall (hashf : bid -> N -> hval) (bs : N) (c : content) (par : parity),
    MapOK c -> ParOK hashf bs c par -> MapOK (save_normalise c) /\ ParOK hashf bs (save_normalise c) par.
Proof. exact save_normalise_inv. Qed.
Print Assumptions C06_save_normalise_inv.

(* the crux of 5: a stripe that is synced after normalisation lost none of its DELETED entries *)
Theorem C06_save_synced_slots :
  forall (c : content) (pos : nat),
    stripe_synced (save_normalise c) pos -> forall j : nat, slot_of (save_normalise c) pos j = slot_of c pos j.
Proof. exact save_synced_slots. Qed.
Print Assumptions C06_save_synced_slots.

Theorem C06_clear_past_inv :
  forall (hashf : bid -> N -> hval) (bs : N) (c : content) (par : parity),
    MapOK c -> ParOK hashf bs c par ->
    MapOK (clear_past c) /\ ParOK hashf bs (clear_past c) par /\
    (forall pos : nat, PastOK hashf bs (clear_past c) par pos).
Proof. exact clear_past_inv. Qed.
Print Assumptions C06_clear_past_inv.

(* 6. the property's first sentence, in every state reachable through rounds of load / sync loop / save
      (reach: SyncProofsLoop.v; the states after each of the three phases are included) *)
Theorem C06_synced_parity_valid :
  forall (hashf : bid -> N -> hval) (bs : N) (nlev : nat) (ph : phase) (c : content) (par : parity),
    reach hashf bs nlev ph c par ->
    forall pos : nat, stripe_synced c pos ->
    forall lv : list penc, In lv par -> exists v : list bid, nth pos lv PNone = PEnc v /\ enc_ok hashf bs c pos v.
Proof. exact synced_parity_valid. Qed.
Print Assumptions C06_synced_parity_valid.

Theorem C06_reachable_inv :
  forall (hashf : bid -> N -> hval) (bs : N) (nlev : nat) (ph : phase) (c : content) (par : parity),
    reach hashf bs nlev ph c par ->
    MapOK c /\ ParOK hashf bs c par /\ (ph = Loaded -> forall pos : nat, PastOK hashf bs c par pos).
Proof. exact reach_inv. Qed.
Print Assumptions C06_reachable_inv.

(* 7. parity WRITE faults are outside C06's quantifier (they belong to C08).  This witness shows why the hypothesis
      "every scheduled parity write happens" of the theorems above cannot be dropped: sync_loop' = sync_loop except that
      the write of level l at stripe pos is dropped when `drop pos l`, and ParOK (which ignores the bad flag) fails.
      What the tool does about such a stripe since /repo 0ecd44a (it is marked bad, the run fails) is modelled and
      proved in Fault/FaultModel.v, Props/Properties_C08.v (write_error_safe), and the invariant that DOES hold with write
      faults - every stripe recorded synced and not marked bad has valid parity - is Props/Properties_C06_fault.v
      (C06f_sync_loop_w_inv, C06f_reach_w_inv).  Partial statement proved below. *)
Theorem C06_inv_write_fault_refuted :
  exists (hashf : bid -> N -> hval) (bs : N) (nlev : nat) (drop : nat -> nat -> bool) (o : sopts) (now : N)
         (fs : list (option fsdisk)) (faults : nat -> list (option rd)) (stripes : list nat) (stop : option nat)
         (c : content) (par : parity),
    MapOK c /\ ParOK hashf bs c par /\ (forall pos : nat, PastOK hashf bs c par pos) /\
    NoDup stripes /\ (forall p : nat, In p stripes -> faults_wf bs c p (faults p)) /\
    (let r := sync_loop' hashf bs nlev drop o now fs faults stripes stop c par 0 0 0 in
     ro_bailed r = false /\ ro_nerr r = 0 /\ ro_nsilent r = 0 /\ ro_nio r = 0 /\
     ~ ParOK hashf bs (ro_content r) (ro_parity r)).
Proof. exact inv_write_fault_refuted. Qed.
Print Assumptions C06_inv_write_fault_refuted.

Theorem C06_sync_loop_write_fault_partial :
  forall (hashf : bid -> N -> hval) (bs : N) (nlev : nat) (drop : nat -> nat -> bool) (stripes : list nat)
         (o : sopts) (now : N) (fs : list (option fsdisk)) (faults : nat -> list (option rd)) (stop : option nat)
         (c : content) (par : parity) (ne ns ni : nat),
    (forall pos l : nat, drop pos l = false) ->
    NoDup stripes ->
    (forall p : nat, In p stripes -> faults_wf bs c p (faults p)) ->
    MapOK c -> ParOK hashf bs c par ->
    (forall p : nat, In p stripes -> PastOK hashf bs c par p) ->
    let r := sync_loop' hashf bs nlev drop o now fs faults stripes stop c par ne ns ni in
    MapOK (ro_content r) /\ ParOK hashf bs (ro_content r) (ro_parity r).
Proof. exact sync_loop'_inv_partial. Qed.
Print Assumptions C06_sync_loop_write_fault_partial.

(* ---- non-vacuity ---- *)
Local Open Scope N_scope.
(* e_c: 3 disks, 2 levels; stripe 0 = BLK BLK -, 1 = BLK REP -, 2 = CHG(invalid) DELETED -, 3 = - BLK CHG(unique) *)
Example C06_ex_hyps :
  NoDup [0; 1; 2; 3]%nat /\ (forall p, In p [0; 1; 2; 3]%nat -> faults_wf w_bs e_c p (e_faults p))
  /\ MapOK e_c /\ ParOK w_hashf w_bs e_c e_par /\ (forall p, In p [0; 1; 2; 3]%nat -> PastOK w_hashf w_bs e_c e_par p).
Proof. exact e_hyps. Qed.
(* ParOK and PastOK are not vacuous on e_c: stripe 0 is synced, stripe 3 is quiet and not synced *)
Example C06_ex_synced0 : stripe_synced e_c 0%nat.
Proof. exact e_synced0. Qed.
Example C06_ex_quiet3 : stripe_quiet e_c 3%nat /\ ~ stripe_synced e_c 3%nat.
Proof. exact e_quiet3. Qed.
(* the run of sync_loop (vm_compute): stripes 1, 2 rewritten, stripe 3 completed without a parity write *)
Example C06_ex_run :
  ro_bailed e_run = false
  /\ ro_parity e_run = [[PEnc [11; 21; 0]; PEnc [12; 22; 0]; PEnc [13; 0; 0]; PEnc [0; 23; 33]];
                        [PEnc [11; 21; 0]; PEnc [12; 22; 0]; PEnc [13; 0; 0]; PEnc [0; 23; 33]]]
  /\ c_disks (ro_content e_run) =
     [Some (mkCD [mkCF 1 2048 0 0 10 false [mkFB SBlk 0%nat (w_hashf 11 1024); mkFB SBlk 1%nat (w_hashf 12 1024)];
                  mkCF 2 1000 0 0 11 false [mkFB SBlk 2%nat (w_hashf 13 1000)]] [] [] []);
      Some (mkCD [mkCF 1 1024 0 0 20 false [mkFB SBlk 0%nat (w_hashf 21 1024)];
                  mkCF 2 1024 0 0 21 false [mkFB SBlk 1%nat (w_hashf 22 1024)];
                  mkCF 3 1024 0 0 22 false [mkFB SBlk 3%nat (w_hashf 23 1024)]] [] [] []);
      Some (mkCD [mkCF 1 500 0 0 30 false [mkFB SBlk 3%nat (w_hashf 33 500)]] [] [] [])]
  /\ nth 3%nat (c_info (ro_content e_run)) None = None.
Proof. exact e_run_result. Qed.
Example C06_ex_stripe3_nowrite :
  so_write (sync_stripe w_hashf w_bs 2%nat w_opts 7 0%nat e_c (map (fun lv => nth 3%nat lv PNone) e_par) e_fs [] 3%nat) = None
  /\ stripe_synced (so_content (sync_stripe w_hashf w_bs 2%nat w_opts 7 0%nat e_c (map (fun lv => nth 3%nat lv PNone) e_par) e_fs [] 3%nat)) 3%nat.
Proof. exact e_stripe3_nowrite. Qed.

(* reach is inhabited beyond R_init: a full round from w_c (2 disks, one CHG block) ends in a synced stripe *)
Example C06_ex_reach :
  reach w_hashf w_bs 1 Saved (save_normalise (ro_content r_run)) (ro_parity r_run)
  /\ stripe_synced (save_normalise (ro_content r_run)) 0
  /\ ro_parity r_run = [[PEnc [42; 0]]].
Proof. exact reach_example. Qed.

(* why PastOK is the side condition of 3 (not a state the tool can reach: clear_past_hash resets such hashes and,
   since the repair of F-C05a, a skipped stripe no longer creates them): unique-hash CHG over a parity that does
   not encode it, no write, recorded BLK *)
Example C06_ex_pastok_needed :
  ParOK w_hashf w_bs p_c [[PJunk 9]] /\
  let r := sync_stripe w_hashf w_bs 1%nat w_opts 7 0%nat p_c (map (fun lv => nth 0%nat lv PNone) [[PJunk 9]]) w_fs [] 0%nat in
  so_write r = None /\ ~ ParOK w_hashf w_bs (so_content r) [[PJunk 9]].
Proof. exact pastok_needed. Qed.

(* faults_wf cannot be dropped from 3: the two excluded injections break the invariant *)
Example C06_fault_rdnone_breaks :
  let r := sync_stripe w_hashf w_bs 1%nat w_opts 7 0%nat w_c (map (fun lv => nth 0%nat lv PNone) w_par) w_fs [Some RdNone] 0%nat in
  ~ ParOK w_hashf w_bs (so_content r) (match so_write r with Some v => set_parity w_par 0%nat v | None => w_par end).
Proof. exact fault_rdnone_breaks. Qed.
Example C06_fault_len_breaks :
  let r := sync_stripe w_hashf w_bs 1%nat w_opts 7 0%nat w_c (map (fun lv => nth 0%nat lv PNone) w_par) w_fs [Some (RdOk 42 7)] 0%nat in
  ~ ParOK w_hashf w_bs (so_content r) (match so_write r with Some v => set_parity w_par 0%nat v | None => w_par end).
Proof. exact fault_len_breaks. Qed.
Print Assumptions C06_ex_hyps.
Print Assumptions C06_ex_run.
Print Assumptions C06_ex_pastok_needed.
Print Assumptions C06_fault_rdnone_breaks.
Print Assumptions C06_fault_len_breaks.
