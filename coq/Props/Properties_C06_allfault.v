(* C06 -- after every command AND whatever parity writes failed.  Statements only; proofs in Array/ReachAllFault.v
   (imports, edits none of: Array/SyncProofs*.v, Array/ReachAll.v, Array/ReachFault.v, Scan/*, Fault/FaultModel.v,
   Fault/FaultProofs.v, Fault/ScrubBadMark.v).

   reach_all_w hashf bs nlev c par = the rules of reach_all (Array/ReachAll.v) with the sync loop replaced by the faulty
   loop of FaultModel:
     AW_init    MapOK c and PastOK_nb at every position
     AW_load, AW_nocopy, AW_scan (premise clearpast = true -> past_cleared c), AW_save : as in reach_all
     AW_sync_w  ANY run of sync_loop_w: write faults wf, io mode m, writer schedule lag, stop, options (a forced sync is
                o_force_full), data disks, stripes (repetitions allowed: NoDup is NOT needed here, because the threaded
                invariant covers every position), read faults with faults_wf
     AW_info    c_disks c' = c_disks c  and  clears_only_verified c c' par :=
                  forall p, bad_at c p -> ~ bad_at c' p -> stripe_quiet c p -> wpar_enc hashf bs Uall c par p
                (times, new bad marks, the recorded size are free; a bad flag is cleared only where the parity condition
                holds: this is the premise that had to be added to A_info)
     AW_nsec    nsec_only c c'  and  c_info c' = c_info c   (added: nsec_only says nothing about the info array)
     AW_fixpar  par_write par par' pos v  with  stripe_quiet c pos -> ~ bad_at c pos -> wenc_ok … c pos v
                (weaker than in reach_all: nothing is asked at a bad stripe)
   Threaded invariant: MapOK c /\ forall pos, PastLen_nb hashf bs c par pos, with
     PastLen_nb c par pos := stripe_quiet c pos -> ~ bad_at c pos -> wpar_enc hashf bs Uall c par pos
   (PastLen of ReachAll.v at the non-bad stripes; the loop invariant is PendLen q = the same, also excepting the stripes
   with a queued failed-write report).  ParOK_nb is its synced part.  Hypothesis: LenInj hashf, as C06_all_commands_inv. *)
From Coq Require Import NArith ZArith List Bool Arith.
From Snap.Array Require Import ArrayDefs SyncModel SyncProofsDefs SyncProofsStripe SyncProofsLoop ReachAll ReachFault ReachAllFault.
From Snap.Scan Require Import ScanModel ScanC06.
From Snap.Fault Require Import FaultModel FaultProofs.
Import ListNotations.

Theorem C06_all_commands_w_inv :
  forall (hashf : bid -> N -> hval) (bs : N) (nlev : nat),
    LenInj hashf ->
    forall (c : content) (par : parity), reach_all_w hashf bs nlev c par -> MapOK c /\ ParOK_nb hashf bs c par.
Proof. exact all_commands_w_inv. Qed.
Print Assumptions C06_all_commands_w_inv.

Theorem C06_all_commands_w_pastlen :
  forall (hashf : bid -> N -> hval) (bs : N) (nlev : nat),
    LenInj hashf ->
    forall (c : content) (par : parity),
      reach_all_w hashf bs nlev c par -> MapOK c /\ (forall pos : nat, PastLen_nb hashf bs c par pos).
Proof. exact reach_all_w_inv. Qed.
Print Assumptions C06_all_commands_w_pastlen.

(* synced and not bad => every level holds PEnc v with enc_ok *)
Theorem C06_synced_notbad_valid_all :
  forall (hashf : bid -> N -> hval) (bs : N) (nlev : nat),
    LenInj hashf ->
    forall (c : content) (par : parity),
      reach_all_w hashf bs nlev c par ->
      forall pos : nat, stripe_synced c pos -> ~ bad_at c pos ->
      forall lv : list penc, In lv par -> exists v : list bid, nth pos lv PNone = PEnc v /\ enc_ok hashf bs c pos v.
Proof. exact synced_notbad_valid_all. Qed.
Print Assumptions C06_synced_notbad_valid_all.

(* the faulty loop from any point of it, and one stripe of it *)
Theorem C06_sync_loop_w_len :
  forall (hashf : bid -> N -> hval) (bs : N) (nlev : nat),
    LenInj hashf ->
    forall (o : sopts) (now : N) (fs : list (option fsdisk)) (faults : nat -> list (option rd)) (wf : nat -> nat -> wres)
           (m : iomode) (lag : nat -> nat -> nat) (stripes : list nat) (stop : option nat) (it : nat) (q : list wrep)
           (fp : list nat) (c : content) (par : parity) (ne ns ni : nat),
      (forall p : nat, In p stripes -> faults_wf bs c p (faults p)) ->
      MapOK c ->
      PendLen hashf bs q c par ->
      let r := sync_loop_w hashf bs nlev o now fs faults wf m lag stripes stop it q fp c par ne ns ni in
      MapOK (ro_content (w_run r)) /\
      (forall pos : nat, PastLen_nb hashf bs (ro_content (w_run r)) (ro_parity (w_run r)) pos).
Proof. exact sync_loop_w_len. Qed.
Print Assumptions C06_sync_loop_w_len.
Theorem C06_sync_stripe_w_len :
  forall (hashf : bid -> N -> hval) (bs : N) (nlev : nat),
    LenInj hashf ->
    forall (o : sopts) (now : N) (iob : nat) (c : content) (par : parity) (fs : list (option fsdisk))
           (faults : list (option rd)) (pos : nat) (q : list wrep) (m : iomode) (lag : nat -> nat -> nat) (it : nat)
           (wl : nat -> wres),
      faults_wf bs c pos faults ->
      PendLen hashf bs q c par ->
      let r := sync_stripe hashf bs nlev o now iob c (map (fun lv : list penc => nth pos lv PNone) par) fs faults pos in
      let par' := match so_write r with Some v => write_levels par pos v wl | None => par end in
      let reps := match so_write r with Some _ => level_reports m lag it pos wl (length par) | None => [] end in
      PendLen hashf bs (q ++ reps) (so_content r) par'.
Proof. exact sync_stripe_w_len. Qed.
Print Assumptions C06_sync_stripe_w_len.

(* the scan, stripe by stripe (it keeps the info array, hence the bad flags) *)
Theorem C06_scan_len_nb :
  forall (hashf : bid -> N -> hval) (bs : N) (basef : N -> N) (clearpast nocopy : bool) (inf : list (option info))
         (usable : list bool) (c : content) (par : parity) (listing : list (list lentry)) (o : scan_out) (pos : nat),
    MapOK c ->
    (clearpast = true -> past_cleared c) ->
    scan basef bs clearpast nocopy inf usable c listing = Some o ->
    PastLen_nb hashf bs c par pos -> PastLen_nb hashf bs (sc_content o) par pos.
Proof. exact scan_len_nb. Qed.
Print Assumptions C06_scan_len_nb.

(* healing (i): a scrub of stripe pos (FaultModel.scrub_stripe) is an AW_info step.  C08's scrub_clears_bad_only_verified
   says the flag is cleared only when every parity read succeeded and compared equal; what "compared equal" means for the
   array is the third premise (the flag model of scrub does not contain it) *)
Theorem C06_scrub_step_premise :
  forall (hashf : bid -> N -> hval) (bs : N) (c : content) (par : parity) (pos : nat) (inf : info) (limit iob : nat)
         (now : N) (disks : list stask) (pars : list spar),
    nth pos (c_info c) None = Some inf ->
    sc_bail (scrub_stripe limit iob now inf disks pars) = false ->
    ((forall p : spar, In p pars -> p = SpOk true) -> stripe_quiet c pos -> wpar_enc hashf bs Uall c par pos) ->
    clears_only_verified hashf bs c (scrub_content c pos (sc_info (scrub_stripe limit iob now inf disks pars))) par.
Proof. exact scrub_step_premise. Qed.
Print Assumptions C06_scrub_step_premise.

(* healing (ii): a forced sync (-F) that processes the stripe without bail and without counting any error rewrites the
   parity (so_write = Some v, all levels if the writes succeed: C06_sync_stripe_w_len) and leaves a fresh info word, not bad *)
Theorem C06_forced_stripe_heals :
  forall (hashf : bid -> N -> hval) (bs : N) (nlev : nat) (o : sopts) (now : N) (iob : nat) (c : content)
         (par : list penc) (fs : list (option fsdisk)) (faults : list (option rd)) (pos : nat),
    o_force_full o = true ->
    let r := sync_stripe hashf bs nlev o now iob c par fs faults pos in
    so_bail r = false -> so_nerr r = 0 -> so_nsilent r = 0 -> so_nio r = 0 ->
    (exists v : list bid, so_write r = Some v) /\
    nth pos (c_info (so_content r)) None = Some (mkInfo now false false true) /\
    ~ bad_at (so_content r) pos.
Proof. exact forced_stripe_heals. Qed.
Print Assumptions C06_forced_stripe_heals.

(* ---- non-vacuity (Array/ReachAllFault.v): one disk, one level, files 1 (100 bytes, block 7) and 2 (1024 bytes, block 9).
   load; scan; sync with the pwrite of stripe 0 failing (EIO, single-thread io); save; load; scan (file 2 rewritten:
   block 12); plain sync.  Stripe 0 stays recorded synced, marked bad, with nothing in the parity; stripe 1 is fine. ---- *)
Example C06_allw_ex_history :
  reach_all_w g_hf 1024%N 1 (ro_content (w_run yr2)) (ro_parity (w_run yr2))
  /\ w_fpos yr1 = [0] /\ run_failing (w_run yr1) = true
  /\ ro_parity (w_run yr2) = [[PNone; PEnc [12%N]]]
  /\ stripe_synced (ro_content (w_run yr2)) 0 /\ bad_at (ro_content (w_run yr2)) 0
  /\ stripe_synced (ro_content (w_run yr2)) 1 /\ ~ bad_at (ro_content (w_run yr2)) 1
  /\ ParOK_nb g_hf 1024%N (ro_content (w_run yr2)) (ro_parity (w_run yr2))
  /\ ~ ParOK g_hf 1024%N (ro_content (w_run yr2)) (ro_parity (w_run yr2)).
Proof. exact history_w_example. Qed.
(* then save; load; forced sync: both stripes rewritten, no bad mark left, ParOK holds again *)
Example C06_allw_ex_heal_forced :
  reach_all_w g_hf 1024%N 1 (ro_content (w_run yr3)) (ro_parity (w_run yr3))
  /\ ro_parity (w_run yr3) = [[PEnc [7%N]; PEnc [12%N]]]
  /\ ~ bad_at (ro_content (w_run yr3)) 0 /\ ~ bad_at (ro_content (w_run yr3)) 1
  /\ ParOK g_hf 1024%N (ro_content (w_run yr3)) (ro_parity (w_run yr3)).
Proof. exact heal_forced_example. Qed.
(* a scrub of the bad stripe whose parity read fails is an AW_info step that keeps the mark *)
Example C06_allw_ex_scrub_keeps_mark :
  let r := scrub_stripe 100 0 77%N (mkInfo 7%N true false true) [mkST true false true false true (SdOk true)] [SpErrCont] in
  sc_bail r = false /\ i_bad (sc_info r) = true
  /\ reach_all_w g_hf 1024%N 1 (scrub_content (ro_content (w_run yr2)) 0 (sc_info r)) (ro_parity (w_run yr2)).
Proof. exact scrub_keeps_mark_example. Qed.
Print Assumptions C06_allw_ex_history.
Print Assumptions C06_allw_ex_heal_forced.
Print Assumptions C06_allw_ex_scrub_keeps_mark.
