(* C06 (and every array-level property) -- the inline block-state predicates of elem.h (block_has_updated_hash,
   block_has_past_hash, block_has_file, block_has_invalid_parity, block_has_file_and_valid_parity), evaluated by the compiled
   headers on every state code (Gen/Consts.v, regenerated on every run), are the predicates the models use:
   the array model's slot predicates, the scrub model's, the codec's has_file, the fix model's fe_updated_hash. *)
From Coq Require Import NArith ZArith List Bool.
From Snap.Gen Require Import Consts.
From Snap.Array Require Import ArrayDefs.
From Snap.Scrub Require Import ScrubModel.
From Snap.Codec Require Import CodecModel.
From Snap.Fix Require Import FixModel.
Import ListNotations.
Local Open Scope Z_scope.

(* the five state codes in the three vocabularies *)
Definition scrub_state (c : Z) : block_state :=
  if c =? 1 then BLOCK_BLK else if c =? 2 then BLOCK_CHG else if c =? 3 then BLOCK_REP else if c =? 4 then BLOCK_DELETED else BLOCK_EMPTY.
Definition array_slot (c : Z) : slot :=
  let f := mkCF 0%N 0%N 0%Z 0%Z 0%N false [] in
  if c =? 1 then SFile f 0 (mkFB SBlk 0 HInvalid) else if c =? 2 then SFile f 0 (mkFB SChg 0 HInvalid)
  else if c =? 3 then SFile f 0 (mkFB SRep 0 HInvalid) else if c =? 4 then SDeleted HInvalid else SEmpty.
Definition fix_entry (c : Z) : fent :=
  mkFE false false 0 (if c =? 1 then Some SBlk else if c =? 2 then Some SChg else if c =? 3 then Some SRep else None) HInvalid None.

Definition block_pred_ok (x : Z * (bool * bool * bool * bool * bool)) : bool :=
  let '(c, (upd, past, hasfile, invpar, fileval)) := x in
  Bool.eqb (ScrubModel.block_has_updated_hash (scrub_state c)) upd && Bool.eqb (ScrubModel.block_has_file (scrub_state c)) hasfile
  && Bool.eqb (ScrubModel.block_has_invalid_parity (scrub_state c)) invpar
  && Bool.eqb (slot_has_file (array_slot c)) hasfile && Bool.eqb (slot_invalid_parity (array_slot c)) invpar
  && Bool.eqb (CodecModel.has_file (Z.to_N c)) hasfile
  && Bool.eqb (fe_updated_hash (fix_entry c)) upd
  && Bool.eqb fileval (hasfile && negb invpar) && Bool.eqb past (invpar && negb upd).

Lemma block_preds_ok : forallb block_pred_ok c_block_preds = true /\ map fst c_block_preds = [0; 1; 2; 3; 4].
Proof. split; vm_compute; reflexivity. Qed.

Theorem C06_consts_block_predicates : forallb block_pred_ok c_block_preds = true /\ map fst c_block_preds = [0; 1; 2; 3; 4].
Proof. exact block_preds_ok. Qed.
Print Assumptions C06_consts_block_predicates.
