(* C06 with failing parity writes.  Statements only; proofs in Array/ReachFault.v (imports, and edits none of,
   Array/SyncProofs*.v, Fault/FaultModel.v, Fault/FaultProofs.v).

   ParOK (Array/SyncProofsDefs.v) is false after a dropped parity write (C06_inv_write_fault_refuted): it ignores the bad
   flag.  Since /repo 0ecd44a sync marks bad every stripe whose parity write failed (FaultModel.sync_loop_w,
   C08 write_error_safe).  What holds for every write-fault assignment is
     ParOK_nb hashf bs c par := forall pos, stripe_synced c pos -> ~ bad_at c pos -> par_enc hashf bs c par pos
   ("every stripe recorded synced AND NOT BAD holds, in every level, PEnc v with enc_ok v"), with bad_at the notion of
   Fault/FaultProofs.v (C06f_not_bad_iff: ~ bad_at = the boolean flag reads false; C06f_healthy_synced: FaultModel's
   recorded_healthy implies synced and not bad).
   Vocabulary of Array/ReachFault.v:
     PendOK q c par     ParOK except at the stripes that are bad or have a failed write whose report is still queued in q
                        (the loop invariant; every queued report becomes a bad mark before the loop returns)
     PastOK_nb c par p  stripe_quiet c p -> ~ bad_at c p -> par_enc … c par p   (PastOK is needed at non-bad stripes only:
                        a bad stripe forces parity_needs_to_be_updated, C06f_nowrite_keeps_bad)
     reach_w            rounds of clear_past / sync_loop_w (any write faults, io mode, schedule) / save_normalise *)
From Coq Require Import NArith ZArith List Bool Arith.
From Snap.Array Require Import ArrayDefs SyncModel SyncProofsDefs SyncProofsStripe SyncProofsLoop ReachFault.
From Snap.Fault Require Import FaultModel FaultProofs.
Import ListNotations.

Theorem C06f_ParOK_ParOK_nb :
  forall (hashf : bid -> N -> hval) (bs : N) (c : content) (par : parity), ParOK hashf bs c par -> ParOK_nb hashf bs c par.
Proof. exact ParOK_ParOK_nb. Qed.
Print Assumptions C06f_ParOK_ParOK_nb.

Theorem C06f_not_bad_iff : forall (c : content) (pos : nat), ~ bad_at c pos <-> info_bad_b c pos = false.
Proof. exact not_bad_iff. Qed.
Print Assumptions C06f_not_bad_iff.
Theorem C06f_healthy_synced :
  forall (c : content) (pos : nat), recorded_healthy c pos = true -> stripe_synced c pos /\ ~ bad_at c pos.
Proof. exact healthy_synced. Qed.
Print Assumptions C06f_healthy_synced.

(* the loop, from the hypotheses of the fault-free theorem C06_sync_loop_inv: any write-fault assignment wf, io mode m,
   writer schedule lag, stop point, read faults (faults_wf), options, data disks; bailing runs included *)
Theorem C06f_sync_loop_w_inv :
  forall (hashf : bid -> N -> hval) (bs : N) (nlev : nat) (o : sopts) (now : N) (fs : list (option fsdisk))
         (faults : nat -> list (option rd)) (wf : nat -> nat -> wres) (m : iomode) (lag : nat -> nat -> nat)
         (stripes : list nat) (stop : option nat) (c : content) (par : parity),
    NoDup stripes ->
    (forall p : nat, In p stripes -> faults_wf bs c p (faults p)) ->
    MapOK c ->
    ParOK hashf bs c par ->
    (forall p : nat, In p stripes -> PastOK hashf bs c par p) ->
    let r := sync_loop_w hashf bs nlev o now fs faults wf m lag stripes stop 0 [] [] c par 0 0 0 in
    MapOK (ro_content (w_run r)) /\ ParOK_nb hashf bs (ro_content (w_run r)) (ro_parity (w_run r)).
Proof. exact sync_loop_w_inv. Qed.
Print Assumptions C06f_sync_loop_w_inv.

(* the same in closed form: ParOK_nb in, ParOK_nb out (so the invariant survives a run that starts with bad stripes) *)
Theorem C06f_sync_loop_w_nb :
  forall (hashf : bid -> N -> hval) (bs : N) (nlev : nat) (o : sopts) (now : N) (fs : list (option fsdisk))
         (faults : nat -> list (option rd)) (wf : nat -> nat -> wres) (m : iomode) (lag : nat -> nat -> nat)
         (stripes : list nat) (stop : option nat) (c : content) (par : parity),
    NoDup stripes ->
    (forall p : nat, In p stripes -> faults_wf bs c p (faults p)) ->
    MapOK c ->
    ParOK_nb hashf bs c par ->
    (forall p : nat, In p stripes -> PastOK_nb hashf bs c par p) ->
    let r := sync_loop_w hashf bs nlev o now fs faults wf m lag stripes stop 0 [] [] c par 0 0 0 in
    MapOK (ro_content (w_run r)) /\ ParOK_nb hashf bs (ro_content (w_run r)) (ro_parity (w_run r)).
Proof. exact sync_loop_w_nb. Qed.
Print Assumptions C06f_sync_loop_w_nb.

(* from any point of the loop (iteration it, queue q of unseen reports, ghost list fp) *)
Theorem C06f_sync_loop_w_pend :
  forall (hashf : bid -> N -> hval) (bs : N) (nlev : nat) (o : sopts) (now : N) (fs : list (option fsdisk))
         (faults : nat -> list (option rd)) (wf : nat -> nat -> wres) (m : iomode) (lag : nat -> nat -> nat)
         (stripes : list nat) (stop : option nat) (it : nat) (q : list wrep) (fp : list nat) (c : content) (par : parity)
         (ne ns ni : nat),
    NoDup stripes ->
    (forall p : nat, In p stripes -> faults_wf bs c p (faults p)) ->
    MapOK c ->
    PendOK hashf bs q c par ->
    (forall p : nat, In p stripes -> PastOK_nb hashf bs c par p) ->
    let r := sync_loop_w hashf bs nlev o now fs faults wf m lag stripes stop it q fp c par ne ns ni in
    MapOK (ro_content (w_run r)) /\ ParOK_nb hashf bs (ro_content (w_run r)) (ro_parity (w_run r)).
Proof. exact sync_loop_w_pend. Qed.
Print Assumptions C06f_sync_loop_w_pend.

(* one stripe with the writers' outcome wl (the body of sync_loop_w up to io_write_next) *)
Theorem C06f_sync_stripe_w_inv :
  forall (hashf : bid -> N -> hval) (bs : N) (nlev : nat) (o : sopts) (now : N) (iob : nat) (c : content) (par : parity)
         (fs : list (option fsdisk)) (faults : list (option rd)) (pos : nat) (q : list wrep) (m : iomode)
         (lag : nat -> nat -> nat) (it : nat) (wl : nat -> wres),
    faults_wf bs c pos faults ->
    PendOK hashf bs q c par ->
    PastOK_nb hashf bs c par pos ->
    let r := sync_stripe hashf bs nlev o now iob c (map (fun lv : list penc => nth pos lv PNone) par) fs faults pos in
    let par' := match so_write r with Some v => write_levels par pos v wl | None => par end in
    let reps := match so_write r with Some _ => level_reports m lag it pos wl (length par) | None => [] end in
    PendOK hashf bs (q ++ reps) (so_content r) par'.
Proof. exact sync_stripe_w_inv. Qed.
Print Assumptions C06f_sync_stripe_w_inv.

Theorem C06f_nowrite_keeps_bad :
  forall (hashf : bid -> N -> hval) (bs : N) (nlev : nat) (o : sopts) (now : N) (iob : nat) (c : content)
         (par : list penc) (fs : list (option fsdisk)) (faults : list (option rd)) (pos : nat),
    so_write (sync_stripe hashf bs nlev o now iob c par fs faults pos) = None ->
    bad_at c pos -> bad_at (so_content (sync_stripe hashf bs nlev o now iob c par fs faults pos)) pos.
Proof. exact nowrite_keeps_bad. Qed.
Print Assumptions C06f_nowrite_keeps_bad.

(* in FaultModel's words: a stripe recorded healthy after the faulty loop has valid parity in every level *)
Theorem C06f_healthy_valid :
  forall (hashf : bid -> N -> hval) (bs : N) (nlev : nat) (o : sopts) (now : N) (fs : list (option fsdisk))
         (faults : nat -> list (option rd)) (wf : nat -> nat -> wres) (m : iomode) (lag : nat -> nat -> nat)
         (stripes : list nat) (stop : option nat) (c : content) (par : parity),
    NoDup stripes ->
    (forall p : nat, In p stripes -> faults_wf bs c p (faults p)) ->
    MapOK c ->
    ParOK hashf bs c par ->
    (forall p : nat, In p stripes -> PastOK hashf bs c par p) ->
    let r := sync_loop_w hashf bs nlev o now fs faults wf m lag stripes stop 0 [] [] c par 0 0 0 in
    forall pos : nat, recorded_healthy (ro_content (w_run r)) pos = true ->
    forall lv : list penc, In lv (ro_parity (w_run r)) ->
      exists v : list bid, nth pos lv PNone = PEnc v /\ enc_ok hashf bs (ro_content (w_run r)) pos v.
Proof. exact sync_loop_w_healthy_valid. Qed.
Print Assumptions C06f_healthy_valid.

(* loading and saving keep ParOK_nb; loading establishes PastOK_nb everywhere *)
Theorem C06f_clear_past_nb :
  forall (hashf : bid -> N -> hval) (bs : N) (c : content) (par : parity),
    MapOK c -> ParOK_nb hashf bs c par ->
    MapOK (clear_past c) /\ ParOK_nb hashf bs (clear_past c) par /\
    (forall pos : nat, PastOK_nb hashf bs (clear_past c) par pos).
Proof. exact clear_past_nb. Qed.
Print Assumptions C06f_clear_past_nb.
Theorem C06f_save_normalise_nb :
  forall (hashf : bid -> N -> hval) (bs : N) (c : content) (par : parity),
    MapOK c -> ParOK_nb hashf bs c par -> MapOK (save_normalise c) /\ ParOK_nb hashf bs (save_normalise c) par.
Proof. exact save_normalise_nb. Qed.
Print Assumptions C06f_save_normalise_nb.

(* rounds of load / faulty sync loop / save *)
Theorem C06f_reach_w_inv :
  forall (hashf : bid -> N -> hval) (bs : N) (nlev : nat) (ph : phase) (c : content) (par : parity),
    reach_w hashf bs nlev ph c par ->
    MapOK c /\ ParOK_nb hashf bs c par /\ (ph = Loaded -> forall pos : nat, PastOK_nb hashf bs c par pos).
Proof. exact reach_w_inv. Qed.
Print Assumptions C06f_reach_w_inv.
Theorem C06f_synced_notbad_parity_valid :
  forall (hashf : bid -> N -> hval) (bs : N) (nlev : nat) (ph : phase) (c : content) (par : parity),
    reach_w hashf bs nlev ph c par ->
    forall pos : nat, stripe_synced c pos -> ~ bad_at c pos ->
    forall lv : list penc, In lv par -> exists v : list bid, nth pos lv PNone = PEnc v /\ enc_ok hashf bs c pos v.
Proof. exact synced_notbad_parity_valid. Qed.
Print Assumptions C06f_synced_notbad_parity_valid.

(* ---- non-vacuity: the scenario of C06_inv_write_fault_refuted (w_c: 2 disks, 1 level, one CHG block, empty parity; the
   pwrite of level 0 at stripe 0 fails with EIO, single-thread io) through sync_loop_w: the block is recorded BLK, the
   parity holds nothing, the stripe is marked bad: ParOK_nb holds, ParOK does not ---- *)
Example C06f_ex_fault :
  MapOK (ro_content (w_run f_run))
  /\ ParOK_nb w_hashf w_bs (ro_content (w_run f_run)) (ro_parity (w_run f_run))
  /\ ~ ParOK w_hashf w_bs (ro_content (w_run f_run)) (ro_parity (w_run f_run))
  /\ stripe_synced (ro_content (w_run f_run)) 0 /\ bad_at (ro_content (w_run f_run)) 0
  /\ w_fpos f_run = [0] /\ ro_parity (w_run f_run) = [[]] /\ run_failing (w_run f_run) = true.
Proof. exact fault_example. Qed.
(* ... and the next round: a plain sync leaves the bad synced stripe alone, a forced one rewrites it and clears the mark *)
Example C06f_ex_rounds :
  reach_w w_hashf w_bs 1 Saved f_c1 (ro_parity (w_run f_run))
  /\ bad_at f_c1 0 /\ stripe_synced f_c1 0
  /\ reach_w w_hashf w_bs 1 Synced (ro_content (w_run (f_run2 w_opts))) (ro_parity (w_run (f_run2 w_opts)))
  /\ bad_at (ro_content (w_run (f_run2 w_opts))) 0 /\ ro_parity (w_run (f_run2 w_opts)) = [[]]
  /\ reach_w w_hashf w_bs 1 Synced (ro_content (w_run (f_run2 f_full))) (ro_parity (w_run (f_run2 f_full)))
  /\ ~ bad_at (ro_content (w_run (f_run2 f_full))) 0 /\ ro_parity (w_run (f_run2 f_full)) = [[PEnc [42%N; 0%N]]].
Proof. exact fault_rounds_example. Qed.
Print Assumptions C06f_ex_fault.
Print Assumptions C06f_ex_rounds.
