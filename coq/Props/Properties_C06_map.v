(* C06 -- the disk -> parity-position mapping (the lesson of the seeded change C06e_1).  Statements only; the model is
   Array/MapModel.v (remap = the 'M' record loader of state_read_content followed by state_map() of cmdline/state.c), the
   proofs Array/MapProofs.v.  The model is tied to the tool by check_C06.py: after every command that follows a change of the
   configuration (rename by uuid with --test-match-first-uuid, retire, add, reorder) the positions predicted by the extracted
   `remap` are compared with the 'M' records of the new content file.

     resolve o cfg m        the configured disk a content mapping belongs to: by name, else by uuid (the automatic rename)
     key m                  (m_name m, m_pos m)
     lowest used news       every new mapping takes, in order, a position that is free and below which every position is used
     new_names cfg names    the configured disks without a mapping, in configuration order
     old_columns / new_columns   the columns (SyncModel indexes c_disks by position) of the content file / of the state loaded
                            after the remap: the files of a record go to the disk it was resolved to, whose column is the
                            position of the mapping bearing ITS name; a new disk is an empty column, a retired one a hole
     pad_par w par          the same parity blocks read against w columns (encoded vectors zero-extended) *)
From Coq Require Import NArith ZArith List Bool Arith.
From Snap.Array Require Import ArrayDefs SyncModel SyncProofsDefs MapModel MapProofs.
Import ListNotations.

(* (1) every disk present in the content (by name, or by uuid after a rename) and in the configuration keeps its position
       (a content disk absent from the configuration makes remap fail: "Disk ... not present in the configuration file") *)
Theorem C06_remap_keeps_positions :
  forall (o : mopts) (content : list mapping) (cfg : list cfgdisk) (ms' : list mapping),
    remap o content cfg = Some ms' ->
    forall m, In m content -> exists d, resolve o cfg m = Some d /\ In (g_name d, m_pos m) (map key ms').
Proof. exact remap_keeps_positions. Qed.
Print Assumptions C06_remap_keeps_positions.

(* (2) the new disks get the lowest free positions, in configuration order *)
Theorem C06_remap_new_lowest_hole :
  forall (o : mopts) (content : list mapping) (cfg : list cfgdisk) (ms' : list mapping),
    remap o content cfg = Some ms' ->
    exists old news, map key ms' = map key (old ++ news) /\ map m_pos old = map m_pos content /\
                     lowest (map m_pos content) news /\ map m_name news = new_names cfg (map m_name old).
Proof. exact remap_new_lowest_hole. Qed.
Print Assumptions C06_remap_new_lowest_hole.

(* (3) no two disks share a position *)
Theorem C06_remap_injective :
  forall (o : mopts) (content : list mapping) (cfg : list cfgdisk) (ms' : list mapping),
    NoDup (map m_pos content) -> remap o content cfg = Some ms' -> NoDup (map m_pos ms').
Proof. exact remap_injective. Qed.
Print Assumptions C06_remap_injective.

(* (4) the C06 invariant survives a remap followed by the load: the columns of the disks that own blocks do not move *)
Theorem C06_remap_parity_valid :
  forall (hashf : bid -> N -> hval) (bs : N) (o : mopts) (cfg : list cfgdisk) (disks : list (mapping * cdisk))
         (ld ms' : list mapping) (w w' : nat) (inf : list (option info)) (bm : nat) (inf' : list (option info)) (bm' : nat)
         (par : parity),
    remap o (map fst disks) cfg = Some ms' ->
    load_maps o cfg (map fst disks) = Some ld -> NoDup (map m_name ld) ->
    NoDup (map (fun md => m_pos (fst md)) disks) ->
    (forall md, In md disks -> m_pos (fst md) < w) -> w <= w' ->
    ParOK hashf bs (mkC (old_columns disks w) inf bm) par ->
    ParOK hashf bs (mkC (new_columns o cfg ms' disks w') inf' bm') (pad_par w' par).
Proof. exact remap_parity_valid. Qed.
Print Assumptions C06_remap_parity_valid.

(* (5) the C06e_1 geometry: a hole at position 0 (dA retired), dB at 1 renamed dX and found by uuid, dC at 2 *)
Example C06_map_ex_rename_keeps_position :
  remap x_opts x_content x_cfg = Some [mkMap 9 1 0; mkMap 3 2 0].
Proof. exact rename_keeps_position. Qed.
Example C06_map_ex_parity_valid : ParOK x_hash 1024 x_new (pad_par 3 x_par).
Proof. exact remap_parity_valid_example. Qed.
(* the seeded variant (the loader keeps the OLD name: the mapping is dropped, the disk re-mapped into the first hole) *)
Example C06_map_ex_oldname_moves_disk :
  remap_oldname x_opts x_content x_cfg = Some [mkMap 3 2 0; mkMap 9 0 0].
Proof. exact oldname_moves_disk. Qed.
Example C06_map_oldname_breaks_keeps_positions :
  exists o content cfg ms',
    remap_oldname o content cfg = Some ms' /\
    ~ (forall m, In m content -> exists d, resolve o cfg m = Some d /\ In (g_name d, m_pos m) (map key ms')).
Proof. exact oldname_breaks_keeps_positions. Qed.
Example C06_map_oldname_breaks_parity : ~ ParOK x_hash 1024 x_new_mut (pad_par 3 x_par).
Proof. exact oldname_breaks_parity. Qed.
Print Assumptions C06_map_ex_parity_valid.
Print Assumptions C06_map_oldname_breaks_keeps_positions.
Print Assumptions C06_map_oldname_breaks_parity.
