(* C07 -- kill_inv for a FORCED full sync (-F), the case Props/Properties_C07.v excludes (`o_force_full o = false`).
   Statements only; proofs in Fault/KillForced.v (imports, edits none of: Array/SyncProofs*.v, Fault/FaultModel.v,
   Fault/KillProofs.v).  kill_inv itself is untouched.

   Which of the two: BOTH, and it matters which crash-state model one reads.
   (1) In FaultModel's crash states a torn write ALWAYS leaves PJunk 1.  With -F a stripe that a content already on disk
       records as synced is rewritten, so there kill_inv without its hypothesis is FALSE: C07_kill_inv_forced_torn_refuted.
   (2) That is an over-approximation of the model, not behaviour of the tool: the block sync -F writes over a synced
       stripe with valid parity IS the block that is there (C07_synced_rewrite_identical: the vector it encodes fits the
       same recorded hashes, hence is the same vector when the block hash does not collide: HashInj), and bytes torn over
       the same bytes are those bytes.  With the crash states refined by exactly that (crash_state_eq = crash_state with
       level_state_eq: a torn write whose target already holds the value written changes nothing; C07_level_state_eq_cases
       says this is the only difference) kill_inv holds for forced and unforced syncs alike: C07_kill_inv_forced.
       For FaultModel's own crash states it holds whenever no parity write is torn: C07_kill_inv_forced_notorn.
   Hypotheses of the positive theorems, replacing `o_force_full o = false`: the C06 invariant at the start of the loop
   (MapOK c1, ParOK c1 par0, PastOK at the listed stripes, faults_wf), HashInj, NoDup stripes, and the stripes lie below
   the allocated size (state_sync iterates up to parity_allocated_size).
   Consequence for the tool: NO finding; a kill inside the pwrite of an already-synced stripe during sync -F leaves the
   parity block as it was.  (The rewrite differs from the old block only where the old parity was NOT valid -- e.g. a stripe
   marked bad after a failed write -- and there the stripe had no valid parity to lose.) *)
From Coq Require Import NArith ZArith List Bool Arith.
From Snap.Array Require Import ArrayDefs SyncModel SyncProofsDefs SyncProofsStripe.
From Snap.Fault Require Import FaultModel KillProofs KillForced.
Import ListNotations.

(* (1) FaultModel's crash states: false for -F (sync -F, single-thread io, one level, death inside the pwrite that
       rewrites the parity block of the synced stripe 0; the only content copy records stripe 0 as synced) *)
Theorem C07_kill_inv_forced_torn_refuted :
  exists hashf bs nlev m ncopies c0 par0 o now fs faults autosave stripes stop c1 ds,
    NoDup stripes /\ MapOK c1 /\ ParOK hashf bs c1 par0 /\ o_force_full o = true /\
    crash_state m ncopies c0 par0 (sync_trace hashf bs nlev o now fs faults autosave stripes stop c1 par0) ds /\
    exists c, In c (ds_copies ds) /\
      ~ (c = c0 \/
         exists pre1 post1, sync_trace hashf bs nlev o now fs faults autosave stripes stop c1 par0 = pre1 ++ MSave c :: post1 /\
           forall p, stripe_synced c p -> forall l, l < length par0 ->
             nth p (nth l (ds_par ds) []) PNone = nth p (nth l (ideal_par par0 pre1) []) PNone).
Proof. exact kill_inv_forced_torn_refuted. Qed.
Print Assumptions C07_kill_inv_forced_torn_refuted.

(* (2a) why it is an artefact: a sync iteration over a synced stripe whose levels all fit the recorded hashes writes,
        if it writes, exactly what every level already holds *)
Theorem C07_synced_rewrite_identical :
  forall (hashf : bid -> N -> hval) (bs : N) (nlev : nat) (o : sopts) (now : N) (iob : nat) (c : content) (par : parity)
         (fs : list (option fsdisk)) (faults : list (option rd)) (pos : nat) (vec : list bid),
    HashInj hashf ->
    faults_wf bs c pos faults ->
    stripe_synced c pos ->
    par_enc hashf bs c par pos ->
    so_write (sync_stripe hashf bs nlev o now iob c (map (fun lv : list penc => nth pos lv PNone) par) fs faults pos) = Some vec ->
    forall lv : list penc, In lv par -> nth pos lv PNone = PEnc vec.
Proof. exact synced_rewrite_identical. Qed.
Print Assumptions C07_synced_rewrite_identical.

(* (2b) the refinement of the crash states differs from FaultModel's only at a torn write over an equal block *)
Theorem C07_level_state_eq_cases :
  forall (sch : list (nat * list bid)) (base : list penc) (k : nat) (torn : bool),
    level_state_eq sch base k torn = level_state sch base k torn \/
    (exists (p : nat) (v : list bid),
       torn = true /\ nth_error sch k = Some (p, v) /\
       nth p (apply_writes (firstn k sch) base) PNone = PEnc v /\
       level_state_eq sch base k torn = level_state sch base k false).
Proof. exact level_state_eq_cases. Qed.
Print Assumptions C07_level_state_eq_cases.

(* (2c) kill_inv_generic with "no later write touches a synced stripe" weakened to "later writes to a synced stripe write
        what the parity holds at the save" (trace_ok_id) *)
Theorem C07_kill_inv_generic_eq :
  forall (m : iomode) (ncopies : nat) (c0 : content) (par0 : parity) (tr : list mev) (ds : dstate),
    trace_ok_id par0 tr -> resize_before_saves tr -> (m = Mono \/ saves_drained tr) ->
    crash_state_eq m ncopies c0 par0 tr ds ->
    forall c : content, In c (ds_copies ds) ->
      c = c0 \/
      exists pre1 post1, tr = pre1 ++ MSave c :: post1 /\
        forall p, stripe_synced c p -> forall l, l < length par0 ->
          nth p (nth l (ds_par ds) []) PNone = nth p (nth l (ideal_par par0 pre1) []) PNone.
Proof. exact kill_inv_generic_eq. Qed.
Print Assumptions C07_kill_inv_generic_eq.

(* the traces of sync, forced or not: structure (no o_force_full hypothesis needed) and identity writes *)
Theorem C07_sync_trace_struct :
  forall (hashf : bid -> N -> hval) (bs : N) (nlev : nat) (o : sopts) (now : N) (fs : list (option fsdisk))
         (faults : nat -> list (option rd)) (autosave : nat -> bool) (stripes : list nat) (stop : option nat)
         (c1 : content) (par : parity),
    let tr := sync_trace hashf bs nlev o now fs faults autosave stripes stop c1 par in
    resize_before_saves tr /\ saves_drained tr.
Proof. exact sync_trace_struct. Qed.
Print Assumptions C07_sync_trace_struct.
Theorem C07_sync_trace_ok_id :
  forall (hashf : bid -> N -> hval) (bs : N) (nlev : nat) (o : sopts) (now : N) (fs : list (option fsdisk))
         (faults : nat -> list (option rd)) (autosave : nat -> bool) (stripes : list nat) (stop : option nat)
         (c1 : content) (par0 : parity),
    HashInj hashf -> NoDup stripes -> (forall p, In p stripes -> p < allocated_size c1) ->
    (forall p, In p stripes -> faults_wf bs c1 p (faults p)) ->
    MapOK c1 -> ParOK hashf bs c1 par0 -> (forall p, In p stripes -> PastOK hashf bs c1 par0 p) ->
    trace_ok_id par0 (sync_trace hashf bs nlev o now fs faults autosave stripes stop c1 par0).
Proof. exact sync_trace_ok_id. Qed.
Print Assumptions C07_sync_trace_ok_id.

(* (2) kill_inv for ANY sync (no hypothesis on o_force_full), every io mode, autosave, stop, crash point incl. torn writes,
       on the refined crash states *)
Theorem C07_kill_inv_forced :
  forall (hashf : bid -> N -> hval) (bs : N) (nlev : nat) (m : iomode) (ncopies : nat) (c0 : content) (par0 : parity)
         (o : sopts) (now : N) (fs : list (option fsdisk)) (faults : nat -> list (option rd)) (autosave : nat -> bool)
         (stripes : list nat) (stop : option nat) (c1 : content) (ds : dstate),
    HashInj hashf -> NoDup stripes -> (forall p, In p stripes -> p < allocated_size c1) ->
    (forall p, In p stripes -> faults_wf bs c1 p (faults p)) ->
    MapOK c1 -> ParOK hashf bs c1 par0 -> (forall p, In p stripes -> PastOK hashf bs c1 par0 p) ->
    let tr := sync_trace hashf bs nlev o now fs faults autosave stripes stop c1 par0 in
    crash_state_eq m ncopies c0 par0 tr ds ->
    forall c : content, In c (ds_copies ds) ->
      c = c0 \/
      exists pre1 post1, tr = pre1 ++ MSave c :: post1 /\
        forall p, stripe_synced c p -> forall l, l < length par0 ->
          nth p (nth l (ds_par ds) []) PNone = nth p (nth l (ideal_par par0 pre1) []) PNone.
Proof. exact kill_inv_forced. Qed.
Print Assumptions C07_kill_inv_forced.

(* ... and on FaultModel's own crash states when no parity write is torn (the process dies between system calls) *)
Theorem C07_kill_inv_forced_notorn :
  forall (hashf : bid -> N -> hval) (bs : N) (nlev : nat) (m : iomode) (ncopies : nat) (c0 : content) (par0 : parity)
         (o : sopts) (now : N) (fs : list (option fsdisk)) (faults : nat -> list (option rd)) (autosave : nat -> bool)
         (stripes : list nat) (stop : option nat) (c1 : content) (pre rest : list mev) (j : nat) (ks : list nat),
    HashInj hashf -> NoDup stripes -> (forall p, In p stripes -> p < allocated_size c1) ->
    (forall p, In p stripes -> faults_wf bs c1 p (faults p)) ->
    MapOK c1 -> ParOK hashf bs c1 par0 -> (forall p, In p stripes -> PastOK hashf bs c1 par0 p) ->
    let tr := sync_trace hashf bs nlev o now fs faults autosave stripes stop c1 par0 in
    tr = pre ++ rest -> length ks = length par0 ->
    (forall l, l < length par0 -> k_ok m pre rest (nth l ks 0) false) ->
    let ds := mkDS (copies_at ncopies c0 pre rest j)
                   (map (fun l => level_state (scheds tr) (nth l (par_base par0 pre) []) (nth l ks 0) false) (seq 0 (length par0))) in
    crash_state m ncopies c0 par0 tr ds /\
    forall c : content, In c (ds_copies ds) ->
      c = c0 \/
      exists pre1 post1, tr = pre1 ++ MSave c :: post1 /\
        forall p, stripe_synced c p -> forall l, l < length par0 ->
          nth p (nth l (ds_par ds) []) PNone = nth p (nth l (ideal_par par0 pre1) []) PNone.
Proof. exact kill_inv_forced_notorn. Qed.
Print Assumptions C07_kill_inv_forced_notorn.

(* ---- non-vacuity: the witness of (1) satisfies every hypothesis of (2); at the very same crash point the refined state
   keeps the block of stripe 0 where FaultModel's state has PJunk 1, and the conclusion of C07_kill_inv_forced holds ---- *)
Example C07_forced_ex_hyps :
  HashInj kf_hash /\ NoDup [0; 1] /\ (forall p, In p [0; 1] -> p < allocated_size kf_c1) /\
  (forall p, In p [0; 1] -> faults_wf 1024%N kf_c1 p []) /\
  MapOK kf_c1 /\ ParOK kf_hash 1024%N kf_c1 kf_par /\ (forall p, In p [0; 1] -> PastOK kf_hash 1024%N kf_c1 kf_par p).
Proof. exact kf_hyps. Qed.
Example C07_forced_ex_same_point :
  crash_state_eq Mono 1 kf_c0 kf_par kf_tr kf_ds_eq /\
  nth 0 (nth 0 (ds_par kf_ds) []) PNone = PJunk 1 /\
  nth 0 (nth 0 (ds_par kf_ds_eq) []) PNone = PEnc [5%N] /\
  HashInj kf_hash.
Proof. exact kill_forced_same_point_refined. Qed.
Example C07_forced_ex_conclusion :
  forall c, In c (ds_copies kf_ds_eq) ->
    c = kf_c0 \/
    exists pre1 post1, kf_tr = pre1 ++ MSave c :: post1 /\
      forall p, stripe_synced c p -> forall l, l < length kf_par ->
        nth p (nth l (ds_par kf_ds_eq) []) PNone = nth p (nth l (ideal_par kf_par pre1) []) PNone.
Proof. exact kill_forced_example. Qed.
Print Assumptions C07_forced_ex_hyps.
Print Assumptions C07_forced_ex_same_point.
Print Assumptions C07_forced_ex_conclusion.
