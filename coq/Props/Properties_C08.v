(* C08 -- I/O errors never turn into false protection.
   Model: coq/Array/SyncModel.v (sync loop, read outcomes) + coq/Fault/FaultModel.v (writer outcomes and the error
   accounting of io.c, one stripe of scrub).  Lemmas: coq/Fault/FaultProofs.v.  Only statements here. *)
From Coq Require Import NArith ZArith List Bool Arith.
From Snap.Array Require Import ArrayDefs SyncModel SyncProofsDefs SyncProofsStripe.
From Snap.Fault Require Import FaultModel FaultProofs FaultWitness SkipWitness ScrubBadMark.
Import ListNotations.

(* sync_loop_w without write faults is the sync loop of C06 (the model the C06 check replays on the binary) *)
Theorem C08_sync_loop_w_conservative :
  forall hashf bs nlev o now fs faults wf m lag, (forall p l, wf p l = WOk) ->
  forall stripes stop it nfail c par ne ns ni,
    let r := sync_loop_w hashf bs nlev o now fs faults wf m lag stripes stop it [] nfail c par ne ns ni in
    w_run r = sync_loop hashf bs nlev o now fs faults stripes stop c par ne ns ni /\ w_lost r = [] /\ w_fpos r = nfail.
Proof. exact sync_loop_w_nofault. Qed.
Print Assumptions C08_sync_loop_w_conservative.

(* a data read failing with EIO (RdIoCont) or with a file error (RdErrCont) while sync processes stripe pos, the
   iteration not being aborted by the error limit: *)
Theorem read_error_safe :
  forall hashf bs nlev o now iob c par fs faults pos j f i b,
    j < length (c_disks c) -> slot_of c pos j = SFile f i b ->
    nth j faults None = Some RdIoCont \/ nth j faults None = Some RdErrCont ->
    let r := sync_stripe hashf bs nlev o now iob c par fs faults pos in
    so_bail r = false ->
    so_write r = None
    /\ (forall k, slot_of (so_content r) pos k = slot_of c pos k)
    /\ (nth pos (c_info (so_content r)) None = nth pos (c_info c) None
        \/ nth pos (c_info (so_content r)) None = mark_bad (nth pos (c_info c) None))
    /\ (nth j faults None = Some RdIoCont ->
        nth pos (c_info (so_content r)) None = mark_bad (nth pos (c_info c) None) /\ 0 < so_nio r)
    /\ (nth j faults None = Some RdErrCont -> 0 < so_nerr r).
Proof. exact read_error_safe. Qed.
Print Assumptions read_error_safe.

(* all other stripes are unaffected by what happens at pos (frame theorem of C06's stripe proofs, whatever the outcome) *)
Theorem read_error_other_stripes :
  forall hashf bs nlev o now iob c par fs faults pos,
    let c' := so_content (sync_stripe hashf bs nlev o now iob c par fs faults pos) in
    map disk_attrs (c_disks c') = map disk_attrs (c_disks c) /\
    forall p, p <> pos ->
      same_views c c' p /\ nth p (c_info c') None = nth p (c_info c) None
      /\ (stripe_synced c' p <-> stripe_synced c p) /\ (stripe_quiet c' p <-> stripe_quiet c p)
      /\ (forall v, enc_ok hashf bs c' p v <-> enc_ok hashf bs c p v).
Proof. exact sync_stripe_other_stripes. Qed.
Print Assumptions read_error_other_stripes.

(* processing goes on until the I/O error count reaches the limit, and stops exactly there: a run that did not bail
   has counted no I/O error or fewer than the limit (read errors and collected writer errors alike), except for the ONE
   increment the end-of-run flush of the writers' last reports may add without testing the limit (below_limit_end) *)
Theorem error_limit :
  forall hashf bs nlev o now fs faults wf m lag stripes stop it q nfail c par ne ns ni,
    below_limit o ni ->
    let r := sync_loop_w hashf bs nlev o now fs faults wf m lag stripes stop it q nfail c par ne ns ni in
    ro_bailed (w_run r) = false -> below_limit_end o (ro_nio (w_run r)).
Proof. exact error_limit. Qed.
Print Assumptions error_limit.
Theorem stripe_error_limit :
  forall hashf bs nlev o now iob c par fs faults pos,
    let r := sync_stripe hashf bs nlev o now iob c par fs faults pos in
    so_bail r = false -> so_nio r = 0 \/ iob + so_nio r < o_io_error_limit o.
Proof. exact stripe_error_limit. Qed.
Print Assumptions stripe_error_limit.

(* scrub: an EIO on a data or parity read marks the stripe bad, keeps its scrub time, and is counted *)
Theorem scrub_read_error_safe :
  forall limit iob now inf disks pars,
    (exists t, In t disks /\ st_used t = true /\ st_file t = true /\ st_out t = SdIoCont) \/ In SpIoCont pars ->
    let r := scrub_stripe limit iob now inf disks pars in
    sc_bail r = false ->
    sc_info r = mkInfo (i_time inf) true (i_rehash inf) (i_justsynced inf) /\ 0 < sc_nio r.
Proof. exact scrub_read_error_safe. Qed.
Print Assumptions scrub_read_error_safe.

(* scrub: a bad mark is cleared only by a complete, clean verification: every parity read succeeded and compared equal (so a stripe
   that is not fully synced and whose parity differs, or whose parity was not read, keeps the mark) *)
Theorem scrub_clears_bad_only_verified :
  forall limit iob now inf disks pars,
    let r := scrub_stripe limit iob now inf disks pars in
    i_bad inf = true -> sc_bail r = false -> i_bad (sc_info r) = false ->
    (forall p, In p pars -> p = SpOk true) /\ sc_info r = mkInfo now false false false.
Proof. exact scrub_clears_bad_only_verified. Qed.
Print Assumptions scrub_clears_bad_only_verified.

(* ---- parity write errors ----
   The C08 statement for writes, at full strength, for every fault sequence (wf), io mode (single-thread / threaded n) and
   writer schedule (lag): whenever a parity write failed the exit status is failing, and the stripe of EVERY failed write
   (w_fpos = the stripes of the failed pwrites, one entry per failing level) ends marked bad, hence not recorded
   synced-and-healthy.  It was refuted on the pinned tree in three ways (F-C08-mono-writer-errors-lost,
   F-C08-last-writer-errors-lost, F-C08-parity-write-error-recorded-synced), repaired in /repo by 55c30f5, 1304269 and 0ecd44a;
   the three former witnesses are the regression examples below (and are replayed on the binary by the check).
   Hypothesis: NoDup stripes (the loop visits each stripe once: it iterates over increasing positions). *)
Theorem write_error_safe :
  forall hashf bs nlev o now fs faults wf m lag stripes stop c par,
    NoDup stripes ->
    let r := sync_loop_w hashf bs nlev o now fs faults wf m lag stripes stop 0 [] [] c par 0 0 0 in
    (0 < w_nfail r -> run_failing (w_run r) = true) /\
    (forall p, In p (w_fpos r) -> bad_at (ro_content (w_run r)) p /\ recorded_healthy (ro_content (w_run r)) p = false).
Proof. exact write_error_safe. Qed.
Print Assumptions write_error_safe.

(* the invariant behind it, for any starting point of the loop: every failed write is still queued or its stripe is marked *)
Theorem failed_writes_marked :
  forall hashf bs nlev o now fs faults wf m lag stripes stop it q fp c par ne ns ni,
    NoDup stripes -> (forall p, In p fp -> ~ In p stripes) -> marks_ok q fp c ->
    let r := sync_loop_w hashf bs nlev o now fs faults wf m lag stripes stop it q fp c par ne ns ni in
    forall p, In p (w_fpos r) -> bad_at (ro_content (w_run r)) p.
Proof. exact failed_writes_marked. Qed.
Print Assumptions failed_writes_marked.

(* the marks touch nothing else: block maps and size unchanged, every info word outside the marked stripes unchanged; together
   with C08_sync_loop_w_conservative, read_error_other_stripes and error_limit: all other stripes are processed normally *)
Theorem write_marks_frame :
  forall ps c,
    c_disks (mark_bad_all c ps) = c_disks c /\ c_blockmax (mark_bad_all c ps) = c_blockmax c /\
    forall p, ~ In p ps -> nth p (c_info (mark_bad_all c ps)) None = nth p (c_info c) None.
Proof. exact mark_bad_all_frame. Qed.
Print Assumptions write_marks_frame.

(* the exit-status half alone, without the NoDup hypothesis *)
Theorem write_error_exit_safe :
  forall hashf bs nlev o now fs faults wf m lag stripes stop c par,
    let r := sync_loop_w hashf bs nlev o now fs faults wf m lag stripes stop 0 [] [] c par 0 0 0 in
    0 < w_nfail r -> run_failing (w_run r) = true.
Proof. exact write_error_exit_safe. Qed.
Print Assumptions write_error_exit_safe.

(* every report is eventually counted unless the run bails first (then the exit status is failing anyway) *)
Theorem write_error_exit_partial :
  forall hashf bs nlev o now fs faults wf m lag stripes stop c par,
    let r := sync_loop_w hashf bs nlev o now fs faults wf m lag stripes stop 0 [] [] c par 0 0 0 in
    length (w_lost r) < w_nfail r -> run_failing (w_run r) = true.
Proof. exact write_error_exit_partial. Qed.
Print Assumptions write_error_exit_partial.

(* parity_write accepts a pwrite iff the WHOLE block was transferred; a short count is an error of the fatal (non-EIO) kind, like
   ENOSPC (deterministic since /repo 79689a5: errno is cleared on entry and set to ENOSPC for a short count), reported and hence
   covered by write_error_safe: its stripe ends marked bad *)
Theorem parity_write_ok_iff_full_count :
  forall bs r, classify_pwrite bs r = WOk <-> r = PwCount bs.
Proof. exact classify_pwrite_ok. Qed.
Print Assumptions parity_write_ok_iff_full_count.
Theorem short_count_is_reported :
  forall bs n m lag it pos nl l, n <> bs -> l < nl ->
    In (mkWR (report_due m (lag pos l) it) 0 1 pos)
       (level_reports m lag it pos (fun k => if Nat.eqb k l then classify_pwrite bs (PwCount n) else WOk) nl).
Proof. exact classify_short_reported. Qed.
Print Assumptions short_count_is_reported.

(* sync -h: any block of the pre-hash phase that is not read and matching makes the command fail; an EIO also skips the sync phase *)
Theorem prehash_error_fails :
  forall outs, (exists x, In x outs /\ x <> HOk) -> hash_failing (hash_phase outs) = true.
Proof. exact prehash_error_fails. Qed.
Print Assumptions prehash_error_fails.
Theorem prehash_eio_skips : forall outs, In HEio outs -> h_skip (hash_phase outs) = true.
Proof. exact prehash_eio_skips. Qed.
Print Assumptions prehash_eio_skips.

(* regression examples: the three former refutation witnesses and a fatal (ENOSPC) write error *)
Example C08_write_error_threaded_notlast_now_bad :
  let r := wrun (Threaded 3) 3 in
  w_fpos r = [3] /\ run_failing (w_run r) = true /\ ro_nio (w_run r) = 1 /\
  recorded_healthy (ro_content (w_run r)) 3 = false /\
  nth 3 (c_info (ro_content (w_run r))) None = Some (mkInfo 7 true false true) /\
  recorded_healthy (ro_content (w_run r)) 4 = true /\
  nth 3 (nth 0 (ro_parity (w_run r)) []) PNone = PJunk 4.
Proof. exact write_error_threaded_notlast_now_bad. Qed.
Example C08_write_error_threaded_last_now_bad :
  let r := wrun (Threaded 3) 7 in
  w_fpos r = [7] /\ run_failing (w_run r) = true /\ length (w_lost r) = 0 /\
  recorded_healthy (ro_content (w_run r)) 7 = false /\ nth 7 (nth 0 (ro_parity (w_run r)) []) PNone = PJunk 8.
Proof. exact write_error_threaded_last_now_bad. Qed.
Example C08_write_error_mono_now_bad :
  let r := wrun Mono 3 in
  w_fpos r = [3] /\ run_failing (w_run r) = true /\ length (w_lost r) = 0 /\
  recorded_healthy (ro_content (w_run r)) 3 = false /\ nth 3 (nth 0 (ro_parity (w_run r)) []) PNone = PJunk 4.
Proof. exact write_error_mono_now_bad. Qed.
Example C08_write_error_fatal_now_bad :
  let r := sync_loop_w hz 1024 1 wo 7 wfs (fun _ => []) (fun pos l => if Nat.eqb pos 2 then WErr else WOk) (Threaded 3) (fun _ _ => 1)
                       (seq 0 8) None 0 [] [] wc wpar 0 0 0 in
  ro_bailed (w_run r) = true /\ run_failing (w_run r) = true /\ w_fpos r = [2] /\
  recorded_healthy (ro_content (w_run r)) 2 = false /\ recorded_healthy (ro_content (w_run r)) 3 = true /\
  recorded_healthy (ro_content (w_run r)) 4 = false.
Proof. exact write_error_fatal_now_bad. Qed.

Example C08_write_short_count_now_bad :
  let r := sync_loop_w hz 1024 1 wo 7 wfs (fun _ => []) (fun pos l => if Nat.eqb pos 5 then classify_pwrite 1024 (PwCount 512) else WOk) Mono (fun _ _ => 1)
                       (seq 0 8) None 0 [] [] wc wpar 0 0 0 in
  ro_bailed (w_run r) = true /\ run_failing (w_run r) = true /\ w_fpos r = [5] /\
  recorded_healthy (ro_content (w_run r)) 5 = false /\ nth 5 (nth 0 (ro_parity (w_run r)) []) PNone = PJunk 0 /\
  recorded_healthy (ro_content (w_run r)) 6 = false.
Proof. exact write_short_count_now_bad. Qed.
Example C08_prehash_nonvacuous :
  hash_failing (hash_phase [HOk; HOk; HEio; HOk]) = true /\ h_skip (hash_phase [HOk; HOk; HEio; HOk]) = true /\
  h_nio (hash_phase [HOk; HOk; HEio; HOk]) = 1 /\ hash_failing (hash_phase [HOk; HOk]) = false.
Proof. exact prehash_nonvacuous. Qed.

(* non-vacuity *)
Example C08_read_error_safe_nonvacuous :
  let r := sync_stripe hz 1024 1 wo 7 0 wc [PJunk 3] wfs [Some RdIoCont] 2 in
  slot_has_file (slot_of wc 2 0) = true /\ so_bail r = false /\ so_nio r = 1 /\ so_write r = None.
Proof. exact read_error_safe_nonvacuous. Qed.
Example C08_error_limit_nonvacuous :
  let r := sync_loop_w hz 1024 1 (mkSO false false 2) 7 wfs (fun p => if Nat.eqb p 1 || Nat.eqb p 4 then [Some RdIoCont] else [])
                       (fun _ _ => WOk) (Threaded 3) (fun _ _ => 1) (seq 0 8) None 0 [] [] wc wpar 0 0 0 in
  ro_bailed (w_run r) = true /\ ro_nio (w_run r) = 2 /\ recorded_healthy (ro_content (w_run r)) 5 = false.
Proof. exact error_limit_nonvacuous. Qed.
Example C08_scrub_read_error_nonvacuous :
  let r := scrub_stripe 100 0 77 (mkInfo 8 false false true) [mkST true false true false true (SdOk true); mkST true false true false true SdIoCont] [SpOk true] in
  sc_bail r = false /\ sc_nio r = 1 /\ i_bad (sc_info r) = true /\ i_time (sc_info r) = 8%N.
Proof. exact scrub_read_error_nonvacuous. Qed.
Example C08_scrub_bad_touched_stale_keeps_mark :
  let r := scrub_stripe 100 0 77 (mkInfo 8 true false true)
             [mkST true false true true true (SdOk true); mkST true false true false true (SdOk true)] [SpOk false] in
  sc_info r = mkInfo 8 true false true /\ sc_nerr r = 1 /\ sc_nio r = 0 /\ sc_nsilent r = 0.
Proof. exact scrub_bad_touched_stale_keeps_mark. Qed.
(* the parity outcomes are a LIST, one per level: scrub_read_error_safe and scrub_clears_bad_only_verified hold for an EIO on any
   subset of the levels, not only when every level fails *)
Example C08_scrub_partial_parity_eio_marks_bad :
  let disks := [mkST true false true false true (SdOk true); mkST true false true false true (SdOk true)] in
  let r := scrub_stripe 100 0 77 (mkInfo 8 false false true) disks [SpOk true; SpIoCont; SpOk true] in
  let r' := scrub_stripe 100 0 77 (mkInfo 8 true false false) disks [SpIoCont; SpOk true; SpIoCont] in
  sc_info r = mkInfo 8 true false true /\ sc_nio r = 1 /\ sc_bail r = false /\
  sc_info r' = mkInfo 8 true false false /\ sc_nio r' = 2 /\ sc_bail r' = false.
Proof. exact scrub_partial_parity_eio_marks_bad. Qed.
Example C08_scrub_unsynced_parity_eio_marks_bad :
  let r := scrub_stripe 100 0 77 (mkInfo 8 false false true)
             [mkST true true true false false (SdOk true); mkST true false true false true (SdOk true)] [SpIoCont] in
  sc_info r = mkInfo 8 true false true /\ sc_nio r = 1 /\ sc_bail r = false.
Proof. exact scrub_unsynced_parity_eio_marks_bad. Qed.
(* writer errors are collected at every visited stripe, also at those that need no parity update (write_error_safe and
   write_error_exit_* quantify over any stripe list; this is the instance the check replays: one written stripe, seven no-update) *)
Example C08_skip_stripes_not_written :
  forallb (fun pos => match so_write (sync_stripe hz 1024 1 wo 7 0 kc [PJunk 9] kfs [] pos) with None => true | Some _ => false end) (seq 1 7) = true /\
  so_write (sync_stripe hz 1024 1 wo 7 0 kc [PJunk 9] kfs [] 0) <> None.
Proof. exact skip_stripes_not_written. Qed.
Example C08_write_error_collected_at_skipped_stripes :
  forallb (fun n => let r := krun (Threaded n) WEio in
     (length (w_fpos r) =? 1) && run_failing (w_run r) && (ro_nio (w_run r) =? 1) && (length (w_lost r) =? 0) &&
     negb (recorded_healthy (ro_content (w_run r)) 0) && recorded_healthy (ro_content (w_run r)) 1 && recorded_healthy (ro_content (w_run r)) 7)
    [3; 4; 8; 128] = true /\
  (let r := krun (Threaded 3) WErr in ro_bailed (w_run r) = true /\ run_failing (w_run r) = true /\ w_iters r = 1 /\
     recorded_healthy (ro_content (w_run r)) 0 = false) /\
  (let r := krun (Threaded 3) WShort in ro_bailed (w_run r) = true /\ run_failing (w_run r) = true /\
     recorded_healthy (ro_content (w_run r)) 0 = false /\ nth 0 (nth 0 (ro_parity (w_run r)) []) PNone = PJunk 0).
Proof. exact write_error_collected_at_skipped_stripes. Qed.
Example C08_partial_hypothesis_satisfiable :
  let r := wrun (Threaded 3) 3 in length (w_lost r) < w_nfail r.
Proof. vm_compute. apply le_n. Qed.
