(* C08 -- the task states and the writer error window of io.h as the fault model assumes them: the four error states are
   exactly IO_WRITER_ERROR_BASE .. -1 (so `state - IO_WRITER_ERROR_BASE` indexes writer_error[0..IO_WRITER_ERROR_MAX-1] for an
   error state and falls outside for EMPTY/READY/DONE), EIO-continue is the first slot. *)
From Coq Require Import ZArith.
From Snap.Gen Require Import Consts.
Local Open Scope Z_scope.

Theorem C08_consts_writer_error_window :
  c_IO_WRITER_ERROR_BASE = c_TASK_STATE_IOERROR_CONTINUE /\ c_IO_WRITER_ERROR_MAX = - c_IO_WRITER_ERROR_BASE /\
  c_TASK_STATE_IOERROR_CONTINUE - c_IO_WRITER_ERROR_BASE = 0 /\ c_TASK_STATE_ERROR_CONTINUE - c_IO_WRITER_ERROR_BASE = 1 /\
  c_TASK_STATE_IOERROR - c_IO_WRITER_ERROR_BASE = 2 /\ c_TASK_STATE_ERROR - c_IO_WRITER_ERROR_BASE = 3 /\
  c_IO_WRITER_ERROR_MAX <= c_TASK_STATE_EMPTY - c_IO_WRITER_ERROR_BASE /\
  c_IO_WRITER_ERROR_MAX <= c_TASK_STATE_READY - c_IO_WRITER_ERROR_BASE /\
  c_IO_WRITER_ERROR_MAX <= c_TASK_STATE_DONE - c_IO_WRITER_ERROR_BASE.
Proof. repeat split; try exact eq_refl; discriminate. Qed.
Print Assumptions C08_consts_writer_error_window.
