(* C09 -- Damaged content files are rejected; content replacement is atomic.
   Statements only; every proof is `exact <lemma>`.

   PROVED here:
     - CRC-32C (bit-serial definition of Crc.CrcModel) detects every change confined to 32 consecutive bits of a byte
       string, windows cut short by the end of the string included; the seal "P ++ little-endian crc32c(P)" therefore
       admits no second sealed string within a 32-bit window, the window being allowed to cover the crc bytes themselves;
     - save-verify-rename (Content.SaveModel, a transcription of state_write) over an abstract file system: every kill
       point, torn writes included, any number of copies, any initial file system;
     - truncation / alteration rejection for EVERY loader of the shape Content.LoaderModel.loader (the control skeleton
       of state_read_content: header, record loop, 'N' record compared with the crc of the consumed bytes, nothing after
       'N', end of file without 'N' refused) whose record parsers are regular and EOF-strict.  These three theorems are
       CONDITIONAL on Codec.CodecModel.decode being such an instance; that instantiation is not part of this file.
   NOT proved (tested by harness/py/check_C09.py with an ASan+UBSan build): memory safety of the C loader. *)
From Coq Require Import NArith List Bool.
From Snap.Crc Require Import CrcModel CrcProofs.
From Snap.Codec Require Import Varint.
From Snap.Content Require Import CrcBurstBytes SaveModel SaveProofs LoaderModel RejectProofs.
Import ListNotations.
Local Open Scope N_scope.

(* --- CRC-32C on byte strings --------------------------------------------------------------------------- *)

Theorem C09_crc_burst_le4 : forall s pre a a' post,
  s < 2^32 -> bytes pre -> bytes a -> bytes a' -> bytes post ->
  length a = length a' -> (length a <= 4)%nat -> a <> a' ->
  crc_bytes s (pre ++ a ++ post) <> crc_bytes s (pre ++ a' ++ post).
Proof. exact crc_burst_le4. Qed.
Print Assumptions C09_crc_burst_le4.

Theorem C09_crc32c_window32 : forall crc i b b',
  crc < 2^32 -> bytes b -> bytes b' -> agree_outside i 4 b b' -> b <> b' -> crc32c_spec crc b <> crc32c_spec crc b'.
Proof. exact crc32c_window32. Qed.
Print Assumptions C09_crc32c_window32.

Theorem C09_seal_residue : forall P C, bytes P -> bytes C -> length C = 4%nat ->
  (C = sputble32 (crc32c_spec 0 P) <-> crc_bytes CRC_IV (P ++ C) = RESIDUE).
Proof. exact seal_residue. Qed.
Print Assumptions C09_seal_residue.

Theorem C09_sealed_window32 : forall i b b',
  bytes b -> bytes b' -> sealed b -> sealed b' -> agree_outside i 4 b b' -> b = b'.
Proof. exact sealed_window32. Qed.
Print Assumptions C09_sealed_window32.

Theorem C09_single_bit_unsealed : forall pre c j post,
  bytes (pre ++ [c] ++ post) -> j < 8 -> sealed (pre ++ [c] ++ post) -> ~ sealed (pre ++ [N.lxor c (2^j)] ++ post).
Proof. exact single_bit_unsealed. Qed.
Print Assumptions C09_single_bit_unsealed.

Theorem C09_single_byte_unsealed : forall pre c c' post,
  bytes (pre ++ [c] ++ post) -> c' < 256 -> c <> c' -> sealed (pre ++ [c] ++ post) -> ~ sealed (pre ++ [c'] ++ post).
Proof. exact single_byte_unsealed. Qed.
Print Assumptions C09_single_byte_unsealed.

Example C09_seal_nonvacuous : sealed demo /\ bytes demo /\ length demo = 20%nat.
Proof. exact demo_sealed. Qed.
Example C09_window_straddling_data_and_crc :
  let b' := firstn 15 demo ++ [0; 0] ++ skipn 17 demo in
  agree_outside 15 4 demo b' /\ demo <> b' /\ ~ sealed b'.
Proof. exact demo_straddle. Qed.

(* --- atomic replacement ---------------------------------------------------------------------------------- *)
(* a flush is a function copy -> bytes (what that write() stored in the temporary of that copy); landed chunks i is the
   content of the temporary of copy i after all flushes; all_verified = the verification of EVERY copy succeeds *)

Theorem C09_save_atomic : forall cs chunks crc f0 f', NoDup cs -> crash f0 (save_ops cs chunks crc) f' ->
  exists cs1 cs2, cs = cs1 ++ cs2 /\
    (forall i, In i cs1 -> f' (Content i) = Some (landed chunks i)) /\
    (forall i, In i cs2 -> f' (Content i) = f0 (Content i)) /\
    (cs1 <> [] -> all_verified cs chunks crc).
Proof. exact save_atomic. Qed.
Print Assumptions C09_save_atomic.

Theorem C09_save_atomic_each : forall cs chunks crc f0 f' i, NoDup cs -> crash f0 (save_ops cs chunks crc) f' -> In i cs ->
  f' (Content i) = f0 (Content i) \/ (f' (Content i) = Some (landed chunks i) /\ all_verified cs chunks crc).
Proof. exact save_atomic_each. Qed.
Print Assumptions C09_save_atomic_each.

Theorem C09_save_frame : forall cs chunks crc f0 f', crash f0 (save_ops cs chunks crc) f' ->
  (forall n, f' (Other n) = f0 (Other n)) /\ (forall i, ~ In i cs -> f' (Content i) = f0 (Content i) /\ f' (Tmp i) = f0 (Tmp i)).
Proof. exact save_frame. Qed.
Print Assumptions C09_save_frame.

(* a rename of ANY copy happens only if the verification of EVERY copy succeeded: if the copy j -- first, middle or last --
   fails its verification, the run stops and no crash state has a replaced copy *)
Theorem C09_verify_all_guard : forall cs chunks crc f0 j, NoDup cs -> In j cs -> verify_ok (landed chunks j) crc = false ->
  exec f0 (save_ops cs chunks crc) = None /\
  forall f', crash f0 (save_ops cs chunks crc) f' -> forall i, f' (Content i) = f0 (Content i).
Proof. exact verify_all_guard. Qed.
Print Assumptions C09_verify_all_guard.

Theorem C09_renamed_implies_all_verified : forall cs chunks crc f0 f' i, NoDup cs -> crash f0 (save_ops cs chunks crc) f' ->
  f' (Content i) <> f0 (Content i) -> all_verified cs chunks crc.
Proof. exact renamed_implies_all_verified. Qed.
Print Assumptions C09_renamed_implies_all_verified.

(* the join loop of the model counts every thread; the loop `fail = retval != 0` would not *)
Example C09_join_counts_every_copy : join_fail [false; true] = true /\ join_fail_last [false; true] = false.
Proof. exact mutant_join_misses. Qed.

Example C09_fault_on_first_copy :
  verify_ok (landed fault_flushes 0%nat) fault_crc = false /\ verify_ok (landed fault_flushes 1%nat) fault_crc = true /\
  exec f_demo (save_ops [0; 1]%nat fault_flushes fault_crc) = None /\
  forall f', crash f_demo (save_ops [0; 1]%nat fault_flushes fault_crc) f' -> forall i, f' (Content i) = f_demo (Content i).
Proof. exact fault_on_first_copy_blocks_every_rename. Qed.

Theorem C09_save_complete : forall cs chunks crc f0, NoDup cs -> all_verified cs chunks crc ->
  exists f1, exec f0 (save_ops cs chunks crc) = Some f1 /\
    (forall i, In i cs -> f1 (Content i) = Some (landed chunks i) /\ f1 (Tmp i) = None) /\
    (forall q, (forall i, In i cs -> q <> Tmp i /\ q <> Content i) -> f1 q = f0 q).
Proof. exact save_complete. Qed.
Print Assumptions C09_save_complete.

Theorem C09_save_after_crash : forall cs chunks crc chunks2 crc2 f0 fc, NoDup cs -> crash f0 (save_ops cs chunks crc) fc ->
  all_verified cs chunks2 crc2 ->
  exists f1, exec fc (save_ops cs chunks2 crc2) = Some f1 /\ forall i, In i cs -> f1 (Content i) = Some (landed chunks2 i) /\ f1 (Tmp i) = None.
Proof. exact save_after_crash. Qed.
Print Assumptions C09_save_after_crash.

Theorem C09_writer_verifies : forall P, bytes P -> verify_ok (P ++ sputble32 (crc32c_spec 0 P)) (crc32c_spec 0 P) = true.
Proof. exact writer_verifies. Qed.
Print Assumptions C09_writer_verifies.

(* the writer hands the same buffer to every copy: without a write fault all copies end byte-identical *)
Theorem C09_writer_save_complete : forall cs flushes f0, NoDup cs -> bytes (concat flushes) ->
  exists f1, exec f0 (save_ops cs (writer_chunks flushes) (writer_crc flushes)) = Some f1 /\
    forall i, In i cs -> f1 (Content i) = Some (concat flushes ++ sputble32 (crc32c_spec 0 (concat flushes))) /\ f1 (Tmp i) = None.
Proof. exact writer_save_complete. Qed.
Print Assumptions C09_writer_save_complete.

Example C09_save_nonvacuous :
  let flushes := [[83; 78]; [65; 78]] in
  let ops := save_ops [0; 1; 2]%nat (writer_chunks flushes) (writer_crc flushes) in
  exists f', crash f_demo ops f' /\ f' (Content 0%nat) = Some (landed (writer_chunks flushes) 0%nat) /\
             f' (Content 1%nat) = Some [1] /\ f' (Content 2%nat) = Some [1] /\ length ops = 25%nat.
Proof. exact demo_crash_between_renames. Qed.

(* --- rejection, for every loader of the shape LoaderModel.loader (GENERIC, see the header) ---------------- *)

Theorem C09_accept_sealed : forall St header record,
  regular header -> (forall c st, regular (record c st)) ->
  forall b st, bytes b -> loader St header record b = Ok st -> sealed b.
Proof. intros St header record Hh Hr. exact (accept_sealed St header record Hh Hr). Qed.
Print Assumptions C09_accept_sealed.

Theorem C09_truncation_rejected : forall St header record,
  regular header -> strict header -> (forall c st, regular (record c st)) -> (forall c st, strict (record c st)) ->
  forall b st p q, loader St header record b = Ok st -> b = p ++ q -> q <> [] ->
  forall st', loader St header record p <> Ok st'.
Proof. intros St header record H1 H2 H3 H4. exact (truncation_rejected St header record H1 H2 H3 H4). Qed.
Print Assumptions C09_truncation_rejected.

Theorem C09_alteration_rejected : forall St header record,
  regular header -> (forall c st, regular (record c st)) ->
  forall b st b' i, bytes b -> bytes b' -> loader St header record b = Ok st ->
  agree_outside i 4 b b' -> b <> b' -> forall st', loader St header record b' <> Ok st'.
Proof. intros St header record H1 H3. exact (alteration_rejected St header record H1 H3). Qed.
Print Assumptions C09_alteration_rejected.

Theorem C09_single_bit_rejected : forall St header record,
  regular header -> (forall c st, regular (record c st)) ->
  forall pre c j post st, bytes (pre ++ [c] ++ post) -> j < 8 ->
  loader St header record (pre ++ [c] ++ post) = Ok st ->
  forall st', loader St header record (pre ++ [N.lxor c (2^j)] ++ post) <> Ok st'.
Proof. intros St header record H1 H3. exact (single_bit_rejected St header record H1 H3). Qed.
Print Assumptions C09_single_bit_rejected.

(* the interface hypotheses are satisfiable, and a loader of this shape accepts its valid file and no strict prefix *)
Example C09_loader_nonvacuous :
  regular toy_header /\ strict toy_header /\ (forall c st, regular (toy_record c st)) /\ (forall c st, strict (toy_record c st)) /\
  toy_loader toy_file = Ok [(122, 7); (120, 9)] /\ bytes toy_file /\ length toy_file = 21%nat.
Proof.
  exact (conj toy_header_regular (conj toy_header_strict (conj toy_record_regular (conj toy_record_strict toy_loads)))).
Qed.
Example C09_loader_truncations : forall n, (n < 21)%nat -> forall st, toy_loader (firstn n toy_file) <> Ok st.
Proof. exact toy_truncations_rejected. Qed.
