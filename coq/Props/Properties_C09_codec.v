(* C09 on the full content grammar: Codec.CodecModel.decode (the transcription of state_read_content with every record
   kind, shared with C10) loads sealed byte strings only, hence no alteration of a loaded file confined to 32 bits; and it
   loads no strict prefix of a file it loads.
   Statements only.  Unconditional: no hypothesis about the record parsers is left.  "decode k b = Ok s" covers in
   particular b = encode now s0 for every state C10's decode_encode applies to. *)
From Coq Require Import NArith List Bool.
From Snap.Crc Require Import CrcModel CrcProofs.
From Snap.Codec Require Import Varint CodecModel.
From Snap.Content Require Import CrcBurstBytes NoConfModel RejectCodec TruncCodec StringBounds RunWrap.
Import ListNotations.
Local Open Scope N_scope.

Theorem C09_decode_sealed : forall k all s, bytes all -> decode k all = Ok s -> sealed all.
Proof. exact decode_sealed. Qed.
Print Assumptions C09_decode_sealed.

(* any single bit, any single byte, any four adjacent bytes -- including the 'N' and the crc bytes themselves;
   k' : the altered copy may even be read under another configuration / other options *)
Theorem C09_decode_alteration_rejected : forall k k' b b' i s, bytes b -> bytes b' -> decode k b = Ok s ->
  agree_outside i 4 b b' -> b <> b' -> forall s', decode k' b' <> Ok s'.
Proof. exact decode_alteration_rejected. Qed.
Print Assumptions C09_decode_alteration_rejected.

Theorem C09_decode_single_bit_rejected : forall k k' pre c j post s, bytes (pre ++ [c] ++ post) -> j < 8 ->
  decode k (pre ++ [c] ++ post) = Ok s -> forall s', decode k' (pre ++ [N.lxor c (2^j)] ++ post) <> Ok s'.
Proof. exact decode_single_bit_rejected. Qed.
Print Assumptions C09_decode_single_bit_rejected.

(* every truncation length: the loop fuel of the model depends on the stream length and runs out as Eof, so the proof goes
   through "same result or a premature Eof" rather than through plain prefix-determinism (Content/TruncCodec.v) *)
Theorem C09_decode_truncation_rejected : forall k b s p q, decode k b = Ok s -> b = p ++ q -> q <> [] ->
  forall s', decode k p <> Ok s'.
Proof. exact decode_truncation_rejected. Qed.
Print Assumptions C09_decode_truncation_rejected.

Example C09_decode_truncations_nonvacuous : forall n, (n < 128)%nat -> forall s, decode noconf (firstn n real_file) <> Ok s.
Proof. exact real_file_truncations. Qed.

(* non-vacuity: a content file written by the real binary is loaded by the model *)
Example C09_decode_nonvacuous : (exists s, decode noconf real_file = Ok s) /\ bytes real_file /\ length real_file = 128%nat.
Proof. exact real_file_loaded. Qed.

(* --- the string reads of the loader stay inside their buffers (the model's part of "no memory-unsafe behaviour") ----- *)
(* CodecModel.getstr is Varint.sgetbs; an accepted string is SHORTER than the buffer, so str[0..len-1] and str[len] = 0 are
   inside; PATH_MAX / UUID_MAX are the two capacities.  Breaks if Varint.sgetbs is weakened to accept len = size. *)
Theorem C09_getstr_is_sgetbs : forall size l, getstr size l = sgetbs size l.
Proof. exact getstr_is_sgetbs. Qed.
Print Assumptions C09_getstr_is_sgetbs.

Theorem C09_string_write_in_bounds : forall size inp s rest, size < 2^32 -> getstr size inp = Ok (s, rest) -> N.of_nat (length s) < size.
Proof. exact string_write_in_bounds. Qed.
Print Assumptions C09_string_write_in_bounds.

Theorem C09_sgetbs_never_oob : forall size l, size < 2^32 -> sgetbs_oob size l = false.
Proof. exact sgetbs_never_oob. Qed.
Print Assumptions C09_sgetbs_never_oob.

Example C09_string_boundary :
  (exists s rest, getstr 128 ([127; 128] ++ repeat 85 127) = Ok (s, rest) /\ length s = 127%nat) /\
  (forall t, getstr 128 ([0; 129] ++ t) = Bad) /\ (forall t, getstr 4096 ([0; 160] ++ t) = Bad).
Proof. exact string_boundary. Qed.

(* --- the 32-bit range sums of the block-run loader wrap; the per-block check is what refuses a wrapped run --------------- *)
(* CodecModel.read_runs makes the two range tests on u32 (v_idx + v_count) / u32 (v_pos + v_count) like the C; a count of
   0xFFFFFFFF passes both when v_idx, v_pos >= 1 (first Example); the run is refused by the model's (WRAP) clause, which stands
   for the abort of fs_file2block_get() on the first block beyond the file -- whatever follows in the stream *)
Example C09_range_tests_wrap :
  let fbm := 2 in let bm := 3 in let v_idx := 1 in let v_pos := 2 in let v_count := 4294967295 in
  (fbm <? u32 (v_idx + v_count)) = false /\ (bm <? u32 (v_pos + v_count)) = false /\
  (fbm <? v_idx + v_count) = true /\ sgetb32 [127; 127; 127; 127; 143] = Ok (v_count, []).
Proof. exact range_tests_wrap. Qed.

Theorem C09_wrapped_run_rejected : forall f k hs bm fbm v_idx acc c v_pos v_count rest,
  v_idx < fbm -> v_pos < 2^32 -> v_count < 2^32 -> v_count <> 0 ->
  (2^32 <= v_idx + v_count \/ 2^32 <= v_pos + v_count) ->
  read_runs (S f) k hs bm fbm v_idx acc (c :: sputb32 v_pos ++ sputb32 v_count ++ rest) = Bad.
Proof. exact wrapped_run_rejected. Qed.
Print Assumptions C09_wrapped_run_rejected.

Example C09_wrapped_run_instance : forall k acc rest,
  read_runs 5 k 16 3 2 1 acc ([98; 130; 127; 127; 127; 127; 143] ++ rest) = Bad.
Proof. exact wrapped_run_instance. Qed.

(* after the repair of the range tests (`v_count > max || v > max - v_count` in the C): the model's u32 test followed by its (WRAP)
   clause rejects exactly the same runs, so the model is unchanged and a wrapped count is refused before the fill loop *)
Theorem C09_model_range_test_is_overflow_safe : forall v n mx, v < 2^32 -> n < 2^32 -> mx < 2^32 ->
  ((mx <? u32 (v + n)) || (4294967296 <=? v + n)) = ((mx <? n) || (mx - n <? v)).
Proof. exact model_range_test_is_overflow_safe. Qed.
Print Assumptions C09_model_range_test_is_overflow_safe.
