(* C09: the copy state_read loads and when it requests that all content copies be rewritten (need_write).
   Statements only.  Together with C09_save_complete (a save makes all copies identical): after a successful command that
   saves on need_write, every configured copy exists and has the size of the loaded one -- and, if anything was missing or of
   another size, all copies are byte-identical.  Sizes are all the C compares: C09_same_size_stale_copy_not_noticed is the
   behaviour of the unchanged tree (open known finding F-C09-same-size-stale-copy-unnoticed), not a gap of the model. *)
From Coq Require Import NArith List Bool.
From Snap.Content Require Import LoadChoice.
Import ListNotations.

Theorem C09_need_write_false_sizes : forall l d, need_write l = false -> loaded l = Some d ->
  forall o, In o l -> exists d', o = Some d' /\ length d' = length d.
Proof. exact need_write_false_sizes. Qed.
Print Assumptions C09_need_write_false_sizes.

(* a missing or differently sized copy AFTER the loaded one is noticed wherever it stands *)
Theorem C09_later_copy_noticed : forall (pre : list unit) d post o, differs_from d o = true -> In o post ->
  need_write (map (fun _ => @None bstr) pre ++ Some d :: post) = true.
Proof. exact later_copy_noticed. Qed.
Print Assumptions C09_later_copy_noticed.

Theorem C09_earlier_missing_noticed : forall l d, loaded (None :: l) = Some d -> need_write (None :: l) = true.
Proof. exact earlier_missing_noticed. Qed.
Print Assumptions C09_earlier_missing_noticed.

(* witness of the open known finding F-C09-same-size-stale-copy-unnoticed: two copies of the same size and different bytes,
   need_write = false (first conjunct); a copy of another size or a missing one IS noticed (the others) *)
Example C09_same_size_stale_copy_not_noticed :
  need_write [Some [1%N; 2%N; 3%N]; Some [1%N; 9%N; 3%N]] = false /\ need_write [Some [1%N; 2%N; 3%N]; Some [1%N; 2%N]] = true /\
  need_write [Some [1%N]; Some [1%N]; None] = true /\ need_write [None; Some [1%N]] = true /\ need_write [Some [1%N]; Some [1%N]] = false.
Proof. exact same_size_stale_copy_not_noticed. Qed.
