(* C10 -- saving and reloading the array state is lossless.
   Statements only; the proofs are in Codec/CodecProofs.v (per record), Codec/CodecRoundTrip.v (assembly),
   Codec/CodecExample.v (concrete state, witnesses).  Model: Codec/CodecModel.v
     decode : conf -> list N -> result cstate     state_read_content + the two checks of state_read
     encode : N -> cstate -> list N               state_write_content + state_write_thread, first argument = time(0)
     normalise : N -> cstate -> cstate            what a save followed by a load does to a state
     wf : cstate -> Prop                          the invariants of a loaded / scanned array (CodecRoundTrip.wf)       *)
From Coq Require Import NArith List Bool.
From Snap.Codec Require Import Varint CodecModel CodecProofs CodecRoundTrip CodecRewrite CodecExample.
Import ListNotations.
Local Open Scope N_scope.

(* 1. Lossless: every well-formed state saved at a clock `now` (at least 8 seconds after the epoch) and loaded again under
      its own configuration is accepted by the loader and is the normalised state: same files, sizes, time stamps,
      inodes, block map, block states, hashes, links, directories, DELETED blocks at used positions, parity records;
      info of unused positions cleared, info times clamped to `now`, maps of empty disks dropped. *)
Theorem C10_decode_encode : forall now s, wf s -> 8 <= now ->
  decode (conf_of s) (encode now s) = Ok (normalise now s).
Proof. exact decode_encode_rt. Qed.
Print Assumptions C10_decode_encode.

(* the hypotheses are satisfiable on a state with BLK / CHG / REP / DELETED blocks, a hole, bad / rehash / just-synced
   marks, names with newline, colon, bytes >= 0x80, 64 bit extremes, a multi-file parity, a map of an empty disk *)
Example C10_wf_satisfiable : wf ex_state /\ 8 <= T0 + 3.
Proof. exact (conj ex_wf (proj1 ex_clock_ok)). Qed.
Example C10_example_computed : decode (conf_of ex_state) (encode (T0 + 3) ex_state) = Ok (normalise (T0 + 3) ex_state).
Proof. exact ex_roundtrip_computed. Qed.
Example C10_example_effect :
  c_info (normalise (T0 + 3) ex_state) = [T0 + 4; T0 + 1; T0 - 80 + 2; 0]
  /\ map cm_name (c_maps (normalise (T0 + 3) ex_state)) = [[100;50]; [100;49]]
  /\ c_disks (normalise (T0 + 3) ex_state) = c_disks ex_state
  /\ c_parity (normalise (T0 + 3) ex_state) = c_parity ex_state
  /\ c_prevhash (normalise (T0 + 3) ex_state) = H_MURMUR3.
Proof. exact ex_normalise_effect. Qed.

(* 2. Every content copy gets the same bytes: the writer is a function of the state and of the clock only. *)
Theorem C10_copies_identical : forall now s paths p1 p2 b1 b2,
  In (p1, b1) (write_copies now s paths) -> In (p2, b2) (write_copies now s paths) -> b1 = b2.
Proof. exact copies_identical. Qed.
Print Assumptions C10_copies_identical.

(* 3. Rewriting.  FULL statements (not proved in general): *)
Definition normalise_idempotent_statement : Prop :=
  forall now s, wf s -> 8 <= now -> normalise now (normalise now s) = normalise now s.
Definition normalise_wf_statement : Prop :=
  forall now s, wf s -> 8 <= now -> wf (normalise now s).
Definition rewrite_fixpoint_statement : Prop :=
  forall now s, wf s -> 8 <= now ->
    decode (conf_of s) (encode now (normalise now s)) = Ok (normalise now s)
    /\ forall s', decode (conf_of s) (encode now (normalise now s)) = Ok s' -> encode now s' = encode now (normalise now s).
(* PROVED: the fixpoint statement for every state on which the two others hold (the missing part is exactly
   normalise_idempotent_statement and normalise_wf_statement; both are evaluated on every generated state by the check,
   command `fixpoint` of the extracted model, and hold on the example below) *)
Theorem C10_rewrite_fixpoint_partial : forall now s, wf s -> 8 <= now ->
  wf (normalise now s) -> normalise now (normalise now s) = normalise now s ->
  decode (conf_of s) (encode now (normalise now s)) = Ok (normalise now s)
  /\ forall s', decode (conf_of s) (encode now (normalise now s)) = Ok s' -> encode now s' = encode now (normalise now s).
Proof. exact rewrite_fixpoint_partial. Qed.
Print Assumptions C10_rewrite_fixpoint_partial.
Example C10_rewrite_fixpoint_example :
  wf (normalise (T0 + 3) ex_state) /\ normalise (T0 + 3) (normalise (T0 + 3) ex_state) = normalise (T0 + 3) ex_state.
Proof. exact (conj ex_wf_normalised ex_idempotent). Qed.

(* 4. FINDING.  "Rewriting a content file produced by the tool reproduces it byte for byte" is FALSE for a file saved at a
      clock behind one of its info times: the stored time is clamped to the clock, the reloaded one is the clamped time
      rounded down to 8 seconds.  Same decoded state, different bytes.  Replayed on the binary by the check
      (route A `rewrite_past`, route B states with future times). *)
Theorem C10_rewrite_reproduces_refuted :
  exists now s, wf s /\ 8 <= now /\
    exists s', decode (conf_of s) (encode now s) = Ok s' /\ encode now s' <> encode now s.
Proof. exact rewrite_reproduces_refuted. Qed.
Print Assumptions C10_rewrite_reproduces_refuted.
(* PROVED instead: the rewrite reproduces the bytes whenever no info time of a used position is ahead of the clock (nor
   below the time base of the file, which only a zero time can be).  `pinfo s` is the info array as the writer sees it
   (unused positions cleared), the fold is info_oldest of state_write_content. *)
Definition unclamped (now : N) (s : cstate) : Prop :=
  Forall (fun i => i <> 0 -> fold_left oldest_step (pinfo s) 0 <= info_time i /\ info_time i <= now) (pinfo s).

Theorem C10_rewrite_reproduces_partial : forall now s, wf s -> 8 <= now -> unclamped now s ->
  encode now (normalise now s) = encode now s.
Proof. exact rewrite_reproduces_unclamped. Qed.
Print Assumptions C10_rewrite_reproduces_partial.

(* ... hence: loading a file written by the tool and saving it again at the same clock gives the same bytes *)
Theorem C10_rewrite_byte_identical : forall now s, wf s -> 8 <= now -> unclamped now s ->
  exists s', decode (conf_of s) (encode now s) = Ok s' /\ encode now s' = encode now s.
Proof. exact rewrite_byte_identical. Qed.
Print Assumptions C10_rewrite_byte_identical.

Example C10_unclamped_satisfiable : wf ex_state /\ 8 <= T0 + 100 /\ unclamped (T0 + 100) ex_state.
Proof. exact (conj ex_wf (conj (proj2 ex_clock_ok) ex_unclamped)). Qed.

(* 5. The clean-up before the save (fs_position_clear_deleted; in the C it splits the extents of the deleted files, in the model
      the DELETED blocks are the map  position -> hash  itself): a position that is kept keeps its hash, a dropped one has none;
      and through save + load every surviving DELETED block has the hash that disk had at that position. *)
Theorem C10_clear_deleted_keeps_hashes : forall s d pos,
  deleted_at (prep_disk s (alloc_size s) d) pos =
  if negb (pos <? alloc_size s) || position_required s pos then deleted_at d pos else None.
Proof. exact clear_deleted_keeps_hashes. Qed.
Print Assumptions C10_clear_deleted_keeps_hashes.
Theorem C10_saved_deleted_hash : forall now s d', In d' (c_disks (normalise now s)) -> forall pos h,
  deleted_at d' pos = Some h -> exists d, In d (c_disks s) /\ cd_name d = cd_name d' /\ deleted_at d pos = Some h.
Proof. exact saved_deleted_hash. Qed.
Print Assumptions C10_saved_deleted_hash.

(* 6. The writer decides which disks are mapped on the state AFTER the clean-up of the unused positions (pdisks): a disk whose only
      blocks are DELETED ones in stripes that no file uses owns nothing then, gets no 'M' record and no 'h' record. *)
Theorem C10_mapping_after_cleanup : forall s,
  p_idx (prepare s) = assign_idx (pdisks s) (alloc_size s) (c_maps s) 0 (map (fun _ => None) (pdisks s)).
Proof. exact mapping_after_cleanup. Qed.
Theorem C10_map_kept_after_cleanup : forall s, wf s -> forall m, In m (c_maps s) ->
  map_kept (pdisks s) (p_idx (prepare s)) m
  = negb (disk_empty (nth (dix (pdisks s) (cm_name m)) (pdisks s) (empty_disk [])) (alloc_size s)).
Proof. exact map_kept_after_cleanup. Qed.
Print Assumptions C10_map_kept_after_cleanup.
