(* C10 -- saving and reloading the array state is lossless.  Statements only; proofs in Codec/CodecProofs.v. *)
From Coq Require Import NArith List.
From Snap.Codec Require Import Varint CodecModel CodecProofs.
Import ListNotations.
Local Open Scope N_scope.

Theorem C10_copies_identical : forall now s paths p1 p2 b1 b2,
  In (p1, b1) (write_copies now s paths) -> In (p2, b2) (write_copies now s paths) -> b1 = b2.
Proof. exact copies_identical. Qed.
Print Assumptions C10_copies_identical.
