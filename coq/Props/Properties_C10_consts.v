(* C10 / C09 -- the named constants of the content-file codec model equal the constants of the source tree's headers
   (coq/Gen/Consts.v is regenerated on every run by harness/gen/consts.py, which compiles a program against the headers and
   prints the values).  A changed limit or state code in elem.h / util.h / state.h breaks one of these. *)
From Coq Require Import NArith ZArith List.
From Snap.Gen Require Import Consts.
From Snap.Codec Require Import CodecModel.
Local Open Scope Z_scope.

Theorem C10_consts_limits :
  Z.of_N PATH_MAX = c_PATH_MAX /\ Z.of_N UUID_MAX = c_UUID_MAX /\ Z.of_N HASH_MAX = c_HASH_MAX /\
  Z.of_N LEV_MAX = c_LEV_MAX /\ Z.of_N SPLIT_MAX = c_SPLIT_MAX /\
  Z.of_N SIZE_INVALID = c_PARITY_SIZE_INVALID_U64 /\ Z.of_N NSEC_INVALID = c_STAT_NSEC_INVALID_U32.
Proof. exact (conj eq_refl (conj eq_refl (conj eq_refl (conj eq_refl (conj eq_refl (conj eq_refl eq_refl)))))). Qed.
Print Assumptions C10_consts_limits.

Theorem C10_consts_block_states :
  Z.of_N BLK = c_BLOCK_STATE_BLK /\ Z.of_N CHG = c_BLOCK_STATE_CHG /\ Z.of_N REP = c_BLOCK_STATE_REP /\
  Z.of_N DELETED = c_BLOCK_STATE_DELETED.
Proof. exact (conj eq_refl (conj eq_refl (conj eq_refl eq_refl))). Qed.
Print Assumptions C10_consts_block_states.

Theorem C10_consts_hash_kinds :
  Z.of_N H_UNDEF = c_HASH_UNDEFINED /\ Z.of_N H_MURMUR3 = c_HASH_MURMUR3 /\ Z.of_N H_SPOOKY2 = c_HASH_SPOOKY2 /\
  Z.of_N H_METRO = c_HASH_METRO.
Proof. exact (conj eq_refl (conj eq_refl (conj eq_refl eq_refl))). Qed.
Print Assumptions C10_consts_hash_kinds.
