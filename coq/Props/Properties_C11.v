(* C11 -- a successful sync captures every change and converges.
   Statements only; model: Scan/ScanModel.v (cmdline/scan.c) + Array/SyncModel.v (the sync loop, shared with C06);
   proofs: Scan/{ScanSteps,ScanInv,ScanSound,ScanCopy,...}.v.  The directory listing (per disk the sequence of
   scan_file / scan_link / scan_emptydir calls with the lstat data, in the order of the chosen sort) is an INPUT.

   Vocabulary (Scan/ScanInv.v, ScanSound.v):
     ematch e f     the file f records the entry e: path, size, time-stamp (s and ns) and inode
     linkkind e l   the link l records e: a symlink with e's target, or (e a regular file) a hard link
     disk_sound usable d0 L dk   what the scan leaves for a disk with old state d0 and listing L:
        ds_files     every recorded file is a regular file of L with its size, time-stamp, inode
        ds_seen      every regular file of L is recorded, as a file or (further names of an inode) as a hard link
        ds_links / ds_sym      the recorded links are entries of L; every symlink of L is recorded with its target
        ds_dirs / ds_dir_seen  the recorded empty directories are exactly those of L
        ds_blk       a block still BLK belongs to a file with the blocks, size and time-stamp of an old file of the disk,
                     re-identified by path or (usable inodes) by inode: whatever changed size or time-stamp has no BLK
                     block left and is read again *)
From Coq Require Import NArith ZArith List Bool Arith.
From Snap.Array Require Import ArrayDefs SyncModel SyncProofsDefs SyncProofsStripe.
From Snap.Scan Require Import ScanModel PrehashModel ScanInv ScanSound ScanCopy ScanMap ScanPar ScanC06 SyncConverge Rescan ScanExamples.
Import ListNotations.

(* 1. scan_sound: for every scan that does not hit an os_abort path, every disk, every listing, every scan order
      (the order is part of the listing), both for sync (clearpast = true) and diff *)
Theorem C11_scan_sound :
  forall (basef : N -> N) (bs : N) (clearpast nocopy : bool) (inf : list (option info)) (usable : list bool)
         (c : content) (listing : list (list lentry)) (o : scan_out),
    scan basef bs clearpast nocopy inf usable c listing = Some o ->
    forall (k : nat) (d0 : cdisk), nth k (c_disks c) None = Some d0 ->
    exists dk : cdisk, nth k (c_disks (sc_content o)) None = Some dk /\
                       disk_sound (nth k usable false) d0 (nth k listing []) dk.
Proof. exact scan_disk_sound. Qed.
Print Assumptions C11_scan_sound.

(* 1b. a link met by the scan is recorded with the target AND the kind (symlink / hard link) it has now, also when only the
       kind changed *)
Theorem C11_scan_link_records_kind :
  forall (d : sdisk) (name to : N) (hard : bool) (d' : sdisk),
    scan_link d name to hard = Some d' ->
    In (mkCL name to hard, true) (sd_links d') \/ In (mkCL name to hard) (sd_link_ins d').
Proof. exact scan_link_records. Qed.
Print Assumptions C11_scan_link_records_kind.

(* 2. diff_verdict: diff exits 2 or 0, and 2 exactly when a counter other than `equal` is non-zero or the parity of an
      allocated stripe is not valid (a previous sync was incomplete) *)
Theorem C11_diff_verdict :
  forall (basef : N -> N) (bs : N) (clearpast nocopy : bool) (inf : list (option info)) (usable : list bool)
         (c : content) (listing : list (list lentry)) (o : scan_out),
    scan basef bs clearpast nocopy inf usable c listing = Some o ->
    (diff_exit o = 2 \/ diff_exit o = 0) /\
    (diff_exit o = 2 <->
     (n_move (sc_cnt o) + n_copy (sc_cnt o) + n_restore (sc_cnt o) + n_change (sc_cnt o) + n_remove (sc_cnt o) + n_insert (sc_cnt o) <> 0
      \/ parity_invalid (sc_content o) = true)).
Proof. exact diff_exit_spec. Qed.
Print Assumptions C11_diff_verdict.

Theorem C11_parity_invalid_meaning :
  forall c : content,
    parity_invalid c = true <->
    exists pos : nat, pos < allocated_size c /\ existsb slot_has_file (slots_at c pos) = true /\ existsb slot_invalid_parity (slots_at c pos) = true.
Proof. exact parity_invalid_spec. Qed.
Print Assumptions C11_parity_invalid_meaning.

(* 3. scan_preserves_map / scan_preserves_inv, in the vocabulary of C06 (Array/SyncProofsDefs.v, nothing redefined):
      MapOK      per disk no two file blocks share a position, positions increase inside a file, no duplicate DELETED
                 position, no DELETED entry under a file block;
      ParOK      every synced stripe holds, in every level, the code of a vector fitting the recorded hashes;
      PastOK p   the same for a quiet stripe (BLK, or CHG with a unique past hash): the soundness condition of sync's
                 "parity_needs_to_be_updated = 0".
      The scan keeps MapOK and ParOK (it never makes a stripe synced).  It does NOT keep PastOK in general: scan.c:286
      copies the past hash of the DELETED block into the CHG block allocated over it whatever the two block lengths
      (finding F-C05b seen from sync); refuted by a witness, proved at every stripe where the lengths agree. *)
Theorem C11_scan_preserves_MapOK :
  forall (basef : N -> N) (bs : N) (clearpast nocopy : bool) (inf : list (option info)) (usable : list bool)
         (c : content) (listing : list (list lentry)) (o : scan_out),
    MapOK c -> scan basef bs clearpast nocopy inf usable c listing = Some o -> MapOK (sc_content o).
Proof. exact scan_preserves_MapOK. Qed.
Print Assumptions C11_scan_preserves_MapOK.

Theorem C11_scan_preserves_ParOK :
  forall (hashf : bid -> N -> hval) (basef : N -> N) (bs : N) (clearpast nocopy : bool) (inf : list (option info))
         (usable : list bool) (c : content) (par : parity) (listing : list (list lentry)) (o : scan_out),
    MapOK c -> ParOK hashf bs c par ->
    scan basef bs clearpast nocopy inf usable c listing = Some o -> ParOK hashf bs (sc_content o) par.
Proof. exact scan_preserves_ParOK. Qed.
Print Assumptions C11_scan_preserves_ParOK.

(* full statement: forall pos, PastOK (sc_content o) par pos -- FALSE: *)
Theorem C11_scan_past_refuted :
  exists (hashf : bid -> N -> hval) (bs : N) (c : content) (par : parity) (listing : list (list lentry)) (o : scan_out),
    MapOK c /\ ParOK hashf bs c par /\ (forall pos, PastOK hashf bs c par pos) /\ past_cleared c /\
    sync_scan (fun x => x) bs false [true] c listing = Some o /\
    ~ PastOK hashf bs (sc_content o) par 0.
Proof. exact scan_past_refuted. Qed.
Print Assumptions C11_scan_past_refuted.

(* partial: with the exact extra hypothesis len_ok (each CHG block with a unique hash at the stripe has the block length
   of the block that stood there before the scan); past_cleared (no unique hash on CHG/DELETED) is what loading with
   clear_past_hash establishes and is needed only when the scan runs for sync *)
Theorem C11_scan_preserves_PastOK_partial :
  forall (hashf : bid -> N -> hval) (basef : N -> N) (bs : N) (clearpast nocopy : bool) (inf : list (option info))
         (usable : list bool) (c : content) (par : parity) (listing : list (list lentry)) (o : scan_out),
    MapOK c -> ParOK hashf bs c par -> (forall pos, PastOK hashf bs c par pos) ->
    (clearpast = true -> past_cleared c) ->
    scan basef bs clearpast nocopy inf usable c listing = Some o ->
    forall pos, len_ok bs c (sc_content o) pos -> PastOK hashf bs (sc_content o) par pos.
Proof. exact scan_preserves_PastOK_partial. Qed.
Print Assumptions C11_scan_preserves_PastOK_partial.

Theorem C11_past_cleared_after_load : forall c : content, past_cleared (clear_past c).
Proof. exact past_cleared_clear_past. Qed.
Print Assumptions C11_past_cleared_after_load.
(* conjectured, not proved (more than the hour allotted): with CollFree hashf S (injectivity of (x,l) |-> hashf x l on the
   finite set S of (block, length) pairs met by the iteration) sync_stripe preserves ParOK also at a stripe where PastOK
   fails only through a cross-length past hash, because hashf new len_new = hashf old len_old forces len_new = len_old. *)

(* 4. sync_converges, first half: a sync loop without faults over stripes whose blocks can be read and hash to every
      recorded hash (stripe_good) counts no error, does not bail, leaves every visited stripe with BLK blocks only
      (stripe_fine: a DELETED entry survives only in a stripe without file blocks -- state_write drops it), touches no
      other stripe and no file attribute. *)
Theorem C11_sync_loop_converges :
  forall (hashf : bid -> N -> hval) (bs : N) (nlev : nat) (o : sopts) (fs : list (option fsdisk)) (now : N)
         (stripes : list nat) (c : content) (par : parity) (ne ns : nat),
    NoDup stripes -> o_force_full o = false ->
    (forall p, In p stripes -> stripe_good hashf bs fs c p) ->
    let r := sync_loop hashf bs nlev o now fs (fun _ => []) stripes None c par ne ns 0 in
    ro_bailed r = false /\ ro_nerr r = ne /\ ro_nsilent r = ns /\ ro_nio r = 0 /\
    (forall p, In p stripes -> stripe_fine (ro_content r) p) /\
    (forall p, ~ In p stripes -> same_views c (ro_content r) p) /\
    map disk_attrs (c_disks (ro_content r)) = map disk_attrs (c_disks c).
Proof. exact sync_loop_converges. Qed.
Print Assumptions C11_sync_loop_converges.

(* 5. sync_converges, second half: a content whose every disk records exactly its listing (`recorded`: one file per regular
      file with its size, time-stamp and inode, distinct paths and inodes, the symlinks with their targets, the empty
      directories; every block BLK) and has no DELETED entry left is a fixed point of the scan: the scan succeeds, returns
      the content unchanged, counts nothing but `equal`, and diff exits 0.
      (`recorded` is what C11_scan_sound + C11_sync_loop_converges + save_normalise leave for a listing with distinct paths
      and inodes and no second name of an inode; that glue is checked by the harness on every history, not proved.) *)
Theorem C11_rescan_converged :
  forall (basef : N -> N) (bs : N) (clearpast nocopy : bool) (inf : list (option info)) (usable : list bool)
         (c : content) (L : list (list lentry)),
    (forall k d, nth k (c_disks c) None = Some d -> recorded d (nth k L []) /\ cd_deleted d = []) ->
    (forall k, nth k (c_disks c) None = None -> nth k L [] = []) ->
    exists o, scan basef bs clearpast nocopy inf usable c L = Some o /\
              sc_content o = c /\ cnt_differs (sc_cnt o) = false /\ diff_exit o = 0.
Proof. exact rescan_converged. Qed.
Print Assumptions C11_rescan_converged.

(* --- non-vacuity (Scan/ScanExamples.v): two disks; one file unchanged, one rewritten, a symlink retargeted, an empty
   directory replaced by another, a copy on the other disk ----------------------------------------------------------- *)
Example C11_ex_scan :
  match ex_diff with
  | Some o => sc_cnt o = mkCnt 2 0 0 2 1 0 0 /\ diff_exit o = 2 /\
              match nth 0 (c_disks (sc_content o)) None with
              | Some d => map cf_name (cd_files d) = [101%N; 102%N] /\ cd_links d = [mkCL 110%N 112%N false] /\ cd_dirs d = [121%N] /\
                          (* the rewritten file: no BLK block left; under diff the past hash is not trusted *)
                          map cf_blocks (cd_files d) = [[mkFB SBlk 0 (ex_hf 1%N 1024%N); mkFB SBlk 1 (ex_hf 2%N 976%N)]; [mkFB SChg 2 HInvalid]]
              | None => False end
  | None => False end.
Proof. vm_compute. repeat split; reflexivity. Qed.

(* the whole cycle on the instance: scan, sync loop (the copy is a true copy), save, scan again: nothing differs, exit 0 *)
Example C11_ex_converges :
  match ex_run false 2%N with
  | Some r => sync_fails r = false /\
              match diff_scan ex_base 1024%N [true; true] (save_normalise (sy_content r)) ex_L with
              | Some o2 => sc_cnt o2 = mkCnt 5 0 0 0 0 0 0 /\ diff_exit o2 = 0 /\ c_disks (sc_content o2) = c_disks (save_normalise (sy_content r))
              | None => False end
  | None => False end.
Proof. vm_compute. repeat split; reflexivity. Qed.

(* `recorded` is satisfiable: one file, one symlink, one empty directory *)
Example C11_ex_recorded :
  recorded (mkCD [mkCF 1%N 10%N 5%Z 6%Z 7%N false [mkFB SBlk 0 (HReal 3%N)]] [] [mkCL 2%N 9%N false] [3%N])
           [mkLE LFile 1%N 10%N 5%Z 6%Z 7%N 1%N 0%N 0%N; mkLE LSym 2%N 0%N 0%Z 0%Z 8%N 1%N 9%N 0%N; mkLE LDir 3%N 0%N 0%Z 0%Z 9%N 2%N 0%N 0%N].
Proof.
  constructor; simpl.
  - repeat constructor; simpl; intuition discriminate.
  - repeat constructor; simpl; intuition.
  - repeat constructor; simpl; intuition.
  - intros e [H|[H|[H|[]]]] K; subst e; simpl in K; try discriminate. eexists. split; [left; reflexivity|]. unfold ematch; simpl; repeat split.
  - intros f [H|[]]. subst f. split.
    + intros b [Hb|[]]. subst b. reflexivity.
    + eexists. split; [left; reflexivity|]. split; [reflexivity|]. unfold ematch; simpl; repeat split.
  - repeat constructor; simpl; intuition.
  - intros e [H|[H|[H|[]]]] K; subst e; simpl in K; try discriminate. left. reflexivity.
  - intros l [H|[]]. subst l. eexists. split; [right; left; reflexivity|]. split; reflexivity.
  - repeat constructor; simpl; intuition.
  - intros e [H|[H|[H|[]]]] K; subst e; simpl in K; try discriminate. left. reflexivity.
  - intros n0 [H|[]]. subst n0. eexists. split; [right; right; left; reflexivity|]. split; reflexivity.
Qed.
