(* C12 -- commands modify only what they are documented to modify.  Statements only; proofs in Cmd/CmdProofs.v.
   The model (Cmd/CmdModel.v) is an effect-type transcription of the dispatcher of cmdline/snapraid.c; the value of
   these theorems is in the tie: harness/py/check_C12.py runs the extracted model on the precondition summary of every
   real scenario and compares its effect class set and exit class with the shim write-set log and the snapshots. *)
From Coq Require Import NArith List Bool.
From Snap.Cmd Require Import CmdModel CmdProofs.
Import ListNotations.
Local Open Scope N_scope.

(* for every command, option set and precondition summary, every emitted effect is in the documented set
   (`allowed`, unfolded below command by command) *)
Theorem C12_effects_allowed : forall c o p e,
  Forall item_wf (p_fix_items p) -> In e (effects c o p) -> allowed c o p e.
Proof. exact effects_allowed. Qed.
Print Assumptions C12_effects_allowed.

(* status, diff, list, dup, check (any options), devices: nothing but the lock file and the log *)
Theorem C12_readonly_commands : forall c o p e,
  is_readonly c = true -> In e (effects c o p) -> e = WLock \/ e = WLog.
Proof. exact readonly_effects. Qed.
Print Assumptions C12_readonly_commands.

(* sync: content copies, parity writes and resizes of configured levels, lock, log -- never a data disk *)
Theorem C12_sync_effects : forall o p e, In e (effects Sync o p) ->
  (e = WLock \/ e = WLog) \/ (exists i, e = WContent i /\ i < p_ncontent p)
  \/ (exists l s, e = WParity l s /\ l < p_level p) \/ (exists l, e = RszParity l /\ l < p_level p).
Proof. exact sync_effects_general. Qed.
Print Assumptions C12_sync_effects.

Theorem C12_sync_never_writes_data : forall o p d q k, ~ In (WData d q k) (effects Sync o p).
Proof. exact sync_no_data. Qed.
Print Assumptions C12_sync_never_writes_data.

(* fix never writes a content file *)
Theorem C12_fix_never_writes_content : forall o p i, ~ In (WContent i) (effects Fix o p).
Proof. exact fix_no_content. Qed.
Print Assumptions C12_fix_never_writes_content.

(* fix: every data write is on a selected recorded object that fix reports (fixed / recovered / unrecoverable), or creates
   a missing ancestor directory of such an object; every parity write has a parity_fixed report and its level is not
   excluded by the filters; only non-excluded levels are resized *)
Theorem C12_fix_writes_are_reported : forall o p e,
  Forall item_wf (p_fix_items p) -> In e (effects Fix o p) ->
  (e = WLock \/ e = WLog)
  \/ (exists l, e = RszParity l /\ l < p_level p /\ par_excluded o (N.to_nat l) = false)
  \/ (exists it, In it (p_fix_items p) /\
        match e with
        | WData d q k => fi_selected it = true /\ d = fi_disk it /\
                         ((q = fi_path it /\ (In (RFixed d q) (reports Fix o p) \/ In (RRecovered d q) (reports Fix o p)
                                              \/ In (RUnrecoverable d q) (reports Fix o p)))
                          \/ (In q (fi_anc it) /\ k = KMkdir)
                          (* or the path did not exist before the run: its creation, the removal of what this run created
                             and did not finish, the rename-back of a .unrecoverable copy *)
                          \/ (q = fi_path it /\ fi_missing it = true /\ (k = KCreate \/ k = KUnlink \/ k = KRename)))
        | _ => False
        end)
  \/ (exists l s, e = WParity l s /\ In (RParityFixed l s) (reports Fix o p) /\ par_excluded o (N.to_nat l) = false).
Proof. intros o p e WF H. exact (effects_allowed Fix o p e WF H). Qed.
Print Assumptions C12_fix_writes_are_reported.

(* fix removes a FILE only if the path did not exist before the run, this very run created it, and it did not finish it
   (block range ending before its last block, early bail) or, under -e / -b, found it unsynced (check.c:1837-1885) *)
Theorem C12_fix_removes_only_what_it_created : forall so it d q,
  In (WData d q KUnlink) (fst (file_effects so it)) ->
  q = fi_path it /\ fi_missing it = true /\ fi_unrec_copy it = false
  /\ In (WData d q KCreate) (fst (file_effects so it)) /\ (fi_finished it = false \/ so = true).
Proof. exact file_unlink_only_created. Qed.
Print Assumptions C12_fix_removes_only_what_it_created.

(* with syncedonly (-e / -b) an existing file that was modified since the last sync gets no effect and no report at all
   (no rename to .unrecoverable, no write, no truncation, no time change) ... *)
Theorem C12_fix_syncedonly_leaves_unsynced_alone : forall it, fi_missing it = false -> fi_unsynced it = true ->
  file_effects true it = ([], []).
Proof. exact syncedonly_unsynced_existing_untouched. Qed.
Print Assumptions C12_fix_syncedonly_leaves_unsynced_alone.

(* ... and a file deleted since is created empty and removed again: nothing remains, nothing is reported *)
Theorem C12_fix_syncedonly_missing_is_transient : forall it, fi_missing it = true -> fi_unrec_copy it = false ->
  file_effects true it =
  (map (fun a => WData (fi_disk it) a KMkdir) (fi_anc it) ++ [WData (fi_disk it) (fi_path it) KCreate] ++ [WData (fi_disk it) (fi_path it) KUnlink], []).
Proof. exact syncedonly_missing_transient. Qed.
Print Assumptions C12_fix_syncedonly_missing_is_transient.

(* data disks are written by fix and touch only *)
Theorem C12_only_fix_and_touch_write_data : forall c o p d q k, In (WData d q k) (effects c o p) -> c = Fix \/ c = Touch.
Proof. exact only_fix_and_touch_write_data. Qed.
Print Assumptions C12_only_fix_and_touch_write_data.

(* a command that stops with a refusal has touched nothing but the lock file and the log -- and, for sync, has at most created
   the parity files that did not exist (parity_create runs before the size test; see Properties_C14.v) *)
Theorem C12_refusal_effects : forall c o p e, exitc c o p = ExRefused -> In e (effects c o p) ->
  e = WLock \/ e = WLog \/ (c = Sync /\ is_creation p e).
Proof. exact refused_effects. Qed.
Print Assumptions C12_refusal_effects.
Theorem C12_refusal_changes_nothing : forall c o p e, no_parity_absent p ->
  exitc c o p = ExRefused -> In e (effects c o p) -> e = WLock \/ e = WLog.
Proof. exact refused_only_lock_log. Qed.
Print Assumptions C12_refusal_changes_nothing.

(* non-vacuity: concrete runs of the model *)
Example C12_example_sync :
  run Sync o0 (p0 [ds_ok; ds_ok] [9; 8]) =
  ([WLog; WLock; RszParity 1; WContent 0; WContent 1; WParity 0 0; WParity 1 0; WParity 0 1; WParity 1 1; WContent 0; WContent 1], ExOk).
Proof. exact ex_sync_proceeds. Qed.
Example C12_example_fix :
  run_full Fix o_fix p_fix =
  ([WLog; WLock; WData 1 5 KMkdir; WData 1 7 KCreate; WData 1 7 KWrite; WData 1 7 KUtime;
    WData 0 4 KTruncate; WData 0 4 KWrite; WData 0 4 KRename; WParity 0 2],
   [RFixed 1 7; RRecovered 1 7; RFixed 0 4; RFixed 0 4; RUnrecoverable 0 4; RParityFixed 0 2], ExErrors)
  /\ Forall item_wf (p_fix_items p_fix).
Proof. exact ex_fix. Qed.
Example C12_example_check : run Check o0 (p0 [ds_ok; ds_gone] [9; 2]) = ([WLog; WLock], ExOk).
Proof. exact ex_check_readonly. Qed.
