(* C13 -- Results do not depend on thread scheduling or I/O cache depth: the slot ring of cmdline/io.c.
   Statements only; every proof is `exact <lemma>`.  The model is coq/Ring/RingModel.v (hand transcription of
   io.c:276-861, tied to the C code on every run by trace replay, see harness/py/check_C13.py).

   All theorems below hold for ALL parameters  n = io_max >= 3 (IO_MIN), R >= 1 readers, W >= 0 writers, every list
   of enabled positions (each below bmax), and all interleavings (every sequence of labels accepted by `step`,
   including spurious wake-ups and the caller giving up at any point). *)
From Coq Require Import Arith List Bool Lia.
From Coq Require Import Permutation.
From Snap.Ring Require Import RingModel RingBase RingInv RingProofs RingErr.
Import ListNotations.

Definition wf (P : params) : Prop := 3 <= pn P /\ 1 <= pR P /\ Forall (fun p => p < bmax P) (poss P).

(* --- the invariant is inductive --------------------------------------------------------------------------- *)
Theorem C13_inv_init : forall P, 3 <= pn P -> 1 <= pR P -> RingInv P (init P).
Proof. exact inv_init. Qed.
Theorem C13_inv_step : forall P, 3 <= pn P -> 1 <= pR P -> Forall (fun p => p < bmax P) (poss P) ->
  forall st st' l, RingInv P st -> step P st l = Some st' -> RingInv P st'.
Proof. exact inv_step. Qed.
Theorem C13_inv_reachable : forall P, 3 <= pn P -> 1 <= pR P -> Forall (fun p => p < bmax P) (poss P) ->
  forall st, reachable P st -> RingInv P st.
Proof. exact inv_reachable. Qed.

(* --- ring_ownership ---------------------------------------------------------------------------------------- *)
(* Once io_data_read / io_parity_read has returned reader w for the current stripe (w left reader_list), reader w
   is on another slot, and its task in slot reader_index is complete and carries the caller's position: the
   caller never looks at a buffer a reader is reading into. *)
Theorem C13_ring_ownership_reader : forall P, 3 <= pn P -> 1 <= pR P ->
  forall st w, RingInv P st -> cpc st = CWork -> w < pR P -> ~ In w (rlist st) ->
  widx (rget st w) <> r_idx st /\ get2 (rtask st) (r_idx st) w = fin_t P (cur st).
Proof. exact own_collected. Qed.
(* No writer is ever on slot writer_index (the assert of io.c:663 cannot fail); while the caller works on a stripe
   (computes parity into slot reader_index) that slot IS writer_index: the caller never computes into a buffer a
   writer is writing from, and io_writer_sched never rewrites the task a writer works on. *)
Theorem C13_ring_ownership_writer : forall P, 3 <= pn P -> 1 <= pR P ->
  forall st w, RingInv P st -> w < pW P -> widx (wget st w) <> w_idx st.
Proof. exact own_writer. Qed.
Theorem C13_ring_ownership_same_slot : forall P, 3 <= pn P -> 1 <= pR P ->
  forall st, RingInv P st -> cpc st = CWork -> 0 < pW P -> w_idx st = r_idx st.
Proof. exact work_same_slot. Qed.
(* io_reader_sched rewrites the tasks of slot reader_index only when no reader is on that slot *)
Theorem C13_ring_ownership_sched : forall P, 3 <= pn P -> 1 <= pR P ->
  forall st st' w, RingInv P st -> step P st CReadNext = Some st' -> w < pR P -> widx (rget st w) <> r_idx st.
Proof. exact own_sched. Qed.
(* a task in state Running is the current task of its worker (sequence number q lives in slot q mod n) *)
Theorem C13_ring_running_is_current : forall P, 3 <= pn P -> 1 <= pR P ->
  forall st w q p, RingInv P st -> w < pR P -> q < next_k st -> next_k st <= q + pn P ->
  get2 (rtask st) (q mod pn P) w = Running p -> q = wseq (rget st w) /\ wpcs (rget st w) = PRun.
Proof. exact running_is_current. Qed.

(* --- ring_order -------------------------------------------------------------------------------------------- *)
(* the positions returned by io_read_next, oldest first, are a prefix of the enabled list ... *)
Theorem C13_ring_order_prefix : forall P st, RingInv P st -> rev (handed st) = firstn (length (handed st)) (poss P).
Proof. exact order_handed. Qed.
(* ... and the whole list, each position once, when the caller leaves its loop at the end of the range *)
Theorem C13_ring_order_complete : forall P st, RingInv P st -> stopped st -> bailed st = false -> rev (handed st) = poss P.
Proof. exact order_complete. Qed.
(* io_write_next is called with the same positions in the same order ... *)
Theorem C13_ring_order_written : forall P, 3 <= pn P -> 1 <= pR P ->
  forall st, RingInv P st -> map fst (written st) = firstn (M st) (poss P).
Proof. exact order_written. Qed.
(* ... every writer receives the non-skipped ones in that order, each once (a prefix while running) ... *)
Theorem C13_ring_order_writer_prefix : forall P st w, RingInv P st -> w < pW P ->
  rev (get [] (wgot st) w) = nonskip (firstn (wseq (wget st w)) (written st)).
Proof. exact order_writer_prefix. Qed.
(* ... and all of them before io_stop returns: the write-behind queue is drained, nothing is lost *)
Theorem C13_ring_order_writer_final : forall P, 3 <= pn P -> 1 <= pR P ->
  forall st w, RingInv P st -> cpc st = CEnd -> w < pW P ->
  rev (get [] (wgot st) w) = nonskip (written st) /\ (bailed st = false -> map fst (written st) = poss P).
Proof. exact order_writer_final. Qed.

(* --- ring_no_deadlock (includes: no lost wake-up, the invariant forces every blocked thread's guard to be false) -- *)
Theorem C13_ring_no_deadlock : forall P, 3 <= pn P -> 1 <= pR P ->
  forall st, RingInv P st -> is_final st = false ->
  exists l st', is_progress l = true /\ step P st l = Some st'.
Proof. exact no_deadlock. Qed.

(* --- ring_terminates: a measure that every non-wait step strictly decreases and no step increases -------------- *)
(* With C13_ring_no_deadlock: as long as the state is not final some such step is enabled, so under weak fairness
   every run reaches the final state (io_stop returns), after at most mu (init P) non-wait steps. *)
Theorem C13_ring_measure : forall P, 3 <= pn P -> 1 <= pR P ->
  forall st l st', RingInv P st -> step P st l = Some st' ->
  mu P st' <= mu P st /\ (is_progress l = true -> mu P st' < mu P st).
Proof. exact mu_step. Qed.
Theorem C13_ring_measure_init : forall P, 3 <= pn P -> 1 <= pR P ->
  mu P (init P) <= (length (poss P) + 1) * (pR P + pW P + 3) + 3 +
                   pR P * (2 * (length (poss P) + pn P) + 2) + pW P * (2 * length (poss P) + 1).
Proof. exact mu_init_bound. Qed.

(* --- stop; start at the next block (the autosave of sync.c runs several ring sessions back to back) ----------- *)
(* Session 1 on the list l = poss P1 is stopped early after h stripes, session 2 is started on the rest of l and
   runs to the end of its range: together the caller is handed exactly l, every position once and in order; and
   when every handed stripe of session 1 was passed to io_write_next (M st1 = h, the autosave comes right after
   io_write_next) io_write_next sees exactly l over the two sessions (each session's writers drain before its
   io_stop returns: C13_ring_order_writer_final). *)
Theorem C13_ring_restart_order : forall P1 P2 st1 st2,
  RingInv P1 st1 -> RingInv P2 st2 ->
  poss P2 = skipn (length (handed st1)) (poss P1) ->
  stopped st2 -> bailed st2 = false ->
  rev (handed st1) ++ rev (handed st2) = poss P1.
Proof. exact restart_order. Qed.
Theorem C13_ring_restart_written : forall P1 P2 st1 st2,
  3 <= pn P1 -> 1 <= pR P1 -> 3 <= pn P2 -> 1 <= pR P2 -> 0 < pW P2 ->
  RingInv P1 st1 -> RingInv P2 st2 ->
  poss P2 = skipn (M st1) (poss P1) ->
  cpc st2 = CEnd -> bailed st2 = false ->
  map fst (written st1) ++ map fst (written st2) = poss P1.
Proof. exact restart_written. Qed.

(* --- IO_MIN = 3 is necessary: with n = 2 a reachable state has every thread blocked for ever ------------------ *)
Theorem C13_ring_n2_deadlock :
  reachable P2 n2_dead /\
  wpcs (rget n2_dead 0) = PBlocked /\ wpcs (wget n2_dead 0) = PBlocked /\ cwait n2_dead = OnWriteDone /\
  (forall ls st', ~ In CBail ls -> run P2 n2_dead ls = Some st' -> is_final st' = false) /\
  (forall ls st' l st'', ~ In CBail ls -> run P2 n2_dead ls = Some st' -> step P2 st' l = Some st'' -> is_progress l = false).
Proof. exact n2_deadlock. Qed.

Print Assumptions C13_inv_reachable.
Print Assumptions C13_ring_ownership_reader.
Print Assumptions C13_ring_ownership_writer.
Print Assumptions C13_ring_order_complete.
Print Assumptions C13_ring_order_writer_final.
Print Assumptions C13_ring_no_deadlock.
Print Assumptions C13_ring_measure.
Print Assumptions C13_ring_restart_order.
Print Assumptions C13_ring_restart_written.
Print Assumptions C13_ring_n2_deadlock.

(* non-vacuity: a concrete ring (n = 3, two readers, one writer, positions 0 and 2 enabled below bmax = 3) runs from
   init to the final state through a complete interleaving; the hypotheses of the theorems hold for it, the
   caller is handed exactly [0; 2] and the writer receives the non-skipped position. *)
Definition Pex : params := mkP 3 2 1 [0; 2] 3.
Definition ex_trace : list label :=
  [WWait 0; REnd 0; REnd 1; RTake 0; RTake 1; CReadNext; CTaskRead 0 2 0; CTaskRead 0 2 1; CParityWrite 0;
   CWriteNext false; WTake 0; REnd 0; REnd 1; RTake 0; RTake 1; RWait 0; CReadNext; WEnd 0; CTaskRead 0 2 0; CTaskRead 0 2 1;
   CParityWrite 0; CWriteNext true; CReadNext; CStop; RExit 0; RExit 1; WTake 0; WExit 0; CJoin].
Example C13_nonvacuous :
  wf Pex /\
  exists st, run Pex (init Pex) ex_trace = Some st /\ is_final st = true /\
             rev (handed st) = [0; 2] /\ rev (get [] (wgot st) 0) = [0] /\ bailed st = false.
Proof.
  split.
  - unfold wf, Pex; simpl. repeat split; try lia. repeat constructor.
  - eexists. split; [vm_compute; reflexivity|]. vm_compute. repeat split; reflexivity.
Qed.

(* --- writer error reporting (io.c: latest_state, io->writer_error[], io_writer_bad / io_write_bad) ------------- *)
(* coq/Ring/RingErr.v extends the ring transition system (unchanged) with the bookkeeping: `estep P oc r`, where
   oc w p is the outcome of worker->func of writer w on the task of position p (None = done, Some e = error kind e)
   and r = true is io.c (latest_state reset to DONE after an EMPTY task).  For every schedule (`ereachable`) and
   every outcome assignment oc: *)
(* (a) per writer, the failed tasks (position, kind) = the ones accounted by io_writer_step, in order, plus the one
       just failed and not yet handed to the next call: every failure is accounted exactly once *)
Theorem C13_err_exactly_once : forall P oc r, 3 <= pn P -> 1 <= pR P -> Forall (fun p => p < bmax P) (poss P) -> r = true ->
  forall est w, ereachable P oc r est -> w < pW P ->
  get [] (failedw est) w = get [] (reportedw est) w ++ unrep est w.
Proof. exact err_exactly_once. Qed.
(*     everything accounted is either already collected by the caller or still in the counters / position array *)
Theorem C13_err_collected : forall P oc r, 3 <= pn P -> 1 <= pR P -> Forall (fun p => p < bmax P) (poss P) -> r = true ->
  forall est, ereachable P oc r est ->
  Permutation (map snd (catW P (reportedw est))) (got_cnt est ++ cnt est) /\
  Permutation (map fst (catW P (reportedw est))) (got_bad est ++ bad est).
Proof. exact err_collected. Qed.
(*     nothing is lost at stop: once io_stop has returned, collected + pending = the multiset of failed tasks (kinds
       and positions); the final flush (LFlush: io_write_flush_errors + io_write_bad) empties the pending part *)
Theorem C13_err_final : forall P oc r, 3 <= pn P -> 1 <= pR P -> Forall (fun p => p < bmax P) (poss P) -> r = true ->
  forall est, ereachable P oc r est -> cpc (base est) = CEnd ->
  (forall w, w < pW P -> get [] (failedw est) w = get [] (reportedw est) w) /\
  Permutation (map snd (catW P (failedw est))) (got_cnt est ++ cnt est) /\
  Permutation (map fst (catW P (failedw est))) (got_bad est ++ bad est).
Proof. exact err_final. Qed.
Theorem C13_err_flush : forall P oc r est est', estep P oc r est LFlush = Some est' ->
  cnt est' = [] /\ bad est' = [] /\ base est' = base est.
Proof. exact err_flush. Qed.
(* (b) nothing is accounted for EMPTY or successful tasks *)
Theorem C13_err_only_failures : forall P oc r, 3 <= pn P -> 1 <= pR P -> Forall (fun p => p < bmax P) (poss P) -> r = true ->
  forall est w p e, ereachable P oc r est -> w < pW P -> In (p, e) (get [] (reportedw est) w) -> oc w p = Some e.
Proof. exact err_only_failures. Qed.
(* (c) the assert of io_writer_bad cannot fire: at most io_max - 1 positions per writer are pending *)
Theorem C13_err_bad_bound : forall P oc r, 3 <= pn P -> 1 <= pR P -> Forall (fun p => p < bmax P) (poss P) -> r = true ->
  forall est, ereachable P oc r est ->
  length (bad est) <= (pn P - 1) * pW P /\ length (bad est) < pn P * pW P + 1.
Proof. exact err_bad_bound. Qed.
(* the seeded change C13c_1 (r = false: no reset after an EMPTY task) violates (a) on a 16-step run: the failure
   of position 0 is accounted twice, the second time against the skipped stripe of position 1; r = true does not *)
Example C13_err_c13c_1_double_count :
  (exists est, erun Pm ocm false (einit Pm) mut_trace = Some est /\
               get [] (failedw est) 0 = [(0, 2)] /\ get [] (reportedw est) 0 = [(0, 2); (1, 2)] /\
               cnt est = [2; 2] /\ bad est = [0; 1]) /\
  (exists est, erun Pm ocm true (einit Pm) mut_trace = Some est /\
               get [] (failedw est) 0 = [(0, 2)] /\ get [] (reportedw est) 0 = [(0, 2)] /\
               cnt est = [2] /\ bad est = [0]).
Proof. exact c13c_1_double_count. Qed.
Print Assumptions C13_err_exactly_once.
Print Assumptions C13_err_final.
Print Assumptions C13_err_only_failures.
Print Assumptions C13_err_bad_bound.
