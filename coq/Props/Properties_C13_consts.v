(* C13 -- the bound "n = io_max >= 3" of every ring theorem is IO_MIN of io.h, and the cache depths the tool accepts end at
   IO_MAX (Gen/Consts.v, regenerated from the headers on every run). *)
From Coq Require Import ZArith.
From Snap.Gen Require Import Consts.
Local Open Scope Z_scope.

Theorem C13_consts_io_min : c_IO_MIN = 3 /\ c_IO_MIN <= c_IO_MAX.
Proof. split; [exact eq_refl | discriminate]. Qed.
Print Assumptions C13_consts_io_min.
