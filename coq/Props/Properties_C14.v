(* C14 -- safety interlocks refuse destructive syncs and change nothing.  Statements only; proofs in Cmd/CmdProofs.v.
   Triggers (Cmd/CmdModel.v, transcribed from scan.c:1007-1023, scan.c:1828-1873, sync.c:1469-1514, state.c:2455-2518,
   state.c:2582-2604, snapraid.c:1316-1331):
     TEmpty        a disk with equal = move = restore = 0 and (remove <> 0 or change <> 0)        override --force-empty
     TZero         a recorded non-empty file found, under its name, as a regular file of size 0   override --force-zero
     TShortParity  min over levels of floor(parity size / block size) < parity_used_size          override -F or -R
     TSizes        block size or hash size of the content file <> configuration                   no override
     TUnknownDisk  a recorded disk absent from the configuration (no unique UUID match)           no override
     TLock         the lock is held by another command                                            (--test-skip-lock) *)
From Coq Require Import NArith List Bool.
From Snap.Cmd Require Import CmdModel CmdProofs.
Import ListNotations.
Local Open Scope N_scope.

(* `fires` states each trigger as the property does; for TShortParity: min over levels of floor(size of the parity FILE /
   block size) < used.  `fires_code` is what the code evaluates: for TShortParity it uses the size REPORTED by parity_size(),
   which is the split size recorded in the content file whenever the content file records one ('Q' records: hash size other
   than 16, or split parity), not the size of the file.

   Full-strength statement (every trigger as the property states it, every array):
       forall t o p, fires t p = true -> overridden t o = false ->
         exitc Sync o p = ExRefused /\ forall e, In e (effects Sync o p) -> e = WLock \/ e = WLog
   It is REFUTED by the faithful model (finding F-C14-short-parity-undetected-with-recorded-sizes): *)
Theorem C14_interlock_refuses_refuted : exists t o p,
  fires t p = true /\ overridden t o = false /\ exitc Sync o p = ExOk /\ In (RszParity 1) (effects Sync o p).
Proof. exact interlock_refuses_refuted. Qed.
Print Assumptions C14_interlock_refuses_refuted.

(* ... and holds with the exact extra hypothesis: for the short-parity trigger, parity_size reports the size on disk
   (no recorded split sizes, or recorded sizes equal to the files) *)
Theorem C14_interlock_refuses_partial : forall t o p, (t = TShortParity -> p_parity_blocks p = p_parity_disk_blocks p) ->
  fires t p = true -> overridden t o = false ->
  exitc Sync o p = ExRefused /\ forall e, In e (effects Sync o p) -> e = WLock \/ e = WLog.
Proof. exact interlock_refuses_partial. Qed.
Print Assumptions C14_interlock_refuses_partial.

(* the triggers as the code evaluates them: trigger true and override false: sync stops with a failing status, having
   emitted nothing but WLock / WLog *)
Theorem C14_interlock_refuses_as_coded : forall t o p, fires_code t p = true -> overridden t o = false ->
  exitc Sync o p = ExRefused /\ forall e, In e (effects Sync o p) -> e = WLock \/ e = WLog.
Proof. exact interlock_refuses_code. Qed.
Print Assumptions C14_interlock_refuses_as_coded.

(* every trigger false or overridden (and the sync can start at all: options compatible, configuration and content
   readable, start block inside the array, parity files accessible): sync is not refused *)
Theorem C14_interlock_overridden : forall o p, sync_can_start o p ->
  (forall t, fires_code t p = true -> overridden t o = true) -> exitc Sync o p <> ExRefused.
Proof. exact interlock_overridden. Qed.
Print Assumptions C14_interlock_overridden.

(* the exact list of reasons for which sync stops before doing anything: the tests precede the first
   WContent / WParity / RszParity *)
Theorem C14_sync_refused_iff : forall o p, exitc Sync o p = ExRefused <-> sync_refuse_cond o p = true.
Proof. exact sync_refused_iff. Qed.
Print Assumptions C14_sync_refused_iff.

Theorem C14_refusal_changes_nothing : forall c o p e, exitc c o p = ExRefused -> In e (effects c o p) -> e = WLock \/ e = WLog.
Proof. exact refused_only_lock_log. Qed.
Print Assumptions C14_refusal_changes_nothing.

(* the empty-disk rule, exactly: inputs are the equal / move / restore / remove / change counters of the disk; the numbers of new
   files and of files recognised as copies of another disk's file are not inputs *)
Theorem C14_empty_rule : forall d, empty_trigger_disk d = true <->
  ds_equal d = 0 /\ ds_move d = 0 /\ ds_restore d = 0 /\ (ds_remove d <> 0 \/ ds_change d <> 0).
Proof. exact empty_trigger_disk_iff. Qed.
Print Assumptions C14_empty_rule.
Theorem C14_empty_rule_ignores_new_files : forall e m r rm ch i1 c1 i2 c2 z1 z2,
  empty_trigger_disk (mkDS e m r rm ch i1 c1 z1) = empty_trigger_disk (mkDS e m r rm ch i2 c2 z2).
Proof. exact empty_trigger_ignores_new_files. Qed.
Print Assumptions C14_empty_rule_ignores_new_files.

(* the lock: held by another command, every command that takes the lock is refused at once *)
Theorem C14_lock_held_refuses : forall c o p, opts_compatible c o = true -> p_conf_ok p = true ->
  skips_lock c o = false -> p_lock_free p = false -> run c o p = (log_eff o ++ [WLock], ExRefused).
Proof. exact lock_held_refuses. Qed.
Print Assumptions C14_lock_held_refuses.

(* schedules: once command a has taken the lock, no Try of any command succeeds until a finishes *)
Theorem C14_lock_excludes : forall pre0 mid a b h,
  snd (lock_step (lock_run h pre0) (Try a)) = true -> ~ In (Finish a) mid ->
  snd (lock_step (lock_run (fst (lock_step (lock_run h pre0) (Try a))) mid) (Try b)) = false.
Proof. exact lock_excludes. Qed.
Print Assumptions C14_lock_excludes.

(* The lock FILE: the flock is on the inode behind <first content>.lock.  With the path explicit (a Try opens/creates the path
   and flocks the inode it names, FUnlink removes the path): while no command removes the path, at most one command holds
   the lock at any time, in every schedule ... *)
Theorem C14_lock_file_excludes : forall tr, ~ In FUnlink tr -> (length (ls_holders (frun ls0 tr)) <= 1)%nat.
Proof. intros tr NU. exact (lock_file_excludes tr ls0 NU linv_ls0). Qed.
Print Assumptions C14_lock_file_excludes.

(* ... and the hypothesis is necessary: P1 releases, P2 locks the old inode, P1 removes the path, P3 creates and locks a new
   inode: two holders.  (The check asserts on every run, from the shim's write-set log and the snapshot, that no command
   unlinks, renames or replaces the lock file.) *)
Theorem C14_lock_file_removed_refuted :
  length (ls_holders (frun ls0 [FTry 1; FFinish 1; FTry 2; FUnlink; FTry 3])) = 2%nat.
Proof. exact lock_file_unlink_refuted. Qed.
Print Assumptions C14_lock_file_removed_refuted.

(* non-vacuity *)
Example C14_example_empty_refused :
  run Sync o0 (p0 [ds_ok; ds_gone] [9; 8]) = ([WLog; WLock], ExRefused)
  /\ fires TEmpty (p0 [ds_ok; ds_gone] [9; 8]) = true /\ overridden TEmpty o0 = false.
Proof. split; [exact ex_empty_refused | exact ex_empty_fires]. Qed.
Example C14_example_zero_refused : run Sync o0 (p0 [ds_zero1; ds_ok] [9; 8]) = ([WLog; WLock], ExRefused).
Proof. exact ex_zero_refused. Qed.
Example C14_example_short_parity_refused : run Sync o0 (p0 [ds_ok; ds_ok] [9; 6]) = ([WLog; WLock], ExRefused).
Proof. exact ex_short_refused. Qed.
Example C14_example_all_overridden :
  exitc Sync o_force (p0 [ds_zero1; ds_gone] [9; 6]) = ExOk /\
  sync_can_start o_force (p0 [ds_zero1; ds_gone] [9; 6]) /\
  (forall t, fires_code t (p0 [ds_zero1; ds_gone] [9; 6]) = true -> overridden t o_force = true) /\
  fires TEmpty (p0 [ds_zero1; ds_gone] [9; 6]) = true /\ fires TZero (p0 [ds_zero1; ds_gone] [9; 6]) = true /\
  fires TShortParity (p0 [ds_zero1; ds_gone] [9; 6]) = true.
Proof. exact ex_overridden_proceeds. Qed.
Example C14_example_partial_hypothesis :
  p_parity_blocks (p0 [ds_ok; ds_ok] [9; 6]) = p_parity_disk_blocks (p0 [ds_ok; ds_ok] [9; 6])
  /\ fires TShortParity (p0 [ds_ok; ds_ok] [9; 6]) = true /\ overridden TShortParity o0 = false.
Proof. exact ex_partial_hyp. Qed.
Example C14_example_lock_trace :
  snd (lock_step (lock_run None [Try 1]) (Try 2)) = false /\ snd (lock_step (lock_run None [Try 1; Finish 1]) (Try 2)) = true.
Proof. exact ex_lock_trace. Qed.
