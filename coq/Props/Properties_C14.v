(* C14 -- safety interlocks refuse destructive syncs and change nothing.  Statements only; proofs in Cmd/CmdProofs.v.
   Triggers (Cmd/CmdModel.v, transcribed from scan.c:1007-1023, scan.c:1828-1873, sync.c:1469-1514, state.c:2455-2518,
   state.c:2582-2604, snapraid.c:1316-1331):
     TEmpty        a disk with equal = move = restore = 0 and (remove <> 0 or change <> 0)        override --force-empty
     TZero         a recorded non-empty file found, under its name, as a regular file of size 0   override --force-zero
     TShortParity  min over levels of floor(parity size / block size) < parity_used_size          override -F or -R
     TSizes        block size or hash size of the content file <> configuration                   no override
     TUnknownDisk  a recorded disk absent from the configuration (no unique UUID match)           no override
     TLock         the lock is held by another command                                            (--test-skip-lock) *)
From Coq Require Import NArith List Bool.
From Snap.Cmd Require Import CmdModel CmdProofs.
Import ListNotations.
Local Open Scope N_scope.

(* trigger true and override false: sync stops with a failing status, having emitted nothing but WLock / WLog.
   TShortParity is evaluated on the parity really present in the files (parity_valid_size, fix 03a455c), in every content
   format: p_parity_blocks is valid_size / block size of each level. *)
Theorem C14_interlock_refuses : forall t o p, no_parity_absent p -> fires t p = true -> overridden t o = false ->
  exitc Sync o p = ExRefused /\ forall e, In e (effects Sync o p) -> e = WLock \/ e = WLog.
Proof. exact interlock_refuses_strict. Qed.
Print Assumptions C14_interlock_refuses.

(* Without the hypothesis `no_parity_absent` (every configured parity file exists) the refusal still holds, but "changes
   nothing" is false to the letter: sync.c creates the missing parity files (parity_create, O_CREAT) BEFORE the size test.
   Full-strength statement: forall c o p e, exitc c o p = ExRefused -> In e (effects c o p) -> e = WLock \/ e = WLog.
   REFUTED (finding F-C14-refused-sync-creates-empty-parity-file): *)
Theorem C14_refusal_changes_nothing_refuted : exists o p e,
  exitc Sync o p = ExRefused /\ In e (effects Sync o p) /\ e <> WLock /\ e <> WLog.
Proof. exact refusal_changes_nothing_refuted. Qed.
Print Assumptions C14_refusal_changes_nothing_refuted.
(* what a refused sync may have done at most: lock, log, creation of parity files that did not exist *)
Theorem C14_interlock_refuses_general : forall t o p, fires t p = true -> overridden t o = false ->
  exitc Sync o p = ExRefused /\ forall e, In e (effects Sync o p) -> (e = WLock \/ e = WLog) \/ is_creation p e.
Proof. exact interlock_refuses. Qed.
Print Assumptions C14_interlock_refuses_general.

(* the parity really present never exceeds what the content file records, and equals it when no split file is shorter than
   recorded; the rule used before 03a455c (recorded sizes) could not see a truncated or recreated file *)
Theorem C14_valid_size_le_recorded : forall sp, valid_size sp <= recorded_size sp.
Proof. exact valid_size_le_recorded. Qed.
Print Assumptions C14_valid_size_le_recorded.
Theorem C14_valid_size_all_present : forall sp,
  (forall r d, In (Some r, d) sp -> r <= d) -> valid_size sp = recorded_size sp.
Proof. exact valid_size_all_present. Qed.
Print Assumptions C14_valid_size_all_present.
(* valid_blocks rounds DOWN: a level is short as soon as its valid size is below used * block size by any number of bytes *)
Theorem C14_valid_blocks_is_floor : forall bs sp, 0 < bs ->
  valid_blocks bs sp * bs <= valid_size sp /\ valid_size sp < (valid_blocks bs sp + 1) * bs.
Proof. exact valid_blocks_floor. Qed.
Print Assumptions C14_valid_blocks_is_floor.
Theorem C14_short_iff_bytes_missing : forall bs sp used, 0 < bs -> (valid_blocks bs sp < used <-> valid_size sp < used * bs).
Proof. exact valid_blocks_lt_iff. Qed.
Print Assumptions C14_short_iff_bytes_missing.
Theorem C14_truncated_file_is_short : forall bs used d, 0 < bs -> d < used * bs -> valid_blocks bs [(Some (used * bs), d)] < used.
Proof. exact truncated_file_is_short. Qed.
Print Assumptions C14_truncated_file_is_short.
Example C14_example_valid_size :
  valid_blocks 1024 [(Some 9216, 2048)] = 2 /\ recorded_size [(Some 9216, 2048)] / 1024 = 9
  /\ valid_blocks 1024 [(Some 4096, 4096); (Some 5120, 1024); (Some 2048, 2048)] = 5
  /\ valid_blocks 1024 [(Some 4096, 0); (Some 5120, 5120)] = 0
  /\ valid_blocks 1024 [(None, 7168)] = 7.
Proof. exact ex_valid_size. Qed.

(* every trigger false or overridden (and the sync can start at all: options compatible, configuration and content
   readable, start block inside the array, parity files accessible): sync is not refused *)
Theorem C14_interlock_overridden : forall o p, sync_can_start o p ->
  (forall t, fires t p = true -> overridden t o = true) -> exitc Sync o p <> ExRefused.
Proof. exact interlock_overridden. Qed.
Print Assumptions C14_interlock_overridden.

(* the exact list of reasons for which sync stops before doing anything: the tests precede the first
   WContent / WParity / RszParity *)
Theorem C14_sync_refused_iff : forall o p, exitc Sync o p = ExRefused <-> sync_refuse_cond o p = true.
Proof. exact sync_refused_iff. Qed.
Print Assumptions C14_sync_refused_iff.

Theorem C14_refusal_changes_nothing : forall c o p e, no_parity_absent p -> exitc c o p = ExRefused -> In e (effects c o p) -> e = WLock \/ e = WLog.
Proof. exact refused_only_lock_log. Qed.
Print Assumptions C14_refusal_changes_nothing.

(* the empty-disk rule, exactly: inputs are the equal / move / restore / remove / change counters of the disk; the numbers of new
   files and of files recognised as copies of another disk's file are not inputs *)
Theorem C14_empty_rule : forall d, empty_trigger_disk d = true <->
  ds_equal d = 0 /\ ds_move d = 0 /\ ds_restore d = 0 /\ (ds_remove d <> 0 \/ ds_change d <> 0).
Proof. exact empty_trigger_disk_iff. Qed.
Print Assumptions C14_empty_rule.
Theorem C14_empty_rule_ignores_new_files : forall e m r rm ch el i1 c1 i2 c2 z1 z2,
  empty_trigger_disk (mkDS e m r rm ch el i1 c1 z1) = empty_trigger_disk (mkDS e m r rm ch el i2 c2 z2).
Proof. exact empty_trigger_ignores_new_files. Qed.
Print Assumptions C14_empty_rule_ignores_new_files.

(* Links.  The property says "all FILES previously known on a data disk are missing or rewritten"; scan.c counts an unchanged
   symbolic link / hardlink in `equal`.  `empty_trigger_files` is the rule on files only (equal minus the links counted in it).
   Full-strength statement:
       forall o p, empty_trigger_files p = true -> o_force_empty o = false -> exitc Sync o p = ExRefused
   REFUTED by the faithful model (finding F-C14-links-disarm-empty-disk-interlock): *)
Theorem C14_empty_rule_links_refuted : exists o p,
  empty_trigger_files p = true /\ o_force_empty o = false /\ exitc Sync o p = ExOk.
Proof. exact empty_rule_links_refuted. Qed.
Print Assumptions C14_empty_rule_links_refuted.
(* ... and it holds with the exact extra hypothesis: no unchanged link is counted on any disk *)
Theorem C14_empty_rule_files_partial : forall o p, (forall d, In d (p_disks p) -> ds_equal_links d = 0) ->
  empty_trigger_files p = true -> o_force_empty o = false ->
  exitc Sync o p = ExRefused /\ forall e, In e (effects Sync o p) -> (e = WLock \/ e = WLog) \/ is_creation p e.
Proof. exact empty_rule_files_refuses. Qed.
Print Assumptions C14_empty_rule_files_partial.

(* the lock: held by another command, every command that takes the lock is refused at once *)
Theorem C14_lock_held_refuses : forall c o p, opts_compatible c o = true -> p_conf_ok p = true ->
  skips_lock c o = false -> p_lock_free p = false -> run c o p = (log_eff o ++ [WLock], ExRefused).
Proof. exact lock_held_refuses. Qed.
Print Assumptions C14_lock_held_refuses.

(* schedules: once command a has taken the lock, no Try of any command succeeds until a finishes *)
Theorem C14_lock_excludes : forall pre0 mid a b h,
  snd (lock_step (lock_run h pre0) (Try a)) = true -> ~ In (Finish a) mid ->
  snd (lock_step (lock_run (fst (lock_step (lock_run h pre0) (Try a))) mid) (Try b)) = false.
Proof. exact lock_excludes. Qed.
Print Assumptions C14_lock_excludes.

(* The lock FILE: the flock is on the inode behind <first content>.lock.  With the path explicit (a Try opens/creates the path
   and flocks the inode it names, FUnlink removes the path): while no command removes the path, at most one command holds
   the lock at any time, in every schedule ... *)
Theorem C14_lock_file_excludes : forall tr, ~ In FUnlink tr -> (length (ls_holders (frun ls0 tr)) <= 1)%nat.
Proof. intros tr NU. exact (lock_file_excludes tr ls0 NU linv_ls0). Qed.
Print Assumptions C14_lock_file_excludes.

(* ... and the hypothesis is necessary: P1 releases, P2 locks the old inode, P1 removes the path, P3 creates and locks a new
   inode: two holders.  (The check asserts on every run, from the shim's write-set log and the snapshot, that no command
   unlinks, renames or replaces the lock file.) *)
Theorem C14_lock_file_removed_refuted :
  length (ls_holders (frun ls0 [FTry 1; FFinish 1; FTry 2; FUnlink; FTry 3])) = 2%nat.
Proof. exact lock_file_unlink_refuted. Qed.
Print Assumptions C14_lock_file_removed_refuted.

(* non-vacuity *)
Example C14_example_empty_refused :
  run Sync o0 (p0 [ds_ok; ds_gone] [9; 8]) = ([WLog; WLock], ExRefused)
  /\ fires TEmpty (p0 [ds_ok; ds_gone] [9; 8]) = true /\ overridden TEmpty o0 = false.
Proof. split; [exact ex_empty_refused | exact ex_empty_fires]. Qed.
Example C14_example_zero_refused : run Sync o0 (p0 [ds_zero1; ds_ok] [9; 8]) = ([WLog; WLock], ExRefused).
Proof. exact ex_zero_refused. Qed.
Example C14_example_short_parity_refused : run Sync o0 (p0 [ds_ok; ds_ok] [9; 6]) = ([WLog; WLock], ExRefused).
Proof. exact ex_short_refused. Qed.
Example C14_example_all_overridden :
  exitc Sync o_force (p0 [ds_zero1; ds_gone] [9; 6]) = ExOk /\
  sync_can_start o_force (p0 [ds_zero1; ds_gone] [9; 6]) /\
  (forall t, fires t (p0 [ds_zero1; ds_gone] [9; 6]) = true -> overridden t o_force = true) /\
  fires TEmpty (p0 [ds_zero1; ds_gone] [9; 6]) = true /\ fires TZero (p0 [ds_zero1; ds_gone] [9; 6]) = true /\
  fires TShortParity (p0 [ds_zero1; ds_gone] [9; 6]) = true.
Proof. exact ex_overridden_proceeds. Qed.
Example C14_example_lock_trace :
  snd (lock_step (lock_run None [Try 1]) (Try 2)) = false /\ snd (lock_step (lock_run None [Try 1; Finish 1]) (Try 2)) = true.
Proof. exact ex_lock_trace. Qed.
