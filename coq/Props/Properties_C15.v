(* C15 -- Scrub checks what its plan says and keeps honest books.
   Statements only; every proof is `exact <lemma>`.  The model (Scrub/ScrubModel.v) transcribes
   cmdline/scrub.c:53-102 (block_is_enabled), 722-858 (md, limits), 330-613 (per-stripe flags and the info update)
   and cmdline/elem.h:1119-1220 (info word); it is tied to the real binary by harness/py/check_C15.py.
   infos : list N is the info array, position k = parity position k, 0 = unused position. *)
From Coq Require Import NArith ZArith List Bool Lia.
From Snap.Scrub Require Import ScrubModel ScrubInfo ScrubPlan ScrubBooks ScrubTheorems ScrubCover ScrubExact.
Import ListNotations.

(* --- every plan: bad stripes always, unused positions never -------------------------------------------- *)
Theorem C15_bad_always : forall t arg older now infos sel k info,
  scrub_plan t arg older now infos = Some sel -> nth_error infos k = Some info -> info_get_bad info = true ->
  nth_error sel k = Some true.
Proof. exact bad_always. Qed.

Theorem C15_unused_never : forall t arg older now infos sel k,
  scrub_plan t arg older now infos = Some sel -> nth_error infos k = Some 0%N -> nth_error sel k = Some false.
Proof. exact unused_never. Qed.

(* --- the named plans -------------------------------------------------------------------------------------- *)
Theorem C15_full_all_used : forall older now infos sel k info,
  scrub_plan no_test_opts ArgFull older now infos = Some sel -> nth_error infos k = Some info ->
  nth_error sel k = Some (info_used info).
Proof. exact full_all_used. Qed.

Theorem C15_new_only_justsynced : forall older now infos sel k info,
  scrub_plan no_test_opts ArgNew older now infos = Some sel -> nth_error infos k = Some info ->
  nth_error sel k = Some (info_used info && (info_get_bad info || info_get_justsynced info)).
Proof. exact new_only_justsynced. Qed.

Theorem C15_bad_plan_only_bad : forall older now infos sel k info,
  scrub_plan no_test_opts ArgBad older now infos = Some sel -> nth_error infos k = Some info ->
  nth_error sel k = Some (info_get_bad info).
Proof. exact bad_plan_only_bad. Qed.

Theorem C15_named_plan_rejects_older : forall t arg d now infos,
  is_named_plan arg = true -> scrub_plan t arg (Some d) now infos = None.
Proof. exact named_plan_rejects_older. Qed.

(* --- the numbers given to -p / -o (snapraid.c:653-677) ------------------------------------------------------------ *)
(* full statement wanted: forall v, 100 < v -> parse_plan_number v = None.  It is false for the code as written
   (the value goes through an `int` before the range test); the partial theorem gives the exact extra hypothesis. *)
Theorem C15_plan_number_in_range : forall v, (v <= 100)%N -> parse_plan_number v = Some (ArgPct v).
Proof. exact parse_plan_in_range. Qed.
Theorem C15_older_number_in_range : forall v, (v <= 1000)%N -> parse_older_number v = Some (Some v).
Proof. exact parse_older_in_range. Qed.
Theorem C15_plan_number_range_partial : forall v, (v < 2147483648)%N -> (parse_plan_number v = None <-> (100 < v)%N).
Proof. exact parse_plan_partial. Qed.
Theorem C15_plan_number_range_refuted : exists v, (100 < v)%N /\ parse_plan_number v = Some ArgFull.
Proof. exact parse_plan_range_refuted. Qed.
Theorem C15_older_number_range_refuted : exists v, (1000 < v)%N /\ parse_older_number v = Some None.
Proof. exact parse_older_range_refuted. Qed.

(* --- percentage plans: quota, age, oldest first ------------------------------------------------------------ *)
(* count_sel_good = number of selected stripes that are not marked bad *)
Theorem C15_auto_quota : forall p older now infos cl tl ll,
  (p <= 100)%N -> (N.of_nat (length infos) < 4294967296)%N ->
  scrub_limits no_test_opts (ArgPct p) older now infos = Lim SCRUB_AUTO cl tl ll ->
  (count_sel_good infos (scrub_selected SCRUB_AUTO tl ll infos) <= N.to_nat cl)%nat /\
  (cl <= (N.of_nat (length infos) * p + 99) / 100)%N /\ (N.to_nat cl <= used_count infos)%nat.
Proof. exact auto_quota. Qed.

Theorem C15_default_quota : forall older now infos cl tl ll,
  (N.of_nat (length infos) < 4294967296)%N ->
  scrub_limits no_test_opts ArgDefault older now infos = Lim SCRUB_AUTO cl tl ll ->
  (count_sel_good infos (scrub_selected SCRUB_AUTO tl ll infos) <= N.to_nat cl)%nat /\
  (cl <= (N.of_nat (length infos) + 11) / 12)%N /\ (N.to_nat cl <= used_count infos)%nat.
Proof. exact default_quota. Qed.

(* numeric_plan arg := no -p, or -p <percentage>;  older_days = the -o argument, 10 by default *)
Theorem C15_auto_age : forall arg older now infos cl tl ll k info,
  numeric_plan arg ->
  scrub_limits no_test_opts arg older now infos = Lim SCRUB_AUTO cl tl ll ->
  nth_error infos k = Some info -> info_get_bad info = false ->
  nth_error (scrub_selected SCRUB_AUTO tl ll infos) k = Some true ->
  (Z.of_N (info_get_time info) <= tl)%Z /\ (tl <= now - older_days older * 24 * 3600)%Z.
Proof. exact auto_age. Qed.

Theorem C15_auto_oldest_first : forall tl ll infos a b ia ib,
  nth_error infos a = Some ia -> info_get_bad ia = false ->
  nth_error (scrub_selected SCRUB_AUTO tl ll infos) a = Some true ->
  nth_error infos b = Some ib -> ib <> 0%N -> info_get_bad ib = false ->
  nth_error (scrub_selected SCRUB_AUTO tl ll infos) b = Some false ->
  (info_get_time ia <= info_get_time ib)%N /\ (info_get_time ia = info_get_time ib -> (a < b)%nat).
Proof. exact auto_oldest_first. Qed.

(* without bad marks the selection has exactly count_limit elements: together with C15_auto_oldest_first the selected
   set is the first count_limit stripes in (time, position) order *)
Theorem C15_auto_exact : forall t arg older now infos cl tl ll,
  scrub_limits t arg older now infos = Lim SCRUB_AUTO cl tl ll ->
  Forall (fun x => info_get_bad x = false) infos ->
  count_sel_good infos (scrub_selected SCRUB_AUTO tl ll infos) = N.to_nat cl.
Proof. exact auto_exact. Qed.

(* bad stripes are selected in every plan (C15_bad_always) ON TOP of the share: the walk does not let them consume the
   tie count although their times are in the sorted vector, so the share bounds the stripes chosen by age
   (C15_auto_quota) and the total is bounded by the share plus the number of bad stripes.  The bound is reached:
   10 stripes of one time, stripes 0 and 1 bad, -p 30: count_limit 3, last_limit 3, 5 stripes scrubbed. *)
Theorem C15_auto_total_bound : forall t arg older now infos cl tl ll,
  scrub_limits t arg older now infos = Lim SCRUB_AUTO cl tl ll ->
  (count_sel_all infos (scrub_selected SCRUB_AUTO tl ll infos) <= N.to_nat cl + count_bad infos)%nat.
Proof. exact auto_total_bound. Qed.

Example C15_nonvacuous_bad_at_tie_time :
  let infos := [161; 161; 160; 160; 160; 160; 160; 160; 160; 160]%N in
  scrub_limits no_test_opts (ArgPct 30) (Some 0%N) 2000 infos = Lim SCRUB_AUTO 3 160 3 /\
  scrub_selected SCRUB_AUTO 160 3 infos = [true; true; true; true; true; false; false; false; false; false] /\
  count_sel_good infos (scrub_selected SCRUB_AUTO 160 3 infos) = 3%nat /\
  count_sel_all infos (scrub_selected SCRUB_AUTO 160 3 infos) = 5%nat /\ count_bad infos = 2%nat.
Proof. cbv zeta. repeat split; vm_compute; reflexivity. Qed.

(* --- the books ------------------------------------------------------------------------------------------------ *)
(* verified ds ps : every block of a file was read and its hash (when recorded) matches, every parity was read and
                    equals the recomputed one;
   damaged ds ps  : an I/O error on a data block or a parity, or a hash mismatch in a file that is in sync, or
                    (nothing failed while reading) a parity mismatch in a stripe without pending/changed blocks.
   None = the run stops at this stripe (fatal task state or I/O error limit), nothing is written for it. *)
Theorem C15_books_honest : forall lim c ds ps info now info' c',
  scrub_stripe lim c ds ps info now = Some (info', c') ->
  (verified ds ps = true -> info' = info_make now false false false) /\
  (damaged ds ps = true -> info' = info_set_bad info) /\
  (verified ds ps = false -> damaged ds ps = false -> info' = info) /\
  verified ds ps && damaged ds ps = false.
Proof. exact books_honest_stripe. Qed.

(* differences explained by files changed since the sync or by pending blocks never produce a bad mark *)
Theorem C15_unsynced_never_marked : forall ds ps,
  existsb d_ioerr ds = false -> existsb p_ioerr ps = false ->
  (forall t, In t ds -> d_mismatch t = true -> d_file_unsynced t = true) ->
  (existsb p_mismatch ps = true -> existsb d_unsynced ds = true) ->
  damaged ds ps = false.
Proof. exact unsynced_never_marked. Qed.

(* a stripe with a parity level that could not be read (any reader state but DONE, e.g. a parity file cut short), or
   with a block of a file that could not be read, is never refreshed nor cleared: time, rehash and justsynced marks
   stay, an existing bad mark stays, the only possible change is the bad mark being set (I/O error) *)
Theorem C15_unreadable_never_refreshed : forall lim c ds ps info now info' c',
  scrub_stripe lim c ds ps info now = Some (info', c') ->
  existsb (fun t => negb (is_done (pt_state t))) ps = true \/
  existsb (fun t => d_file t && negb (is_done (dt_state t))) ds = true ->
  (info' = info \/ info' = info_set_bad info) /\
  info_get_time info' = info_get_time info /\ info_get_rehash info' = info_get_rehash info /\
  info_get_justsynced info' = info_get_justsynced info /\ (info_get_bad info = true -> info_get_bad info' = true).
Proof. exact unreadable_never_refreshed. Qed.

Theorem C15_unverified_never_refreshed : forall lim c ds ps info now info' c',
  scrub_stripe lim c ds ps info now = Some (info', c') -> verified ds ps = false ->
  info' = info \/ info' = info_set_bad info.
Proof. exact unverified_never_refreshed. Qed.

(* the refreshed word: time = now rounded down to 8 s, no mark; the bad mark keeps everything else *)
Theorem C15_refreshed_word : forall now, (0 <= now < 4294967296)%Z ->
  let w := info_make now false false false in
  Z.of_N (info_get_time w) = (8 * (now / 8))%Z /\ info_get_bad w = false /\ info_get_rehash w = false /\
  info_get_justsynced w = false.
Proof. exact refreshed_word. Qed.

Theorem C15_bad_mark_keeps_rest : forall info,
  info_get_bad (info_set_bad info) = true /\ info_get_time (info_set_bad info) = info_get_time info /\
  info_get_rehash (info_set_bad info) = info_get_rehash info /\
  info_get_justsynced (info_set_bad info) = info_get_justsynced info.
Proof. exact bad_mark_keeps_rest. Qed.

(* --- repeated default scrubs eventually cover every stripe ------------------------------------------------------ *)
(* refresh sel infos now : the info array after an error-free scrub at `now` (every selected stripe verified);
   covered infos k nows  : stripe k is selected by one of the default scrubs (no -p, no -o) run at the clock values
                           nows, each on the array left by the previous one;
   rank infos k ik       : number of used stripes not younger than stripe k in (time, position) order, k included.
   Clock values at least 10 days after the stripe's check time and below 2^32 (year 2106). *)
Theorem C15_default_scrub_covers : forall nows infos k ik,
  (N.of_nat (length infos) < 4294967296)%N -> nth_error infos k = Some ik -> ik <> 0%N ->
  Forall (fun now => (Z.of_N (info_get_time ik) + 10 * 24 * 3600 <= now < 4294967296)%Z) nows ->
  (rank infos k ik <= length nows)%nat -> covered infos k nows.
Proof. exact default_scrub_covers. Qed.

Theorem C15_refresh_is_model_run : forall sel infos now,
  refresh sel infos now = apply_outcomes sel (repeat no_flags (length sel)) infos now.
Proof. exact refresh_is_apply_outcomes. Qed.

(* --- non-vacuity ------------------------------------------------------------------------------------------------ *)
(* six positions: times 800 (new), 160, unused, 160, 160|bad, 480; -p 50 -o 0 at now = 1000:
   quota ceil(6*50/100) = 3 of 5 used; sorted times 160 160 160 480 800 -> time limit 160, last limit 3;
   the walk takes positions 1 and 3 (two non-bad ties, the third tie is the bad one which is selected anyway) *)
Example C15_nonvacuous :
  let infos := [804; 160; 0; 160; 161; 480]%N in
  scrub_limits no_test_opts (ArgPct 50) (Some 0%N) 1000 infos = Lim SCRUB_AUTO 3 160 3 /\
  scrub_plan no_test_opts (ArgPct 50) (Some 0%N) 1000 infos = Some [false; true; false; true; true; false] /\
  scrub_plan no_test_opts ArgNew None 1000 infos = Some [true; false; false; false; true; false] /\
  scrub_plan no_test_opts ArgBad None 1000 infos = Some [false; false; false; false; true; false] /\
  scrub_plan no_test_opts ArgFull None 1000 infos = Some [true; true; false; true; true; true] /\
  count_sel_good infos [false; true; false; true; true; false] = 2%nat.
Proof. cbv zeta. repeat split; vm_compute; reflexivity. Qed.

(* a tie cut by position: quota 2 among three stripes of the same time *)
Example C15_nonvacuous_tie :
  scrub_limits no_test_opts (ArgPct 50) (Some 0%N) 1000 [160; 160; 160; 480]%N = Lim SCRUB_AUTO 2 160 2 /\
  scrub_plan no_test_opts (ArgPct 50) (Some 0%N) 1000 [160; 160; 160; 480]%N = Some [true; true; false; false].
Proof. split; vm_compute; reflexivity. Qed.

(* a stripe with one silent data error on a synced file, one with a changed file, one clean *)
Example C15_nonvacuous_books :
  let clean := {| dt_disk := true; dt_block := BLOCK_BLK; dt_ts_diff := false; dt_state := TASK_DONE; dt_hash_eq := true |} in
  let silent := {| dt_disk := true; dt_block := BLOCK_BLK; dt_ts_diff := false; dt_state := TASK_DONE; dt_hash_eq := false |} in
  let changed := {| dt_disk := true; dt_block := BLOCK_BLK; dt_ts_diff := true; dt_state := TASK_DONE; dt_hash_eq := false |} in
  let par := {| pt_state := TASK_DONE; pt_equal := true |} in
  let c0 := {| c_error := 0; c_silent := 0; c_io := 0 |}%N in
  option_map fst (scrub_stripe 100 c0 [clean; clean] [par] 164 1000) = Some 1000%N /\
  option_map fst (scrub_stripe 100 c0 [clean; silent] [par] 164 1000) = Some 165%N /\
  option_map fst (scrub_stripe 100 c0 [clean; changed] [par] 164 1000) = Some 164%N /\
  verified [clean; clean] [par] = true /\ damaged [clean; silent] [par] = true /\
  verified [clean; changed] [par] = false /\ damaged [clean; changed] [par] = false.
Proof. cbv zeta. repeat split; vm_compute; reflexivity. Qed.

(* 13 stripes of the same age: the default quota is ceil(13/12) = 2 per run; the last stripe has rank 13 and is
   reached by the 7th scrub (not before) when the clock advances 11 days per run *)
Example C15_nonvacuous_cover :
  let infos := repeat 1000%N 13 in
  let nows := map (fun i => (1000000 * Z.of_nat i)%Z) (seq 1 7) in
  rank infos 12 1000%N = 13%nat /\ covered infos 12 nows /\ ~ covered infos 12 (firstn 6 nows).
Proof. cbv zeta. split; [vm_compute; reflexivity|]. split; vm_compute; intuition discriminate. Qed.

(* a file deleted since the last sync: its slot is DELETED (invalid parity, no file, nothing read), the synced file
   of the other disk hashes equal, the parity (still holding the deleted data) differs: the slot makes the stripe
   unsynced, so this is a file error, not damage -- word unchanged, no bad mark (also with a REP or CHG slot) *)
Example C15_nonvacuous_deleted :
  let clean := {| dt_disk := true; dt_block := BLOCK_BLK; dt_ts_diff := false; dt_state := TASK_DONE; dt_hash_eq := true |} in
  let gone := {| dt_disk := true; dt_block := BLOCK_DELETED; dt_ts_diff := false; dt_state := TASK_DONE; dt_hash_eq := true |} in
  let rep := {| dt_disk := true; dt_block := BLOCK_REP; dt_ts_diff := false; dt_state := TASK_DONE; dt_hash_eq := true |} in
  let chg := {| dt_disk := true; dt_block := BLOCK_CHG; dt_ts_diff := false; dt_state := TASK_DONE; dt_hash_eq := false |} in
  let stale := {| pt_state := TASK_DONE; pt_equal := false |} in
  let c0 := {| c_error := 0; c_silent := 0; c_io := 0 |}%N in
  d_unsynced gone = true /\ d_file gone = false /\ d_unsynced rep = true /\ d_unsynced chg = true /\
  damaged [clean; gone] [stale] = false /\ damaged [clean; rep] [stale] = false /\ damaged [clean; chg] [stale] = false /\
  damaged [clean; clean] [stale] = true /\
  scrub_stripe 100 c0 [clean; gone] [stale; stale] 164 1000 = Some (164%N, {| c_error := 2; c_silent := 0; c_io := 0 |}%N).
Proof. cbv zeta. repeat split; vm_compute; reflexivity. Qed.

(* a 2-parity file cut short: the level reads with a (non-I/O) error, the other level compares equal -- file error, word kept *)
Example C15_nonvacuous_unreadable_parity :
  let clean := {| dt_disk := true; dt_block := BLOCK_BLK; dt_ts_diff := false; dt_state := TASK_DONE; dt_hash_eq := true |} in
  let ok := {| pt_state := TASK_DONE; pt_equal := true |} in
  let short := {| pt_state := TASK_ERROR_CONTINUE; pt_equal := true |} in
  let c0 := {| c_error := 0; c_silent := 0; c_io := 0 |}%N in
  scrub_stripe 100 c0 [clean; clean] [ok; short] 165 1000 = Some (165%N, {| c_error := 1; c_silent := 0; c_io := 0 |}%N) /\
  existsb (fun t => negb (is_done (pt_state t))) [ok; short] = true.
Proof. cbv zeta. split; vm_compute; reflexivity. Qed.

Print Assumptions C15_bad_always.
Print Assumptions C15_default_scrub_covers.
Print Assumptions C15_auto_exact.
Print Assumptions C15_auto_total_bound.
Print Assumptions C15_unreadable_never_refreshed.
Print Assumptions C15_plan_number_range_refuted.
Print Assumptions C15_plan_number_range_partial.
Print Assumptions C15_full_all_used.
Print Assumptions C15_new_only_justsynced.
Print Assumptions C15_bad_plan_only_bad.
Print Assumptions C15_auto_quota.
Print Assumptions C15_default_quota.
Print Assumptions C15_auto_age.
Print Assumptions C15_auto_oldest_first.
Print Assumptions C15_books_honest.
Print Assumptions C15_unsynced_never_marked.
Print Assumptions C15_refreshed_word.
Print Assumptions C15_bad_mark_keeps_rest.
