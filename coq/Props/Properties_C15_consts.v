(* C15 -- the info word: INFO_MASK and the inline functions of elem.h (info_make, the info_get and info_set families) evaluated by the
   compiled headers on a sample grid (7 times x 8 flag combinations, incl. times beyond 32 bits) equal the model's functions.
   (A test of the transcription, regenerated on every run; the theorems of Properties_C15.v are about the model functions.) *)
From Coq Require Import NArith ZArith List Bool.
From Snap.Gen Require Import Consts.
From Snap.Scrub Require Import ScrubModel.
Import ListNotations.
Local Open Scope Z_scope.

Definition info_sample_ok (s : (Z * bool * bool * bool) * (Z * Z * bool * bool * bool) * (Z * Z)) : bool :=
  let '((t, b, r, j), (mk, gt, gb, gr, gj), (sb, sr)) := s in
  let i := info_make t b r j in
  (Z.of_N i =? mk) && (Z.of_N (info_get_time i) =? gt) && Bool.eqb (info_get_bad i) gb && Bool.eqb (info_get_rehash i) gr
  && Bool.eqb (info_get_justsynced i) gj && (Z.of_N (info_set_bad i) =? sb) && (Z.of_N (info_set_rehash i) =? sr).

Theorem C15_consts_info_mask : Z.of_N INFO_MASK = c_INFO_MASK.
Proof. exact eq_refl. Qed.
Print Assumptions C15_consts_info_mask.

Lemma info_samples_ok : forallb info_sample_ok c_info_samples = true /\ length c_info_samples = 56%nat.
Proof. split; vm_compute; reflexivity. Qed.

Theorem C15_consts_info_word_samples : forallb info_sample_ok c_info_samples = true /\ length c_info_samples = 56%nat.
Proof. exact info_samples_ok. Qed.
Print Assumptions C15_consts_info_word_samples.
