(* C16 -- Arrays written by the reference version stay readable and repairable.
   Statements only; every proof is `exact <lemma>`.  Gen.CrcTables is regenerated from cmdline/util.c and
   Hash.Vectors from vectors/C16/hash_vectors.txt on every run.
   The reference is fixed by: the bit-serial CRC-32C definition (zstep/zn/crc_bytes), the byte format of the
   packed integers, and digests computed once by the pinned tree.  The parity coefficients are pinned by C02. *)
From Coq Require Import NArith List Lia.
From Snap.Gen Require Import CrcTables.
From Snap.Crc Require Import CrcModel CrcProofs.
From Snap.Codec Require Import Varint.
From Snap.Hash Require Import Words Murmur3 Spooky2 Vectors VectorsOk BlockSize HashSelect.
Import ListNotations.
Local Open Scope N_scope.

(* ---- CRC-32C: tables and every loop shape equal the bit-serial definition ------------------------------ *)
Theorem C16_crc_table_ok :
  crc32c_0 = table_of 1 /\ crc32c_1 = table_of 2 /\ crc32c_2 = table_of 3 /\ crc32c_3 = table_of 4.
Proof. exact crc_table_ok. Qed.
Theorem C16_crc_table_eq : forall l init, bytes l -> crc_table init l = crc_bytes init l.
Proof. exact crc_table_eq. Qed.
Theorem C16_crc_slice4_eq : forall l init, init < 2^32 -> bytes l -> crc32c_gen_plain init l = crc_bytes init l.
Proof. exact crc_slice4_eq. Qed.
(* given the ASSUMED semantics of crc32b / crc32q (CrcModel.hw_crc32b, hw_crc32q) *)
Theorem C16_crc_hw8_eq : forall l init, init < 2^32 -> bytes l -> crc32c_x86_plain init l = crc_bytes init l.
Proof. exact crc_hw8_eq. Qed.
Theorem C16_crc32c_gen_eq : forall l crc, crc < 2^32 -> bytes l -> crc32c_gen crc l = crc32c_spec crc l.
Proof. exact crc32c_gen_eq. Qed.
Theorem C16_crc32c_x86_eq : forall l crc, crc < 2^32 -> bytes l -> crc32c_x86 crc l = crc32c_spec crc l.
Proof. exact crc32c_x86_eq. Qed.
(* the CRC of a stream does not depend on how it is cut into buffers (sfill / sflush), nor on swrite vs sputc *)
Theorem C16_crc_chunking : forall crc l1 l2, crc32c_spec (crc32c_spec crc l1) l2 = crc32c_spec crc (l1 ++ l2).
Proof. exact crc32c_spec_app. Qed.
Theorem C16_stream_crc_chunks : forall chunks, stream_crc_chunks chunks = crc32c_spec 0 (concat chunks).
Proof. exact stream_crc_chunks_eq. Qed.
Theorem C16_stream_crc_stream : forall writes, stream_crc_stream writes = crc32c_spec 0 (concat writes).
Proof. exact stream_crc_stream_eq. Qed.
(* any change confined to 4 consecutive bytes changes the CRC, whatever precedes and follows *)
Theorem C16_crc_burst32 : forall s pre a a' post,
  s < 2^32 -> bytes pre -> bytes a -> bytes a' -> bytes post ->
  length a = 4%nat -> length a' = 4%nat -> a <> a' ->
  crc_bytes s (pre ++ a ++ post) <> crc_bytes s (pre ++ a' ++ post).
Proof. exact crc_burst32. Qed.
Example C16_crc_nonvacuous :
  let m := [49; 50; 51; 52; 53; 54; 55; 56; 57] in
  crc32c_spec 0 m = 3808858755 /\ crc32c_gen 0 m = 3808858755 /\ crc32c_x86 0 m = 3808858755 /\ bytes m.
Proof. exact crc_check_value. Qed.

(* ---- packed integers, little endian words, strings ---------------------------------------------------- *)
Theorem C16_getb32_putb32 : forall v rest, v < 2^32 -> sgetb32 (sputb32 v ++ rest) = Ok (v, rest).
Proof. exact getb32_putb32. Qed.
Theorem C16_getb64_putb64 : forall v rest, v < 2^64 -> sgetb64 (sputb64 v ++ rest) = Ok (v, rest).
Proof. exact getb64_putb64. Qed.
Theorem C16_getble32_putble32 : forall v rest, v < 2^32 -> sgetble32 (sputble32 v ++ rest) = Ok (v, rest).
Proof. exact getble32_putble32. Qed.
Theorem C16_getbs_putbs : forall s size rest, N.of_nat (length s) < size -> size < 2^32 ->
  sgetbs size (sputbs s ++ rest) = Ok (s, rest).
Proof. exact getbs_putbs. Qed.
(* EOF-strictness: every strict prefix of an encoding is reported as end of file, never as a value *)
Theorem C16_getb32_eof_strict : forall v p q, v < 2^32 -> sputb32 v = p ++ q -> q <> [] -> sgetb32 p = Eof.
Proof. exact getb32_eof_strict. Qed.
Theorem C16_getb64_eof_strict : forall v p q, v < 2^64 -> sputb64 v = p ++ q -> q <> [] -> sgetb64 p = Eof.
Proof. exact getb64_eof_strict. Qed.
Theorem C16_getble32_eof_strict : forall v p q, sputble32 v = p ++ q -> q <> [] -> sgetble32 p = Eof.
Proof. exact getble32_eof_strict. Qed.
Theorem C16_getbs_eof_strict : forall s size p q, N.of_nat (length s) < size -> size < 2^32 ->
  sputbs s = p ++ q -> q <> [] -> sgetbs size p = Eof.
Proof. exact getbs_eof_strict. Qed.
(* what the reader does outside the image of the writer *)
Theorem C16_getb32_overlong : forall a b c d e t,
  N.testbit a 7 = false -> N.testbit b 7 = false -> N.testbit c 7 = false -> N.testbit d 7 = false ->
  N.testbit e 7 = false -> sgetb32 (a :: b :: c :: d :: e :: t) = Bad.
Proof. exact getb32_overlong. Qed.
Theorem C16_sgetb32_range : forall l r t, sgetb32 l = Ok (r, t) -> r < 2^32.
Proof. exact sgetb32_range. Qed.
Theorem C16_sgetb64_range : forall l r t, sgetb64 l = Ok (r, t) -> r < 2^64.
Proof. exact sgetb64_range. Qed.
Example C16_getb32_noncanonical :
  sgetb32 [0; 128] = Ok (0, []) /\ sgetb32 [128] = Ok (0, []) /\
  sgetb32 [127; 127; 127; 127; 255] = Ok (4294967295, []) /\ sgetb32 [127; 127; 127; 127; 143] = Ok (4294967295, []).
Proof.
  exact (conj (proj1 getb32_noncanonical_zero) (conj (proj2 getb32_noncanonical_zero)
        (conj (proj1 getb32_fifth_byte_overflow) (proj1 (proj2 getb32_fifth_byte_overflow))))).
Qed.
(* the size test of sgetbs (`len >= size` since commit e7500bb): an accepted length always fits the buffer.
   The test of the reference snapshot (`len + 1 > size` in uint32_t) is kept as sgetbs_len_ok_ref: it let the length
   2^32-1 through for every buffer size (refuted statement, witness 7f 7f 7f 7f 8f), and is otherwise the same
   function -- the repair does not change which reference files are readable. *)
Theorem C16_sgetbs_in_bounds : forall size l, size < 2^32 -> sgetbs_oob size l = false.
Proof. exact sgetbs_in_bounds. Qed.
Theorem C16_sgetbs_len_wrap_accepts : forall size, sgetbs_len_ok_ref (2^32 - 1) size = true.
Proof. exact sgetbs_len_wrap_accepts. Qed.
Theorem C16_sgetbs_in_bounds_ref_refuted :
  exists l, forall size, size < 2^32 -> sgetbs_oob_with sgetbs_len_ok_ref size l = true.
Proof. exact sgetbs_in_bounds_ref_refuted. Qed.
Theorem C16_sgetbs_len_ok_ref_agree : forall len size, len < 2^32 -> len <> 2^32 - 1 ->
  sgetbs_len_ok_ref len size = sgetbs_len_ok len size.
Proof. exact sgetbs_len_ok_ref_agree. Qed.
Example C16_varint_nonvacuous :
  sputb32 0 = [128] /\ sputb32 127 = [255] /\ sputb32 128 = [0; 129] /\ sputb32 300 = [44; 130] /\
  sputb32 (2^32 - 1) = [127; 127; 127; 127; 143] /\
  sputb64 (2^64 - 1) = [127; 127; 127; 127; 127; 127; 127; 127; 127; 129] /\
  sputble32 305419896 = [120; 86; 52; 18] /\
  sputbs [97; 98; 99] = [131; 97; 98; 99] /\ sgetbs 4 [131; 97; 98; 99; 7] = Ok ([97; 98; 99], [7]) /\
  sgetbs 3 [131; 97; 98; 99; 7] = Bad /\ sgetbs 4 [131; 97; 98] = Eof.
Proof. exact varint_examples. Qed.

(* ---- block hashes: FINITE statements -- the models reproduce the digests vendored from the pinned tree for
   seeds 0..3 and every message length 0..260 (vectors_shape); all other inputs are covered by the
   correspondence run (lengths 0..1100, 8 seeds, random data), not by a theorem ------------------------------ *)
Theorem C16_murmur3_vectors : forallb (check_seed murmur3_x86_128) murmur3_vecs = true.
Proof. exact murmur3_vectors. Qed.
Theorem C16_spooky2_vectors : forallb (check_seed spooky2_128) spooky2_vecs = true.
Proof. exact spooky2_vectors. Qed.
Example C16_vectors_shape :
  vec_shape murmur3_vecs = [(0, 16%nat, 261%nat); (1, 16%nat, 261%nat); (2, 16%nat, 261%nat); (3, 16%nat, 261%nat)] /\
  vec_shape spooky2_vecs = [(0, 16%nat, 261%nat); (1, 16%nat, 261%nat); (2, 16%nat, 261%nat); (3, 16%nat, 261%nat)].
Proof. exact vectors_shape. Qed.

(* ---- last-block size rule ------------------------------------------------------------------------------- *)
Theorem C16_block_size_rule : forall size pos bs,
  0 < bs -> blockmax_of size bs < 2^32 -> pos < blockmax_of size bs ->
  file_block_size size (blockmax_of size bs) pos bs = N.min bs (size - pos * bs).
Proof. exact block_size_rule. Qed.
Example C16_block_size_nonvacuous :
  file_block_size 2500 3 2 1024 = 452 /\ file_block_size 2048 2 1 1024 = 1024 /\ file_block_size 2500 3 0 1024 = 1024 /\
  file_block_size 0 0 4294967295 1024 = 0 /\ blockmax_of 2500 1024 = 3.
Proof. exact block_size_examples. Qed.

(* ---- which (kind, seed) hashes a block: check.c blockcmp and the rehash state ------------------------------
   A block still flagged "to rehash" is hashed with the PREVIOUS kind and the PREVIOUS seed ('C' record), any other
   block with the current kind and seed ('c' record); `snapraid rehash` therefore keeps every stored hash valid for
   every new kind and every new seed.  Tie: the vendored arrays frozen in the middle of a rehash are repaired by the
   binary under test, and every hash stored in the vendored content files is recomputed with the extracted
   block_hash.  (Split parity addressing by the RECORDED sizes is C17's: C17_split_find_bijection,
   C17_read_after_reopen, C17_chsize_missing in Props/Properties_C17.v; here it is tied by the repair of the vendored
   split arrays after losing / truncating each split file.) *)
Theorem C16_block_hash_selection : forall c data,
  (forall k s, hc_prev c = Some (k, s) -> block_hash c true data = firstn (hc_size c) (memhash k s data)) /\
  block_hash c false data = firstn (hc_size c) (memhash (hc_kind c) (hc_seed c) data).
Proof. exact block_hash_selection. Qed.
Theorem C16_blockcmp_accepts_written : forall c rehash data, blockcmp c rehash (block_hash c rehash data) data = true.
Proof. exact blockcmp_accepts_written. Qed.
Theorem C16_blockcmp_sound : forall c rehash stored data,
  blockcmp c rehash stored data = true -> stored = block_hash c rehash data.
Proof. exact blockcmp_sound. Qed.
Theorem C16_rehash_keeps_hashes_valid : forall c nk ns data,
  block_hash (rehash_conf c nk ns) true data = block_hash c false data.
Proof. exact rehash_keeps_hashes_valid. Qed.
Theorem C16_rehash_blockcmp : forall c nk ns data,
  blockcmp (rehash_conf c nk ns) true (block_hash c false data) data = true.
Proof. exact rehash_blockcmp. Qed.
(* with the seed forgotten (previous kind, NEW seed) the statement is false *)
Theorem C16_newseed_selection_refuted :
  exists c nk ns data,
    block_hash_newseed (rehash_conf c nk ns) true data <> block_hash c false data /\
    bytes_eqb (block_hash_newseed (rehash_conf c nk ns) true data) (block_hash c false data) = false.
Proof. exact newseed_selection_refuted. Qed.
Example C16_block_hash_nonvacuous :
  length (block_hash ex_conf false ex_data) = 16%nat /\
  length (block_hash (HC Spooky2 ex_newseed (Some (Murmur3, repeat 0 16)) 8) true ex_data) = 8%nat /\
  block_hash (rehash_conf ex_conf Spooky2 ex_newseed) true ex_data = block_hash ex_conf false ex_data /\
  block_hash (rehash_conf ex_conf Spooky2 ex_newseed) false ex_data <> block_hash ex_conf false ex_data.
Proof. exact block_hash_example. Qed.

Print Assumptions C16_crc_table_ok.
Print Assumptions C16_crc_table_eq.
Print Assumptions C16_crc_slice4_eq.
Print Assumptions C16_crc_hw8_eq.
Print Assumptions C16_crc32c_gen_eq.
Print Assumptions C16_crc32c_x86_eq.
Print Assumptions C16_crc_chunking.
Print Assumptions C16_stream_crc_chunks.
Print Assumptions C16_stream_crc_stream.
Print Assumptions C16_crc_burst32.
Print Assumptions C16_crc_nonvacuous.
Print Assumptions C16_getb32_putb32.
Print Assumptions C16_getb64_putb64.
Print Assumptions C16_getble32_putble32.
Print Assumptions C16_getbs_putbs.
Print Assumptions C16_getb32_eof_strict.
Print Assumptions C16_getb64_eof_strict.
Print Assumptions C16_getble32_eof_strict.
Print Assumptions C16_getbs_eof_strict.
Print Assumptions C16_getb32_overlong.
Print Assumptions C16_sgetb32_range.
Print Assumptions C16_sgetb64_range.
Print Assumptions C16_getb32_noncanonical.
Print Assumptions C16_sgetbs_in_bounds.
Print Assumptions C16_sgetbs_len_wrap_accepts.
Print Assumptions C16_sgetbs_in_bounds_ref_refuted.
Print Assumptions C16_sgetbs_len_ok_ref_agree.
Print Assumptions C16_varint_nonvacuous.
Print Assumptions C16_murmur3_vectors.
Print Assumptions C16_spooky2_vectors.
Print Assumptions C16_vectors_shape.
Print Assumptions C16_block_size_rule.
Print Assumptions C16_block_size_nonvacuous.
Print Assumptions C16_block_hash_selection.
Print Assumptions C16_blockcmp_accepts_written.
Print Assumptions C16_blockcmp_sound.
Print Assumptions C16_rehash_keeps_hashes_valid.
Print Assumptions C16_rehash_blockcmp.
Print Assumptions C16_newseed_selection_refuted.
Print Assumptions C16_block_hash_nonvacuous.
