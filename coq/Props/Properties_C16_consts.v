(* C16 -- CRC_IV of util.h is the initial value of the CRC model (Gen/Consts.v). *)
From Coq Require Import NArith ZArith.
From Snap.Gen Require Import Consts.
From Snap.Crc Require Import CrcModel.
Local Open Scope Z_scope.

Theorem C16_consts_crc_iv : Z.of_N CRC_IV = c_CRC_IV.
Proof. exact eq_refl. Qed.
Print Assumptions C16_consts_crc_iv.
