(* C16 -- "the parity coefficients are bit-for-bit stable".
   Statements only; every proof is `exact <lemma>`.  Gen.Tables is regenerated from raid/tables.c on every run, so
   these obligations are re-checked against the coefficients the working tree contains NOW: the closed forms on the
   right-hand sides (powers of 2 and the Cauchy matrix 1/(x_i + y_j) over GF(2^8) with polynomial 0x11d) are the
   coefficients of the reference version, for every parity level 1..6, both modes and every disk index 0..250.
   A self-consistent edit of a coefficient (generation and recovery still agree) breaks one of them. *)
From Coq Require Import NArith List.
From Snap.Gen Require Import Tables.
From Snap.GF Require Import Gf TablesOk.
From Snap.Raid Require Import GenModel GenProofs.
Import ListNotations.
Local Open Scope N_scope.

Theorem C16_coeff_gfcauchy_stable : gfcauchy_rows = cf_matrix cauchyN 6.
Proof. exact gfcauchy_ok. Qed.
Print Assumptions C16_coeff_gfcauchy_stable.
Theorem C16_coeff_gfvandermonde_stable : gfvandermonde_rows = cf_matrix powerN 3.
Proof. exact gfvandermonde_ok. Qed.
Print Assumptions C16_coeff_gfvandermonde_stable.
Theorem C16_coeff_gfcauchypshufb_stable : gfcauchypshufb_rows = cf_cauchypshufb.
Proof. exact gfcauchypshufb_ok. Qed.
Print Assumptions C16_coeff_gfcauchypshufb_stable.
Theorem C16_coeff_gfmulpshufb_stable : gfmulpshufb_rows = cf_mulpshufb.
Proof. exact gfmulpshufb_ok. Qed.
Print Assumptions C16_coeff_gfmulpshufb_stable.
