(* C17 -- Parity split over several files behaves as one parity.
   Statements only; every proof is `exact <lemma>` (lemmas in coq/Split/).  The model (Split/SplitModel.v) is
   tied to cmdline/parity.c by harness/c/c17_drv.c + harness/py/check_C17.py on every run. *)
From Coq Require Import NArith ZArith List Bool Lia.
From Snap.Split Require Import SplitModel SplitAddr SplitFill SplitChsize SplitConcat SplitProofs.
Import ListNotations.
Local Open Scope N_scope.

(* --- the address map: parity_split_find is a monotone bijection [0, sum sizes) <-> {(s, o) | o < size_s} ---- *)
Theorem C17_split_find_bijection : forall sizes,
  (forall off, off < sum sizes ->
     exists s o, split_find sizes off = Some (s, o) /\ in_range sizes (s, o) /\ prefix sizes s + o = off) /\
  (forall off, sum sizes <= off -> split_find sizes off = None) /\
  (forall s o, in_range sizes (s, o) ->
     prefix sizes s + o < sum sizes /\ split_find sizes (prefix sizes s + o) = Some (s, o)) /\
  (forall off1 off2 r, split_find sizes off1 = Some r -> split_find sizes off2 = Some r -> off1 = off2) /\
  (forall off1 off2 s1 o1 s2 o2, off1 <= off2 ->
     split_find sizes off1 = Some (s1, o1) -> split_find sizes off2 = Some (s2, o2) ->
     (s1 < s2)%nat \/ (s1 = s2 /\ o1 <= o2)).
Proof. exact split_find_bijection. Qed.
Print Assumptions C17_split_find_bijection.

(* past the end: no split, and *offset is what is left after all the splits; negative: refused untouched *)
Theorem C17_split_find_past_end : forall sizes off, sum sizes <= off ->
  split_find_raw sizes off = (None, off - sum sizes).
Proof. exact split_find_raw_out. Qed.
Print Assumptions C17_split_find_past_end.
Theorem C17_split_find_negative : forall sizes p, split_find_z sizes (Zneg p) = (None, Zneg p).
Proof. exact split_find_z_neg. Qed.

(* no stripe straddles two files *)
Theorem C17_no_straddle : forall bs sizes pos s o, 0 < bs -> aligned bs sizes ->
  parity_addr sizes bs pos = Some (s, o) -> (bs | o) /\ o + bs <= nth s sizes 0.
Proof. exact no_straddle. Qed.
Print Assumptions C17_no_straddle.

Theorem C17_block_off_no_wrap : forall bs pos, pos < 2^32 -> bs < 2^31 -> block_off bs pos < 2^63.
Proof. exact block_off_no_wrap. Qed.

(* --- what is written at a position is read back from that position ------------------------------------------ *)
Theorem C17_read_after_write : forall bs ps pos blk ps', 0 < bs ->
  length blk = N.to_nat bs ->
  parity_write bs ps pos blk = Some ps' ->
  sizes_of ps' = sizes_of ps /\
  parity_read bs ps' pos = Some blk /\
  (forall pos' b, pos' <> pos -> parity_read bs ps pos' = Some b -> parity_read bs ps' pos' = Some b).
Proof. exact read_after_write. Qed.
Print Assumptions C17_read_after_write.

(* ... also across close / re-open with the same recorded sizes *)
Theorem C17_read_after_reopen : forall bs ps pos b, 0 < bs -> parity_read bs ps pos = Some b ->
  parity_read bs (parity_reopen ps) pos = Some b.
Proof. exact reopen_read. Qed.
Print Assumptions C17_read_after_reopen.

(* --- parity_handle_fill: the bit-by-bit growth ends at the largest block-aligned size a monotone oracle accepts *)
Theorem C17_fill_maximal : forall (ok : N -> bool) (k : N),
  (forall x y, x <= y -> ok y = true -> ok x = true) ->
  forall st_size size, (2^k | size) -> mask_down (2^k) st_size <= size ->
  exists b, handle_fill ok (2^k) st_size size = Ok b /\
    (2^k | b) /\ mask_down (2^k) st_size <= b /\ b <= size /\
    (b = size \/ ok (b + 2^k) = false) /\
    (b <> mask_down (2^k) st_size -> ok b = true) /\
    (forall x, (2^k | x) -> mask_down (2^k) st_size <= x -> x <= size -> ok x = true -> x <= b).
Proof. exact fill_maximal. Qed.
Print Assumptions C17_fill_maximal.

(* the model's fuel never runs out (so EFuel is not an outcome) -- for every oracle *)
Theorem C17_fill_terminates : forall (ok : N -> bool) (k : N) fuel base delta,
  (N.to_nat (N.size delta) <= fuel)%nat -> fill_loop ok (2^k) fuel (base, delta) <> None.
Proof. exact fill_loop_fuel. Qed.

Theorem C17_hbit_is_highest_bit : forall v, hbit v = 2 ^ N.log2 v.
Proof. exact hbit_log2. Qed.

Theorem C17_limit_oracle_monotone : forall limit x y, x <= y ->
  grow_ok_limit limit y = true -> grow_ok_limit limit x = true.
Proof. exact grow_ok_limit_mono. Qed.

(* --- parity_chsize ---------------------------------------------------------------------------------------- *)
Theorem C17_chsize_ok : forall (k : N) (g : nat -> N -> bool) hs size hs' m,
  chsize g (2^k) hs size = Ok (hs', m) ->
  length hs' = length hs /\
  sum (map sz hs') = size /\
  Forall (fun h => st h = sz h /\ (2^k | sz h)) hs' /\
  Forall2 (fun h h' => valid h' <= valid h /\ valid h' <= st h') hs hs' /\
  (m = false <-> map sz hs' = map sz hs) /\
  (forall i j h hj h', (i < j)%nat -> nth_error hs i = Some h -> nth_error hs j = Some hj -> sz hj <> 0 ->
     nth_error hs' i = Some h' ->
     sz h' <= sz h /\ (st h = sz h -> sz h' = N.min (sz h) (size - prefix (map sz hs') i))).
Proof. exact chsize_ok. Qed.
Print Assumptions C17_chsize_ok.

Theorem C17_chsize_missing : forall (k : N) (g : nat -> N -> bool) hs size n,
  chsize g (2^k) hs size = Err (EMissing n) ->
  n <> 0 /\ exists hs', chsize_loop g (2^k) 0 hs size = Ok (hs', n) /\ sum (map sz hs') + n = size.
Proof. exact chsize_missing. Qed.

(* "only the last used split grows": any split with a used split somewhere after it keeps or reduces its size.
   Full strength, no hypothesis on the recorded sizes (was refuted before /repo commit 391ce18: parity_split_is_fixed
   looked at the next split only; the regression case is harness/py/c17_repro_midzero.py, run by every check). *)
Theorem C17_chsize_only_last_grows : forall k g hs size hs' m,
  chsize g (2^k) hs size = Ok (hs', m) ->
  forall i j h hj h', (i < j)%nat -> nth_error hs i = Some h -> nth_error hs j = Some hj -> sz hj <> 0 ->
    nth_error hs' i = Some h' -> sz h' <= sz h.
Proof. exact chsize_only_last_grows. Qed.
Print Assumptions C17_chsize_only_last_grows.

(* --- refinement: concatenation of the splits = the one-file parity, for any history of writes and resizes,
       for ANY growth oracle (no monotonicity, no capacity assumption, no hypothesis on the layout) ------------- *)
Theorem C17_split_concat : forall (k : N) (g : nat -> N -> bool) ops ps ps', wf (2^k) ps ->
  run_ops g (2^k) ps ops = Some ps' ->
  wf (2^k) ps' /\ concat_view ps' = fold_left (flat_op (2^k)) ops (concat_view ps).
Proof. exact split_concat. Qed.
Print Assumptions C17_split_concat.

Theorem C17_split_vs_single : forall k g1 g2 ops ps qs ps' qs', wf (2^k) ps -> wf (2^k) qs ->
  concat_view ps = concat_view qs ->
  run_ops g1 (2^k) ps ops = Some ps' -> run_ops g2 (2^k) qs ops = Some qs' ->
  concat_view ps' = concat_view qs'.
Proof. exact split_vs_single. Qed.
Print Assumptions C17_split_vs_single.

(* the oracle may change in the middle of a history (space freed / used up on a parity disk) *)
Theorem C17_split_concat_changing_oracle : forall k g1 g2 ops1 ops2 ps ps1 ps2, wf (2^k) ps ->
  run_ops g1 (2^k) ps ops1 = Some ps1 -> run_ops g2 (2^k) ps1 ops2 = Some ps2 ->
  wf (2^k) ps2 /\ concat_view ps2 = fold_left (flat_op (2^k)) (ops1 ++ ops2) (concat_view ps).
Proof. exact split_concat_changing_oracle. Qed.

(* THE HYPOTHESIS wf (every split file has its recorded, block-aligned size) of the refinement theorems:
   established by every successful resize from any state, broken by parity_truncate (fix) or by damage, and needed:
   without it a resize may lay the parity out anew and the statement is false (witness: split 0 cut to 8 of its 16
   recorded bytes and limited to 8, resize to 16; also harness/py/check_C17.py applies the flat-file oracle under wf) *)
Theorem C17_chsize_reestablishes_wf : forall k g ps size ps', chsize_data g (2^k) ps size = Ok ps' -> wf (2^k) ps'.
Proof. exact chsize_reestablishes_wf. Qed.
Theorem C17_truncate_breaks_wf : exists ps, wf (2^2) ps /\ ~ wf (2^2) (parity_truncate ps).
Proof. exact truncate_breaks_wf. Qed.
Theorem C17_split_concat_needs_wf :
  exists k g ps size ps', chsize_data g (2^k) ps size = Ok ps' /\
    concat_view ps' <> resize (concat_view ps) size.
Proof. exact split_concat_needs_wf. Qed.
Print Assumptions C17_split_concat_needs_wf.

(* one resize: success means ftruncate of the concatenation *)
Theorem C17_chsize_concat : forall (k : N) (g : nat -> N -> bool) ps size ps',
  wf (2^k) ps -> chsize_data g (2^k) ps size = Ok ps' ->
  wf (2^k) ps' /\ (2^k | size) /\ sum (sizes_of ps') = size /\ files ps' = resize (files ps) size.
Proof. exact chsize_concat. Qed.

Theorem C17_single_file_resize : forall k (p : psplit) size, wf (2^k) [p] -> (2^k | size) ->
  exists p', chsize_data (fun _ _ => true) (2^k) [p] size = Ok [p'] /\
             p_size p' = size /\ p_file p' = resize (p_file p) size.
Proof. exact single_resize_ok. Qed.

(* reading a re-opened split parity = reading the flat file *)
Theorem C17_read_is_flat : forall bs ps pos, 0 < bs -> wf bs ps ->
  parity_read bs (parity_reopen ps) pos = pread (files ps) (N.to_nat (block_off bs pos)) (N.to_nat bs).
Proof. exact read_is_flat. Qed.
Print Assumptions C17_read_is_flat.

(* what is written at a position is read back from that position after any successful resize that keeps the position
   inside the parity, and re-opening (full strength; was refuted before 391ce18) *)
Theorem C17_read_after_resize : forall k g ps pos blk ps1 size ps2, wf (2^k) ps ->
  length blk = N.to_nat (2^k) ->
  parity_write (2^k) ps pos blk = Some ps1 ->
  chsize_data g (2^k) ps1 size = Ok ps2 ->
  block_off (2^k) pos + 2^k <= size ->
  parity_read (2^k) (parity_reopen ps2) pos = Some blk.
Proof. exact read_after_resize. Qed.
Print Assumptions C17_read_after_resize.

(* --- removal of trailing splits from the configuration ---------------------------------------------------------- *)
Theorem C17_dropped_split_rule : forall configured recorded,
  (Forall (fun v => v = 0) (skipn configured recorded) ->
     load_splits configured recorded = Some (firstn configured recorded)) /\
  (~ Forall (fun v => v = 0) (skipn configured recorded) -> load_splits configured recorded = None).
Proof. exact dropped_split_rule. Qed.
Print Assumptions C17_dropped_split_rule.

Theorem C17_dropped_split_same_map : forall configured recorded kept off,
  load_splits configured recorded = Some kept -> split_find kept off = split_find recorded off.
Proof. exact dropped_split_same_map. Qed.

(* --- non-vacuity ------------------------------------------------------------------------------------------------ *)
(* a 4-split layout with an unused split at the end: hypotheses of no_straddle hold, blocks land where expected *)
Example C17_nonvacuous_addr :
  let sizes := [2048; 1024; 3072; 0] in
  aligned 1024 sizes /\
  parity_addr sizes 1024 0 = Some (0%nat, 0) /\ parity_addr sizes 1024 1 = Some (0%nat, 1024) /\
  parity_addr sizes 1024 2 = Some (1%nat, 0) /\ parity_addr sizes 1024 5 = Some (2%nat, 2048) /\
  parity_addr sizes 1024 6 = None /\ split_find_raw sizes 7000 = (None, 856).
Proof.
  cbv zeta. split.
  { repeat constructor; try (exists 2; reflexivity); try (exists 1; reflexivity); try (exists 3; reflexivity); exists 0; reflexivity. }
  vm_compute. repeat split; reflexivity.
Qed.

(* a limit hit mid-growth, not block aligned: 0 -> 8192 wanted, limit 5000: ends at 4096 *)
Example C17_nonvacuous_fill :
  handle_fill (grow_ok_limit 5000) (2^10) 0 8192 = Ok 4096 /\
  fill_trace (grow_ok_limit 5000) (2^10) (fill_fuel 8192) (0, 8192) =
    [(8192, false); (4096, true); (6144, false); (5120, false)].
Proof. vm_compute. split; reflexivity. Qed.

(* growth across two split boundaries, then shrink below the first boundary *)
Example C17_nonvacuous_chsize :
  let z := {| sz := 0; st := 0; valid := 0 |} in
  let limits := [2500; 3000; 0] in
  exists hs1 hs2,
    chsize_limits limits (2^10) [z; z; z] 6144 = Ok (hs1, true) /\ map sz hs1 = [2048; 2048; 2048] /\
    chsize_limits limits (2^10) hs1 7168 = Ok (hs2, true) /\ map sz hs2 = [2048; 2048; 3072] /\
    (exists hs3, chsize_limits limits (2^10) hs2 1024 = Ok (hs3, true) /\ map sz hs3 = [1024; 0; 0]) /\
    chsize_limits [2500; 3000; 1500] (2^10) [z; z; z] 6144 = Err (EMissing 1024).
Proof. cbv zeta. eexists. eexists. vm_compute. repeat split; try reflexivity. eexists. split; reflexivity. Qed.

(* the refinement theorem's hypothesis is satisfiable on a history that crosses split boundaries *)
Example C17_nonvacuous_concat :
  let g := limits_oracle [9; 6; 0] in
  let ps := [ {| p_size := 0; p_valid := 0; p_file := [] |}; {| p_size := 0; p_valid := 0; p_file := [] |};
              {| p_size := 0; p_valid := 0; p_file := [] |} ] in
  let ops := [OpResize 16; OpWrite 1 [1; 2; 3; 4]; OpWrite 2 [5; 6; 7; 8]; OpWrite 3 [9; 9; 9; 9]; OpResize 12;
              OpResize 20; OpWrite 4 [7; 7; 7; 7]] in
  wf (2^2) ps /\
  exists ps', run_ops g (2^2) ps ops = Some ps' /\ sizes_of ps' = [8; 4; 8] /\
    concat_view ps' = [0;0;0;0; 1;2;3;4; 5;6;7;8; 0;0;0;0; 7;7;7;7].
Proof.
  cbv zeta. split; [repeat constructor; exists 0; reflexivity|].
  eexists. vm_compute. repeat split; reflexivity.
Qed.

(* the layout that lost parity before 391ce18 (unused split between two used ones): hypotheses of
   C17_chsize_only_last_grows and C17_read_after_resize hold there and the conclusions are what is computed *)
Example C17_nonvacuous_midzero_chsize :
  let u := fun n => {| sz := n; st := n; valid := n |} in
  exists hs', chsize (fun _ _ => true) (2^10) [u 1024; u 0; u 1024] 3072 = Ok (hs', true) /\
              map sz hs' = [1024; 0; 2048].
Proof. exact chsize_midzero_example. Qed.

Example C17_nonvacuous_midzero_read :
  let ps := [ {| p_size := 4; p_valid := 4; p_file := [1; 2; 3; 4] |}; {| p_size := 0; p_valid := 0; p_file := [] |};
              {| p_size := 4; p_valid := 4; p_file := [0; 0; 0; 0] |} ] in
  exists ps1 ps2, wf (2^2) ps /\ parity_write (2^2) ps 1 [5; 6; 7; 8] = Some ps1 /\
    chsize_data (fun _ _ => true) (2^2) ps1 12 = Ok ps2 /\ sizes_of ps2 = [4; 0; 8] /\
    parity_read (2^2) (parity_reopen ps2) 1 = Some [5; 6; 7; 8] /\
    concat_view ps2 = resize (concat_view ps1) 12.
Proof. exact read_after_resize_midzero_example. Qed.

Example C17_nonvacuous_dropped :
  load_splits 2 [4096; 1024; 0; 0] = Some [4096; 1024] /\ load_splits 2 [4096; 1024; 0; 1024] = None /\
  load_splits 4 [4096; 1024] = Some [4096; 1024].
Proof. vm_compute. repeat split; reflexivity. Qed.
