(* C18 -- Include/exclude and selection filters follow the documented rules.
   Statements only; every proof is `exact <lemma>`.  Models: Filter/GlobModel.v (fnmatch as the tool calls it),
   Filter/FilterModel.v (cmdline/elem.c filter_*, state.c state_filter).  The theorems about the rule list hold for
   ANY matcher [fnm] (the C code calls the C library's); those about patterns are for [glob_match], which every run
   compares with libc fnmatch and with cmdline/fnmatch.c. *)
From Coq Require Import NArith List Bool.
From Snap.Filter Require Import GlobModel GlobProofs FilterModel FilterProofs ParseSpec.
Import ListNotations.
Local Open Scope N_scope.

(* --- patterns: the matcher computes the documented meaning ---------------------------------------------------- *)
Theorem C18_glob_spec : forall pn pat s, glob_match pn pat s = true <-> Matches pn (tokenize pat) s.
Proof. exact glob_spec. Qed.

(* the meaning of each pattern form, byte by byte *)
Theorem C18_glob_empty : forall pn s, glob_match pn [] s = true <-> s = [].
Proof. exact glob_empty. Qed.
Theorem C18_glob_ordinary : forall pn c p s, ordinary c ->
  glob_match pn (c :: p) s = true <-> exists s', s = c :: s' /\ glob_match pn p s' = true.
Proof. exact glob_ordinary. Qed.
Theorem C18_glob_escape : forall pn c p s,
  glob_match pn (BSLASH :: c :: p) s = true <-> exists s', s = c :: s' /\ glob_match pn p s' = true.
Proof. exact glob_escape. Qed.
Theorem C18_glob_qmark : forall pn p s,
  glob_match pn (QMARK :: p) s = true <-> exists x s', s = x :: s' /\ WildOk pn x /\ glob_match pn p s' = true.
Proof. exact glob_qmark. Qed.
Theorem C18_glob_star : forall pn p s,
  glob_match pn (STAR :: p) s = true <->
  star_blocked pn (tokenize p) = false /\
  exists w s', s = w ++ s' /\ Forall (WildOk pn) w /\ glob_match pn p s' = true.
Proof. exact glob_star. Qed.
Theorem C18_glob_set : forall pn p1 neg q rs rest s,
  br_open p1 = (neg, q) -> br_items (S (length q)) true q = BrOk rs rest ->
  glob_match pn (LBRACK :: p1) s = true <->
  exists x s', s = x :: s' /\ WildOk pn x /\ InSet neg rs x /\ glob_match pn rest s' = true.
Proof. exact glob_set. Qed.
(* the fuel of the tokenizer is always sufficient (the fuel-exhaustion token is never produced) *)
Theorem C18_tokenize_fuel : forall f p, (length p < f)%nat -> tokenize_f f p = tokenize p.
Proof. exact tokenize_fuel. Qed.

(* --- rooted patterns: wildcards never match a slash ------------------------------------------------------------ *)
Theorem C18_rooted_no_slash_cross : forall f path name isdir,
  f_is_path f = true ->
  filter_apply glob_match f path name isdir = true ->
  slashes path = lit_slashes (tokenize (tl (f_pattern f))) /\
  Forall2 (fun tc sc => Matches true tc sc /\ slash_free tc /\ slashes sc = O)
          (toks_components (tokenize (tl (f_pattern f)))) (str_components path).
Proof. exact rooted_no_slash_cross. Qed.

(* --- the rule list -------------------------------------------------------------------------------------------- *)
Theorem C18_first_match_decides : forall fnm fl1 f fl2 disk sub isdir def,
  (forall g, In g fl1 -> rule_matches fnm g disk sub isdir = false) ->
  rule_matches fnm f disk sub isdir = true ->
  filter_element fnm (fl1 ++ f :: fl2) disk sub isdir def = negb (f_include f).
Proof. exact first_match_decides. Qed.

Theorem C18_default_direction : forall fnm fl disk sub isdir def,
  (forall g, In g fl -> rule_matches fnm g disk sub isdir = false) ->
  filter_element fnm fl disk sub isdir def =
  if def then false
  else match last_rule fl with
       | None => false
       | Some f => f_include f
       end.
Proof. exact default_direction. Qed.

Theorem C18_last_rule_is_last : forall fl f, last_rule (fl ++ [f]) = Some f.
Proof. exact last_rule_snoc. Qed.

Theorem C18_subdir_default_include : forall fnm fl disk sub,
  (forall g, In g fl -> rule_matches fnm g disk sub true = false) ->
  filter_subdir fnm fl disk sub = false.
Proof. exact subdir_default_include. Qed.

(* --- which components a rule sees ------------------------------------------------------------------------------ *)
Theorem C18_rule_component_spec : forall fnm f sub isdir,
  filter_recurse fnm f sub isdir = true <->
  (exists d r, sub = d ++ SLASH :: r /\ filter_apply fnm f d (last_comp d) true = true)
  \/ filter_apply fnm f sub (last_comp sub) isdir = true.
Proof. exact rule_component_spec. Qed.

Theorem C18_dir_rule_matches_below : forall fnm f d rest isdir,
  filter_recurse fnm f d true = true -> filter_recurse fnm f (d ++ SLASH :: rest) isdir = true.
Proof. exact dir_rule_matches_below. Qed.

Theorem C18_dir_rule_takes_subtree : forall fnm fl1 f fl2 disk d rest isdir def,
  f_is_disk f = false ->
  filter_recurse fnm f d true = true ->
  (forall g, In g fl1 -> rule_matches fnm g disk (d ++ SLASH :: rest) isdir = false) ->
  filter_element fnm (fl1 ++ f :: fl2) disk (d ++ SLASH :: rest) isdir def = negb (f_include f).
Proof. exact dir_rule_takes_subtree. Qed.

Theorem C18_dir_match_needs_dir_rule : forall fnm f d, filter_recurse fnm f d true = true -> f_is_dir f = true.
Proof. exact dir_match_needs_dir_rule. Qed.

Theorem C18_file_rule_last_component : forall fnm f sub,
  f_is_dir f = false ->
  filter_recurse fnm f sub false =
  if f_is_path f then fnm true (tl (f_pattern f)) sub else fnm false (f_pattern f) (last_comp sub).
Proof. exact file_rule_last_component. Qed.

Theorem C18_file_rule_ignores_dirs : forall fnm f sub, f_is_dir f = false -> filter_recurse fnm f sub true = false.
Proof. exact file_rule_ignores_dirs. Qed.

(* --- pattern forms: rejected and accepted ---------------------------------------------------------------------- *)
Theorem C18_parse_rejects_dots : forall incl a dots b,
  Forall (fun c => c = DOT) dots -> dots <> [] ->
  (a = [] \/ exists a', a = a' ++ [SLASH]) ->
  (b = [] \/ exists b', b = SLASH :: b') ->
  filter_parse incl (a ++ dots ++ b) = None.
Proof. exact parse_rejects_dots. Qed.

Theorem C18_parse_rejects_double_slash : forall incl a b, filter_parse incl (a ++ SLASH :: SLASH :: b) = None.
Proof. exact parse_rejects_double_slash. Qed.

Theorem C18_parse_rejects_relative : forall incl a b,
  b <> [] -> starts_slash (a ++ SLASH :: b) = false -> filter_parse incl (a ++ SLASH :: b) = None.
Proof. exact parse_rejects_relative. Qed.

Theorem C18_parse_file_form : forall incl c, no_slash c -> valid_comp c = true ->
  filter_parse incl c = Some (mkFilter incl c false false false).
Proof. exact parse_file_form. Qed.
Theorem C18_parse_dir_form : forall incl c, no_slash c -> valid_comp c = true ->
  filter_parse incl (c ++ [SLASH]) = Some (mkFilter incl c false false true).
Proof. exact parse_dir_form. Qed.
Theorem C18_parse_path_file_form : forall incl cs c, Forall good_comp cs -> good_comp c ->
  filter_parse incl (join_path (cs ++ [c])) = Some (mkFilter incl (join_path (cs ++ [c])) false true false).
Proof. exact parse_path_file_form. Qed.
Theorem C18_parse_path_dir_form : forall incl cs c, Forall good_comp cs -> good_comp c ->
  filter_parse incl (join_path (cs ++ [c]) ++ [SLASH]) = Some (mkFilter incl (join_path (cs ++ [c])) false true true).
Proof. exact parse_path_dir_form. Qed.

(* the complete specification: accepted iff the components (text split at '/') are well formed -- every component
   holds a byte other than '.', except that the first may be empty (leading slash) and the last may be empty
   (trailing slash) -- and a text with an inner slash starts with a slash; flags and stored pattern as computed
   by [parse_spec] *)
Theorem C18_filter_parse_spec : forall incl pat, filter_parse incl pat = parse_spec incl pat.
Proof. exact filter_parse_spec. Qed.
Theorem C18_filter_parse_accepts : forall incl pat,
  (exists f, filter_parse incl pat = Some f) <->
  (let (c, rest) := split_str pat in
   comps_ok c rest = true /\
   match rest with
   | [] => True
   | _ :: more => (is_nil more && is_nil (last rest []) = true) \/ is_nil c = true
   end).
Proof. exact filter_parse_accepts. Qed.

(* --- hidden files, content / temporary / lock files ------------------------------------------------------------ *)
Theorem C18_content_lock_tmp_always_excluded : forall fnm nohidden contents fl disk dir sub name isdir c,
  In c contents ->
  (dir ++ sub = c \/ dir ++ sub = c ++ SUFFIX_TMP \/ dir ++ sub = c ++ SUFFIX_LOCK) ->
  scan_skips fnm nohidden contents fl disk dir sub name isdir = true.
Proof. exact content_lock_tmp_always_excluded. Qed.
(* at full strength (any spelling of the content path) the rule is REFUTED: elem.c:341-364 compares text.
   Witness: data dir /d/, configuration "content /d/./content": the entry /d/content is not skipped.
   The check replays the witness on the real binary.  C18_content_lock_tmp_always_excluded above is the partial
   theorem, with the exact extra hypothesis (the configured path is literally <data dir><sub>). *)
Theorem C18_content_excluded_refuted :
  exists fnm nohidden contents fl disk dir sub name isdir c,
    In c contents /\ same_file (dir ++ sub) c /\
    scan_skips fnm nohidden contents fl disk dir sub name isdir = false.
Proof. exact content_excluded_refuted. Qed.
Theorem C18_content_excluded_full_is_false : ~ content_excluded_full.
Proof. exact content_excluded_full_is_false. Qed.
Theorem C18_content_spec : forall contents path,
  filter_content contents path = true <->
  exists c, In c contents /\ (path = c \/ path = c ++ SUFFIX_TMP \/ path = c ++ SUFFIX_LOCK).
Proof. exact content_spec. Qed.
Theorem C18_hidden_skipped : forall fnm contents fl disk dir sub name isdir,
  scan_skips fnm true contents fl disk dir sub (DOT :: name) isdir = true.
Proof. exact hidden_skipped. Qed.
Theorem C18_hidden_kept_without_option : forall fnm contents fl disk dir sub name isdir,
  scan_skips fnm false contents fl disk dir sub name isdir =
  (filter_content contents (dir ++ sub)
   || (if isdir then filter_subdir fnm fl disk sub else filter_path fnm fl disk sub)).
Proof. exact hidden_kept_without_option. Qed.

(* --- selection in check / fix (-f -d -m -e) -------------------------------------------------------------------- *)
Theorem C18_selection_exact : forall fnm fl_file fl_disk missing error e,
  (fl_file <> [] \/ fl_disk <> [] \/ missing = true \/ error = true) ->
  sel_excluded fnm fl_file fl_disk missing error e = false <->
  (match e_kind e with
   | KDir => filter_emptydir fnm fl_disk (e_disk e) (e_sub e) = false /\
             filter_emptydir fnm fl_file (e_disk e) (e_sub e) = false
   | _ => filter_path fnm fl_disk (e_disk e) (e_sub e) = false /\
          filter_path fnm fl_file (e_disk e) (e_sub e) = false
   end) /\
  (missing = true -> e_present e = false) /\
  (error = true -> e_kind e = KFile -> e_has_bad e = true).
Proof. exact selection_exact. Qed.
Theorem C18_selection_none : forall fnm e, sel_excluded fnm [] [] false false e = false.
Proof. exact selection_none. Qed.
Theorem C18_disk_list_spec : forall fnm fl disk sub,
  Forall (fun f => f_is_disk f = true /\ f_include f = true) fl -> fl <> [] ->
  filter_path fnm fl disk sub = negb (existsb (fun f => fnm false (f_pattern f) disk) fl).
Proof. exact disk_list_spec. Qed.

(* --- the rule named by "Excluding ... for rule '...'" (the reason out-parameter of filter_element) ------------- *)
Theorem C18_filter_reason_result : forall fnm fl disk sub isdir def,
  fst (filter_reason fnm fl disk sub isdir def) = filter_element fnm fl disk sub isdir def.
Proof. exact filter_reason_result. Qed.
Theorem C18_filter_reason_spec : forall fnm fl disk sub isdir def,
  fst (filter_reason fnm fl disk sub isdir def) = true ->
  snd (filter_reason fnm fl disk sub isdir def) =
  match first_match_idx fnm O fl disk sub isdir with
  | Some k => Some k
  | None => match fl with [] => None | _ :: _ => Some (length fl - 1)%nat end
  end.
Proof. exact filter_reason_spec. Qed.
Theorem C18_scan_why_skips : forall fnm nohidden contents fl disk dir sub name isdir,
  scan_skips fnm nohidden contents fl disk dir sub name isdir = true <->
  scan_why fnm nohidden contents fl disk dir sub name isdir <> WKeep.
Proof. exact scan_why_skips. Qed.
Print Assumptions C18_filter_reason_spec.

(* --- which parity files a selection leaves alone (state_filter; manual -d: "You can also specify parity disks") ---
   without -d: any -f or -m excludes every parity file ("nothing outside the selection is written"), -e alone does not;
   with -d: a parity file is kept iff a -d name matches its name.  The check compares this rule with the real
   fix/check on damaged arrays (byte snapshots of every parity file before/after). *)
Theorem C18_parity_excluded_no_disk_option : forall fnm fl_file missing error pname,
  parity_excluded fnm fl_file [] missing error pname =
  missing || (match fl_file with [] => false | _ :: _ => true end).
Proof. exact parity_excluded_no_disk_option. Qed.
Theorem C18_parity_excluded_by_missing : forall fnm fl_file error pname,
  parity_excluded fnm fl_file [] true error pname = true.
Proof. exact parity_excluded_by_missing. Qed.
Theorem C18_parity_excluded_by_file_filter : forall fnm f fl_file missing error pname,
  parity_excluded fnm (f :: fl_file) [] missing error pname = true.
Proof. exact parity_excluded_by_file_filter. Qed.
Theorem C18_parity_kept_without_selection : forall fnm error pname,
  parity_excluded fnm [] [] false error pname = false.
Proof. exact parity_kept_without_selection. Qed.
Theorem C18_parity_excluded_disk_option : forall fnm fl_file fl_disk missing error pname,
  Forall (fun f => f_is_disk f = true /\ f_include f = true) fl_disk -> fl_disk <> [] ->
  parity_excluded fnm fl_file fl_disk missing error pname =
  negb (existsb (fun f => fnm false (f_pattern f) pname) fl_disk).
Proof. exact parity_excluded_disk_option. Qed.

Print Assumptions C18_parity_excluded_no_disk_option.
Print Assumptions C18_parity_excluded_disk_option.
Print Assumptions C18_glob_spec.
Print Assumptions C18_glob_star.
Print Assumptions C18_glob_set.
Print Assumptions C18_tokenize_fuel.
Print Assumptions C18_rooted_no_slash_cross.
Print Assumptions C18_first_match_decides.
Print Assumptions C18_default_direction.
Print Assumptions C18_rule_component_spec.
Print Assumptions C18_dir_rule_takes_subtree.
Print Assumptions C18_file_rule_last_component.
Print Assumptions C18_parse_rejects_dots.
Print Assumptions C18_parse_rejects_double_slash.
Print Assumptions C18_parse_rejects_relative.
Print Assumptions C18_filter_parse_spec.
Print Assumptions C18_parse_path_file_form.
Print Assumptions C18_parse_path_dir_form.
Print Assumptions C18_content_lock_tmp_always_excluded.
Print Assumptions C18_content_excluded_refuted.
Print Assumptions C18_selection_exact.
Print Assumptions C18_disk_list_spec.

(* --- non-vacuity: the hypotheses are satisfiable on non-trivial instances, the documented examples evaluate ---- *)
(* byte strings: "*.c" = 42 46 99, "tmp" = 116 109 112, "a" = 97, "b" = 98, "x" = 120 *)
Definition ex_rules : list filter :=
  match filter_parse false [42; 46; 117] (* exclude *.u *),
        filter_parse false [116; 109; 112; 47] (* exclude tmp/ *),
        filter_parse true [47; 109; 42; 47] (* include /m*/ *) with
  | Some r1, Some r2, Some r3 => [r1; r2; r3]
  | _, _, _ => []
  end.

Example C18_nonvacuous_rules :
  length ex_rules = 3%nat /\
  (* m1/x.u : first rule matches -> excluded *)
  g_filter_path ex_rules [100] [109; 49; 47; 120; 46; 117] = true /\
  (* m1/tmp/x : the directory rule tmp/ matches a directory above -> excluded *)
  g_filter_path ex_rules [100] [109; 49; 47; 116; 109; 112; 47; 120] = true /\
  (* m1/a/x : /m*/ matches the directory m1 above -> included *)
  g_filter_path ex_rules [100] [109; 49; 47; 97; 47; 120] = false /\
  (* a/m1/x : /m*/ is rooted, no rule matches, last rule is an include -> excluded *)
  g_filter_path ex_rules [100] [97; 47; 109; 49; 47; 120] = true /\
  (* the directory a itself is entered by the scan, but is not kept as an empty directory *)
  g_filter_subdir ex_rules [100] [97] = false /\
  g_filter_emptydir ex_rules [100] [97] = true.
Proof. vm_compute. repeat split. Qed.

Example C18_nonvacuous_glob :
  glob_match true [97; 42; 47; 91; 33; 97; 45; 99; 93; 63; 92; 42] (* a*/[!a-c]?\* *)
                  [97; 98; 98; 47; 120; 121; 42] (* abb/xy* *) = true /\
  glob_match true [97; 42; 120] [97; 47; 120] = false /\            (* a*x vs a/x, pathname *)
  glob_match false [97; 42; 120] [97; 47; 120] = true /\           (* a*x vs a/x, name mode *)
  glob_match false [42] [46; 104] = true /\                        (* * matches a leading period *)
  glob_match true [42; 92; 47; 120] [97; 47; 120] = false /\       (* the libc quirk: *\/x never matches *)
  star_blocked true (tokenize [92; 47; 120]) = true /\
  tokenize [91; 93; 97; 45; 93; 91; 120] = [TSet false [(93, 93); (97, 97); (45, 45)]; TLit false 91; TLit false 120].
Proof. vm_compute. repeat split. Qed.

Example C18_nonvacuous_parse :
  filter_parse true [46; 46; 47; 97] = None /\                     (* ../a *)
  filter_parse true [97; 47; 98] = None /\                         (* a/b *)
  filter_parse true [47; 97; 47; 47; 98] = None /\                 (* /a//b *)
  filter_parse true [47; 97; 47; 98; 47] = Some (mkFilter true [47; 97; 47; 98] false true true) /\
  good_comp [97; 46] /\ good_comp [46; 97] /\
  split_str [47; 97; 47; 98; 47] = ([], [[97]; [98]; []]) /\ comps_ok [] [[97]; [98]; []] = true /\
  comps_ok [] [[97]; [46; 46]; [98]] = false /\ comps_ok [97] [[98]] = true /\ parse_spec true [97; 47; 98] = None.
Proof. vm_compute. repeat split. Qed.

(* the content rule is EXACT: <content>, <content>.tmp, <content>.lock are skipped, look-alike names are not
   ("/d/content" = 47 100 47 99 111 110 116 101 110 116; ".tmp.bak", ".lock~", "2" appended) *)
Example C18_nonvacuous_content :
  let c := [47; 100; 47; 99; 111; 110; 116; 101; 110; 116] in
  filter_content [c] c = true /\
  filter_content [c] (c ++ SUFFIX_TMP) = true /\
  filter_content [c] (c ++ SUFFIX_LOCK) = true /\
  filter_content [c] (c ++ SUFFIX_TMP ++ [46; 98; 97; 107]) = false /\
  filter_content [c] (c ++ SUFFIX_TMP ++ [50]) = false /\
  filter_content [c] (c ++ SUFFIX_LOCK ++ [126]) = false /\
  filter_content [c] (c ++ SUFFIX_LOCK ++ [101; 100]) = false /\
  filter_content [c] (c ++ [50]) = false /\
  filter_content [c] (removelast c) = false.
Proof. vm_compute. repeat split. Qed.

Example C18_nonvacuous_selection :
  let ff := match filter_parse true [42; 46; 99] with Some f => [f] | None => [] end in
  let fd := match filter_parse_disk true [100; 49] with Some f => [f] | None => [] end in
  g_sel_excluded ff fd false false (mkElem KFile [100; 49] [97; 47; 120; 46; 99] true false) = false /\
  g_sel_excluded ff fd false false (mkElem KFile [100; 50] [97; 47; 120; 46; 99] true false) = true /\
  g_sel_excluded ff fd false false (mkElem KFile [100; 49] [97; 47; 120; 46; 104] true false) = true /\
  g_sel_excluded ff [] true false (mkElem KFile [100; 49] [120; 46; 99] true false) = true /\
  g_sel_excluded [] [] false true (mkElem KFile [100; 49] [120; 46; 99] true false) = true /\
  g_sel_excluded [] [] false true (mkElem KLink [100; 49] [120; 46; 99] true false) = false /\
  g_parity_excluded ff [] false false [112] = true /\
  g_parity_excluded [] fd false false [112] = true /\
  g_parity_excluded [] [] false true [112] = false.
Proof. vm_compute. repeat split. Qed.
