(* C19 -- move, copy and import shortcuts never accept unverified data.
   Statements only; models: Scan/ScanModel.v (scan.c + the --force-nocopy reader of state.c), Array/SyncModel.v (sync loop,
   shared with C06), Scan/PrehashModel.v (sync -h); proofs: Scan/{ScanSteps,ScanInv,ScanSound,ScanCopy,StripeProofs,
   PrehashProofs,FetchModel}.v.  Hashes are abstract (`hashf`): "the data hashes to h" is an equation between hash values;
   collision-freedom between a block and its decoy is the assumption under which an equal hash means equal data.

   Vocabulary: ematch e f      the file f records the listing entry e (path, size, time-stamp s/ns, inode)
               disk_sound      what the scan leaves for one disk (ScanSound.v); its field ds_blk is identity_keeps
               copy_source_ok  what copy detection demands of the source (ScanCopy.v) *)
From Coq Require Import NArith ZArith List Bool Arith.
From Snap.Array Require Import ArrayDefs SyncModel.
From Snap.Scan Require Import ScanModel PrehashModel ScanInv ScanSound ScanCopy StripeProofs PrehashProofs FetchModel ScanExamples.
Import ListNotations.
Local Open Scope N_scope.

(* 1. identity_keeps: after a scan, a block still recorded as synced (BLK) belongs to a file that has the blocks, the size
      and the time-stamp of a file of the OLD content of the same disk, re-identified by its path or -- only when the disk
      has usable past inodes -- by its inode (an old nanosecond field that was "unknown" accepts any value).
      Everything else is CHG or REP and will be read by the next sync. *)
Theorem C19_identity_keeps :
  forall (basef : N -> N) (bs : N) (clearpast nocopy : bool) (inf : list (option info)) (usable : list bool)
         (c : content) (listing : list (list lentry)) (o : scan_out),
    scan basef bs clearpast nocopy inf usable c listing = Some o ->
    forall (k : nat) (d0 : cdisk), nth k (c_disks c) None = Some d0 ->
    exists dk : cdisk, nth k (c_disks (sc_content o)) None = Some dk /\
    forall f : cfile, In f (cd_files dk) -> (exists b : fblock, In b (cf_blocks f) /\ fb_state b = SBlk) ->
    exists f0 : cfile, In f0 (cd_files d0) /\ cf_blocks f = cf_blocks f0 /\ cf_size f = cf_size f0 /\ cf_mtime f = cf_mtime f0 /\
                       cf_copy f = cf_copy f0 /\ (cf_nsec f = cf_nsec f0 \/ cf_nsec f0 = (-1)%Z) /\
                       (cf_name f = cf_name f0 \/ (nth k usable false = true /\ cf_inode f = cf_inode f0)).
Proof. exact identity_keeps. Qed.
Print Assumptions C19_identity_keeps.

(* 1b. the same rule seen from the listing: the kept file records an entry whose size, seconds AND nanoseconds equal the old
       record's (only an old "unknown" (-1) nanosecond field accepts any value -- there is no exception on the side of the
       file system, e.g. for a zero sub-second part), under the same path or, with usable inodes, the same inode. *)
Theorem C19_identity_needs_stamp :
  forall (usable : bool) (d0 : cdisk) (L : list lentry) (dk : cdisk),
    disk_sound usable d0 L dk ->
    forall f : cfile, In f (cd_files dk) -> (exists b : fblock, In b (cf_blocks f) /\ fb_state b = SBlk) ->
    exists (e : lentry) (f0 : cfile),
      In e L /\ le_kind e = LFile /\ ematch e f /\ In f0 (cd_files d0) /\ cf_blocks f = cf_blocks f0 /\
      le_size e = cf_size f0 /\ le_mtime e = cf_mtime f0 /\ (le_nsec e = cf_nsec f0 \/ cf_nsec f0 = (-1)%Z) /\
      (le_name e = cf_name f0 \/ (usable = true /\ le_inode e = cf_inode f0)).
Proof. exact identity_needs_stamp. Qed.
Print Assumptions C19_identity_needs_stamp.

(* 1c. `usable` (has_past_inodes of scan.c): recorded inodes are used only when the file system keeps inode numbers, the disk
       reports a UUID, and that UUID is the recorded one -- in particular never under an empty recorded UUID (0). *)
Theorem C19_inodes_need_uuid :
  forall (volatile : bool) (recorded current : N),
    has_past_inodes volatile recorded current = true <-> volatile = false /\ current <> 0%N /\ recorded = current.
Proof. exact has_past_inodes_spec. Qed.
Print Assumptions C19_inodes_need_uuid.
Theorem C19_inodes_empty_recorded_uuid : forall (volatile : bool) (current : N), has_past_inodes volatile 0%N current = false.
Proof. exact has_past_inodes_empty_recorded. Qed.
Print Assumptions C19_inodes_empty_recorded_uuid.
Example C19_ex_uuid : has_past_inodes false 3 3 = true /\ has_past_inodes false 0 3 = false /\ has_past_inodes false 3 0 = false /\ has_past_inodes false 2 3 = false.
Proof. vm_compute. repeat split; reflexivity. Qed.

(* 2. copy_provisional. (a) the source picked by copy detection has the name (the PATH when the nanoseconds are zero or
      unknown), the size and the time-stamp of the new entry, at least one block and no block without an up-to-date hash;
      (b) the file created from it has only REP blocks carrying the source's hashes, the one created without a source only
      CHG blocks with the INVALID hash -- never BLK. *)
Theorem C19_copy_source :
  forall (basef : N -> N) (inf : list (option info)) (e : lentry) (w : world) (o : cfile),
    copy_search basef inf e w = Some o ->
    (exists d : sdisk, In (Some d) w /\ in_sdisk o d) /\ copy_source_ok basef e o.
Proof. exact copy_search_spec. Qed.
Print Assumptions C19_copy_source.

Theorem C19_copy_provisional :
  forall (bs : N) (e : lentry) (src : option cfile) (b : fblock),
    In b (cf_blocks (new_file bs e src)) ->
    match src with
    | None => b = mkFB SChg 0 HInvalid
    | Some o => fb_state b = SRep /\ exists i : nat, fb_hash b = fb_hash (nth i (cf_blocks o) (mkFB SChg 0 HInvalid))
    end.
Proof. exact new_file_blocks. Qed.
Print Assumptions C19_copy_provisional.

(* 3. rep_verified_before_blk, on one iteration of the sync loop (SyncModel.sync_stripe, any options, any faults):
      a block that is REP or CHG before the iteration and BLK after it was read in this iteration, and
      REP: the hash of what was read equals the recorded (possibly inherited) hash, which is kept;
      CHG: the recorded hash is the hash of what was read. *)
Theorem C19_rep_verified_before_blk :
  forall (hashf : bid -> N -> hval) (bs : N) (nlev : nat) (o : sopts) (iob : nat) (now : N) (c : content) (par : list penc)
         (fs : list (option fsdisk)) (faults : list (option rd)) (pos j : nat) (d : cdisk) (f : cfile) (idx : nat) (b : fblock),
    nth j (c_disks c) None = Some d -> slot_at d pos = SFile f idx b -> fb_state b <> SBlk ->
    nth j faults None <> Some RdNone ->
    let r := sync_stripe hashf bs nlev o now iob c par fs faults pos in
    forall (d' : cdisk) (f' : cfile) (idx' : nat) (b' : fblock),
      nth j (c_disks (so_content r)) None = Some d' -> slot_at d' pos = SFile f' idx' b' -> fb_state b' = SBlk ->
      so_bail r = false /\
      exists (blk : bid) (len : N),
        read_slot bs (nth j fs None) (SFile f idx b) (nth j faults None) = RdOk blk len /\
        (fb_state b = SRep -> hashf blk len = fb_hash b /\ fb_hash b' = fb_hash b) /\
        (fb_state b = SChg -> fb_hash b' = hashf blk len).
Proof. exact rep_verified_before_blk. Qed.
Print Assumptions C19_rep_verified_before_blk.

(* ... and a REP block whose data does not hash to the recorded value: no parity is written for the stripe, the run
   bails or counts an error (failing exit status), the block stays REP with its hash. *)
Theorem C19_rep_mismatch_refused :
  forall (hashf : bid -> N -> hval) (bs : N) (nlev : nat) (o : sopts) (iob : nat) (now : N) (c : content) (par : list penc)
         (fs : list (option fsdisk)) (faults : list (option rd)) (pos j : nat) (d : cdisk) (f : cfile) (idx : nat) (b : fblock)
         (blk : bid) (len : N),
    nth j (c_disks c) None = Some d -> slot_at d pos = SFile f idx b -> fb_state b = SRep ->
    read_slot bs (nth j fs None) (SFile f idx b) (nth j faults None) = RdOk blk len -> hashf blk len <> fb_hash b ->
    let r := sync_stripe hashf bs nlev o now iob c par fs faults pos in
    so_write r = None /\ (so_bail r = true \/ (1 <= so_nerr r)%nat) /\
    exists (d' : cdisk) (f' : cfile), nth j (c_disks (so_content r)) None = Some d' /\ slot_at d' pos = SFile f' idx b.
Proof. exact rep_mismatch_refused. Qed.
Print Assumptions C19_rep_mismatch_refused.

(* 4. prehash_parity_untouched (sync -h): a REP block of the range whose data does not hash to the recorded value sets
      skip_sync in the hashing phase; with skip_sync set the run returns the parity it was given (no write, no resize),
      does not enter the sync loop, and fails. *)
Theorem C19_prehash_mismatch_skips :
  forall (hashf : bid -> N -> hval) (bs : N) (fs : list (option fsdisk)) (faults : nat -> nat -> option rd) (start mx : nat)
         (c : content) (j i : nat) (d : cdisk) (f : cfile) (idx : nat) (b : fblock) (blk : bid) (len : N),
    nth j (c_disks c) None = Some d -> slot_at d i = SFile f idx b -> fb_state b = SRep -> (start <= i < mx)%nat ->
    read_slot bs (nth j fs None) (SFile f idx b) (faults j i) = RdOk blk len -> hashf blk len <> fb_hash b ->
    hp_skip (hash_process hashf bs fs faults start mx c) = true.
Proof. exact prehash_mismatch_skips. Qed.
Print Assumptions C19_prehash_mismatch_skips.

Theorem C19_prehash_parity_untouched :
  forall (hashf : bid -> N -> hval) (bs : N) (nlev : nat) (o : sopts) (now : N) (fs : list (option fsdisk))
         (hfaults : nat -> nat -> option rd) (faults : nat -> list (option rd)) (start count : nat) (c : content) (par : parity),
    let mx := if negb (Nat.eqb count 0) && (start + count <? allocated_size c)%nat then (start + count)%nat else allocated_size c in
    hp_skip (hash_process hashf bs fs hfaults start mx c) = true ->
    let r := sync_run hashf bs nlev o true now fs hfaults faults start count c par in
    sy_parity r = par /\ sy_skipped r = true /\ sy_err r = 0%nat /\ sy_content r = hp_c (hash_process hashf bs fs hfaults start mx c).
Proof. exact prehash_parity_untouched. Qed.
Print Assumptions C19_prehash_parity_untouched.

Theorem C19_prehash_skip_fails :
  forall (hashf : bid -> N -> hval) (bs : N) (nlev : nat) (o : sopts) (now : N) (fs : list (option fsdisk))
         (hfaults : nat -> nat -> option rd) (faults : nat -> list (option rd)) (start count : nat) (c : content) (par : parity),
    let r := sync_run hashf bs nlev o true now fs hfaults faults start count c par in
    sy_skipped r = true -> sync_fails r = true.
Proof. exact prehash_skip_fails. Qed.
Print Assumptions C19_prehash_skip_fails.

(* 5. nocopy_drops: the reader under --force-nocopy leaves no REP block (each becomes CHG with the INVALID hash at the
      same position), and a scan with --force-nocopy of a content without REP blocks creates none. *)
Theorem C19_nocopy_load_no_rep : forall c : content, content_no_rep (nocopy_load c).
Proof. exact nocopy_load_no_rep. Qed.
Print Assumptions C19_nocopy_load_no_rep.

Theorem C19_nocopy_load_blocks :
  forall (c : content) (k : nat) (d : cdisk) (f : cfile) (b : fblock),
    nth k (c_disks c) None = Some d -> In f (cd_files d) -> In b (cf_blocks f) ->
    exists (d' : cdisk) (f' : cfile) (b' : fblock),
      nth k (c_disks (nocopy_load c)) None = Some d' /\ In f' (cd_files d') /\ In b' (cf_blocks f') /\
      cf_name f' = cf_name f /\ fb_pos b' = fb_pos b /\
      (fb_state b = SRep -> fb_state b' = SChg /\ fb_hash b' = HInvalid) /\ (fb_state b <> SRep -> b' = b).
Proof. exact nocopy_load_blocks. Qed.
Print Assumptions C19_nocopy_load_blocks.

Theorem C19_nocopy_scan_no_rep :
  forall (basef : N -> N) (bs : N) (clearpast : bool) (inf : list (option info)) (usable : list bool) (c : content)
         (listing : list (list lentry)) (o : scan_out),
    content_no_rep c -> scan basef bs clearpast true inf usable c listing = Some o -> content_no_rep (sc_content o).
Proof. exact nocopy_scan_no_rep. Qed.
Print Assumptions C19_nocopy_scan_no_rep.

(* 6. fetch_verified: a block offered by an import directory, a search directory or a duplicate replaces a lost block only
      if it hashes (over the block's length) to the recorded hash of that block. *)
Theorem C19_fetch_verified :
  forall (hashf : bid -> N -> hval) (cands : list candidate) (size : N) (mtime nsec : Z) (want : hval) (len : N) (x : bid),
    fetch hashf cands size mtime nsec want len = Some x -> hashf x len = want.
Proof. exact fetch_verified. Qed.
Print Assumptions C19_fetch_verified.

(* ... and only for a block whose recorded hash is the hash of its own data (BLK, REP): the hash field of a CHG block is a PAST
   hash (what the parity position held before), data matching it is not the block's data *)
Theorem C19_repair_fetch_verified :
  forall (hashf : bid -> N -> hval) (st : bstate) (cands : list candidate) (size : N) (mtime nsec : Z) (want : hval) (len : N) (x : bid),
    repair_fetch hashf st cands size mtime nsec want len = Some x -> st <> SChg /\ hashf x len = want.
Proof. exact repair_fetch_verified. Qed.
Print Assumptions C19_repair_fetch_verified.
Example C19_ex_fetch :
  repair_fetch ex_hf SBlk [mkCand 10 5%Z 6%Z None 3%N] 10 5%Z 6%Z (ex_hf 3 10) 10 = Some 3%N /\
  repair_fetch ex_hf SChg [mkCand 10 5%Z 6%Z None 3%N] 10 5%Z 6%Z (ex_hf 3 10) 10 = None /\
  repair_fetch ex_hf SRep [mkCand 10 5%Z 6%Z None 4%N] 10 5%Z 6%Z (ex_hf 3 10) 10 = None.
Proof. vm_compute. repeat split; reflexivity. Qed.

(* --- non-vacuity: the instance of Scan/ScanExamples.v (two disks; a synced file `a`, a file with a's name, size and
   time-stamp appears on the other disk) ------------------------------------------------------------------------------- *)
(* the scan inherits a's hashes as REP and counts a copy *)
Example C19_ex_copy_detected :
  match ex_scan with
  | Some o => n_copy (sc_cnt o) = 1%nat /\
              match nth 1 (c_disks (sc_content o)) None with
              | Some d => map cf_blocks (cd_files d) = [[mkFB SBlk 0 (ex_hf 4 1024)]; [mkFB SRep 1 (ex_hf 1 1024); mkFB SRep 2 (ex_hf 2 976)]]
              | None => False end
  | None => False end.
Proof. vm_compute. split; reflexivity. Qed.
(* a true copy: verified, everything BLK, no error *)
Example C19_ex_true_copy_synced :
  match ex_run false 2 with
  | Some r => sync_fails r = false /\ sy_parity r = [[PEnc [1; 4]; PEnc [2; 1]; PEnc [9; 2]]]
  | None => False end.
Proof. vm_compute. split; reflexivity. Qed.
(* a decoy (second block differs): its stripe is refused -- the block stays REP, the parity of stripe 2 is not written,
   the run fails; the first block matched and was synced *)
Example C19_ex_decoy_refused :
  match ex_run false 7 with
  | Some r => sync_fails r = true /\ sy_err r = 1%nat /\ sy_parity r = [[PEnc [1; 4]; PEnc [2; 1]; PEnc [3; 0]]] /\
              match nth 1 (c_disks (sy_content r)) None with
              | Some d => map cf_blocks (cd_files d) = [[mkFB SBlk 0 (ex_hf 4 1024)]; [mkFB SBlk 1 (ex_hf 1 1024); mkFB SRep 2 (ex_hf 2 976)]]
              | None => False end
  | None => False end.
Proof. vm_compute. repeat split; reflexivity. Qed.
(* the same with -h: nothing is written at all *)
Example C19_ex_decoy_prehash :
  match ex_run true 7 with
  | Some r => sync_fails r = true /\ sy_skipped r = true /\ sy_hsilent r = 1%nat /\ sy_parity r = ex_par
  | None => False end.
Proof. vm_compute. repeat split; reflexivity. Qed.
(* with --force-nocopy nothing is inherited *)
Example C19_ex_nocopy :
  match ex_scan_nocopy with
  | Some o => n_copy (sc_cnt o) = 0%nat /\ n_insert (sc_cnt o) = 1%nat /\
              match nth 1 (c_disks (sc_content o)) None with
              | Some d => map cf_blocks (cd_files d) = [[mkFB SBlk 0 (ex_hf 4 1024)]; [mkFB SChg 1 HZero; mkFB SChg 2 HZero]]
              | None => False end
  | None => False end.
Proof. vm_compute. repeat split; reflexivity. Qed.
