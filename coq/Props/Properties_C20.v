(* C20 -- Reports and derived views reflect the recorded state faithfully.
   Statements only; every proof is `exact <lemma>`.  Models: Report/EscModel.v (esc_tag, esc_shell, log lines),
   Report/ViewModel.v (list, dup, status loops), Report/TermModel.v (stdout of list). *)
From Coq Require Import NArith ZArith List Bool Permutation Sorting.Sorted.
From Snap.Report Require Import EscModel EscProofs ViewModel ViewProofs TermModel TermProofs.
Import ListNotations.
Local Open Scope N_scope.

(* --- the log escaping is reversible and leaves no raw separator ---------------------------------------- *)
Theorem C20_esc_tag_inverse : forall s, no_nul s -> unesc_tag (esc_tag s) = Some s.
Proof. exact esc_tag_inverse. Qed.
Example C20_esc_tag_inverse_nv :      (* a<LF>b:c\d<CR> e<0xff> *)
  let s := [97; 10; 98; 58; 99; 92; 100; 13; 32; 101; 255] in
  no_nul s /\ esc_tag s = [97; 92; 110; 98; 92; 100; 99; 92; 92; 100; 92; 114; 32; 101; 255] /\ unesc_tag (esc_tag s) = Some s.
Proof. cbv zeta. split; [repeat constructor; discriminate|split; reflexivity]. Qed.

Theorem C20_esc_tag_no_separator : forall s,
  ~ In 58 (esc_tag s) /\ ~ In 10 (esc_tag s) /\ ~ In 13 (esc_tag s) /\ ~ In 0 (esc_tag s).
Proof. exact esc_tag_no_separator. Qed.

(* a name shorter than PATH_MAX never hits the `bail` exit of the escaper *)
Theorem C20_esc_tag_fits : forall s, (length s < 4096)%nat -> esc_tag_buf s = Some (esc_tag s).
Proof. exact esc_tag_buf_some. Qed.

(* --- every tag line splits back into its record, whatever bytes the names contain ------------------------ *)
Theorem C20_tag_line_parse : forall r, rec_ok r -> parse_line (join 58 (fields_of r)) = Some r.
Proof. exact tag_line_parse. Qed.
Theorem C20_tag_log_parse : forall rs, Forall rec_ok rs -> parse_log (print_log rs) = map Some rs.
Proof. exact tag_log_parse. Qed.
Example C20_tag_log_parse_nv :        (* names: "a<LF>file:x:y:1:1:1:1" and ":\" *)
  let n1 := [97; 10] ++ t_file ++ [58; 120; 58; 121; 58; 49; 58; 49; 58; 49; 58; 49] in
  let rs := [RFile [100; 49] n1 5 (-3) 4294967295 (-1); RLink Symlink [100; 49] [58; 92] n1;
             RDup [100; 49] n1 [100; 50] [13] 7; ROther [t_summary; t_exit; t_ok]] in
  Forall rec_ok rs /\ length (lines (print_log rs)) = 4%nat /\ parse_log (print_log rs) = map Some rs.
Proof.
  cbv zeta. split; [|split; reflexivity].
  repeat (apply Forall_cons; [simpl; repeat split; try discriminate; try reflexivity; repeat constructor; discriminate|]).
  apply Forall_nil.
Qed.

(* --- list: the printed records are exactly the files and links of the state ------------------------------ *)
Theorem C20_list_exact : forall st, Permutation (list_records st) (all_records st).
Proof. exact list_exact. Qed.
Theorem C20_list_order : forall d, exists fs ls,
  list_disk d = map (file_rec d) fs ++ map (link_rec d) ls /\
  Sorted (le_key f_sub) fs /\ Sorted (le_key l_sub) ls /\ Permutation fs (d_files d) /\ Permutation ls (d_links d).
Proof. exact list_disk_sorted. Qed.
(* and the reader of the log gets them back, with the summary lines *)
Theorem C20_list_log_parse : forall st, Forall disk_ok st ->
  parse_log (list_log st) = map Some (list_records st ++ list_summary st).
Proof. exact list_log_parse. Qed.
Example C20_list_nv :
  let f1 := mkfile [98; 10; 58] 1500 1600000000 (-1) 18446744073709551615 [] in
  let f2 := mkfile [97; 32] 0 (-5) 999999999 7 [] in
  let st := [mkdisk [100; 49] [f1; f2] [mklink [122] [98; 10; 58] Symlink; mklink [99] [97; 32] Hardlink]] in
  Forall disk_ok st /\
  list_records st = [RFile [100; 49] [97; 32] 0 (-5) 999999999 7; RFile [100; 49] [98; 10; 58] 1500 1600000000 4294967295 (-1);
                     RLink Hardlink [100; 49] [99] [97; 32]; RLink Symlink [100; 49] [122] [98; 10; 58]].
Proof.
  cbv zeta. split; [|reflexivity].
  constructor; [|constructor]. split; [repeat constructor; discriminate|].
  split; repeat constructor; discriminate.
Qed.

(* --- dup --------------------------------------------------------------------------------------------------- *)
(* for every file-level hash function: two files of the state (a before b in the order of the loops) are reported
   in the same group iff both are non-empty, fully hashed and have the same file hash *)
Theorem C20_dup_iff_same_hash : forall filehash l1 a l2 b l3,
  dup_related (dup_loop filehash (l1 ++ a :: l2 ++ b :: l3) []) a b <->
  exists h, eligible filehash a h /\ eligible filehash b h.
Proof. exact dup_iff_same_hash. Qed.

(* with a file-level hash without collision on the files of the state and block hashes of a fixed non-zero length:
   iff the vectors of block hashes are equal *)
Theorem C20_dup_iff_equal : forall filehash (hs : nat) es,
  hs <> 0%nat ->
  (forall e, In e es -> Forall (fun h => length h = hs) (hash_vec (snd e))) ->
  (forall x y, In x es -> In y es ->
     filehash (concat (hash_vec (snd x))) = filehash (concat (hash_vec (snd y))) ->
     concat (hash_vec (snd x)) = concat (hash_vec (snd y))) ->
  forall l1 a l2 b l3, es = l1 ++ a :: l2 ++ b :: l3 ->
  f_size (snd a) <> 0 -> f_size (snd b) <> 0 -> fully_hashed (snd a) -> fully_hashed (snd b) ->
  (dup_related (dup_loop filehash es []) a b <-> hash_vec (snd a) = hash_vec (snd b)).
Proof. exact dup_iff_equal_hashvec. Qed.

(* with, in addition, recorded block hashes that are the hashes of the present data (no hash migration in progress,
   C05/C06) and a block hash without collision on the finite set of blocks of the state: iff the contents are equal *)
Theorem C20_dup_iff_equal_content : forall filehash (hs : nat) es,
  hs <> 0%nat ->
  (forall e, In e es -> Forall (fun h => length h = hs) (hash_vec (snd e))) ->
  (forall x y, In x es -> In y es ->
     filehash (concat (hash_vec (snd x))) = filehash (concat (hash_vec (snd y))) ->
     concat (hash_vec (snd x)) = concat (hash_vec (snd y))) ->
  forall (blockhash : bstr -> bstr) (data : file -> bstr) (bs : nat),
  bs <> 0%nat ->
  (forall e, In e es -> fully_hashed (snd e) -> hash_vec (snd e) = map blockhash (blocks_of data bs (snd e))) ->
  (forall x y bx by_, In x es -> In y es -> In bx (blocks_of data bs (snd x)) -> In by_ (blocks_of data bs (snd y)) ->
     blockhash bx = blockhash by_ -> bx = by_) ->
  forall l1 a l2 b l3, es = l1 ++ a :: l2 ++ b :: l3 ->
  f_size (snd a) <> 0 -> f_size (snd b) <> 0 -> fully_hashed (snd a) -> fully_hashed (snd b) ->
  (dup_related (dup_loop filehash es []) a b <-> data (snd a) = data (snd b)).
Proof. exact dup_iff_equal_content. Qed.

(* the comparison is on the WHOLE file-level digest (HASH_MAX = 16 bytes in dup.c), whatever the size of the block hashes
   (BLOCK_HASH_SIZE, option `hashsize`): two eligible files whose digests agree on the first k bytes only are not a pair *)
Theorem C20_dup_full_digest : forall filehash l1 a l2 b l3 ha hb (k : nat),
  eligible filehash a ha -> eligible filehash b hb -> firstn k ha = firstn k hb -> ha <> hb ->
  ~ dup_related (dup_loop filehash (l1 ++ a :: l2 ++ b :: l3) []) a b.
Proof. exact dup_full_digest. Qed.
Example C20_dup_full_digest_nv :   (* block hashes of 2 bytes; the digests [7;7;1] and [7;7;2] agree on 2 bytes: no report *)
  let fh := fun buf : bstr => match buf with [1; 1] => [7; 7; 1] | [2; 2] => [7; 7; 2] | _ => buf end in
  let fa := mkfile [97] 10 0 0 1 [(1, [1; 1])] in let fb := mkfile [98] 10 0 0 2 [(1, [2; 2])] in
  let fc := mkfile [99] 10 0 0 3 [(1, [1; 1])] in
  eligible fh ([49], fa) [7; 7; 1] /\ eligible fh ([49], fb) [7; 7; 2] /\
  dup_report fh [mkdisk [49] [fa; fb; fc] []] = [(([49], fc), ([49], fa))].
Proof. cbv zeta. repeat split; try discriminate; reflexivity. Qed.

(* empty files and files with a block that has no updated hash (CHG, or any state but BLK/REP) are never reported *)
Theorem C20_dup_unhashed_never : forall filehash es e r,
  (f_size (snd e) = 0 \/ hash_buf (f_blocks (snd e)) = None) ->
  ~ In (e, r) (dup_loop filehash es []) /\ ~ In (r, e) (dup_loop filehash es []).
Proof. exact dup_ineligible_never. Qed.
Theorem C20_dup_partial_is_unhashed : forall f, ~ fully_hashed f -> hash_buf (f_blocks f) = None.
Proof. exact hash_buf_partial. Qed.

Example C20_dup_nv :     (* identity as file hash: three files with hash vector [h1], one with a CHG block, one empty *)
  let h1 := [1; 2] in let h2 := [3; 4] in
  let fa := mkfile [97] 10 0 0 1 [(1, h1)] in let fb := mkfile [98] 10 0 0 2 [(3, h1)] in
  let fc := mkfile [99] 10 0 0 3 [(2, h1)] in let fd := mkfile [100] 10 0 0 4 [(1, h2)] in
  let fe := mkfile [101] 0 0 0 5 [] in let ff := mkfile [102] 10 0 0 6 [(1, h1)] in
  let st := [mkdisk [49] [fa; fc; fd] []; mkdisk [50] [fe; fb; ff] []] in
  dup_report (fun x => x) st = [(([50], fb), ([49], fa)); (([50], ff), ([49], fa))] /\
  fully_hashed fa /\ fully_hashed fb /\ ~ fully_hashed fc.
Proof.
  cbv zeta. split; [reflexivity|]. split; [repeat constructor|]. split; [repeat constructor|].
  intro H. inversion H as [|? ? Hc _]. discriminate.
Qed.

(* --- status: the counters are their definitions over the info array and the block states -------------------- *)
Theorem C20_status_counters : forall s blockmax,
  let pos := seq 0 blockmax in
  let c := status_count s blockmax in
  c_unsynced c = cnt (is_unsynced s) pos /\
  c_bad c = cnt (is_bad s) pos /\
  c_bad_first c = N.of_nat (hd 0%nat (filter (is_bad s) pos)) /\
  c_bad_last c = N.of_nat (last (filter (is_bad s) pos) 0%nat) /\
  c_unscrubbed c = cnt (is_unscrubbed s) pos /\
  c_rehash c = cnt (is_rehash s) pos /\
  c_count c = cnt (is_used s) pos.
Proof. exact status_counters. Qed.
Example C20_status_nv :    (* infos: time|flags; stripe 1 bad, 3 bad+rehash, 4 justsynced, 2 unused; disk states BLK/CHG/DELETED *)
  let s := mksstate [1600000000; 1600000001; 0; 1600000003; 1600000004] [[1; 1; 0; 2; 4]; [1; 4; 0; 1; 0]] in
  status_count s 5 = mkcnt 2 1 3 1 4 2 1.
Proof. reflexivity. Qed.

(* the not-yet-scrubbed count is the number of used stripes with the just-synced flag, whatever the bad and rehash
   flags say: a stripe recorded bad AND just synced (sync, silent corruption, scrub -p new) counts in both *)
Theorem C20_status_unscrubbed_ignores_bad : forall s blockmax,
  c_unscrubbed (status_count s blockmax) =
  N.of_nat (length (filter (fun i => negb (info_at s i =? 0) && N.testbit (info_at s i) 2) (seq 0 blockmax))).
Proof. exact status_unscrubbed_ignores_bad. Qed.
Theorem C20_status_step_bad_justsynced : forall s c i,
  info_bad (info_at s i) = true -> info_justsynced (info_at s i) = true ->
  c_unscrubbed (status_step s c i) = c_unscrubbed c + 1 /\ c_bad (status_step s c i) = c_bad c + 1.
Proof. exact status_step_bad_justsynced. Qed.
Example C20_status_unscrubbed_nv :    (* all eight flag combinations on stripes 0..7, stripe 8 unused *)
  let s := mksstate [1600000000; 1600000001; 1600000002; 1600000003; 1600000004; 1600000005; 1600000006; 1600000007; 0] [[1; 1; 1; 1; 1; 1; 1; 1; 0]] in
  status_count s 9 = mkcnt 4 1 7 4 8 0 4.
Proof. reflexivity. Qed.

(* --- terminal rendering ----------------------------------------------------------------------------------- *)
Theorem C20_esc_shell_injective : forall a b, no_nul a -> no_nul b -> esc_shell a = esc_shell b -> a = b.
Proof. exact esc_shell_injective. Qed.

(* esc_shell copies a newline unchanged: one record may span several lines, so "one line = one entry" is false *)
Theorem C20_term_line_framing_refuted :
  exists r, trec_ok r /\ length (lines (print_term r)) <> 1%nat.
Proof.
  exists (TFile 5 [50; 48; 50; 48; 47; 48; 49; 47; 48; 49] [48; 48; 58; 48; 48] [97; 10; 98]).
  split; [|vm_compute; discriminate].
  simpl. repeat split; try discriminate; repeat constructor; discriminate.
Qed.

(* but the byte stream is still uniquely readable: a space inside a name is always printed as backslash-space and
   every record starts with an unescaped space or with digits-space-digit.  (FMT_FILE mode, localtime succeeded,
   the two date tokens as printed by the C.)  So the expected ambiguity F-C20 does not exist for `list`. *)
Theorem C20_term_framing : forall rs, Forall trec_ok rs -> parse_term (print_term_list rs) = Some rs.
Proof. exact term_framing. Qed.
Theorem C20_term_injective : forall rs1 rs2, Forall trec_ok rs1 -> Forall trec_ok rs2 ->
  print_term_list rs1 = print_term_list rs2 -> rs1 = rs2.
Proof. exact term_injective. Qed.
Example C20_term_framing_nv :   (* the name is  a<LF>           5 2020/01/01 00:00 b  : a forged line inside a name *)
  let d1 := [50; 48; 50; 48; 47; 48; 49; 47; 48; 49] in let d2 := [48; 48; 58; 48; 48] in
  let forged := [97; 10] ++ repeat 32 11 ++ [53; 32] ++ d1 ++ [32] ++ d2 ++ [32; 98] in
  let rs := [TFile 7 d1 d2 forged; TLink Symlink [120; 10] [49; 50; 51; 52; 53; 54; 55; 56; 57; 48; 49; 50; 10; 32]; TFile 123456789012 d1 d2 [98]] in
  Forall trec_ok rs /\ parse_term (print_term_list rs) = Some rs /\ length (lines (print_term_list rs)) = 6%nat.
Proof.
  cbv zeta. split; [|split; vm_compute; reflexivity].
  repeat (apply Forall_cons; [simpl; repeat split; try discriminate; repeat constructor; discriminate|]).
  apply Forall_nil.
Qed.

(* --- the zerosubsecond: lines of the status log (status.c:146-148; the name goes through esc_tag since the repair of
   finding F-C20-status-zerosubsecond-raw): they parse back for arbitrary names, and the logged names are determined
   by the bytes ------------------------------------------------------------------------------------------------ *)
Theorem C20_status_zerosub_parse : forall d fs, field_safe d -> Forall (fun f => no_nul (f_sub f)) fs ->
  parse_log (zerosub_lines d fs 0) = map (fun p => Some (zerosub_rec d p)) (zerosub_entries fs 0).
Proof. exact status_zerosub_parse. Qed.
Theorem C20_status_zerosub_unambiguous : forall d fs1 fs2, field_safe d ->
  Forall (fun f => no_nul (f_sub f)) fs1 -> Forall (fun f => no_nul (f_sub f)) fs2 ->
  zerosub_lines d fs1 0 = zerosub_lines d fs2 0 -> zerosub_entries fs1 0 = zerosub_entries fs2 0.
Proof. exact status_zerosub_unambiguous. Qed.
Example C20_status_zerosub_nv :    (* the former witness: x: <LF>summary:has_bad:7:7:7 now gives ONE line *)
  let forged := [120; 58; 32; 10] ++ t_summary ++ [58; 104; 97; 115; 95; 98; 97; 100; 58; 55; 58; 55; 58; 55] in
  let fs := [mkfile forged 100 1600000000 0 1 []; mkfile [112] 100 1600000001 (-1) 2 []; mkfile [113] 1 1 5 3 []] in
  Forall (fun f => no_nul (f_sub f)) fs /\ zerosub_entries fs 0 = [(forged, []); ([112], [])] /\
  length (lines (zerosub_lines [100; 49] fs 0)) = 2%nat.
Proof. cbv zeta. split; [repeat constructor; discriminate|split; reflexivity]. Qed.

Print Assumptions C20_esc_tag_inverse.
Print Assumptions C20_esc_tag_no_separator.
Print Assumptions C20_tag_log_parse.
Print Assumptions C20_list_exact.
Print Assumptions C20_list_log_parse.
Print Assumptions C20_dup_iff_same_hash.
Print Assumptions C20_dup_iff_equal_content.
Print Assumptions C20_dup_unhashed_never.
Print Assumptions C20_dup_full_digest.
Print Assumptions C20_status_counters.
Print Assumptions C20_status_unscrubbed_ignores_bad.
Print Assumptions C20_status_step_bad_justsynced.
Print Assumptions C20_esc_shell_injective.
Print Assumptions C20_term_framing.
Print Assumptions C20_term_line_framing_refuted.
Print Assumptions C20_status_zerosub_parse.
Print Assumptions C20_status_zerosub_unambiguous.
