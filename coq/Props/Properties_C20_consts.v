(* C20 -- constants of the report / escaping models equal the constants of the source tree's headers (Gen/Consts.v). *)
From Coq Require Import NArith ZArith List.
From Snap.Gen Require Import Consts.
From Snap.Report Require Import EscModel ViewModel.
Local Open Scope Z_scope.

Theorem C20_consts_esc_max : Z.of_N ESC_MAX = c_ESC_MAX /\ c_ESC_MAX = 2 * c_PATH_MAX + 1.
Proof. exact (conj eq_refl eq_refl). Qed.
Print Assumptions C20_consts_esc_max.

Theorem C20_consts_block_states :
  Z.of_N ViewModel.BLK = c_BLOCK_STATE_BLK /\ Z.of_N ViewModel.CHG = c_BLOCK_STATE_CHG /\
  Z.of_N ViewModel.REP = c_BLOCK_STATE_REP /\ Z.of_N ViewModel.DELETED = c_BLOCK_STATE_DELETED.
Proof. exact (conj eq_refl (conj eq_refl (conj eq_refl eq_refl))). Qed.
Print Assumptions C20_consts_block_states.
