(* Bridge between the MathComp statements over the fieldType gf (Mds.v, MdsPower.v) and the N-level
   closed forms cauchyN / powerN / matN that the tables are proved equal to (TablesOk.v):
   the MDS property at the level of N and lists. *)
From mathcomp Require Import all_ssreflect all_algebra.
From Coq Require Import NArith.
From Snap.GF Require Import Gf GfField TablesOk.
From Snap.Raid Require Import CauchyK ExtCauchyK Mds MdsPower GenModel.
From Snap.Raid Require GenProofs RecModel.
From Snap.Raid Require Import Xsum.
Set Implicit Arguments.
Unset Strict Implicit.
Unset Printing Implicit Defensive.
Import GRing.Theory.
Local Open Scope ring_scope.

(* total injection of N into gf (0 outside the bytes) *)
Definition gf_of (v : N) : gf := insubd (0 : gf) v.

Lemma gval_gf_of v : (v < 256)%N -> gval (gf_of v) = v.
Proof. by move=> /N.ltb_lt h; rewrite /gf_of; apply: (insubdK (0 : gf)). Qed.

Lemma gf_of_gval (x : gf) : gf_of (gval x) = x.
Proof. exact: valKd. Qed.

Lemma byte_gf v : (v < 256)%N -> exists x : gf, v = gval x.
Proof. by move=> h; exists (gf_of v); rewrite gval_gf_of. Qed.

Lemma gval_inv (x : gf) : x != 0 -> gval x^-1 = ginv (gval x).
Proof. by move=> nz; rewrite /GRing.inv /= /ginvf (negbTE nz). Qed.

Lemma gval_sub (x y : gf) : gval (x - y) = N.lxor (gval x) (gval y).
Proof. by []. Qed.

Lemma gval_eq0 (x : gf) : gval x = 0%N -> x = 0.
Proof. by move=> e; apply: gf_inj. Qed.

Lemma gval_neq0 (x : gf) : gval x <> 0%N -> x != 0.
Proof. by move=> ne; apply/eqP => e; apply: ne; rewrite e. Qed.

Lemma neq0_gval (x : gf) : x != 0 -> gval x <> 0%N.
Proof. by move=> /eqP ne e; apply: ne; apply: gval_eq0. Qed.

Lemma eqbE a b : Nat.eqb a b = (a == b).
Proof. by apply/idP/eqP => /PeanoNat.Nat.eqb_eq. Qed.

Lemma gval_sum n (F : nat -> gf) : gval (\sum_(i < n) F i) = xsumN n (fun i => gval (F i)).
Proof.
elim: n => [|n IH]; first by rewrite big_ord0.
by rewrite big_ord_recr gval_add xsumN_S_r -IH.
Qed.

Lemma gval_delta i j : gval ((i == j)%:R : gf) = RecModel.idN i j.
Proof. by rewrite /RecModel.idN eqbE; case: (i == j). Qed.

(* ------------------------------------------------------------------------------------------- *)
(* closed forms *)
Lemma pow2N_small k : (k < 255)%nat -> pow2N k = gexp k.
Proof. by move=> /ltP lt; rewrite /pow2N PeanoNat.Nat.mod_small. Qed.

Lemma gval_two_pow k : (k < 255)%nat -> gval (two ^+ k) = pow2N k.
Proof. by move=> lt; rewrite gval_pow2 // pow2N_small. Qed.

Lemma gval_xi i : (i < 255)%nat -> gval (xi i) = ginv (pow2N i).
Proof. by move=> lt; rewrite /xi gval_inv ?pow2_neq0 // gval_two_pow. Qed.

Lemma gval_yr r : (r < 255)%nat -> gval (yr r) = yN r.
Proof.
move=> lt; rewrite /yr /yN eqbE; case: ifP => // _.
have -> : Nat.sub r 1 = r.-1 by case: r {lt} => [|r] //=; rewrite PeanoNat.Nat.sub_0_r.
by rewrite gval_two_pow //; apply: leq_ltn_trans (leq_pred r) lt.
Qed.

Lemma cauchyN_bridge_ssr r i : (r < 6)%nat -> (i < 251)%nat -> gval (A r i) = cauchyN r i.
Proof.
move=> lr li; rewrite /A /cauchyN eqbE; case: ifP => // /negbT r0.
have rb : (0 < r < 6)%nat by rewrite lt0n r0.
have i255 : (i < 255)%nat by apply: leq_trans li _.
have r255 : (r < 255)%nat by apply: leq_trans lr _.
have nz : xi i + yr r != 0 by apply: xy_neq0.
have lt0 : (0 < 255)%nat by [].
rewrite gval_mul (gval_inv nz) !gval_add (gval_xi i255) (gval_xi lt0) (gval_yr r255).
have -> : ginv (pow2N 0) = 1%N by vm_compute.
reflexivity.
Qed.

Lemma powerN_bridge_ssr r i : (r < 3)%nat -> (i < 251)%nat -> gval (P r i) = powerN r i.
Proof.
move=> lr li; have i255 : (i < 255)%nat by apply: leq_trans li _.
case: r lr => [|[|r]] // _; rewrite /P /=; first exact: gval_two_pow.
by rewrite gval_inv ?pow2_neq0 // gval_two_pow.
Qed.

Theorem cauchyN_bridge r i : (r < 6)%coq_nat -> (i < 251)%coq_nat -> gval (A r i) = cauchyN r i.
Proof. by move=> /ltP lr /ltP li; apply: cauchyN_bridge_ssr. Qed.

Theorem powerN_bridge r i : (r < 3)%coq_nat -> (i < 251)%coq_nat -> gval (P r i) = powerN r i.
Proof. by move=> /ltP lr /ltP li; apply: powerN_bridge_ssr. Qed.

(* ------------------------------------------------------------------------------------------- *)
(* MDS at the level of N: generic transfer, then the two modes *)
Section MdsN.
Variable R' : nat.
Variable Mf : nat -> nat -> gf.
Variable MN : nat -> nat -> N.
Hypothesis bridge : forall r i, (r < R'.+1)%nat -> (i < 251)%nat -> gval (Mf r i) = MN r i.
Hypothesis kern : forall k (rows : 'I_k -> 'I_R'.+1) (cols : 'I_k -> 'I_251) (c : 'I_k -> gf),
  injective rows -> injective cols ->
  (forall a, \sum_(b < k) Mf (rows a) (cols b) * c b = 0) -> forall b, c b = 0.

Lemma mdsN_gen (rs cs : list nat) (x : list N) :
  RecModel.sorted_lt rs = true -> RecModel.sorted_lt cs = true ->
  length rs = length cs -> length x = length cs ->
  (forall r, List.In r rs -> (r < R'.+1)%coq_nat) ->
  (forall c, List.In c cs -> (c < 251)%coq_nat) ->
  GenProofs.bytes x ->
  (forall a, (a < length rs)%coq_nat ->
     xsumN (length cs) (fun b => gmul (MN (List.nth a rs 0%nat) (List.nth b cs 0%nat)) (List.nth b x 0%N)) = 0%N) ->
  forall b, (b < length cs)%coq_nat -> List.nth b x 0%N = 0%N.
Proof.
move=> srs scs lrs lx brs bcs bx ker.
set k := length cs.
have rlt (a : 'I_k) : (List.nth a rs 0%nat < R'.+1)%nat.
  by apply/ltP; apply: brs; apply: List.nth_In; rewrite lrs; apply/ltP.
have clt (a : 'I_k) : (List.nth a cs 0%nat < 251)%nat.
  by apply/ltP; apply: bcs; apply: List.nth_In; apply/ltP.
pose rows (a : 'I_k) : 'I_R'.+1 := inord (List.nth a rs 0%nat).
pose cols (a : 'I_k) : 'I_251 := inord (List.nth a cs 0%nat).
pose c (b : 'I_k) : gf := gf_of (List.nth b x 0%N).
have rinj : injective rows.
  move=> a1 a2 /(congr1 val); rewrite /= !inordK // => e; apply: val_inj.
  by apply: (sorted_lt_nth_inj rs) e => //; rewrite lrs; apply/ltP.
have cinj : injective cols.
  move=> a1 a2 /(congr1 val); rewrite /= !inordK // => e; apply: val_inj.
  by apply: (sorted_lt_nth_inj cs) e => //; apply/ltP.
have kerf a : \sum_(b < k) Mf (rows a) (cols b) * c b = 0.
  apply: gf_inj.
  rewrite (gval_sum k (fun b => Mf (rows a) (inord (List.nth b cs 0%nat)) * gf_of (List.nth b x 0%N))).
  rewrite gval_0 -[RHS](ker a); last by rewrite lrs; apply/ltP.
  apply: xsumN_ext => b /ltP lb.
  rewrite gval_mul gval_gf_of; last exact: bytes_nth.
  by rewrite bridge // /rows !inordK // ?(clt (Ordinal lb)) ?(rlt a).
move=> b /ltP lb.
have := kern rinj cinj kerf (Ordinal lb) => /(congr1 gval).
by rewrite /c /= gval_gf_of //; exact: bytes_nth.
Qed.

(* the same with index functions instead of sorted lists *)
Lemma mdsN_fun_gen k (r c : nat -> nat) (x : nat -> N) :
  (forall a, (a < k)%coq_nat -> (r a < R'.+1)%coq_nat) ->
  (forall a b, (a < k)%coq_nat -> (b < k)%coq_nat -> r a = r b -> a = b) ->
  (forall b, (b < k)%coq_nat -> (c b < 251)%coq_nat) ->
  (forall a b, (a < k)%coq_nat -> (b < k)%coq_nat -> c a = c b -> a = b) ->
  (forall b, (b < k)%coq_nat -> (x b < 256)%N) ->
  (forall a, (a < k)%coq_nat -> xsumN k (fun b => gmul (MN (r a) (c b)) (x b)) = 0%N) ->
  forall b, (b < k)%coq_nat -> x b = 0%N.
Proof.
move=> br ir bc ic bx ker.
have rlt (a : 'I_k) : (r a < R'.+1)%nat by apply/ltP; apply: br; apply/ltP.
have clt (a : 'I_k) : (c a < 251)%nat by apply/ltP; apply: bc; apply/ltP.
pose rows (a : 'I_k) : 'I_R'.+1 := inord (r a).
pose cols (a : 'I_k) : 'I_251 := inord (c a).
pose cf (b : 'I_k) : gf := gf_of (x b).
have rinj : injective rows.
  move=> a1 a2 /(congr1 val); rewrite /= !inordK // => e; apply: val_inj.
  by apply: ir e; apply/ltP.
have cinj : injective cols.
  move=> a1 a2 /(congr1 val); rewrite /= !inordK // => e; apply: val_inj.
  by apply: ic e; apply/ltP.
have kerf a : \sum_(b < k) Mf (rows a) (cols b) * cf b = 0.
  apply: gf_inj.
  rewrite (gval_sum k (fun b => Mf (rows a) (inord (c b)) * gf_of (x b))).
  rewrite gval_0 -[RHS](ker a); last by apply/ltP.
  apply: xsumN_ext => b /ltP lb.
  rewrite gval_mul gval_gf_of; last by apply: bx; apply/ltP.
  by rewrite bridge // /rows !inordK // ?(clt (Ordinal lb)) ?(rlt a).
move=> b /ltP lb.
have := kern rinj cinj kerf (Ordinal lb) => /(congr1 gval).
by rewrite /cf /= gval_gf_of //; apply: bx; apply/ltP.
Qed.
End MdsN.

Theorem mdsN m (rs cs : list nat) (x : list N) :
  RecModel.sorted_lt rs = true -> RecModel.sorted_lt cs = true ->
  length rs = length cs -> length x = length cs ->
  (forall r, List.In r rs -> (r < GenProofs.rows_of m)%coq_nat) ->
  (forall c, List.In c cs -> (c < 251)%coq_nat) ->
  GenProofs.bytes x ->
  (forall a, (a < length rs)%coq_nat ->
     xsumN (length cs) (fun b => gmul (matN m (List.nth a rs 0%nat) (List.nth b cs 0%nat)) (List.nth b x 0%N)) = 0%N) ->
  forall b, (b < length cs)%coq_nat -> List.nth b x 0%N = 0%N.
Proof.
case: m => /=.
- by apply: (@mdsN_gen 5 A cauchyN) => [r i lr li|k rows cols c]; [apply: cauchyN_bridge_ssr|apply: mds_kernel].
- by apply: (@mdsN_gen 2 P powerN) => [r i lr li|k rows cols c]; [apply: powerN_bridge_ssr|apply: mds_power_kernel].
Qed.

Theorem mdsN_fun m k (r c : nat -> nat) (x : nat -> N) :
  (forall a, (a < k)%coq_nat -> (r a < GenProofs.rows_of m)%coq_nat) ->
  (forall a b, (a < k)%coq_nat -> (b < k)%coq_nat -> r a = r b -> a = b) ->
  (forall b, (b < k)%coq_nat -> (c b < 251)%coq_nat) ->
  (forall a b, (a < k)%coq_nat -> (b < k)%coq_nat -> c a = c b -> a = b) ->
  (forall b, (b < k)%coq_nat -> (x b < 256)%N) ->
  (forall a, (a < k)%coq_nat -> xsumN k (fun b => gmul (matN m (r a) (c b)) (x b)) = 0%N) ->
  forall b, (b < k)%coq_nat -> x b = 0%N.
Proof.
case: m => /=.
- by apply: (@mdsN_fun_gen 5 A cauchyN) => [r' i lr li|k' rows cols c']; [apply: cauchyN_bridge_ssr|apply: mds_kernel].
- by apply: (@mdsN_fun_gen 2 P powerN) => [r' i lr li|k' rows cols c']; [apply: powerN_bridge_ssr|apply: mds_power_kernel].
Qed.

(* ------------------------------------------------------------------------------------------- *)
(* the closed form of raid_rec2of2: with e = 2^(y-x), u = 2^x, v = 2^y *)
Lemma rec2_identityN e u v dx dy :
  (e < 256)%N -> (u < 256)%N -> (v < 256)%N -> (dx < 256)%N -> (dy < 256)%N ->
  gmul e u = v -> N.lxor e 1 <> 0%N -> N.lxor u v <> 0%N ->
  N.lxor (gmul (ginv (N.lxor e 1)) (N.lxor dx dy))
         (gmul (ginv (N.lxor u v)) (N.lxor (gmul u dx) (gmul v dy))) = dy.
Proof.
move=> /byte_gf[E ->] /byte_gf[U ->] /byte_gf[V ->] /byte_gf[X ->] /byte_gf[Y ->] eV n1 n2.
have {eV} eV : V = E * U by apply: gf_inj.
move: n2; rewrite {V}eV => n2.
have nE : E + 1 != 0 by apply: gval_neq0; rewrite gval_add gval_1; exact: n1.
have nUV : U + E * U != 0.
  by apply: gval_neq0; rewrite gval_add; exact: n2.
have xx (z : gf) : z + z = 0 by rewrite -{2}(gf_oppE z) subrr.
have UV : U + E * U = (E + 1) * U by rewrite mulrDl mul1r addrC.
have nzU : U != 0 by apply: contraNneq nUV => ->; rewrite mulr0 addr0.
have id : (E + 1)^-1 * (X + Y) + (U + E * U)^-1 * (U * X + E * U * Y) = Y.
  rewrite UV invfM.
  have -> : U * X + E * U * Y = U * (X + E * Y) by rewrite mulrDr mulrA [E * U]mulrC.
  rewrite -[_ * U^-1 * _]mulrA mulKf // -mulrDr.
  have -> : X + Y + (X + E * Y) = (E + 1) * Y by rewrite addrACA xx add0r mulrDl mul1r addrC.
  by rewrite mulKf.
by move/(congr1 gval): id; rewrite !(gval_add, gval_mul) !gval_inv // !(gval_add, gval_mul) gval_1.
Qed.

Print Assumptions cauchyN_bridge.
Print Assumptions powerN_bridge.
Print Assumptions mdsN.
Print Assumptions mdsN_fun.
Print Assumptions rec2_identityN.
