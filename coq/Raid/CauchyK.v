From mathcomp Require Import all_ssreflect all_algebra.
Set Implicit Arguments.
Unset Strict Implicit.
Unset Printing Implicit Defensive.
Import GRing.Theory.
Local Open Scope ring_scope.

Section Cauchy.
Variable F : fieldType.
Variable k : nat.
Variables x y c : 'I_k -> F.
Hypothesis xinj : injective x.
Hypothesis yinj : injective y.
Hypothesis xy : forall i j, x i + y j != 0.

Definition others (j : 'I_k) := rem j (enum 'I_k).
Definition Q (j : 'I_k) : {poly F} := \prod_(l <- others j) ('X - (- y l)%:P).
Definition P : {poly F} := \sum_(j < k) c j *: Q j.

Lemma size_Q j : size (Q j) = k.
Proof.
rewrite /Q size_prod_XsubC /others size_rem ?mem_enum // size_enum_ord.
by case: k j => [[]|].
Qed.

Lemma size_P : (size P <= k)%N.
Proof.
rewrite /P; apply: (leq_trans (size_sum _ _ _)).
apply/bigmax_leqP => j _.
by apply: (leq_trans (size_scale_leq _ _)); rewrite size_Q.
Qed.

Lemma Q_others j (f : 'I_k -> F) :
  \prod_(l <- others j) f l = \prod_(l < k | l != j) f l.
Proof.
rewrite /others rem_filter ?enum_uniq // big_filter.
rewrite big_mkcond /= [RHS]big_mkcond /=.
by rewrite /index_enum -enumT.
Qed.

Lemma hornerQ j t : (Q j).[t] = \prod_(l < k | l != j) (t + y l).
Proof.
rewrite /Q horner_prod Q_others.
by apply: eq_bigr => l _; rewrite hornerXsubC opprK.
Qed.

Hypothesis ker : forall i, \sum_(j < k) c j / (x i + y j) = 0.

Lemma P_root i : P.[x i] = 0.
Proof.
rewrite /P horner_sum.
have -> : \sum_(j < k) (c j *: Q j).[x i] = (\prod_(l < k) (x i + y l)) * \sum_(j < k) c j / (x i + y j).
  rewrite mulr_sumr; apply: eq_bigr => j _.
  rewrite hornerZ hornerQ [in RHS](bigD1 j) //=.
  by rewrite [RHS]mulrC -!mulrA mulKf ?xy.
by rewrite ker mulr0.
Qed.

Lemma P0 : P = 0.
Proof.
apply/eqP/negPn/negP => Pn0.
have := @max_poly_roots _ P [seq x i | i <- enum 'I_k] Pn0.
have -> : all (root P) [seq x i | i <- enum 'I_k].
  by apply/allP => _ /mapP[i _ ->]; rewrite /root P_root.
rewrite map_inj_uniq // enum_uniq size_map size_enum_ord => /(_ isT isT).
by rewrite ltnNge size_P.
Qed.

Lemma c0 j : c j = 0.
Proof.
have := congr1 (fun p => p.[- y j]) P0.
rewrite /= horner0 /P horner_sum (bigD1 j) //= big1 ?addr0; last first.
  move=> i ij; rewrite hornerZ hornerQ (bigD1 j) //= ?addNr ?mul0r ?mulr0 //.
  by rewrite eq_sym.
rewrite hornerZ hornerQ => /eqP; rewrite mulf_eq0 => /orP[/eqP //|].
move=> /prodf_eq0 [l lj]; rewrite addrC subr_eq0 => /eqP /yinj e.
by rewrite e eqxx in lj.
Qed.

End Cauchy.


