(* raid_validate / raid_check (RecModel.validate_col, raid_check_col), per column:
   a failure set is accepted when everything outside it is consistent, and rejected when exactly one
   further block (data or parity) outside it is wrong.  Stdlib style. *)
From Coq Require Import NArith List Bool Lia Arith.
From Snap.Gen Require Import Tables.
From Snap.GF Require Import Gf TablesOk.
From Snap.Raid Require Import GenModel GenProofs RecModel Xsum.
From Snap.Raid Require Bridge InvertProofs.
From Snap.Raid Require Import RecProofs.
Import ListNotations.
Local Open Scope N_scope.

Lemma indexed_as_map col : indexed col = map (fun j => (j, nth j col 0)) (seq 0 (length col)).
Proof.
  unfold indexed, indexed_from.
  apply nth_ext with (d := (0%nat, 0)) (d' := (0%nat, 0)).
  - rewrite combine_length, map_length, seq_length. lia.
  - intros n Hn. rewrite combine_length, seq_length in Hn.
    rewrite combine_nth by (rewrite seq_length; reflexivity).
    rewrite (nth_map_seq (fun j => (j, nth j col 0))) by lia. rewrite seq_nth by lia. reflexivity.
Qed.

Lemma lxor_cancel_r a b : N.lxor (N.lxor a b) b = a.
Proof. rewrite N.lxor_assoc, N.lxor_nilpotent. apply N.lxor_0_r. Qed.

Section Validate.
Variable m : rmode.
Variables id ipv : list nat.
Variables orig col par : list N.
Notation nr := (length id).
Notation nv := (length ipv).
Hypothesis Hbo : bytes orig.
Hypothesis Hbc : bytes col.
Hypothesis Hl : length col = length orig.
Hypothesis H251 : (length orig <= 251)%nat.
Hypothesis Hsid : sorted_lt id = true.
Hypothesis Hbid : forall d, In d id -> (d < length orig)%nat.
Hypothesis Hsipv : sorted_lt ipv = true.
Hypothesis Hbipv : forall p, In p ipv -> (p < rows_of m)%nat.
Hypothesis Hlt : (nr < nv)%nat.
Hypothesis Hbp : forall l, (l < nv)%nat -> nth (nth l ipv 0%nat) par 0 < 256.

Definition Af (l j : nat) : N := matN m (nth l ipv 0%nat) (nth j id 0%nat).
Definition Dv (j : nat) : N := nth (nth j id 0%nat) orig 0.
Definition p0f (l : nat) : N :=
  N.lxor (nth (nth l ipv 0%nat) par 0) (spec_col (matN m) (nth l ipv 0%nat) (zero_at id col)).
Definition Sv (l : nat) : N := xsumN nr (fun k => gmul (Af l k) (Dv k)).
(* the syndrome: what the parities see beyond the contribution of the failed data *)
Definition err (l : nat) : N := N.lxor (p0f l) (Sv l).

Lemma ipv_rows l : (l < nv)%nat -> (nth l ipv 0%nat < rows_of m)%nat.
Proof. intros H. apply Hbipv. apply nth_In. exact H. Qed.
Lemma ipv_rows6 l : (l < nv)%nat -> (nth l ipv 0%nat < 6)%nat.
Proof. intros H. pose proof (ipv_rows l H). pose proof (rows_of_le6 m). lia. Qed.
Lemma id_cols j : (j < nr)%nat -> (nth j id 0%nat < 251)%nat.
Proof. intros H. assert (nth j id 0%nat < length orig)%nat by (apply Hbid; apply nth_In; exact H). lia. Qed.

Lemma Af_range l j : (l < nv)%nat -> (j < nr)%nat -> Af l j < 256.
Proof. intros Hl' Hj. apply matN_range; [apply ipv_rows6; exact Hl'|apply id_cols; exact Hj]. Qed.
Lemma Dv_range j : Dv j < 256.
Proof. apply bytes_nth. exact Hbo. Qed.
Lemma Sv_range l : (l < nv)%nat -> Sv l < 256.
Proof. intros H. apply xsumN_range. intros k Hk. apply gmul_range; [apply Af_range; assumption|apply Dv_range]. Qed.
Lemma p0f_range l : (l < nv)%nat -> p0f l < 256.
Proof.
  intros H. apply lxor_range; [apply Hbp; exact H|].
  apply spec_col_range; [apply ipv_rows6; exact H|rewrite zero_at_length; lia|apply bytes_zero_at; exact Hbc].
Qed.
Lemma err_range l : (l < nv)%nat -> err l < 256.
Proof. intros H. apply lxor_range; [apply p0f_range|apply Sv_range]; exact H. Qed.
Lemma p0f_split l : p0f l = N.lxor (Sv l) (err l).
Proof. unfold err. rewrite (N.lxor_comm (p0f l)), <- N.lxor_assoc, N.lxor_nilpotent. symmetry. apply N.lxor_0_l. Qed.

(* p[l] of raid_validate *)
Lemma p0_term l : (l < nv)%nat ->
  fold_left N.lxor
    (map (fun jb : nat * N => if existsb (Nat.eqb (fst jb)) id then 0
                    else t_gfmul (snd jb) (coefA m (nth l ipv 0%nat) (fst jb))) (indexed col))
    (nth (nth l ipv 0%nat) par 0) = p0f l.
Proof.
  intros Hlv. rewrite indexed_as_map, map_map, fold_left_xsumN_a. unfold p0f. f_equal.
  rewrite spec_col_xsumN, zero_at_length. apply xsumN_ext. intros j Hj. cbn [fst snd].
  rewrite nth_zero_at. assert (Hj251 : (j < 251)%nat) by lia.
  destruct (existsb (Nat.eqb j) id).
  - symmetry. apply gmul_0_r. apply matN_range; [apply ipv_rows6; exact Hlv|exact Hj251].
  - rewrite coefA_matN by (try apply ipv_rows; assumption).
    assert (matN m (nth l ipv 0%nat) j < 256) by (apply matN_range; [apply ipv_rows6; exact Hlv|exact Hj251]).
    assert (nth j col 0 < 256) by (apply bytes_nth; exact Hbc).
    rewrite t_gfmul_ok by assumption. apply gmul_comm; assumption.
Qed.

Variable V : mxN.
Hypothesis EV : invertN (fun j k => coefA m (nth j ipv 0%nat) (nth k id 0%nat)) nr = Some V.
Hypothesis bV : forall i j, (i < nr)%nat -> (j < nr)%nat -> V i j < 256.
Hypothesis sV : forall i j, (i < nr)%nat -> (j < nr)%nat ->
  xsumN nr (fun l => gmul (V i l) (coefA m (nth l ipv 0%nat) (nth j id 0%nat))) = idN i j.
Hypothesis sR : forall i j, (i < nr)%nat -> (j < nr)%nat ->
  xsumN nr (fun l => gmul (coefA m (nth i ipv 0%nat) (nth l id 0%nat)) (V l j)) = idN i j.

Definition wv (j : nat) : N := xsumN nr (fun k => gmul (V j k) (err k)).

Lemma wv_range j : (j < nr)%nat -> wv j < 256.
Proof. intros H. apply xsumN_range. intros k Hk. apply gmul_range; [apply bV; assumption|apply err_range; lia]. Qed.

Lemma coefA_Af l j : (l < nv)%nat -> (j < nr)%nat -> coefA m (nth l ipv 0%nat) (nth j id 0%nat) = Af l j.
Proof. intros Hl' Hj. apply coefA_matN; [apply ipv_rows; exact Hl'|apply id_cols; exact Hj]. Qed.

(* the reconstructed data are the true ones plus V * err *)
Lemma rec_term j : (j < nr)%nat ->
  xsumN nr (fun k => gmul (V j k) (p0f k)) = N.lxor (Dv j) (wv j).
Proof.
  intros Hj. unfold wv. rewrite <- (solve_system nr V (fun k i => coefA m (nth k ipv 0%nat) (nth i id 0%nat)) Dv j); try assumption.
  - rewrite <- xsumN_lxor. apply xsumN_ext. intros k Hk. rewrite p0f_split.
    rewrite gmul_distr_r; [|apply bV; assumption|apply Sv_range; lia|apply err_range; lia].
    f_equal. f_equal. unfold Sv. apply xsumN_ext. intros i Hi. rewrite coefA_Af by lia. reflexivity.
  - intros i k Hi Hk. rewrite coefA_Af by lia. apply Af_range; lia.
  - intros k _. apply Dv_range.
Qed.

Definition rest_f (l : nat) : N := N.lxor (err l) (xsumN nr (fun j => gmul (Af l j) (wv j))).

Lemma validate_eq :
  validate_col m id ipv col par = Some (forallb (fun x => x =? 0) (map rest_f (seq nr (nv - nr)))).
Proof.
  unfold validate_col. cbv zeta.
  assert (G0 : (nr <? nv)%nat = true) by (apply Nat.ltb_lt; exact Hlt). rewrite G0. cbn [negb].
  rewrite EV. f_equal. f_equal. apply map_ext_in. intros l Hl'. apply in_seq in Hl'.
  assert (Hlv : (l < nv)%nat) by lia.
  rewrite fold_left_xsumN_a.
  rewrite (nth_map_seq (fun l => fold_left N.lxor
    (map (fun jb : nat * N => if existsb (Nat.eqb (fst jb)) id then 0
                    else t_gfmul (snd jb) (coefA m (nth l ipv 0%nat) (fst jb))) (indexed col))
    (nth (nth l ipv 0%nat) par 0)) 0 nv l 0) by exact Hlv.
  cbn [Nat.add]. rewrite (p0_term l Hlv).
  unfold rest_f. unfold err at 1. rewrite N.lxor_assoc. f_equal.
  unfold Sv. rewrite <- xsumN_lxor. apply xsumN_ext. intros j Hj.
  rewrite (nth_map_seq (fun j => fold_left N.lxor (map (fun k => t_gfmul (V j k) (nth k _ 0)) (seq 0 nr)) 0) 0 nr j 0) by exact Hj.
  cbn [Nat.add]. rewrite fold_left_xsumN.
  rewrite (xsumN_ext nr _ (fun k => gmul (V j k) (p0f k))).
  2:{ intros k Hk.
      rewrite (nth_map_seq (fun l => fold_left N.lxor
        (map (fun jb : nat * N => if existsb (Nat.eqb (fst jb)) id then 0
                    else t_gfmul (snd jb) (coefA m (nth l ipv 0%nat) (fst jb))) (indexed col))
        (nth (nth l ipv 0%nat) par 0)) 0 nv k 0) by lia.
      cbn [Nat.add]. rewrite (p0_term k) by lia.
      apply t_gfmul_ok; [apply bV; assumption|apply p0f_range; lia]. }
  rewrite (rec_term j Hj). rewrite coefA_Af by assumption.
  assert (bA := Af_range l j Hlv Hj). assert (bD := Dv_range j). assert (bw := wv_range j Hj).
  rewrite t_gfmul_ok by (try assumption; apply lxor_range; assumption).
  rewrite gmul_comm by (try assumption; apply lxor_range; assumption).
  apply gmul_distr_r; assumption.
Qed.

(* G * w = err on the first nr rows, by the right-inverse property *)
Lemma first_rows l : (l < nr)%nat -> xsumN nr (fun j => gmul (Af l j) (wv j)) = err l.
Proof.
  intros Hlr. unfold wv.
  rewrite (xsumN_ext nr _ (fun j => xsumN nr (fun k => gmul (gmul (Af l j) (V j k)) (err k)))).
  2:{ intros j Hj. rewrite xsumN_gmul_r; [|apply Af_range; lia|intros k Hk; apply gmul_range; [apply bV; assumption|apply err_range; lia]].
      apply xsumN_ext. intros k Hk. apply gmul_assoc; [apply Af_range; lia|apply bV; assumption|apply err_range; lia]. }
  rewrite (xsumN_exchange nr nr (fun j k => gmul (gmul (Af l j) (V j k)) (err k))).
  rewrite (xsumN_ext nr _ (fun k => if Nat.eqb k l then err k else 0)).
  2:{ intros k Hk. rewrite <- xsumN_gmul_l; [|apply err_range; lia|intros j Hj; apply gmul_range; [apply Af_range; lia|apply bV; assumption]].
      rewrite (xsumN_ext nr _ (fun j => gmul (coefA m (nth l ipv 0%nat) (nth j id 0%nat)) (V j k)))
        by (intros j Hj; rewrite coefA_Af by lia; reflexivity).
      rewrite sR by assumption. unfold idN. rewrite (Nat.eqb_sym k l).
      destruct (Nat.eqb l k); [apply gmul_1_l|apply gmul_0_l]; apply err_range; lia. }
  apply xsumN_delta. exact Hlr.
Qed.

(* acceptance: no syndrome *)
Lemma validate_accepts : (forall l, (l < nv)%nat -> err l = 0) -> validate_col m id ipv col par = Some true.
Proof.
  intros H0. rewrite validate_eq. f_equal. apply forallb_forall. intros x Hx.
  apply in_map_iff in Hx. destruct Hx as [l [<- Hl']]. apply in_seq in Hl'.
  apply N.eqb_eq. unfold rest_f. rewrite H0 by lia. rewrite N.lxor_0_l.
  apply xsumN_zero. intros j Hj. unfold wv.
  rewrite xsumN_zero; [apply gmul_0_r; apply Af_range; lia|].
  intros k Hk. rewrite H0 by lia. apply gmul_0_r. apply bV; assumption.
Qed.

(* if the check passes, the syndrome is G_full * w on every usable parity row *)
Lemma validate_passes_star :
  validate_col m id ipv col par = Some true ->
  forall l, (l < nv)%nat -> xsumN nr (fun j => gmul (Af l j) (wv j)) = err l.
Proof.
  rewrite validate_eq. intros E l Hlv. injection E as E. rewrite forallb_forall in E.
  destruct (Nat.lt_ge_cases l nr) as [Hlr|Hlr]; [apply first_rows; exact Hlr|].
  specialize (E (rest_f l)). rewrite N.eqb_eq in E. unfold rest_f in E at 2.
  symmetry. apply N.lxor_eq. apply E. apply in_map. apply in_seq. lia.
Qed.

Lemma validate_bool : validate_col m id ipv col par = Some true \/ validate_col m id ipv col par = Some false.
Proof. rewrite validate_eq. destruct (forallb _ _); [left|right]; reflexivity. Qed.

(* rejection, one wrong data byte at position ds outside id: err l = A(ipv_l, ds) * e *)
Lemma validate_rejects_data ds e :
  (ds < length orig)%nat -> ~ In ds id -> e < 256 -> e <> 0 ->
  (forall l, (l < nv)%nat -> err l = gmul (matN m (nth l ipv 0%nat) ds) e) ->
  validate_col m id ipv col par = Some false.
Proof.
  intros Hds Hnin He Hne Herr. destruct validate_bool as [E|E]; [exfalso|exact E].
  pose proof (validate_passes_star E) as Hstar.
  apply Hne.
  assert (Hx : (fun b => if (b <? nr)%nat then wv b else e) nr = 0);
    [|cbv beta in Hx; rewrite Nat.ltb_irrefl in Hx; exact Hx].
  apply (@Bridge.mdsN_fun m (S nr) (fun a => nth a ipv 0%nat)
           (fun b => if (b <? nr)%nat then nth b id 0%nat else ds)
           (fun b => if (b <? nr)%nat then wv b else e)).
  - intros a Ha. apply ipv_rows. lia.
  - intros a b Ha Hb Eab. apply (sorted_lt_nth_inj ipv a b Hsipv); [lia|lia|exact Eab].
  - intros b Hb. destruct (Nat.ltb_spec b nr); [apply id_cols; assumption|lia].
  - intros a b Ha Hb. destruct (Nat.ltb_spec a nr) as [Ha'|Ha'], (Nat.ltb_spec b nr) as [Hb'|Hb']; intros Eab.
    + apply (sorted_lt_nth_inj id a b Hsid); assumption.
    + exfalso. apply Hnin. rewrite <- Eab. apply nth_In. exact Ha'.
    + exfalso. apply Hnin. rewrite Eab. apply nth_In. exact Hb'.
    + lia.
  - intros b Hb. destruct (Nat.ltb_spec b nr); [apply wv_range; assumption|exact He].
  - intros a Ha. rewrite xsumN_S_r. rewrite Nat.ltb_irrefl.
    rewrite (xsumN_ext nr _ (fun j => gmul (Af a j) (wv j))).
    2:{ intros j Hj. assert (Ej : (j <? nr)%nat = true) by (apply Nat.ltb_lt; exact Hj). rewrite Ej. reflexivity. }
    rewrite Hstar by lia. rewrite Herr by lia. apply N.lxor_nilpotent.
  - lia.
Qed.

(* rejection, one wrong parity, the ls-th usable one: err = e at ls, 0 elsewhere *)
Lemma validate_rejects_parity ls e :
  (ls < nv)%nat -> e <> 0 ->
  (forall l, (l < nv)%nat -> err l = if Nat.eqb l ls then e else 0) ->
  validate_col m id ipv col par = Some false.
Proof.
  intros Hls Hne Herr. destruct validate_bool as [E|E]; [exfalso|exact E].
  pose proof (validate_passes_star E) as Hstar.
  assert (Hw : forall b, (b < nr)%nat -> wv b = 0).
  { apply (@Bridge.mdsN_fun m nr (fun a => nth (if (a <? ls)%nat then a else S a) ipv 0%nat)
             (fun b => nth b id 0%nat) wv).
    - intros a Ha. apply ipv_rows. destruct (Nat.ltb_spec a ls); lia.
    - intros a b Ha Hb Eab.
      apply (sorted_lt_nth_inj ipv _ _ Hsipv) in Eab;
        destruct (Nat.ltb_spec a ls), (Nat.ltb_spec b ls); lia.
    - intros b Hb. apply id_cols. exact Hb.
    - intros a b Ha Hb. apply (sorted_lt_nth_inj id a b Hsid); assumption.
    - intros b Hb. apply wv_range. exact Hb.
    - intros a Ha. set (l := if (a <? ls)%nat then a else S a).
      assert (Hl' : (l < nv)%nat /\ l <> ls) by (unfold l; destruct (Nat.ltb_spec a ls); lia).
      change (xsumN nr (fun j => gmul (Af l j) (wv j)) = 0).
      rewrite Hstar by apply Hl'. rewrite Herr by apply Hl'.
      destruct (Nat.eqb_spec l ls); [exfalso; apply (proj2 Hl'); assumption|reflexivity]. }
  apply Hne. specialize (Hstar ls Hls). rewrite Herr, Nat.eqb_refl in Hstar by exact Hls. rewrite <- Hstar.
  apply xsumN_zero. intros j Hj. rewrite Hw by exact Hj. apply gmul_0_r. apply Af_range; assumption.
Qed.

End Validate.

(* ------------------------------------------------------------------------------------------- *)
(* the inverse that raid_validate computes exists (MDS) *)
Lemma validate_V m id ipv :
  sorted_lt id = true -> (forall d, In d id -> (d < 251)%nat) ->
  sorted_lt ipv = true -> (forall p, In p ipv -> (p < rows_of m)%nat) -> (length id < length ipv)%nat ->
  exists V,
    invertN (fun j k => coefA m (nth j ipv 0%nat) (nth k id 0%nat)) (length id) = Some V /\
    (forall i j, (i < length id)%nat -> (j < length id)%nat -> V i j < 256) /\
    (forall i j, (i < length id)%nat -> (j < length id)%nat ->
       xsumN (length id) (fun l => gmul (V i l) (coefA m (nth l ipv 0%nat) (nth j id 0%nat))) = idN i j) /\
    (forall i j, (i < length id)%nat -> (j < length id)%nat ->
       xsumN (length id) (fun l => gmul (coefA m (nth i ipv 0%nat) (nth l id 0%nat)) (V l j)) = idN i j).
Proof.
  intros Hsid Hbid Hsipv Hbipv Hlt.
  destruct (@InvertProofs.invertN_ok_ext m id (firstn (length id) ipv) (length id)
              (fun j k => coefA m (nth j ipv 0%nat) (nth k id 0%nat))) as [V [EV [bV [sV sR]]]].
  - exact Hsid.
  - apply sorted_lt_firstn. exact Hsipv.
  - reflexivity.
  - apply firstn_length_le. lia.
  - exact Hbid.
  - intros p Hp. apply Hbipv. apply (firstn_In _ _ _ Hp).
  - intros j k Hj Hk. rewrite nth_firstn_lt by exact Hj. reflexivity.
  - exists V. split; [exact EV|]. split; [exact bV|]. split; [exact sV|exact sR].
Qed.

(* the syndrome is parity xor what the parity should be, as soon as col is orig outside id *)
Lemma err_good m id ipv orig col par l :
  good m orig col id -> (length orig <= 251)%nat -> sorted_lt id = true ->
  (forall d, In d id -> (d < length orig)%nat) -> (nth l ipv 0%nat < 6)%nat ->
  err m id ipv orig col par l
  = N.lxor (nth (nth l ipv 0%nat) par 0) (spec_col (matN m) (nth l ipv 0%nat) orig).
Proof.
  intros Hg H251 Hsid Hbid Hp. unfold err, p0f, Sv, Af, Dv.
  rewrite <- (spec_diff m (nth l ipv 0%nat) orig col id Hg (sorted_lt_NoDup id Hsid) Hbid Hp H251).
  rewrite lxor_swap4, N.lxor_nilpotent, N.lxor_0_r. reflexivity.
Qed.

Theorem validate_col_accepts m id ipv orig col par :
  good m orig col id -> (length orig <= 251)%nat -> sorted_lt id = true ->
  (forall d, In d id -> (d < length orig)%nat) -> sorted_lt ipv = true ->
  (forall p, In p ipv -> (p < rows_of m)%nat /\ nth p par 0 = spec_col (matN m) p orig) ->
  (length id < length ipv)%nat ->
  validate_col m id ipv col par = Some true.
Proof.
  intros Hg H251 Hsid Hbid Hsipv Hpar Hlt. pose proof Hg as [Hbo [Hbc [Hl Hag]]].
  assert (Hbipv : forall p, In p ipv -> (p < rows_of m)%nat) by (intros p Hp; apply (Hpar p Hp)).
  assert (Hid251 : forall d, In d id -> (d < 251)%nat) by (intros d Hd; specialize (Hbid d Hd); lia).
  assert (Hr6 : forall l, (l < length ipv)%nat -> (nth l ipv 0%nat < 6)%nat).
  { intros l Hl'. pose proof (rows_of_le6 m). specialize (Hbipv _ (nth_In ipv 0%nat Hl')). lia. }
  assert (Hbp : forall l, (l < length ipv)%nat -> nth (nth l ipv 0%nat) par 0 < 256).
  { intros l Hl'. destruct (Hpar _ (nth_In ipv 0%nat Hl')) as [_ ->]. apply spec_col_range; [apply Hr6; exact Hl'|exact H251|exact Hbo]. }
  destruct (validate_V m id ipv Hsid Hid251 Hsipv Hbipv Hlt) as [V [EV [bV [sV sR]]]].
  apply (validate_accepts m id ipv orig col par Hbo Hbc Hl H251 Hbid Hbipv Hlt Hbp V EV bV sV).
  intros l Hl'. rewrite err_good by (try assumption; apply Hr6; exact Hl').
  destruct (Hpar _ (nth_In ipv 0%nat Hl')) as [_ ->]. apply N.lxor_nilpotent.
Qed.

(* one wrong parity *)
Theorem validate_col_rejects_parity m id ipv orig col par ps :
  good m orig col id -> (length orig <= 251)%nat -> sorted_lt id = true ->
  (forall d, In d id -> (d < length orig)%nat) -> sorted_lt ipv = true ->
  (forall p, In p ipv -> (p < rows_of m)%nat) ->
  (forall p, In p ipv -> p <> ps -> nth p par 0 = spec_col (matN m) p orig) ->
  In ps ipv -> nth ps par 0 < 256 -> nth ps par 0 <> spec_col (matN m) ps orig ->
  (length id < length ipv)%nat ->
  validate_col m id ipv col par = Some false.
Proof.
  intros Hg H251 Hsid Hbid Hsipv Hbipv Hpar Hps Hpsb Hpsne Hlt. pose proof Hg as [Hbo [Hbc [Hl Hag]]].
  assert (Hid251 : forall d, In d id -> (d < 251)%nat) by (intros d Hd; specialize (Hbid d Hd); lia).
  assert (Hr6 : forall l, (l < length ipv)%nat -> (nth l ipv 0%nat < 6)%nat).
  { intros l Hl'. pose proof (rows_of_le6 m). specialize (Hbipv _ (nth_In ipv 0%nat Hl')). lia. }
  destruct (In_nth ipv ps 0%nat Hps) as [ls [Hls Els]].
  assert (Hbp : forall l, (l < length ipv)%nat -> nth (nth l ipv 0%nat) par 0 < 256).
  { intros l Hl'. destruct (Nat.eq_dec (nth l ipv 0%nat) ps) as [->|Hne]; [exact Hpsb|].
    rewrite Hpar by (try apply nth_In; assumption). apply spec_col_range; [apply Hr6; exact Hl'|exact H251|exact Hbo]. }
  destruct (validate_V m id ipv Hsid Hid251 Hsipv Hbipv Hlt) as [V [EV [bV [sV sR]]]].
  apply (validate_rejects_parity m id ipv orig col par Hbo Hbc Hl H251 Hsid Hbid Hsipv Hbipv Hlt Hbp V EV bV sV sR
           ls (N.lxor (nth ps par 0) (spec_col (matN m) ps orig)) Hls).
  - intros E. apply Hpsne. apply N.lxor_eq. exact E.
  - intros l Hl'. rewrite err_good by (try assumption; apply Hr6; exact Hl').
    destruct (Nat.eqb_spec l ls) as [->|Hne]; [rewrite Els; reflexivity|].
    rewrite Hpar; [apply N.lxor_nilpotent|apply nth_In; exact Hl'|].
    intros E. apply Hne. apply (sorted_lt_nth_inj ipv l ls Hsipv Hl' Hls). rewrite E, Els. reflexivity.
Qed.

(* one wrong data byte *)
Lemma spec_col_lxor_one m p orig ds v :
  (p < 6)%nat -> (length orig <= 251)%nat -> bytes orig -> v < 256 -> (ds < length orig)%nat ->
  N.lxor (spec_col (matN m) p orig) (spec_col (matN m) p (set_nth ds v orig))
  = gmul (matN m p ds) (N.lxor (nth ds orig 0) v).
Proof.
  intros Hp H251 Hbo Hv Hds. rewrite !spec_col_xsumN, set_nth_length, <- xsumN_lxor.
  rewrite <- (xsumN_delta (length orig) ds (fun i => gmul (matN m p i) (N.lxor (nth i orig 0) v))) by exact Hds.
  apply xsumN_ext. intros i Hi. rewrite nth_set_nth.
  assert (bM : matN m p i < 256) by (apply matN_range; lia).
  assert (bO : nth i orig 0 < 256) by (apply bytes_nth; exact Hbo).
  destruct (Nat.eqb_spec i ds) as [->|Hne]; cbn [andb].
  - assert (E : (ds <? length orig)%nat = true) by (apply Nat.ltb_lt; exact Hds). rewrite E.
    symmetry. apply gmul_distr_r; assumption.
  - apply N.lxor_nilpotent.
Qed.

Theorem validate_col_rejects_data m id ipv orig col par ds :
  bytes orig -> bytes col -> length col = length orig -> (length orig <= 251)%nat ->
  sorted_lt id = true -> (forall d, In d id -> (d < length orig)%nat) -> sorted_lt ipv = true ->
  (forall p, In p ipv -> (p < rows_of m)%nat /\ nth p par 0 = spec_col (matN m) p orig) ->
  (ds < length orig)%nat -> ~ In ds id -> nth ds col 0 <> nth ds orig 0 ->
  (forall d, ~ In d id -> d <> ds -> nth d col 0 = nth d orig 0) ->
  (length id < length ipv)%nat ->
  validate_col m id ipv col par = Some false.
Proof.
  intros Hbo Hbc Hl H251 Hsid Hbid Hsipv Hpar Hds Hnin Hne Hag Hlt.
  assert (Hbipv : forall p, In p ipv -> (p < rows_of m)%nat) by (intros p Hp; apply (Hpar p Hp)).
  assert (Hid251 : forall d, In d id -> (d < 251)%nat) by (intros d Hd; specialize (Hbid d Hd); lia).
  assert (Hr6 : forall l, (l < length ipv)%nat -> (nth l ipv 0%nat < 6)%nat).
  { intros l Hl'. pose proof (rows_of_le6 m). specialize (Hbipv _ (nth_In ipv 0%nat Hl')). lia. }
  assert (Hbp : forall l, (l < length ipv)%nat -> nth (nth l ipv 0%nat) par 0 < 256).
  { intros l Hl'. destruct (Hpar _ (nth_In ipv 0%nat Hl')) as [_ ->]. apply spec_col_range; [apply Hr6; exact Hl'|exact H251|exact Hbo]. }
  set (v := nth ds col 0). assert (Hv : v < 256) by (apply bytes_nth; exact Hbc).
  set (orig' := set_nth ds v orig).
  assert (Hg' : good m orig' col id).
  { unfold good, orig'. split; [|split; [exact Hbc|split; [rewrite set_nth_length; exact Hl|]]].
    - apply bytes_of_nth. intros i _. rewrite nth_set_nth. destruct (_ && _)%bool; [exact Hv|apply bytes_nth; exact Hbo].
    - intros d Hd. rewrite nth_set_nth. destruct (Nat.eqb_spec d ds) as [->|Hdd]; cbn [andb].
      + assert (E : (ds <? length orig)%nat = true) by (apply Nat.ltb_lt; exact Hds). rewrite E. reflexivity.
      + apply Hag; assumption. }
  assert (Herr : forall l, (l < length ipv)%nat ->
            err m id ipv orig col par l = gmul (matN m (nth l ipv 0%nat) ds) (N.lxor (nth ds orig 0) v)).
  { intros l Hl'.
    assert (E : err m id ipv orig col par l = err m id ipv orig' col par l).
    { unfold err, Sv. f_equal. apply xsumN_ext. intros k Hk. f_equal. unfold Dv, orig'. rewrite nth_set_nth.
      destruct (Nat.eqb_spec (nth k id 0%nat) ds) as [Ek|_]; [|reflexivity].
      exfalso. apply Hnin. rewrite <- Ek. apply nth_In. exact Hk. }
    rewrite E. rewrite err_good; [|exact Hg'|unfold orig'; rewrite set_nth_length; exact H251|exact Hsid
                                   |unfold orig'; rewrite set_nth_length; exact Hbid|apply Hr6; exact Hl'].
    destruct (Hpar _ (nth_In ipv 0%nat Hl')) as [_ ->].
    apply spec_col_lxor_one; [apply Hr6; exact Hl'|exact H251|exact Hbo|exact Hv|exact Hds]. }
  destruct (validate_V m id ipv Hsid Hid251 Hsipv Hbipv Hlt) as [V [EV [bV [sV sR]]]].
  apply (validate_rejects_data m id ipv orig col par Hbo Hbc Hl H251 Hsid Hbid Hsipv Hbipv Hlt Hbp V EV bV sV sR
           ds (N.lxor (nth ds orig 0) v) Hds Hnin).
  - apply lxor_range; [apply bytes_nth; exact Hbo|exact Hv].
  - intros E. apply Hne. apply N.lxor_eq in E. symmetry. exact E.
  - exact Herr.
Qed.

(* ------------------------------------------------------------------------------------------- *)
(* raid_check *)
Section CheckSets.
Variables nd np : nat.
Variable ir : list nat.
Hypothesis Hs : sorted_lt ir = true.
Hypothesis Hb : forall i, In i ir -> (i < nd + np)%nat.
Hypothesis Hnr : (length ir < np)%nat.

Let id := filter (fun i => (i <? nd)%nat) ir.
Let fp := map (fun i => (i - nd)%nat) (filter (fun i => negb (i <? nd)%nat) ir).
Let ipv := filter (fun p => negb (existsb (Nat.eqb p) fp)) (seq 0 np).

Lemma check_sets :
  sorted_lt id = true /\ (forall d, In d id <-> In d ir /\ (d < nd)%nat) /\ sorted_lt ipv = true /\
  (forall p, In p ipv <-> (p < np)%nat /\ ~ In (nd + p)%nat ir) /\ (length id < length ipv)%nat.
Proof.
  split; [apply sorted_lt_filter; exact Hs|]. split.
  { intros d. unfold id. rewrite filter_In, Nat.ltb_lt. reflexivity. }
  split; [apply sorted_lt_filter; apply sorted_lt_seq|]. split.
  { intros p. unfold ipv. rewrite filter_In, in_seq, negb_true_iff, existsb_eqb_In'. unfold fp.
    rewrite in_failed_parities. split; intros [H1 H2]; (split; [lia|exact H2]). }
  assert (Hsplit : (length id + length fp = length ir)%nat).
  { unfold fp. rewrite map_length. apply filter_lengths. }
  pose proof (count_avail fp (seq 0 np) (seq_NoDup np 0)) as Hc. rewrite seq_length in Hc. fold ipv in Hc. lia.
Qed.

Lemma check_unfold m col par :
  raid_check_col m nd np ir col par =
  if (np <=? 6)%nat then validate_col m id ipv col par else None.
Proof.
  unfold raid_check_col. cbv zeta. fold id. fold fp. fold ipv.
  assert (G1 : (length ir <? np)%nat = true) by (apply Nat.ltb_lt; exact Hnr).
  rewrite G1, Hs. cbn [negb orb]. destruct (np <=? 6)%nat; [|reflexivity]. cbn [negb].
  destruct ir as [|i0 ir']; [reflexivity|].
  assert (E : (last (i0 :: ir') 0 <? nd + np)%nat = true) by (apply Nat.ltb_lt; apply Hb; apply last_In; discriminate).
  rewrite E. cbn [negb]. rewrite andb_false_r. reflexivity.
Qed.
End CheckSets.

Theorem check_accepts_true_set m nd np ir orig col par :
  nd = length orig -> (nd <= 251)%nat -> (np <= rows_of m)%nat -> (length ir < np)%nat ->
  sorted_lt ir = true -> (forall i, In i ir -> (i < nd + np)%nat) ->
  good m orig col (filter (fun i => (i <? nd)%nat) ir) ->
  (forall p, (p < np)%nat -> ~ In (nd + p)%nat ir -> nth p par 0 = spec_col (matN m) p orig) ->
  raid_check_col m nd np ir col par = Some true.
Proof.
  intros Hndeq Hnd Hnp Hnr Hs Hb Hg Hpar.
  rewrite (check_unfold nd np ir Hs Hb Hnr). pose proof (rows_of_le6 m).
  assert (G : (np <=? 6)%nat = true) by (apply Nat.leb_le; lia). rewrite G.
  destruct (check_sets nd np ir Hs Hnr) as [Hsid [Hid [Hsipv [Hipv Hlt]]]].
  apply validate_col_accepts with (orig := orig); try assumption.
  - lia.
  - intros d Hd. apply Hid in Hd. lia.
  - intros p Hp. apply Hipv in Hp. split; [lia|apply Hpar; apply Hp].
Qed.

Theorem check_rejects_one_more_data m nd np ir orig col par ds :
  nd = length orig -> (nd <= 251)%nat -> (np <= rows_of m)%nat -> (length ir < np)%nat ->
  sorted_lt ir = true -> (forall i, In i ir -> (i < nd + np)%nat) ->
  bytes orig -> bytes col -> length col = length orig ->
  (forall p, (p < np)%nat -> ~ In (nd + p)%nat ir -> nth p par 0 = spec_col (matN m) p orig) ->
  (ds < nd)%nat -> ~ In ds ir -> nth ds col 0 <> nth ds orig 0 ->
  (forall d, (d < nd)%nat -> ~ In d ir -> d <> ds -> nth d col 0 = nth d orig 0) ->
  raid_check_col m nd np ir col par = Some false.
Proof.
  intros Hndeq Hnd Hnp Hnr Hs Hb Hbo Hbc Hl Hpar Hds Hnin Hne Hag.
  rewrite (check_unfold nd np ir Hs Hb Hnr). pose proof (rows_of_le6 m).
  assert (G : (np <=? 6)%nat = true) by (apply Nat.leb_le; lia). rewrite G.
  destruct (check_sets nd np ir Hs Hnr) as [Hsid [Hid [Hsipv [Hipv Hlt]]]].
  apply validate_col_rejects_data with (orig := orig) (ds := ds); try assumption.
  - lia.
  - intros d Hd. apply Hid in Hd. lia.
  - intros p Hp. apply Hipv in Hp. split; [lia|apply Hpar; apply Hp].
  - lia.
  - intros Hin. apply Hid in Hin. apply Hnin. apply Hin.
  - intros d Hd Hdd. destruct (Nat.lt_ge_cases d nd) as [Hlt'|Hge].
    + apply Hag; [exact Hlt'| |exact Hdd]. intros Hin. apply Hd. apply Hid. split; assumption.
    + rewrite !nth_overflow by lia. reflexivity.
Qed.

Theorem check_rejects_one_more_parity m nd np ir orig col par ps :
  nd = length orig -> (nd <= 251)%nat -> (np <= rows_of m)%nat -> (length ir < np)%nat ->
  sorted_lt ir = true -> (forall i, In i ir -> (i < nd + np)%nat) ->
  good m orig col (filter (fun i => (i <? nd)%nat) ir) ->
  (ps < np)%nat -> ~ In (nd + ps)%nat ir -> nth ps par 0 < 256 -> nth ps par 0 <> spec_col (matN m) ps orig ->
  (forall p, (p < np)%nat -> ~ In (nd + p)%nat ir -> p <> ps -> nth p par 0 = spec_col (matN m) p orig) ->
  raid_check_col m nd np ir col par = Some false.
Proof.
  intros Hndeq Hnd Hnp Hnr Hs Hb Hg Hps Hpsn Hpsb Hpsne Hpar.
  rewrite (check_unfold nd np ir Hs Hb Hnr). pose proof (rows_of_le6 m).
  assert (G : (np <=? 6)%nat = true) by (apply Nat.leb_le; lia). rewrite G.
  destruct (check_sets nd np ir Hs Hnr) as [Hsid [Hid [Hsipv [Hipv Hlt]]]].
  apply validate_col_rejects_parity with (orig := orig) (ps := ps); try assumption.
  - lia.
  - intros d Hd. apply Hid in Hd. lia.
  - intros p Hp. apply Hipv in Hp. lia.
  - intros p Hp Hpp. apply Hipv in Hp. apply Hpar; [apply Hp|apply Hp|exact Hpp].
  - apply Hipv. split; assumption.
Qed.

(* both cases in one statement: exactly one block outside ir is wrong in this column *)
Theorem check_rejects_one_more m nd np ir orig col par :
  nd = length orig -> (nd <= 251)%nat -> (np <= rows_of m)%nat -> (length ir < np)%nat ->
  sorted_lt ir = true -> (forall i, In i ir -> (i < nd + np)%nat) ->
  bytes orig -> bytes col -> length col = length orig -> bytes par ->
  forall bad, (bad < nd + np)%nat -> ~ In bad ir ->
  (* the block `bad` is wrong *)
  (if (bad <? nd)%nat then nth bad col 0 <> nth bad orig 0
   else nth (bad - nd) par 0 <> spec_col (matN m) (bad - nd) orig) ->
  (* every other block outside ir is right *)
  (forall d, (d < nd)%nat -> ~ In d ir -> d <> bad -> nth d col 0 = nth d orig 0) ->
  (forall p, (p < np)%nat -> ~ In (nd + p)%nat ir -> (nd + p)%nat <> bad -> nth p par 0 = spec_col (matN m) p orig) ->
  raid_check_col m nd np ir col par = Some false.
Proof.
  intros Hndeq Hnd Hnp Hnr Hs Hb Hbo Hbc Hl Hbpar bad Hbad Hnin Hwrong Hdat Hpar.
  destruct (Nat.ltb_spec bad nd) as [Hlt|Hge].
  - apply check_rejects_one_more_data with (orig := orig) (ds := bad); try assumption.
    intros p Hp Hpn. apply Hpar; [exact Hp|exact Hpn|lia].
  - apply check_rejects_one_more_parity with (orig := orig) (ps := (bad - nd)%nat); try assumption.
    + unfold good. split; [exact Hbo|]. split; [exact Hbc|]. split; [exact Hl|].
      intros d Hd. destruct (Nat.lt_ge_cases d nd) as [Hlt'|Hge'].
      * apply Hdat; [exact Hlt'| |lia]. intros Hin. apply Hd. apply filter_In. split; [exact Hin|apply Nat.ltb_lt; exact Hlt'].
      * rewrite !nth_overflow by lia. reflexivity.
    + lia.
    + replace (nd + (bad - nd))%nat with bad by lia. exact Hnin.
    + apply bytes_nth. exact Hbpar.
    + intros p Hp Hpn Hpp. apply Hpar; [exact Hp|exact Hpn|lia].
Qed.

(* concrete instances (the column of RecProofs.v): data 1 and 3 declared failed, 3 parities *)
Example check_accepts_example :
  raid_check_col Cauchy 4 3 [1; 3]%nat ex_col ex_par = Some true.
Proof. vm_compute. reflexivity. Qed.
Example check_rejects_data_example :      (* disk 2 silently corrupted as well *)
  raid_check_col Cauchy 4 3 [1; 3]%nat [0x11; 0x00; 0x3D; 0x55] ex_par = Some false.
Proof. vm_compute. reflexivity. Qed.
Example check_rejects_parity_example :    (* parity 2 silently corrupted as well *)
  raid_check_col Cauchy 4 3 [1; 3]%nat ex_col (set_nth 2 0x01 ex_par) = Some false.
Proof. vm_compute. reflexivity. Qed.

Print Assumptions check_accepts_true_set.
Print Assumptions check_rejects_one_more_data.
Print Assumptions check_rejects_one_more_parity.
Print Assumptions check_rejects_one_more.
