(* Proofs about the combination enumerator (raid/combo.h) and raid_sort / raid_insert (raid/helper.c)
   as transcribed in RecModel.v.  Stdlib only.

   Main results
     comb_bump3_fuel / comb_next_fuel_ok : the fuel [S r] of comb_bump is never exhausted (for ANY c);
     comb_next_spec        : comb_next = lexicographic successor, None iff last combination;
     comb_all_complete     : comb_all (binom n r) r n (comb_first r) = all combinations in lex order;
     raid_sort_sorts       : the networks for n <= 6 sort;
     raid_insert_sorted / raid_insert_perm. *)
From Coq Require Import List Arith Lia Bool Permutation Sorted.
From Snap.Raid Require Import RecModel.
Import ListNotations.

(* ------------------------------------------------------------------------------------------- *)
(* combinations: strictly increasing lists with entries in [lo, n) *)
Fixpoint combP (lo n : nat) (c : list nat) : Prop :=
  match c with
  | [] => True
  | a :: t => lo <= a /\ a < n /\ combP (S a) n t
  end.
Definition is_comb (r n : nat) (c : list nat) : Prop := length c = r /\ combP 0 n c.

(* lexicographic order (only ever used on lists of equal length, so no prefix rule) *)
Inductive lex_lt : list nat -> list nat -> Prop :=
| lex_hd : forall a b s t, a < b -> lex_lt (a :: s) (b :: t)
| lex_tl : forall a s t, lex_lt s t -> lex_lt (a :: s) (a :: t).

Lemma lex_irrefl c : ~ lex_lt c c.
Proof. induction c; intro H; inversion H; subst; [lia | auto]. Qed.

Lemma lex_trans a b c : lex_lt a b -> lex_lt b c -> lex_lt a c.
Proof.
  intros H; revert c; induction H; intros c Hc; inversion Hc; subst.
  - apply lex_hd; lia.
  - apply lex_hd; assumption.
  - apply lex_hd; assumption.
  - apply lex_tl; auto.
Qed.

(* combP agrees with the model's own check sorted_lt plus the bound *)
Lemma combP_sorted_lt : forall c lo n,
  combP lo n c <->
  (sorted_lt c = true /\ Forall (fun x => x < n) c /\ match c with [] => True | a :: _ => lo <= a end).
Proof.
  induction c as [|a t IH]; intros lo n.
  - simpl. split; [intros _; repeat split; constructor | trivial].
  - split.
    + intros (H1 & H2 & H3). apply IH in H3. destruct H3 as (S1 & S2 & S3).
      split; [| split; [constructor; assumption | assumption]].
      destruct t as [|b t']; [reflexivity|].
      change (((a <? b) && sorted_lt (b :: t')) = true).
      rewrite S1, andb_true_r. apply Nat.ltb_lt. lia.
    + intros (S1 & S2 & S3). inversion S2; subst.
      split; [assumption | split; [assumption|]].
      apply IH. destruct t as [|b t']; [repeat split; constructor|].
      change (((a <? b) && sorted_lt (b :: t')) = true) in S1.
      apply andb_true_iff in S1. destruct S1 as [S1 S1'].
      apply Nat.ltb_lt in S1. repeat split; [assumption | assumption | lia].
Qed.

Lemma is_comb_sorted_lt r n c :
  is_comb r n c <-> (length c = r /\ sorted_lt c = true /\ Forall (fun x => x < n) c).
Proof.
  unfold is_comb. rewrite combP_sorted_lt. split.
  - intros (H & H1 & H2 & _); auto.
  - intros (H & H1 & H2). repeat split; auto. destruct c; [trivial | lia].
Qed.

Lemma combP_weaken : forall c lo lo' n, lo' <= lo -> combP lo n c -> combP lo' n c.
Proof. destruct c; simpl; intros; [trivial|]. intuition lia. Qed.

Lemma combP_len : forall c lo n, lo <= n -> combP lo n c -> lo + length c <= n.
Proof.
  induction c as [|a t IH]; simpl; intros lo n Hlo H; [lia|].
  destruct H as (H1 & H2 & H3). apply IH in H3; lia.
Qed.

Lemma combP_seq : forall k a lo n, lo <= a -> a + k <= n -> combP lo n (seq a k).
Proof.
  induction k; simpl; intros; [trivial|]. repeat split; try lia. apply IHk; lia.
Qed.

(* seq a k is the least, seq (n-k) k the greatest combination *)
Lemma seq_least : forall d a n, combP a n d -> d = seq a (length d) \/ lex_lt (seq a (length d)) d.
Proof.
  induction d as [|b d IH]; simpl; intros a n H; [left; reflexivity|].
  destruct H as (H1 & H2 & H3).
  destruct (Nat.eq_dec a b) as [->|Hne].
  - destruct (IH _ _ H3) as [E|L]; [left; congruence | right; apply lex_tl; assumption].
  - right. apply lex_hd. lia.
Qed.

Lemma seq_greatest : forall d lo n, combP lo n d -> ~ lex_lt (seq (n - length d) (length d)) d.
Proof.
  induction d as [|b d IH]; simpl; intros lo n H L; [inversion L|].
  destruct H as (H1 & H2 & H3). assert (Hl := fun e => combP_len _ _ _ e H3); specialize (Hl ltac:(lia)).
  inversion L; subst.
  - lia.
  - apply (IH _ _ H3). replace (n - length d) with (S (n - S (length d))) by lia. assumption.
Qed.

(* ------------------------------------------------------------------------------------------- *)
(* structural successor function *)
Fixpoint next_rec (n : nat) (c : list nat) : option (list nat) :=
  match c with
  | [] => None
  | a :: t => match next_rec n t with
              | Some t' => Some (a :: t')
              | None => if S a + length t <? n then Some (seq (S a) (S (length t))) else None
              end
  end.

Lemma next_rec_seq_last : forall k a n, a + k = n -> next_rec n (seq a k) = None.
Proof.
  induction k; intros a n H; [reflexivity|].
  simpl. rewrite IHk by lia. rewrite seq_length.
  destruct (S (a + k) <? n) eqn:E; [apply Nat.ltb_lt in E; lia | reflexivity].
Qed.

Lemma next_rec_pivot : forall p x k n, x + 1 + k < n ->
  next_rec n (p ++ x :: seq (n - k) k) = Some (p ++ seq (S x) (S k)).
Proof.
  induction p as [|a p IH]; intros x k n H.
  - simpl. rewrite next_rec_seq_last by lia. rewrite seq_length.
    destruct (S (x + k) <? n) eqn:E; [reflexivity | apply Nat.ltb_ge in E; lia].
  - simpl app. simpl next_rec. rewrite IH by assumption. reflexivity.
Qed.

(* every combination is either the last one or has a pivot *)
Lemma comb_decomp : forall c lo n, combP lo n c ->
  c = seq (n - length c) (length c) \/
  exists p x k, c = p ++ x :: seq (n - k) k /\ x + 1 + k < n.
Proof.
  induction c as [|a t IH]; intros lo n H; [left; reflexivity|].
  destruct H as (H1 & H2 & H3). assert (Hl := fun e => combP_len _ _ _ e H3); specialize (Hl ltac:(lia)).
  destruct (IH _ _ H3) as [E | (p & x & k & E & Hk)].
  - destruct (Nat.eq_dec (S a + length t) n) as [Hn|Hn].
    + left. simpl length. replace (n - S (length t)) with a by lia.
      simpl. f_equal. rewrite E at 1. f_equal. lia.
    + right. exists [], a, (length t). split; [simpl; congruence | lia].
  - right. exists (a :: p), x, k. split; [simpl; congruence | assumption].
Qed.

(* properties of the successor in pivot form *)
Lemma succ_props : forall p x k n lo, x + 1 + k < n ->
  combP lo n (p ++ x :: seq (n - k) k) ->
  combP lo n (p ++ seq (S x) (S k)) /\
  lex_lt (p ++ x :: seq (n - k) k) (p ++ seq (S x) (S k)) /\
  forall d, length d = length (p ++ x :: seq (n - k) k) -> combP lo n d ->
            lex_lt (p ++ x :: seq (n - k) k) d ->
            d = p ++ seq (S x) (S k) \/ lex_lt (p ++ seq (S x) (S k)) d.
Proof.
  induction p as [|a p IH]; intros x k n lo Hk Hc.
  - cbn [app] in *. destruct Hc as (H1 & H2 & H3).
    split; [apply combP_seq; lia|]. split; [simpl; apply lex_hd; lia|].
    intros d Hd Hcd L. destruct d as [|b d]; [inversion L|].
    simpl in Hd. rewrite seq_length in Hd. injection Hd as Hd.
    destruct Hcd as (D1 & D2 & D3).
    inversion L; subst.
    + destruct (Nat.eq_dec b (S x)) as [->|Hne].
      * change (seq (S x) (S (length d))) with (S x :: seq (S (S x)) (length d)).
        destruct (seq_least _ _ _ D3) as [E|L'].
        -- left. congruence.
        -- right. apply lex_tl. assumption.
      * right. simpl. apply lex_hd. lia.
    + exfalso. apply (seq_greatest _ _ _ D3). assumption.
  - cbn [app] in *. destruct Hc as (H1 & H2 & H3).
    destruct (IH x k n (S a) Hk H3) as (I1 & I2 & I3).
    split; [simpl; auto|]. split; [apply lex_tl; assumption|].
    intros d Hd Hcd L. destruct d as [|b d]; [inversion L|].
    destruct Hcd as (D1 & D2 & D3). simpl in Hd. injection Hd as Hd.
    inversion L; subst.
    + right. apply lex_hd. assumption.
    + destruct (I3 d Hd D3 H0) as [E|L']; [left; congruence | right; apply lex_tl; assumption].
Qed.

(* ------------------------------------------------------------------------------------------- *)
(* the fuel of comb_bump: a three-valued variant that tells "out of fuel" from "no next" *)
Inductive bump3 := BFuel | BLast | BFound (i : nat) (c : list nat).
Fixpoint comb_bump3 (fuel : nat) (i : nat) (h : nat) (c : list nat) : bump3 :=
  match fuel with
  | O => BFuel
  | S f =>
      let ci := S (nth i c 0) in
      let c' := set_nth i ci c in
      if h <=? ci then
        match i with O => BLast | S i' => comb_bump3 f i' (h - 1) c' end
      else BFound i c'
  end.

Lemma comb_bump3_erase : forall f i h c,
  comb_bump f i h c = match comb_bump3 f i h c with BFound j c' => Some (j, c') | _ => None end.
Proof.
  induction f; intros i h c; [reflexivity|]. simpl.
  destruct (h <=? S (nth i c 0)); [destruct i; [reflexivity | apply IHf] | reflexivity].
Qed.

(* recursion depth of comb_bump is at most i + 1, whatever the list is *)
Lemma comb_bump3_fuel : forall f i h c, i < f -> comb_bump3 f i h c <> BFuel.
Proof.
  induction f; intros i h c Hi; [lia|]. simpl.
  destruct (h <=? S (nth i c 0)); [destruct i; [discriminate | apply IHf; lia] | discriminate].
Qed.

(* the call made by comb_next never runs out of fuel (fuel r would already be enough) *)
Corollary comb_next_fuel_ok r n c : 0 < r ->
  comb_bump3 (S r) (r - 1) n c <> BFuel /\ comb_bump3 r (r - 1) n c <> BFuel.
Proof. intros; split; apply comb_bump3_fuel; lia. Qed.

(* hence None from comb_next always means "c[0] overflowed", i.e. the C function returned 0 *)
Corollary comb_next_None_is_last r n c : 0 < r ->
  (comb_next r n c = None <-> comb_bump3 (S r) (r - 1) n c = BLast).
Proof.
  intros Hr. unfold comb_next. rewrite comb_bump3_erase.
  pose proof (proj1 (comb_next_fuel_ok r n c Hr)) as Hf.
  destruct (comb_bump3 (S r) (r - 1) n c); split; intros H; try reflexivity; try discriminate; congruence.
Qed.

(* ------------------------------------------------------------------------------------------- *)
(* running comb_bump / comb_fill on the two shapes *)
Lemma set_nth_app {A} (p : list A) x y s : set_nth (length p) y (p ++ x :: s) = p ++ y :: s.
Proof.
  unfold set_nth. rewrite firstn_app, skipn_app, Nat.sub_diag, firstn_all, skipn_all.
  simpl. rewrite app_nil_r. reflexivity.
Qed.

Lemma comb_bump_S f i h c :
  comb_bump (S f) i h c =
  if h <=? S (nth i c 0) then
    match i with O => None | S i' => comb_bump f i' (h - 1) (set_nth i (S (nth i c 0)) c) end
  else Some (i, set_nth i (S (nth i c 0)) c).
Proof. reflexivity. Qed.

Lemma bump_run : forall k f p x m J, x + 1 + k < m ->
  exists T', length T' = k + length J /\
  comb_bump (S k + f) (length p + k) m (p ++ x :: seq (m - k) k ++ J) = Some (length p, p ++ S x :: T').
Proof.
  induction k; intros f p x m J H.
  - exists J. split; [reflexivity|]. simpl seq. simpl app. rewrite Nat.add_0_r.
    change (1 + f) with (S f). rewrite comb_bump_S, nth_middle, set_nth_app.
    destruct (m <=? S x) eqn:E; [apply Nat.leb_le in E; lia | reflexivity].
  - set (q := p ++ x :: seq (m - S k) k).
    assert (Hq : length q = S (length p + k)).
    { unfold q. rewrite app_length. simpl. rewrite seq_length. lia. }
    assert (Hc : p ++ x :: seq (m - S k) (S k) ++ J = q ++ (m - 1) :: J).
    { unfold q. rewrite seq_S. repeat (rewrite <- app_assoc; simpl).
      do 4 f_equal. lia. }
    rewrite Hc. replace (length p + S k) with (length q) by lia.
    change (S (S k) + f) with (S (S k + f)).
    rewrite comb_bump_S, nth_middle, set_nth_app.
    replace (m <=? S (m - 1)) with true by (symmetry; apply Nat.leb_le; lia).
    rewrite Hq.
    destruct (IHk f p x (m - 1) (S (m - 1) :: J)) as (T' & HT & HB); [lia|].
    exists T'. split; [simpl in HT; lia|].
    rewrite <- HB. f_equal. unfold q. rewrite <- app_assoc. simpl.
    replace (m - 1 - k) with (m - S k) by lia. reflexivity.
Qed.

Lemma bump_none : forall k f m J, S k <= m ->
  comb_bump (S k + f) k m (seq (m - S k) (S k) ++ J) = None.
Proof.
  induction k; intros f m J H.
  - simpl seq. simpl app. change (1 + f) with (S f). rewrite comb_bump_S. simpl nth.
    replace (m <=? S (m - 1)) with true by (symmetry; apply Nat.leb_le; lia). reflexivity.
  - set (q := seq (m - S (S k)) (S k)).
    assert (Hq : length q = S k) by (unfold q; apply seq_length).
    assert (Hc : seq (m - S (S k)) (S (S k)) ++ J = q ++ (m - 1) :: J).
    { unfold q. rewrite (seq_S (S k)). rewrite <- app_assoc. simpl. do 3 f_equal. lia. }
    rewrite Hc. change (S (S k) + f) with (S (S k + f)).
    assert (N : nth (S k) (q ++ (m - 1) :: J) 0 = m - 1) by (rewrite <- Hq; apply nth_middle).
    assert (St : forall y, set_nth (S k) y (q ++ (m - 1) :: J) = q ++ y :: J)
      by (intro; rewrite <- Hq; apply set_nth_app).
    rewrite comb_bump_S, N, St.
    replace (m <=? S (m - 1)) with true by (symmetry; apply Nat.leb_le; lia).
    unfold q. replace (m - S (S k)) with (m - 1 - S k) by lia.
    apply IHk. lia.
Qed.

Lemma fill_run : forall k p y T, length T = k ->
  comb_fill k (S (length p)) (p ++ y :: T) = p ++ y :: seq (S y) k.
Proof.
  induction k; intros p y T HT.
  - destruct T; [reflexivity | discriminate].
  - destruct T as [|t T]; [discriminate|]. injection HT as HT.
    simpl comb_fill. rewrite Nat.sub_0_r, nth_middle.
    replace (p ++ y :: t :: T) with ((p ++ [y]) ++ t :: T) by (rewrite <- app_assoc; reflexivity).
    replace (S (length p)) with (length (p ++ [y])) by (rewrite app_length; simpl; lia).
    rewrite set_nth_app, (IHk (p ++ [y]) (S y) T HT). rewrite <- app_assoc. reflexivity.
Qed.

Lemma comb_next_pivot p x k n : x + 1 + k < n ->
  comb_next (length (p ++ x :: seq (n - k) k)) n (p ++ x :: seq (n - k) k) = Some (p ++ seq (S x) (S k)).
Proof.
  intros H. rewrite app_length. simpl length. rewrite seq_length.
  unfold comb_next.
  destruct (bump_run k (length p + 1) p x n [] H) as (T' & HT & HB).
  rewrite app_nil_r in HB. simpl in HT.
  replace (S (length p + S k)) with (S k + (length p + 1)) by lia.
  replace (length p + S k - 1) with (length p + k) by lia.
  rewrite HB. replace (length p + S k - S (length p)) with k by lia.
  rewrite fill_run by lia. reflexivity.
Qed.

Lemma comb_next_last r n : 0 < r <= n -> comb_next r n (seq (n - r) r) = None.
Proof.
  intros H. unfold comb_next. destruct r as [|k]; [lia|].
  replace (S k - 1) with k by lia.
  pose proof (bump_none k 1 n [] ltac:(lia)) as HB. rewrite app_nil_r in HB.
  replace (S (S k)) with (S k + 1) by lia. rewrite HB. reflexivity.
Qed.

(* both functions on both shapes *)
Lemma next_cases : forall r n c, 0 < r -> is_comb r n c ->
  (c = seq (n - r) r /\ comb_next r n c = None /\ next_rec n c = None) \/
  (exists p x k, c = p ++ x :: seq (n - k) k /\ x + 1 + k < n /\
     comb_next r n c = Some (p ++ seq (S x) (S k)) /\ next_rec n c = Some (p ++ seq (S x) (S k))).
Proof.
  intros r n c Hr (Hl & Hc). assert (Hn := fun e => combP_len _ _ _ e Hc); specialize (Hn ltac:(lia)).
  destruct (comb_decomp _ _ _ Hc) as [E | (p & x & k & E & Hk)].
  - left. rewrite Hl in E. split; [assumption|]. rewrite E. split.
    + apply comb_next_last. lia.
    + apply next_rec_seq_last. lia.
  - right. exists p, x, k. split; [assumption|]. split; [assumption|]. split.
    + rewrite <- Hl. rewrite E. apply comb_next_pivot. assumption.
    + rewrite E. apply next_rec_pivot. assumption.
Qed.

Lemma comb_next_eq r n c : 0 < r -> is_comb r n c -> comb_next r n c = next_rec n c.
Proof.
  intros Hr Hc. destruct (next_cases r n c Hr Hc) as [(_ & -> & ->) | (p & x & k & _ & _ & -> & ->)]; reflexivity.
Qed.

Lemma pivot_not_last p x k n r : x + 1 + k < n -> length (p ++ x :: seq (n - k) k) = r ->
  p ++ x :: seq (n - k) k <> seq (n - r) r.
Proof.
  intros Hk Hl E.
  assert (Hx : nth (length p) (p ++ x :: seq (n - k) k) 0 = x) by apply nth_middle.
  rewrite E in Hx. rewrite app_length in Hl. simpl in Hl. rewrite seq_length in Hl.
  rewrite seq_nth in Hx by lia. lia.
Qed.

(* 1. comb_next is the lexicographic successor; None iff last *)
Theorem comb_next_spec r n c : 0 < r -> is_comb r n c ->
  (c = seq (n - r) r /\ comb_next r n c = None) \/
  (c <> seq (n - r) r /\
   exists c', comb_next r n c = Some c' /\ is_comb r n c' /\ lex_lt c c' /\
     (forall d, is_comb r n d -> lex_lt c d -> d = c' \/ lex_lt c' d) /\
     (forall d, is_comb r n d -> ~ (lex_lt c d /\ lex_lt d c'))).
Proof.
  intros Hr Hc.
  destruct (next_cases r n c Hr Hc) as [(E & N & _) | (p & x & k & E & Hk & N & _)].
  - left. split; assumption.
  - right. destruct Hc as (Hl & Hc). rewrite E in Hc.
    destruct (succ_props p x k n 0 Hk Hc) as (P1 & P2 & P3).
    assert (Hleast : forall d, is_comb r n d -> lex_lt c d ->
                       d = p ++ seq (S x) (S k) \/ lex_lt (p ++ seq (S x) (S k)) d).
    { intros d (Dl & Dc) L. rewrite E in L. apply P3; [rewrite <- E; congruence | assumption | assumption]. }
    split; [rewrite E; apply pivot_not_last; [assumption | rewrite <- E; assumption]|].
    exists (p ++ seq (S x) (S k)). split; [assumption|]. split.
    + split; [|assumption]. rewrite <- Hl, E, !app_length. simpl. rewrite !seq_length. reflexivity.
    + split; [rewrite E; assumption|]. split; [assumption|].
      intros d Hd (L1 & L2). destruct (Hleast d Hd L1) as [->|L3].
      * exact (lex_irrefl _ L2).
      * exact (lex_irrefl _ (lex_trans _ _ _ L2 L3)).
Qed.

Corollary comb_next_None_iff r n c : 0 < r -> is_comb r n c ->
  (comb_next r n c = None <-> c = seq (n - r) r).
Proof.
  intros Hr Hc. destruct (comb_next_spec r n c Hr Hc) as [(E & N) | (NE & c' & N & _)].
  - tauto.
  - split; [rewrite N; discriminate | contradiction].
Qed.

Lemma comb_next_comb r n c c' : 0 < r -> is_comb r n c -> comb_next r n c = Some c' -> is_comb r n c'.
Proof.
  intros Hr Hc N. destruct (comb_next_spec r n c Hr Hc) as [(E & N') | (NE & c'' & N' & H & _)].
  - congruence.
  - congruence.
Qed.

(* ------------------------------------------------------------------------------------------- *)
(* 2. the reference enumeration: all k-subsets of {lo, ..., lo+m-1}, in lexicographic order *)
Fixpoint combs (m k lo : nat) : list (list nat) :=
  match m, k with
  | _, O => [[]]
  | O, S _ => []
  | S m', S k' => map (cons lo) (combs m' k' (S lo)) ++ combs m' (S k') (S lo)
  end.

Lemma combs_0 m lo : combs m 0 lo = [[]].
Proof. destruct m; reflexivity. Qed.

Lemma combs_length : forall m k lo, length (combs m k lo) = binom m k.
Proof.
  induction m; intros k lo; destruct k; try reflexivity.
  simpl. rewrite app_length, map_length, !IHm. reflexivity.
Qed.

Lemma combs_nil : forall m k lo, m < k -> combs m k lo = [].
Proof.
  induction m; intros k lo H; destruct k; try lia; [reflexivity|].
  simpl. rewrite !IHm by lia. reflexivity.
Qed.

Lemma combs_in : forall m k lo c, In c (combs m k lo) <-> (length c = k /\ combP lo (lo + m) c).
Proof.
  induction m; intros k lo c; destruct k.
  - simpl. split; [intros [<-|[]]; simpl; auto | intros (H & _); destruct c; [auto|discriminate]].
  - simpl. split; [intros [] | intros (H & Hc)]. destruct c as [|a t]; [discriminate|].
    simpl in Hc. lia.
  - simpl. split; [intros [<-|[]]; simpl; auto | intros (H & _); destruct c; [auto|discriminate]].
  - simpl combs. rewrite in_app_iff, in_map_iff. split.
    + intros [(t & <- & Ht) | Hc].
      * apply IHm in Ht. destruct Ht as (Hl & Hc). split; [simpl; congruence|].
        simpl. repeat split; try lia. replace (lo + S m) with (S lo + m) by lia. assumption.
      * apply IHm in Hc. destruct Hc as (Hl & Hc). split; [assumption|].
        replace (lo + S m) with (S lo + m) by lia. apply combP_weaken with (S lo); [lia | assumption].
    + intros (Hl & Hc). destruct c as [|a t]; [discriminate|]. injection Hl as Hl.
      destruct Hc as (H1 & H2 & H3). destruct (Nat.eq_dec a lo) as [->|Hne].
      * left. exists t. split; [reflexivity|]. apply IHm. split; [assumption|].
        replace (S lo + m) with (lo + S m) by lia. assumption.
      * right. apply IHm. split; [simpl; congruence|].
        replace (S lo + m) with (lo + S m) by lia. simpl. repeat split; try lia. assumption.
Qed.

Lemma SS_app {A} (R : A -> A -> Prop) : forall l1 l2,
  StronglySorted R l1 -> StronglySorted R l2 -> (forall a b, In a l1 -> In b l2 -> R a b) ->
  StronglySorted R (l1 ++ l2).
Proof.
  induction l1 as [|a l1 IH]; intros l2 H1 H2 H; [assumption|].
  simpl. inversion H1; subst. constructor.
  - apply IH; [assumption | assumption | intros; apply H; [right|]; assumption].
  - apply Forall_app. split; [assumption|]. apply Forall_forall. intros b Hb. apply H; [left; reflexivity | assumption].
Qed.

Lemma SS_map_cons a : forall L, StronglySorted lex_lt L -> StronglySorted lex_lt (map (cons a) L).
Proof.
  induction L; intros H; simpl; [constructor|]. inversion H; subst. constructor; [auto|].
  apply Forall_forall. intros y Hy. apply in_map_iff in Hy. destruct Hy as (z & <- & Hz).
  apply lex_tl. rewrite Forall_forall in H3. auto.
Qed.

Lemma SS_NoDup {A} (R : A -> A -> Prop) : (forall x, ~ R x x) -> forall l, StronglySorted R l -> NoDup l.
Proof.
  intros Hirr. induction l; intros H; [constructor|]. inversion H; subst. constructor; [|auto].
  intros Hin. rewrite Forall_forall in H3. exact (Hirr _ (H3 _ Hin)).
Qed.

Lemma combs_sorted : forall m k lo, StronglySorted lex_lt (combs m k lo).
Proof.
  induction m; intros k lo; destruct k; simpl; try (repeat constructor).
  apply SS_app; [apply SS_map_cons; apply IHm | apply IHm |].
  intros a b Ha Hb. apply in_map_iff in Ha. destruct Ha as (t & <- & _).
  apply combs_in in Hb. destruct Hb as (Hl & Hc). destruct b as [|b0 b]; [discriminate|].
  simpl in Hc. apply lex_hd. lia.
Qed.

(* chains of successors *)
Fixpoint chain (n : nat) (c : list nat) (L : list (list nat)) : Prop :=
  match L with [] => True | d :: L' => next_rec n c = Some d /\ chain n d L' end.
Fixpoint lastc {A} (c : A) (L : list A) : A := match L with [] => c | d :: L' => lastc d L' end.

Lemma chain_map_cons n a : forall L c, chain n c L -> chain n (a :: c) (map (cons a) L).
Proof.
  induction L; simpl; intros c H; [trivial|]. destruct H as [H1 H2]. split; [|auto].
  rewrite H1. reflexivity.
Qed.
Lemma lastc_map {A B} (f : A -> B) : forall L c, lastc (f c) (map f L) = f (lastc c L).
Proof. induction L; simpl; intros; auto. Qed.
Lemma lastc_app {A} : forall (L1 : list A) c d L2, lastc c (L1 ++ d :: L2) = lastc d L2.
Proof. induction L1; simpl; intros; auto. Qed.
Lemma chain_app n : forall L1 c d L2,
  chain n c L1 -> next_rec n (lastc c L1) = Some d -> chain n d L2 -> chain n c (L1 ++ d :: L2).
Proof.
  induction L1; simpl; intros c d L2 H1 H2 H3; [auto|]. destruct H1 as [H1 H1']. split; [assumption|].
  apply IHL1; assumption.
Qed.

Lemma next_rec_cons_last n a k : S a + k < n ->
  next_rec n (a :: seq (n - k) k) = Some (seq (S a) (S k)).
Proof. intros H. apply (next_rec_pivot [] a k n). lia. Qed.

Lemma combs_chain : forall m k lo, k <= m ->
  exists L, combs m k lo = seq lo k :: L /\ chain (lo + m) (seq lo k) L /\
            lastc (seq lo k) L = seq (lo + m - k) k.
Proof.
  induction m; intros k lo Hk.
  - replace k with 0 by lia. exists []. simpl. auto.
  - destruct k as [|k]; [exists []; simpl; auto|].
    simpl combs.
    destruct (IHm k (S lo) ltac:(lia)) as (L1 & E1 & C1 & La1).
    replace (S lo + m) with (lo + S m) in * by lia.
    assert (J : lastc (seq lo (S k)) (map (cons lo) L1) = lo :: seq (lo + S m - k) k).
    { change (seq lo (S k)) with (lo :: seq (S lo) k). rewrite lastc_map, La1. reflexivity. }
    destruct (le_lt_dec (S k) m) as [Hle|Hlt].
    + destruct (IHm (S k) (S lo) Hle) as (L2 & E2 & C2 & La2).
      replace (S lo + m) with (lo + S m) in * by lia.
      exists (map (cons lo) L1 ++ seq (S lo) (S k) :: L2). rewrite E1, E2. split; [reflexivity|]. split.
      * apply chain_app.
        -- change (seq lo (S k)) with (lo :: seq (S lo) k). apply chain_map_cons. assumption.
        -- rewrite J. apply next_rec_cons_last. lia.
        -- assumption.
      * rewrite lastc_app. rewrite La2. reflexivity.
    + assert (k = m) by lia. subst k. rewrite (combs_nil m (S m)) by lia.
      exists (map (cons lo) L1). rewrite E1, app_nil_r. split; [reflexivity|]. split.
      * change (seq lo (S m)) with (lo :: seq (S lo) m). apply chain_map_cons. assumption.
      * rewrite J. replace (lo + S m - m) with (S lo) by lia.
        replace (lo + S m - S m) with lo by lia. reflexivity.
Qed.

(* comb_all follows a chain, cut by the fuel or by the final None, whichever comes first *)
Lemma comb_all_chain r n : 0 < r -> forall L c f,
  is_comb r n c -> chain n c L -> next_rec n (lastc c L) = None ->
  comb_all f r n c = firstn (S f) (c :: L).
Proof.
  intros Hr. induction L as [|d L IH]; intros c f Hc Hch Hl.
  - simpl in Hl. destruct f; [reflexivity|]. simpl comb_all.
    rewrite (comb_next_eq r n c Hr Hc), Hl. destruct f; reflexivity.
  - destruct Hch as [H1 H2]. simpl in Hl. destruct f; [reflexivity|].
    simpl comb_all. rewrite (comb_next_eq r n c Hr Hc), H1.
    change (firstn (S (S f)) (c :: d :: L)) with (c :: firstn (S f) (d :: L)). f_equal.
    apply IH; [|assumption|assumption].
    apply (comb_next_comb r n c d Hr Hc). rewrite (comb_next_eq r n c Hr Hc). assumption.
Qed.

Lemma comb_first_comb r n : r <= n -> is_comb r n (comb_first r).
Proof. intros H. unfold comb_first. split; [apply seq_length | apply combP_seq; lia]. Qed.

(* for every fuel: comb_all is a prefix of the reference enumeration *)
Theorem comb_all_firstn r n f : 0 < r <= n ->
  comb_all f r n (comb_first r) = firstn (S f) (combs n r 0).
Proof.
  intros [Hr Hn]. destruct (combs_chain n r 0 Hn) as (L & E & C & La).
  rewrite E. apply comb_all_chain; [assumption | apply comb_first_comb; assumption | assumption |].
  rewrite La. apply next_rec_seq_last. simpl. lia.
Qed.

Lemma lastc_last {A} : forall (L : list A) c d, last (c :: L) d = lastc c L.
Proof. induction L; intros; [reflexivity|]. change (last (c :: a :: L) d) with (last (a :: L) d). apply IHL. Qed.

(* 2. with the fuel binom n r the enumeration is complete, and it is the final None of comb_next -- not
   the fuel -- that ends it; fuel binom n r - 1 is the least fuel giving the full list (then the list is
   cut by fuel just before the final, None-returning, call: the model's fuel is one more than needed). *)
Theorem comb_all_complete r n : 0 < r <= n ->
  let L := comb_all (binom n r) r n (comb_first r) in
  (forall c, In c L <-> is_comb r n c) /\
  StronglySorted lex_lt L /\
  NoDup L /\
  length L = binom n r /\
  L = combs n r 0 /\
  last L [] = seq (n - r) r /\ comb_next r n (last L []) = None /\
  (forall f, binom n r - 1 <= f -> comb_all f r n (comb_first r) = L) /\
  (forall f, length (comb_all f r n (comb_first r)) = Nat.min (S f) (binom n r)).
Proof.
  intros H L.
  assert (EL : L = combs n r 0).
  { unfold L. rewrite comb_all_firstn by assumption. apply firstn_all2. rewrite combs_length. lia. }
  split; [|split; [|split; [|split; [|split; [|split; [|split; [|split]]]]]]].
  - intros c. rewrite EL, combs_in. reflexivity.
  - rewrite EL. apply combs_sorted.
  - rewrite EL. apply (SS_NoDup lex_lt lex_irrefl). apply combs_sorted.
  - rewrite EL. apply combs_length.
  - assumption.
  - rewrite EL. destruct (combs_chain n r 0 (proj2 H)) as (L' & E & C & La).
    rewrite E, lastc_last, La. reflexivity.
  - rewrite EL. destruct (combs_chain n r 0 (proj2 H)) as (L' & E & C & La).
    rewrite E, lastc_last, La. apply comb_next_last. assumption.
  - intros f Hf. rewrite EL, comb_all_firstn by assumption. apply firstn_all2. rewrite combs_length. lia.
  - intros f. rewrite comb_all_firstn by assumption. rewrite firstn_length, combs_length. reflexivity.
Qed.


(* outside 0 < r <= n the model is not an enumeration of combinations (raid_scan only uses 1 <= r < n):
   r = 0 yields the empty combination twice, r > n yields the non-combination seq 0 r *)
Remark comb_all_r0 n : 2 <= n -> comb_all (binom n 0) 0 n (comb_first 0) = [[]; []].
Proof. intros H. destruct n as [|[|n]]; try lia. reflexivity. Qed.

(* ------------------------------------------------------------------------------------------- *)
(* 3. raid_sort *)
Definition cstep (v : list nat) (ab : nat * nat) : list nat := cswap (fst ab) (snd ab) v.
Lemma raid_sort_model_eq v : raid_sort_model v = fold_left cstep (net (length v)) v.
Proof. reflexivity. Qed.

Lemma perm_swap_mid (x y : nat) l2 l3 : Permutation (y :: l2 ++ x :: l3) (x :: l2 ++ y :: l3).
Proof.
  apply Permutation_trans with (y :: x :: l2 ++ l3).
  - apply perm_skip. symmetry. apply Permutation_middle.
  - apply Permutation_trans with (x :: y :: l2 ++ l3); [apply perm_swap|].
    apply perm_skip. apply Permutation_middle.
Qed.

Lemma split2 (v : list nat) a b : a < b -> b < length v ->
  exists l1 l2 l3, v = (l1 ++ nth a v 0 :: l2) ++ nth b v 0 :: l3 /\
                   length l1 = a /\ length (l1 ++ nth a v 0 :: l2) = b.
Proof.
  intros Hab Hb.
  destruct (nth_split v 0 (Nat.lt_trans _ _ _ Hab Hb)) as (l1 & r & Hv & Hl1).
  remember (nth a v 0) as x eqn:Hx.
  assert (Hlen : length v = a + S (length r)) by (rewrite Hv, app_length; simpl; lia).
  destruct (nth_split r 0 (n := b - S a) ltac:(lia)) as (l2 & l3 & Hr & Hl2).
  assert (Hy : nth b v 0 = nth (b - S a) r 0).
  { rewrite Hv. rewrite app_nth2 by lia. rewrite Hl1.
    replace (b - a) with (S (b - S a)) by lia. reflexivity. }
  exists l1, l2, l3. rewrite Hy. split; [|split].
  - rewrite <- app_assoc. simpl. rewrite <- Hr. assumption.
  - assumption.
  - rewrite app_length. simpl. lia.
Qed.

Lemma set_nth_app' {A} (p : list A) x y s i : i = length p -> set_nth i y (p ++ x :: s) = p ++ y :: s.
Proof. intros ->. apply set_nth_app. Qed.

Lemma cswap_perm a b v : a < length v -> b < length v -> Permutation (cswap a b v) v.
Proof.
  intros Ha Hb. unfold cswap.
  destruct (nth b v 0 <? nth a v 0) eqn:E; [|reflexivity].
  apply Nat.ltb_lt in E.
  destruct (lt_eq_lt_dec a b) as [[Hlt|Heq]|Hgt].
  - destruct (split2 v a b Hlt Hb) as (l1 & l2 & l3 & Hv & H1 & H2).
    remember (nth a v 0) as x. remember (nth b v 0) as y. clear Heqx Heqy.
    rewrite Hv.
    rewrite (set_nth_app' (l1 ++ x :: l2) y x l3 b) by auto.
    rewrite <- !app_assoc. simpl.
    rewrite (set_nth_app' l1 x y _ a) by auto.
    apply Permutation_app_head. apply perm_swap_mid.
  - subst b. lia.
  - destruct (split2 v b a Hgt Ha) as (l1 & l2 & l3 & Hv & H1 & H2).
    remember (nth a v 0) as x. remember (nth b v 0) as y. clear Heqx Heqy.
    rewrite Hv.
    rewrite <- !app_assoc. simpl.
    rewrite (set_nth_app' l1 y x _ b) by auto.
    replace (l1 ++ x :: l2 ++ x :: l3) with ((l1 ++ x :: l2) ++ x :: l3) by (rewrite <- app_assoc; reflexivity).
    rewrite (set_nth_app' (l1 ++ x :: l2) x y l3 a)
      by (rewrite <- H2, !app_length; reflexivity).
    rewrite <- !app_assoc. simpl.
    apply Permutation_app_head. apply perm_swap_mid.
Qed.

Definition in_range (n : nat) (ab : nat * nat) : Prop := fst ab < n /\ snd ab < n.

Lemma net_in_range n : Forall (in_range n) (net n).
Proof.
  do 7 (destruct n; [simpl; repeat constructor; simpl; lia|]). simpl. constructor.
Qed.

Lemma fold_cstep_perm : forall cs w, Forall (in_range (length w)) cs -> Permutation (fold_left cstep cs w) w.
Proof.
  induction cs as [|[a b] cs IH]; intros w H; [reflexivity|]. inversion H; subst. destruct H2 as [Ha Hb].
  simpl in Ha, Hb. simpl fold_left. unfold cstep at 2. simpl fst. simpl snd.
  pose proof (cswap_perm a b w Ha Hb) as P.
  apply Permutation_trans with (cswap a b w); [|assumption].
  apply IH. rewrite (Permutation_length P). assumption.
Qed.

Theorem raid_sort_perm v : Permutation (raid_sort_model v) v.
Proof. rewrite raid_sort_model_eq. apply fold_cstep_perm. apply net_in_range. Qed.

(* rank of x in v: the number of entries strictly smaller *)
Definition rho (v : list nat) (x : nat) : nat := length (filter (fun y => y <? x) v).

Lemma rho_le_len v x : rho v x <= length v.
Proof. unfold rho. induction v; simpl; [lia|]. destruct (a <? x); simpl; lia. Qed.

Lemma rho_mono v x x' : x <= x' -> rho v x <= rho v x'.
Proof.
  intros H. unfold rho. induction v; simpl; [lia|].
  destruct (a <? x) eqn:E1; destruct (a <? x') eqn:E2; simpl; try lia.
  apply Nat.ltb_lt in E1. apply Nat.ltb_ge in E2. lia.
Qed.

Lemma rho_strict v x x' : In x v -> x < x' -> rho v x < rho v x'.
Proof.
  intros Hin H. induction v as [|a v IH]; [destruct Hin|].
  unfold rho in *. simpl.
  destruct Hin as [->|Hin].
  - rewrite Nat.ltb_irrefl. replace (x <? x') with true by (symmetry; apply Nat.ltb_lt; lia).
    simpl. pose proof (rho_mono v x x' ltac:(lia)) as M. unfold rho in M. lia.
  - specialize (IH Hin).
    destruct (a <? x) eqn:E1; destruct (a <? x') eqn:E2; simpl; try lia.
    apply Nat.ltb_lt in E1. apply Nat.ltb_ge in E2. lia.
Qed.

Lemma rho_bound v x : In x v -> rho v x < length v.
Proof.
  intros Hin. induction v as [|a v IH]; [destruct Hin|].
  unfold rho in *. simpl. destruct Hin as [->|Hin].
  - rewrite Nat.ltb_irrefl. pose proof (rho_le_len v x) as M. unfold rho in M. lia.
  - specialize (IH Hin). destruct (a <? x); simpl; lia.
Qed.

Lemma rho_ltb v x y : In x v -> In y v -> (rho v y <? rho v x) = (y <? x).
Proof.
  intros Hx Hy. destruct (y <? x) eqn:E.
  - apply Nat.ltb_lt in E. apply Nat.ltb_lt. apply rho_strict; assumption.
  - apply Nat.ltb_ge in E. apply Nat.ltb_ge. apply rho_mono; assumption.
Qed.

Lemma map_set_nth {A B} (f : A -> B) k z l : map f (set_nth k z l) = set_nth k (f z) (map f l).
Proof.
  unfold set_nth. rewrite map_app, firstn_map, skipn_map. destruct (skipn k l); reflexivity.
Qed.

Lemma nth_map_lt {A B} (f : A -> B) l k d d' : k < length l -> nth k (map f l) d' = f (nth k l d).
Proof.
  intros H. rewrite (nth_indep _ d' (f d)) by (rewrite map_length; assumption). apply map_nth.
Qed.

Lemma cswap_map_rho v w a b : a < length w -> b < length w -> incl w v ->
  map (rho v) (cswap a b w) = cswap a b (map (rho v) w).
Proof.
  intros Ha Hb Hi. unfold cswap.
  rewrite (nth_map_lt (rho v) w a 0 0 Ha), (nth_map_lt (rho v) w b 0 0 Hb).
  rewrite rho_ltb by (apply Hi; apply nth_In; assumption).
  destruct (nth b w 0 <? nth a w 0); [rewrite !map_set_nth|]; reflexivity.
Qed.

Lemma fold_cstep_map_rho v : forall cs w, Forall (in_range (length w)) cs -> incl w v ->
  map (rho v) (fold_left cstep cs w) = fold_left cstep cs (map (rho v) w).
Proof.
  induction cs as [|[a b] cs IH]; intros w H Hi; [reflexivity|]. inversion H; subst. destruct H2 as [Ha Hb].
  simpl in Ha, Hb. simpl fold_left. unfold cstep at 2 4. simpl fst. simpl snd.
  pose proof (cswap_perm a b w Ha Hb) as P.
  rewrite <- cswap_map_rho by assumption.
  apply IH.
  - rewrite (Permutation_length P). assumption.
  - intros z Hz. apply Hi. apply (Permutation_in _ P). assumption.
Qed.

(* all lists of length k over {0..m-1} *)
Fixpoint all_lists (k m : nat) : list (list nat) :=
  match k with
  | O => [[]]
  | S k' => flat_map (fun x => map (cons x) (all_lists k' m)) (seq 0 m)
  end.

Lemma all_lists_in m : forall w, Forall (fun x => x < m) w -> In w (all_lists (length w) m).
Proof.
  induction w as [|a w IH]; intros H; [left; reflexivity|]. inversion H; subst.
  simpl. apply in_flat_map. exists a. split; [apply in_seq; lia|]. apply in_map. auto.
Qed.

Fixpoint sortedb (l : list nat) : bool :=
  match l with
  | a :: ((b :: _) as t) => (a <=? b) && sortedb t
  | _ => true
  end.

Lemma sortedb_Sorted : forall l, sortedb l = true -> Sorted le l.
Proof.
  induction l as [|a t IH]; intros H; [constructor|].
  destruct t as [|b t]; [repeat constructor|].
  change (((a <=? b) && sortedb (b :: t)) = true) in H. apply andb_true_iff in H. destruct H as [H1 H2].
  constructor; [auto | constructor; apply Nat.leb_le; assumption].
Qed.

(* the finite check: every network sorts every list over {0..n-1}: 1+1+4+27+256+3125+46656 cases *)
Lemma net_check n : n <= 6 -> forallb (fun w => sortedb (raid_sort_model w)) (all_lists n n) = true.
Proof.
  intros H. do 7 (destruct n; [vm_compute; reflexivity|]). lia.
Qed.

Lemma Sorted_map_rho v : forall s, incl s v -> Sorted le (map (rho v) s) -> Sorted le s.
Proof.
  induction s as [|a t IH]; intros Hi H; [constructor|].
  simpl in H. inversion H; subst.
  constructor.
  - apply IH; [intros z Hz; apply Hi; right; assumption | assumption].
  - destruct t as [|b t]; constructor. simpl in H3. inversion H3; subst.
    destruct (le_lt_dec a b) as [|Hlt]; [assumption|].
    pose proof (rho_strict v b a (Hi b ltac:(right; left; reflexivity)) Hlt). lia.
Qed.

(* 3. the networks sort (n = 0, 1 included: they do nothing) *)
Theorem raid_sort_sorts v : length v <= 6 ->
  Sorted le (raid_sort_model v) /\ Permutation (raid_sort_model v) v.
Proof.
  intros Hlen. split; [|apply raid_sort_perm].
  pose proof (raid_sort_perm v) as P.
  apply (Sorted_map_rho v).
  - intros z Hz. apply (Permutation_in _ P). assumption.
  - rewrite raid_sort_model_eq.
    rewrite fold_cstep_map_rho; [| apply net_in_range | apply incl_refl].
    pose proof (net_check (length v) Hlen) as C. rewrite forallb_forall in C.
    specialize (C (map (rho v) v)).
    rewrite <- (map_length (rho v) v) at 1. rewrite <- raid_sort_model_eq.
    apply sortedb_Sorted. apply C.
    rewrite <- (map_length (rho v) v) at 1 2. apply all_lists_in.
    rewrite map_length. apply Forall_forall. intros y Hy. apply in_map_iff in Hy.
    destruct Hy as (x & <- & Hx). apply rho_bound. assumption.
Qed.

Corollary raid_sort_strongly v : length v <= 6 -> StronglySorted le (raid_sort_model v).
Proof.
  intros H. apply Sorted_StronglySorted; [intros x y z; apply Nat.le_trans | apply raid_sort_sorts; assumption].
Qed.

Remark raid_sort_noop v : length v <= 1 \/ 7 <= length v -> raid_sort_model v = v.
Proof.
  intros H. unfold raid_sort_model.
  destruct (length v) as [|[|[|[|[|[|[|n]]]]]]]; try lia; reflexivity.
Qed.

(* ------------------------------------------------------------------------------------------- *)
(* 4. raid_insert *)
Lemma ins_rev_perm x : forall rv, Permutation (ins_rev x rv) (x :: rv).
Proof.
  induction rv as [|a t IH]; simpl; [reflexivity|].
  destruct (x <? a); [|reflexivity].
  apply Permutation_trans with (a :: x :: t); [apply perm_skip; assumption | apply perm_swap].
Qed.

Theorem raid_insert_perm v x : Permutation (raid_insert_model v x) (x :: v).
Proof.
  unfold raid_insert_model.
  apply Permutation_trans with (ins_rev x (rev v)); [symmetry; apply Permutation_rev|].
  apply Permutation_trans with (x :: rev v); [apply ins_rev_perm|].
  apply perm_skip. symmetry. apply Permutation_rev.
Qed.

Lemma ins_rev_sorted x : forall rv, Sorted ge rv -> Sorted ge (ins_rev x rv).
Proof.
  induction rv as [|a t IH]; intros H; simpl; [repeat constructor|].
  inversion H; subst.
  destruct (x <? a) eqn:E.
  - apply Nat.ltb_lt in E. constructor; [auto|].
    destruct t as [|b t]; simpl; [constructor; unfold ge; lia|].
    inversion H3; subst. destruct (x <? b); constructor; unfold ge in *; lia.
  - apply Nat.ltb_ge in E. constructor; [assumption | constructor; unfold ge; lia].
Qed.

Lemma SS_rev {A} (R : A -> A -> Prop) : forall l,
  StronglySorted R l -> StronglySorted (fun a b => R b a) (rev l).
Proof.
  induction l as [|a l IH]; intros H; simpl; [constructor|]. inversion H; subst.
  apply SS_app; [auto | repeat constructor|].
  intros x y Hx [<-|[]]. apply in_rev in Hx. rewrite Forall_forall in H3. auto.
Qed.

Lemma Sorted_le_rev l : Sorted le l -> Sorted ge (rev l).
Proof.
  intros H. apply StronglySorted_Sorted. apply (SS_rev le).
  apply Sorted_StronglySorted; [intros x y z; apply Nat.le_trans | assumption].
Qed.
Lemma Sorted_ge_rev l : Sorted ge l -> Sorted le (rev l).
Proof.
  intros H. apply StronglySorted_Sorted.
  assert (S : StronglySorted ge l).
  { apply Sorted_StronglySorted; [intros x y z; unfold ge; intros; lia | assumption]. }
  apply (SS_rev ge) in S.
  clear H. induction S; constructor; [assumption|].
  eapply Forall_impl; [|eassumption]. simpl. unfold ge. auto.
Qed.

(* 4. inserting into a sorted vector keeps it sorted *)
Theorem raid_insert_sorted v x : Sorted le v ->
  Sorted le (raid_insert_model v x) /\ Permutation (raid_insert_model v x) (x :: v).
Proof.
  intros H. split; [|apply raid_insert_perm].
  unfold raid_insert_model. apply Sorted_ge_rev. apply ins_rev_sorted. apply Sorted_le_rev. assumption.
Qed.

Print Assumptions comb_next_fuel_ok.
Print Assumptions comb_next_None_is_last.
Print Assumptions comb_next_spec.
Print Assumptions comb_next_None_iff.
Print Assumptions comb_all_firstn.
Print Assumptions comb_all_complete.
Print Assumptions raid_sort_sorts.
Print Assumptions raid_insert_perm.
Print Assumptions raid_insert_sorted.
