From mathcomp Require Import all_ssreflect all_algebra.
Set Implicit Arguments.
Unset Strict Implicit.
Unset Printing Implicit Defensive.
Import GRing.Theory.
Local Open Scope ring_scope.

(* extended Cauchy: one all-ones row plus m Cauchy rows, m.+1 columns *)
Section ExtCauchy.
Variable F : fieldType.
Variable m : nat.
Variable x : 'I_m -> F.
Variables y c : 'I_m.+1 -> F.
Hypothesis xinj : injective x.
Hypothesis yinj : injective y.
Hypothesis xy : forall i j, x i + y j != 0.
Hypothesis ker1 : \sum_(j < m.+1) c j = 0.
Hypothesis ker : forall i, \sum_(j < m.+1) c j / (x i + y j) = 0.

Definition others (j : 'I_m.+1) := rem j (enum 'I_m.+1).
Definition Q (j : 'I_m.+1) : {poly F} := \prod_(l <- others j) ('X - (- y l)%:P).
Definition P : {poly F} := \sum_(j < m.+1) c j *: Q j.

Lemma size_Q j : size (Q j) = m.+1.
Proof. by rewrite /Q size_prod_XsubC /others size_rem ?mem_enum // size_enum_ord. Qed.

Lemma monic_Q j : Q j \is monic.
Proof. by rewrite /Q monic_prod_XsubC. Qed.

Lemma coef_top : P`_m = 0.
Proof.
rewrite /P coef_sum -[RHS]ker1; apply: eq_bigr => j _.
rewrite coefZ.
have := monic_Q j; rewrite monicE lead_coefE size_Q /= => /eqP ->.
by rewrite mulr1.
Qed.

Lemma size_P : (size P <= m)%N.
Proof.
have le1 : (size P <= m.+1)%N.
  rewrite /P; apply: (leq_trans (size_sum _ _ _)).
  apply/bigmax_leqP => j _.
  by apply: (leq_trans (size_scale_leq _ _)); rewrite size_Q.
apply/leq_sizeP => j; rewrite leq_eqVlt => /orP[/eqP <-|lt]; first exact: coef_top.
by apply/(leq_sizeP _ _ le1).
Qed.

Lemma Q_others j (f : 'I_m.+1 -> F) :
  \prod_(l <- others j) f l = \prod_(l < m.+1 | l != j) f l.
Proof.
rewrite /others rem_filter ?enum_uniq // big_filter.
rewrite big_mkcond /= [RHS]big_mkcond /=.
by rewrite /index_enum -enumT.
Qed.

Lemma hornerQ j t : (Q j).[t] = \prod_(l < m.+1 | l != j) (t + y l).
Proof.
rewrite /Q horner_prod Q_others.
by apply: eq_bigr => l _; rewrite hornerXsubC opprK.
Qed.

Lemma P_root i : P.[x i] = 0.
Proof.
rewrite /P horner_sum.
have -> : \sum_(j < m.+1) (c j *: Q j).[x i] = (\prod_(l < m.+1) (x i + y l)) * \sum_(j < m.+1) c j / (x i + y j).
  rewrite mulr_sumr; apply: eq_bigr => j _.
  rewrite hornerZ hornerQ [in RHS](bigD1 j) //=.
  by rewrite [RHS]mulrC -!mulrA mulKf ?xy.
by rewrite ker mulr0.
Qed.

Lemma P0 : P = 0.
Proof.
apply/eqP/negPn/negP => Pn0.
have := @max_poly_roots _ P [seq x i | i <- enum 'I_m] Pn0.
have -> : all (root P) [seq x i | i <- enum 'I_m].
  by apply/allP => _ /mapP[i _ ->]; rewrite /root P_root.
rewrite map_inj_uniq // enum_uniq size_map size_enum_ord => /(_ isT isT).
by rewrite ltnNge size_P.
Qed.

Lemma c0 j : c j = 0.
Proof.
have := congr1 (fun p => p.[- y j]) P0.
rewrite /= horner0 /P horner_sum (bigD1 j) //= big1 ?addr0; last first.
  move=> i ij; rewrite hornerZ hornerQ (bigD1 j) //= ?addNr ?mul0r ?mulr0 //.
  by rewrite eq_sym.
rewrite hornerZ hornerQ => /eqP; rewrite mulf_eq0 => /orP[/eqP //|].
move=> /prodf_eq0 [l lj]; rewrite addrC subr_eq0 => /eqP /yinj e.
by rewrite e eqxx in lj.
Qed.
End ExtCauchy.


