(* Feasibility prototype: Gauss-Jordan WITHOUT pivoting (the algorithm of raid_invert),
   on function-represented n x n matrices over any field:
   - soundness: V * G = M along the run, and M ends as the identity;
   - no zero pivot when every leading principal block of G has trivial kernel. *)
From mathcomp Require Import all_ssreflect all_algebra.
Set Implicit Arguments.
Unset Strict Implicit.
Unset Printing Implicit Defensive.
Import GRing.Theory.
Local Open Scope ring_scope.

Section GJ.
Variable F : fieldType.
Variable n : nat.
Definition mx := nat -> nat -> F.

(* one elimination step on column/row t, applied to a matrix X using the multipliers of M *)
Definition step_with (M X : mx) (t : nat) : mx :=
  let f := (M t t)^-1 in
  fun i j => if i == t then f * X t j else X i j - M i t * (f * X t j).

Definition step (MV : mx * mx) (t : nat) : mx * mx :=
  (step_with MV.1 MV.1 t, step_with MV.1 MV.2 t).

Definition idm : mx := fun i j => (i == j)%:R.
Definition run (G : mx) (t : nat) : mx * mx := foldl step (G, idm) (iota 0 t).

Lemma runS G t : run G t.+1 = step (run G t) t.
Proof. by rewrite /run -addn1 iotaD foldl_cat add0n. Qed.

(* dot product of row i of X (first m columns) with x *)
Definition dot (m : nat) (X : mx) (i : nat) (x : nat -> F) : F := \sum_(j < m) X i j * x j.

Definition in_ker (m : nat) (X : mx) (x : nat -> F) : Prop := forall i, (i < m)%N -> dot m X i x = 0.

Lemma dot_step m M t i x : (M t t != 0) ->
  dot m (step_with M M t) i x =
  if i == t then (M t t)^-1 * dot m M t x else dot m M i x - M i t * ((M t t)^-1 * dot m M t x).
Proof.
move=> _; rewrite /dot /step_with; case: ifP => _.
  by rewrite mulr_sumr; apply: eq_bigr => j _; rewrite mulrA.
rewrite !mulr_sumr -sumrB; apply: eq_bigr => j _.
by rewrite mulrBl !mulrA.
Qed.

(* a step with pivot row t < m preserves the kernel of the leading m-block *)
Lemma ker_step m M t x : (t < m)%N -> M t t != 0 ->
  in_ker m (step_with M M t) x <-> in_ker m M x.
Proof.
move=> tm piv; split => H i im.
- have Ht := H t tm; rewrite dot_step // eqxx in Ht.
  have dt : dot m M t x = 0.
    by move/eqP: Ht; rewrite mulf_eq0 invr_eq0 (negbTE piv) /= => /eqP.
  case: (altP (i =P t)) => [e|it]; first by rewrite e.
  by have := H i im; rewrite dot_step // (negbTE it) dt !mulr0 subr0.
- rewrite dot_step //; case: ifP => _; first by rewrite (H t tm) mulr0.
  by rewrite (H i im) (H t tm) !mulr0 subr0.
Qed.

(* structural invariant: after t steps the first t columns are those of the identity *)
Definition cols_id (t : nat) (M : mx) : Prop := forall i j, (j < t)%N -> M i j = (i == j)%:R.

Lemma cols_step M t : cols_id t M -> M t t != 0 -> cols_id t.+1 (step_with M M t).
Proof.
move=> H piv i j; rewrite ltnS leq_eqVlt => /orP[/eqP ->|jt]; rewrite /step_with.
- case: ifP => it; first by rewrite mulVf.
  by rewrite mulVf // mulr1 subrr.
- have tj : M t j = 0 by rewrite H // gtn_eqF.
  case: ifP => [/eqP it|it]; first by rewrite tj mulr0 it gtn_eqF.
  by rewrite tj !mulr0 subr0 H.
Qed.

(* a zero pivot would give a non-trivial kernel vector of the leading (t+1)-block *)
Lemma zero_pivot_kernel M t : cols_id t M -> M t t = 0 ->
  exists x, in_ker t.+1 M x /\ x t = 1.
Proof.
move=> H piv; exists (fun j => if j == t then 1 else - M j t); split; last by rewrite eqxx.
move=> i; rewrite ltnS => it; rewrite /dot big_ord_recr /= eqxx mulr1.
rewrite (eq_bigr (fun j : 'I_t => (i == j)%:R * - M j t)); last first.
  by move=> j _; rewrite H ?ltn_ord // (ltn_eqF (ltn_ord j)).
move: it; rewrite leq_eqVlt => /orP[/eqP ->|it].
- rewrite piv addr0 big1 // => j _; by rewrite gtn_eqF // mul0r.
- rewrite (bigD1 (Ordinal it)) //= eqxx mul1r big1 ?addr0 ?addNr // => j ji.
  by rewrite (negbTE (_ : i != j)) ?mul0r //; apply: contraNneq ji => e; apply/eqP/val_inj.
Qed.

Variable G : mx.
(* hypothesis: every leading principal block of G has trivial kernel *)
Hypothesis lead : forall m x, (m <= n)%N -> in_ker m G x -> forall j, (j < m)%N -> x j = 0.

Definition good (t : nat) : Prop :=
  let M := (run G t).1 in
  cols_id t M /\ (forall m x, (t <= m)%N -> (in_ker m M x <-> in_ker m G x)).

Lemma pivot_nonzero t : (t < n)%N -> good t -> (run G t).1 t t != 0.
Proof.
move=> tn [Hc Hk]; apply/eqP => piv.
have [x [kx xt]] := zero_pivot_kernel Hc piv.
have := lead tn (proj1 (Hk t.+1 x (leqnSn t)) kx) (ltnSn t).
by rewrite xt => /eqP; rewrite oner_eq0.
Qed.

Lemma good_run t : (t <= n)%N -> good t.
Proof.
elim: t => [|t IH] tn.
- by split => // m x _; rewrite /run.
- have gt := IH (ltnW tn); have piv := pivot_nonzero tn gt.
  case: gt => Hc Hk; rewrite /good runS /=; split; first exact: cols_step.
  move=> m x tm; rewrite -(Hk m x (ltnW tm)); exact: ker_step.
Qed.

Theorem no_zero_pivot t : (t < n)%N -> (run G t).1 t t != 0.
Proof. by move=> tn; apply: pivot_nonzero (good_run (ltnW tn)). Qed.

(* soundness: M_t = V_t * G, entrywise *)
Lemma VG_eq_M t : (t <= n)%N ->
  forall i j, (i < n)%N -> (run G t).1 i j = \sum_(l < n) (run G t).2 i l * G l j.
Proof.
elim: t => [|t IH] tn i j iN.
- rewrite /run /= (bigD1 (Ordinal iN)) //= /idm eqxx mul1r big1 ?addr0 // => l li.
  by rewrite (negbTE (_ : i != l)) ?mul0r //; apply: contraNneq li => e; apply/eqP/val_inj.
- rewrite runS /= /step_with; have tN : (t < n)%N := tn.
  case: ifP => _.
    by rewrite (IH (ltnW tn) t j tN) mulr_sumr; apply: eq_bigr => l _; rewrite mulrA.
  rewrite (IH (ltnW tn) i j iN) (IH (ltnW tn) t j tN) !mulr_sumr -sumrB.
  by apply: eq_bigr => l _; rewrite mulrBl !mulrA.
Qed.

Theorem invert_sound : forall i j, (i < n)%N -> (j < n)%N ->
  \sum_(l < n) (run G n).2 i l * G l j = (i == j)%:R.
Proof.
move=> i j iN jN; rewrite -VG_eq_M //.
by have [Hc _] := good_run (leqnn n); apply: Hc.
Qed.

End GJ.
Check no_zero_pivot.
Check invert_sound.
Print Assumptions invert_sound.
Print Assumptions no_zero_pivot.
