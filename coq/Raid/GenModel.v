(* Executable models of the parity generators of raid/int.c, raid/intz.c (and, by shape, of the SIMD
   variants of raid/x86.c, raid/x86z.c) -- definitions only, no proofs: this file is extracted.

   Every generator treats each byte offset independently (the 32/64-bit and SIMD variants do so lane-wise;
   that the SWAR word operations of gf.h act lane-wise is GF/Swar.v).  The model is therefore written per
   "column": the list of the bytes that the nd data blocks hold at one offset, disk 0 first.

   Tables are read from Snap.Gen.Tables, which is REGENERATED from raid/tables.c on every run. *)
From Coq Require Import NArith List Bool.
From Snap.Gen Require Import Tables.
From Snap.GF Require Import Gf.
Import ListNotations.
Local Open Scope N_scope.

Definition block := list N.

(* --- table access, as the C does it ------------------------------------------------------ *)
Definition tab1 (row : list N) (i : N) : N := nth (N.to_nat i) row 0.
Definition tab2 (rows : list (list N)) (a b : N) : N := tab1 (nth (N.to_nat a) rows []) b.

Definition t_gfmul (a b : N) : N := tab2 gfmul_rows a b.          (* gfmul[a][b] *)
Definition t_gfexp (a : N) : N := tab2 gfexp_rows 0 a.            (* gfexp[a]    *)
Definition t_gfinv (a : N) : N := tab2 gfinv_rows 0 a.            (* gfinv[a]    *)
(* raid_gfgen: gfcauchy or gfvandermonde according to raid_mode *)
Inductive rmode := Cauchy | Vandermonde.
Definition t_gfgen (m : rmode) (j d : N) : N :=
  match m with Cauchy => tab2 gfcauchy_rows j d | Vandermonde => tab2 gfvandermonde_rows j d end.

(* --- byte operations of gf.h, per lane --------------------------------------------------- *)
(* xtime is in Gf.v : multiply by 2 *)
Definition dtime (a : N) : N :=                                     (* d2_32/d2_64 on one lane *)
  N.lxor (N.shiftr a 1) (if N.odd a then 0x8e else 0).

(* --- generators, one column -------------------------------------------------------------- *)
(* raid_gen1_*: p = D_l; for d = l-1 .. 0: p ^= D_d *)
Definition col_gen1 (col : list N) : list N :=
  match rev col with
  | [] => [0]
  | dl :: rest => [fold_left N.lxor rest dl]
  end.

(* raid_gen2_*: q = p = D_l; for d = l-1 .. 0: p ^= D_d; q = x2(q) ^ D_d *)
Definition step2 (pq : N * N) (d : N) : N * N := (N.lxor (fst pq) d, N.lxor (xtime (snd pq)) d).
Definition col_gen2 (col : list N) : list N :=
  match rev col with
  | [] => [0; 0]
  | dl :: rest => let pq := fold_left step2 rest (dl, dl) in [fst pq; snd pq]
  end.

(* raid_genz_*: additionally r = d2(r) ^ D_d *)
Definition stepz (pqr : N * N * N) (d : N) : N * N * N :=
  let '(p, q, r) := pqr in (N.lxor p d, N.lxor (xtime q) d, N.lxor (dtime r) d).
Definition col_genz (col : list N) : list N :=
  match rev col with
  | [] => [0; 0; 0]
  | dl :: rest => let '(p, q, r) := fold_left stepz rest (dl, dl, dl) in [p; q; r]
  end.

(* raid_gen{3,4,5,6}_int8: accumulators start at 0; for d = l .. 1: p ^= d0, acc_j ^= gfmul[d0][gfgen[j][d]];
   then disk 0 is xored into every accumulator.  Accumulator j (j = 0 is p) is independent of the others. *)
Definition termK (m : rmode) (j : nat) (db : nat * N) : N :=
  if Nat.eqb j 0 then snd db else t_gfmul (snd db) (t_gfgen m (N.of_nat j) (N.of_nat (fst db))).
Definition indexed_from (k : nat) (col : list N) : list (nat * N) := combine (seq k (length col)) col.
Definition indexed (col : list N) : list (nat * N) := indexed_from 0 col.
Definition accK (m : rmode) (j : nat) (col : list N) : N :=
  match col with
  | [] => 0
  | b0 :: rest =>
      N.lxor (fold_left (fun a db => N.lxor a (termK m j db)) (rev (indexed_from 1 rest)) 0) b0
  end.
Definition col_genK (m : rmode) (np : nat) (col : list N) : list N :=
  map (fun j => accK m j col) (seq 0 np).

(* --- blocks ------------------------------------------------------------------------------ *)
Definition column (data : list block) (c : nat) : list N := map (fun d => nth c d 0) data.
Definition columns (data : list block) (size : nat) : list (list N) := map (column data) (seq 0 size).
(* parity blocks from per-column results *)
Definition blocks_of (np : nat) (cols : list (list N)) : list block :=
  map (fun j => map (fun r => nth j r 0) cols) (seq 0 np).

Inductive genfn := G1 | G2 | GZ | GK (np : nat).
Definition gen_np (g : genfn) : nat := match g with G1 => 1 | G2 => 2 | GZ => 3 | GK n => n end%nat.
Definition col_gen (m : rmode) (g : genfn) : list N -> list N :=
  match g with G1 => col_gen1 | G2 => col_gen2 | GZ => col_genz | GK n => col_genK m n end.
Definition gen_blocks (m : rmode) (g : genfn) (size : nat) (data : list block) : list block :=
  blocks_of (gen_np g) (map (col_gen m g) (columns data size)).

(* --- the specification: closed-form matrices, plain GF(2^8) matrix product ---------------- *)
Definition pow2N (k : nat) : N := gexp (Nat.modulo k 255).
Definition yN (j : nat) : N := if Nat.eqb j 1 then 0 else pow2N (Nat.sub j 1).
(* extended Cauchy matrix of raid/mktables.c:set_cauchy, row j, column i *)
Definition cauchyN (j i : nat) : N :=
  if Nat.eqb j 0 then 1
  else gmul (N.lxor 1 (yN j)) (ginv (N.lxor (ginv (pow2N i)) (yN j))).
(* power matrix of set_power: 1, 2^i, 2^-i *)
Definition powerN (j i : nat) : N :=
  match j with 0%nat => 1 | 1%nat => pow2N i | _ => ginv (pow2N i) end.
Definition matN (m : rmode) : nat -> nat -> N := match m with Cauchy => cauchyN | Vandermonde => powerN end.

Definition spec_col (M : nat -> nat -> N) (j : nat) (col : list N) : N :=
  fold_right N.lxor 0 (map (fun ib => gmul (M j (fst ib)) (snd ib)) (indexed col)).
Definition spec_blocks (M : nat -> nat -> N) (np size : nat) (data : list block) : list block :=
  blocks_of np (map (fun col => map (fun j => spec_col M j col) (seq 0 np)) (columns data size)).

(* which matrix a generator implements *)
Definition gen_mat (m : rmode) (g : genfn) : nat -> nat -> N :=
  match g with G1 | G2 => cauchyN | GZ => powerN | GK _ => matN m end.
