(* gen_correct: every generator model computes the GF(2^8) matrix product with the closed-form matrix,
   for every number of disks 1..251, every column content. *)
From Coq Require Import NArith List Bool Lia Arith.
From Snap.Gen Require Import Tables.
From Snap.GF Require Import Gf TablesOk.
From Snap.Raid Require Import GenModel.
Import ListNotations.
Local Open Scope N_scope.

Definition bytes (l : list N) : Prop := Forall (fun b => b < 256) l.

Definition spec_from (c : nat -> N) (k : nat) (col : list N) : N :=
  fold_right N.lxor 0 (map (fun ib => gmul (c (fst ib)) (snd ib)) (indexed_from k col)).

Lemma indexed_from_cons k b col : indexed_from k (b :: col) = (k, b) :: indexed_from (S k) col.
Proof. reflexivity. Qed.

Lemma spec_from_cons c k b col : spec_from c k (b :: col) = N.lxor (gmul (c k) b) (spec_from c (S k) col).
Proof. reflexivity. Qed.

Lemma spec_from_nil c k : spec_from c k [] = 0. Proof. reflexivity. Qed.

Lemma spec_col_from M j col : spec_col M j col = spec_from (M j) 0 col.
Proof. reflexivity. Qed.

Lemma spec_from_ext c c' k col :
  (forall i, (k <= i < k + length col)%nat -> c i = c' i) -> spec_from c k col = spec_from c' k col.
Proof.
  revert k. induction col as [|b col IH]; intros k H; [reflexivity|].
  rewrite !spec_from_cons. rewrite (H k) by (cbn [length]; lia). f_equal.
  apply IH. intros i Hi. apply H. cbn [length]. lia.
Qed.

Lemma spec_from_range c k col : (forall i, c i < 256) -> bytes col -> spec_from c k col < 256.
Proof.
  intros Hc. revert k. induction col as [|b col IH]; intros k Hb.
  - rewrite spec_from_nil. lia.
  - rewrite spec_from_cons. inversion Hb; subst. apply lxor_range; [apply gmul_range; auto|apply IH; auto].
Qed.

(* multiplication by a constant distributes over the column sum *)
Lemma gmul_spec_from a c k col : a < 256 -> (forall i, c i < 256) -> bytes col ->
  gmul a (spec_from c k col) = spec_from (fun i => gmul a (c i)) k col.
Proof.
  intros Ha Hc. revert k. induction col as [|b col IH]; intros k Hb.
  - rewrite !spec_from_nil. apply gmul_0_r. exact Ha.
  - inversion Hb; subst. rewrite !spec_from_cons.
    rewrite gmul_distr_r; [|exact Ha|apply gmul_range; auto|apply spec_from_range; auto].
    rewrite IH by assumption. f_equal. apply gmul_assoc; auto.
Qed.

Lemma spec_from_shift c k col : spec_from c (S k) col = spec_from (fun i => c (S i)) k col.
Proof.
  revert k. induction col as [|b col IH]; intros k; [reflexivity|].
  rewrite !spec_from_cons. f_equal. apply IH.
Qed.

(* ---------------------------------------------------------------------------------- *)
(* byte facts *)
Lemma xtime_is_gmul2 a : a < 256 -> xtime a = gmul 2 a.
Proof.
  intros Ha. apply N.eqb_eq. apply (all1 (fun a => xtime a =? gmul 2 a)); [vm_compute; reflexivity|exact Ha].
Qed.
Lemma dtime_is_gmul a : a < 256 -> dtime a = gmul 142 a.
Proof.
  intros Ha. apply N.eqb_eq. apply (all1 (fun a => dtime a =? gmul 142 a)); [vm_compute; reflexivity|exact Ha].
Qed.

Lemma mod255_lt k : (k mod 255 < 255)%nat. Proof. apply Nat.mod_upper_bound. lia. Qed.

Lemma pow2N_S i : pow2N (S i) = gmul 2 (pow2N i).
Proof.
  unfold pow2N.
  assert (E : (S i mod 255 = (S (i mod 255)) mod 255)%nat).
  { change (S i) with (1 + i)%nat. change (S (i mod 255)) with (1 + i mod 255)%nat.
    rewrite Nat.add_mod_idemp_r by lia. reflexivity. }
  rewrite E. generalize (mod255_lt i). generalize (i mod 255)%nat. intros k Hk.
  assert (H : forallb (fun k => gexp (S k mod 255) =? gmul 2 (gexp k)) (seq 0 255) = true) by (vm_compute; reflexivity).
  rewrite forallb_forall in H. apply N.eqb_eq. apply H. apply in_seq. lia.
Qed.
Lemma inv_pow2N_S i : ginv (pow2N (S i)) = gmul 142 (ginv (pow2N i)).
Proof.
  unfold pow2N.
  assert (E : (S i mod 255 = (S (i mod 255)) mod 255)%nat).
  { change (S i) with (1 + i)%nat. change (S (i mod 255)) with (1 + i mod 255)%nat.
    rewrite Nat.add_mod_idemp_r by lia. reflexivity. }
  rewrite E. generalize (mod255_lt i). generalize (i mod 255)%nat. intros k Hk.
  assert (H : forallb (fun k => ginv (gexp (S k mod 255)) =? gmul 142 (ginv (gexp k))) (seq 0 255) = true) by (vm_compute; reflexivity).
  rewrite forallb_forall in H. apply N.eqb_eq. apply H. apply in_seq. lia.
Qed.
Lemma inv_pow2N_range i : ginv (pow2N i) < 256.
Proof.
  unfold pow2N. generalize (mod255_lt i). generalize (i mod 255)%nat. intros k Hk.
  assert (H : forallb (fun k => ginv (gexp k) <? 256) (seq 0 255) = true) by (vm_compute; reflexivity).
  rewrite forallb_forall in H. apply N.ltb_lt. apply H. apply in_seq. lia.
Qed.

Definition c_one (i : nat) : N := 1.
Definition c_pow (i : nat) : N := pow2N i.
Definition c_ipow (i : nat) : N := ginv (pow2N i).

Lemma c_pow_0 : c_pow 0 = 1. Proof. vm_compute. reflexivity. Qed.
Lemma c_ipow_0 : c_ipow 0 = 1. Proof. vm_compute. reflexivity. Qed.

(* ---------------------------------------------------------------------------------- *)
(* Horner traversal: the loops of gen1/gen2/genz run from the last disk to disk 0 *)
Lemma rev_cons_case (b : N) col :
  col <> [] -> exists dl rest, rev col = dl :: rest /\ rev (b :: col) = dl :: rest ++ [b].
Proof.
  intros Hn. destruct (rev col) as [|dl rest] eqn:E.
  - apply (f_equal (@rev N)) in E. rewrite rev_involutive in E. contradiction.
  - exists dl, rest. split; [reflexivity|]. cbn [rev]. rewrite E. reflexivity.
Qed.

(* generic Horner lemma: state s tracks (sum with coefficient function c); step multiplies by a then adds d *)
Section Horner.
  Variable a : N.
  Variable c : nat -> N.
  Hypothesis Ha : a < 256.
  Hypothesis Hc : forall i, c i < 256.
  Hypothesis c0 : c 0%nat = 1.
  Hypothesis cS : forall i, c (S i) = gmul a (c i).
  Variable mulA : N -> N.
  Hypothesis mulA_ok : forall x, x < 256 -> mulA x = gmul a x.

  Definition hstep (q d : N) : N := N.lxor (mulA q) d.
  Definition horner (col : list N) : N :=
    match rev col with [] => 0 | dl :: rest => fold_left hstep rest dl end.

  Lemma horner_ok col : bytes col -> horner col = spec_from c 0 col.
  Proof.
    induction col as [|b col IH]; intros Hb; [reflexivity|].
    inversion Hb as [|? ? Hb0 Hb']; subst.
    destruct col as [|b1 col'].
    - unfold horner. cbn [rev app fold_left]. rewrite spec_from_cons, spec_from_nil, c0, gmul_1_l, N.lxor_0_r by exact Hb0.
      reflexivity.
    - destruct (rev_cons_case b (b1 :: col') ltac:(discriminate)) as [dl [rest [E1 E2]]].
      specialize (IH Hb'). unfold horner in IH |- *. rewrite E2. rewrite E1 in IH.
      rewrite fold_left_app. cbn [fold_left]. rewrite IH. unfold hstep.
      rewrite mulA_ok by (apply spec_from_range; auto).
      rewrite gmul_spec_from by auto.
      rewrite (spec_from_cons c 0 b), c0, gmul_1_l by exact Hb0.
      rewrite spec_from_shift. rewrite N.lxor_comm. f_equal.
      apply spec_from_ext. intros i _. symmetry. apply cS.
  Qed.
End Horner.

Lemma gmul_1_r' x : x < 256 -> gmul 1 x = x. Proof. apply gmul_1_l. Qed.

(* projections of the fused loops *)
Lemma fold_step2_fst rest p q : fst (fold_left step2 rest (p, q)) = fold_left N.lxor rest p.
Proof. revert p q. induction rest as [|d rest IH]; intros p q; [reflexivity|]. cbn [fold_left]. unfold step2 at 2. cbn [fst snd]. apply IH. Qed.
Lemma fold_step2_snd rest p q : snd (fold_left step2 rest (p, q)) = fold_left (hstep xtime) rest q.
Proof. revert p q. induction rest as [|d rest IH]; intros p q; [reflexivity|]. cbn [fold_left]. unfold step2 at 2. cbn [fst snd]. apply IH. Qed.

Lemma fold_stepz rest p q r :
  fold_left stepz rest (p, q, r) =
  (fold_left N.lxor rest p, fold_left (hstep xtime) rest q, fold_left (hstep dtime) rest r).
Proof. revert p q r. induction rest as [|d rest IH]; intros p q r; [reflexivity|]. cbn [fold_left]. unfold stepz at 2. apply IH. Qed.

Lemma hstep_id_is_lxor rest p : fold_left N.lxor rest p = fold_left (hstep (fun x => x)) rest p.
Proof. reflexivity. Qed.

Lemma horner_one col : bytes col ->
  horner (fun x => x) col = spec_from c_one 0 col.
Proof.
  apply (horner_ok 1 c_one).
  - lia.
  - intros i. unfold c_one. lia.
  - reflexivity.
  - intros i. unfold c_one. symmetry. apply gmul_1_l. lia.
  - intros x Hx. symmetry. apply gmul_1_l. exact Hx.
Qed.
Lemma horner_pow col : bytes col -> horner xtime col = spec_from c_pow 0 col.
Proof.
  apply (horner_ok 2 c_pow); try lia.
  - intros i. apply pow2N_range.
  - exact c_pow_0.
  - intros i. apply pow2N_S.
  - apply xtime_is_gmul2.
Qed.
Lemma horner_ipow col : bytes col -> horner dtime col = spec_from c_ipow 0 col.
Proof.
  apply (horner_ok 142 c_ipow); try lia.
  - intros i. apply inv_pow2N_range.
  - exact c_ipow_0.
  - intros i. apply inv_pow2N_S.
  - apply dtime_is_gmul.
Qed.

(* ---------------------------------------------------------------------------------- *)
Lemma col_gen1_ok col : col <> [] -> bytes col -> col_gen1 col = [spec_from c_one 0 col].
Proof.
  intros Hn Hb. unfold col_gen1. rewrite <- horner_one by exact Hb. unfold horner.
  destruct (rev col) as [|dl rest] eqn:E; [|reflexivity].
  apply (f_equal (@rev N)) in E. rewrite rev_involutive in E. contradiction.
Qed.

Lemma col_gen2_ok col : col <> [] -> bytes col ->
  col_gen2 col = [spec_from c_one 0 col; spec_from c_pow 0 col].
Proof.
  intros Hn Hb. unfold col_gen2. rewrite <- horner_one, <- horner_pow by exact Hb. unfold horner.
  destruct (rev col) as [|dl rest] eqn:E.
  - apply (f_equal (@rev N)) in E. rewrite rev_involutive in E. contradiction.
  - cbv zeta. rewrite fold_step2_fst, fold_step2_snd. reflexivity.
Qed.

Lemma col_genz_ok col : col <> [] -> bytes col ->
  col_genz col = [spec_from c_one 0 col; spec_from c_pow 0 col; spec_from c_ipow 0 col].
Proof.
  intros Hn Hb. unfold col_genz. rewrite <- horner_one, <- horner_pow, <- horner_ipow by exact Hb. unfold horner.
  destruct (rev col) as [|dl rest] eqn:E.
  - apply (f_equal (@rev N)) in E. rewrite rev_involutive in E. contradiction.
  - rewrite fold_stepz. reflexivity.
Qed.

(* ---------------------------------------------------------------------------------- *)
(* table driven accumulators *)
Definition rows_of (m : rmode) : nat := match m with Cauchy => 6%nat | Vandermonde => 3%nat end.

Lemma fold_acc_spec m j k rest :
  (j < rows_of m)%nat -> (k + length rest <= 251)%nat -> bytes rest ->
  fold_right (fun db a => N.lxor a (termK m j db)) 0 (indexed_from k rest) = spec_from (matN m j) k rest.
Proof.
  intros Hj. revert k. induction rest as [|b rest IH]; intros k Hk Hb; [reflexivity|].
  inversion Hb as [|? ? Hb0 Hb']; subst. cbn [length] in Hk.
  rewrite indexed_from_cons, spec_from_cons. cbn [fold_right]. rewrite IH by (assumption || lia).
  rewrite N.lxor_comm. f_equal. unfold termK. cbn [fst snd].
  assert (Hj6 : (j < 6)%nat) by (destruct m; cbn [rows_of] in Hj; lia).
  destruct (Nat.eqb_spec j 0) as [->|Hj0].
  - assert (E : matN m 0 k = 1) by (destruct m; reflexivity). rewrite E. symmetry. apply gmul_1_l. exact Hb0.
  - rewrite t_gfgen_ok by (destruct m; cbn [rows_of] in Hj; lia).
    rewrite !Nat2N.id.
    rewrite t_gfmul_ok by (try exact Hb0; apply matN_range; lia).
    apply gmul_comm; [exact Hb0|apply matN_range; lia].
Qed.

Lemma fold_left_rev {A B} (f : A -> B -> A) l a : fold_left f (rev l) a = fold_right (fun x y => f y x) a l.
Proof.
  induction l as [|x l IH]; cbn [rev fold_right fold_left]; [reflexivity|].
  rewrite fold_left_app. cbn [fold_left]. rewrite IH. reflexivity.
Qed.

Lemma accK_ok m j col : (j < rows_of m)%nat -> col <> [] -> (length col <= 251)%nat -> bytes col ->
  accK m j col = spec_from (matN m j) 0 col.
Proof.
  intros Hj Hn Hl Hb. destruct col as [|b0 rest]; [contradiction|].
  inversion Hb as [|? ? Hb0 Hb']; subst. cbn [length] in Hl.
  unfold accK. rewrite fold_left_rev.
  rewrite (fold_acc_spec m j 1 rest Hj) by (assumption || lia).
  rewrite spec_from_cons. rewrite N.lxor_comm. f_equal.
  assert (Hj6 : (j < 6)%nat) by (destruct m; cbn [rows_of] in Hj; lia).
  rewrite mat_col0 by exact Hj6. symmetry. apply gmul_1_l. exact Hb0.
Qed.

(* ---------------------------------------------------------------------------------- *)
(* The column theorem, all generators *)
Definition gen_admissible (m : rmode) (g : genfn) : Prop :=
  match g with GK n => (n <= rows_of m)%nat | _ => True end.

Lemma cauchy_rows_01 col : (length col <= 251)%nat ->
  spec_from c_one 0 col = spec_from (cauchyN 0) 0 col /\ spec_from c_pow 0 col = spec_from (cauchyN 1) 0 col.
Proof.
  intros Hl. split; apply spec_from_ext; intros i Hi.
  - reflexivity.
  - unfold c_pow. symmetry. apply cauchy_row1. lia.
Qed.

Theorem col_gen_correct m g col :
  gen_admissible m g -> col <> [] -> (length col <= 251)%nat -> bytes col ->
  col_gen m g col = map (fun j => spec_col (gen_mat m g) j col) (seq 0 (gen_np g)).
Proof.
  intros Ha Hn Hl Hb. destruct g as [| | |n]; cbn [col_gen gen_np gen_mat seq map]; rewrite ?spec_col_from.
  - rewrite col_gen1_ok by assumption. destruct (cauchy_rows_01 col Hl) as [E0 _]. rewrite E0. reflexivity.
  - rewrite col_gen2_ok by assumption. destruct (cauchy_rows_01 col Hl) as [E0 E1]. rewrite E0, E1. reflexivity.
  - rewrite col_genz_ok by assumption. reflexivity.
  - unfold col_genK. apply map_ext_in. intros j Hj. apply in_seq in Hj. cbn [gen_admissible] in Ha.
    rewrite spec_col_from. apply accK_ok; try assumption. lia.
Qed.

(* Block level: for every data vector of nd blocks (1 <= nd <= 251) of bytes, every size *)
Definition data_ok (data : list block) : Prop := Forall bytes data.

Lemma column_bytes data c : data_ok data -> bytes (column data c).
Proof.
  intros Hd. unfold column, bytes. apply Forall_forall. intros x Hx. apply in_map_iff in Hx.
  destruct Hx as [d [<- Hin]]. unfold data_ok in Hd. rewrite Forall_forall in Hd. specialize (Hd d Hin).
  destruct (nth_in_or_default c d 0) as [H|H].
  - unfold bytes in Hd. rewrite Forall_forall in Hd. apply Hd. exact H.
  - rewrite H. lia.
Qed.

Theorem gen_blocks_correct m g size data :
  gen_admissible m g -> data <> [] -> (length data <= 251)%nat -> data_ok data ->
  gen_blocks m g size data = spec_blocks (gen_mat m g) (gen_np g) size data.
Proof.
  intros Ha Hn Hl Hd. unfold gen_blocks, spec_blocks. f_equal. unfold columns. rewrite !map_map.
  apply map_ext. intros c. apply col_gen_correct; try assumption.
  - unfold column. destruct data; [contradiction|discriminate].
  - unfold column. rewrite map_length. exact Hl.
  - apply column_bytes. exact Hd.
Qed.
