(* raid_invert (RecModel.invertN): the table-driven Gauss-Jordan elimination on byte matrices tracks
   GaussJordan.run over the field gf; it never meets a zero pivot on the square sub-matrices of the
   generator (MDS), and whenever it succeeds it returns a left inverse. *)
From mathcomp Require Import all_ssreflect all_algebra.
From Coq Require Import NArith.
From Snap.GF Require Import Gf GfField TablesOk.
From Snap.Raid Require Import GenModel GaussJordan.
From Snap.Raid Require GenProofs RecModel.
From Snap.Raid Require Import Xsum Bridge.
Set Implicit Arguments.
Unset Strict Implicit.
Unset Printing Implicit Defensive.
Import GRing.Theory.
Local Open Scope ring_scope.

Notation gmx := (mx gf_fieldType).

Lemma tmul_gval (x y : gf) : t_gfmul (gval x) (gval y) = gval (x * y).
Proof. by rewrite t_gfmul_ok; [|exact: gvalP|exact: gvalP]. Qed.

Lemma tinv_gval (x : gf) : x != 0 -> t_gfinv (gval x) = gval x^-1.
Proof.
move=> nz; rewrite t_gfinv_ok; [by rewrite gval_inv|exact: gvalP|exact: neq0_gval].
Qed.

Section Track.
Variable n : nat.

Definition repr (MN : RecModel.mxN) (Mf : gmx) : Prop :=
  forall i j, (i < n)%nat -> (j < n)%nat -> MN i j = gval (Mf i j).

Lemma step_repr M X (Mf Xf : gmx) t :
  repr M Mf -> repr X Xf -> (t < n)%nat -> M t t <> 0%N ->
  repr (RecModel.step_withN M X t) (step_with Mf Xf t).
Proof.
move=> rM rX tn nz i j li lj; rewrite /RecModel.step_withN /step_with eqbE.
have pv : Mf t t != 0 by apply: gval_neq0; rewrite -rM.
rewrite (rM t t tn tn) (tinv_gval pv) (rX t j tn lj) tmul_gval.
case: ifP => // _.
by rewrite (rX i j li lj) (rM i t li tn) tmul_gval gval_sub.
Qed.

Lemma runN_app ts t MV :
  RecModel.runN (List.app ts (t :: nil)) MV =
  match RecModel.runN ts MV with None => None | Some MV' => RecModel.runN (t :: nil) MV' end.
Proof.
elim: ts MV => [|t0 ts IH] MV //=.
by case: (_ =? _)%N.
Qed.

Lemma repr_id : repr RecModel.idN (@idm gf_fieldType).
Proof. by move=> i j _ _; rewrite /idm gval_delta. Qed.

Lemma track G (Gf : gmx) t : repr G Gf -> (t <= n)%nat ->
  match RecModel.runN (List.seq 0 t) (G, RecModel.idN) with
  | Some MV => [/\ repr MV.1 (run Gf t).1, repr MV.2 (run Gf t).2
                 & forall t', (t' < t)%nat -> (run Gf t').1 t' t' != 0]
  | None => exists2 t', (t' < t)%nat & (run Gf t').1 t' t' = 0
  end.
Proof.
move=> rG; elim: t => [|t IH] tn.
  by rewrite /=; split => //; exact: repr_id.
have {IH} := IH (ltnW tn).
rewrite List.seq_S runN_app -[Nat.add 0 t]/t.
case: (RecModel.runN _ _) => [[M V]|]; last first.
  by case=> t' lt z; exists t' => //; apply: ltn_trans lt _.
case=> /= rM rV pv.
case: (N.eqb_spec (M t t) 0%N) => [z|nz].
  exists t => //; apply: gval_eq0; by rewrite -rM.
rewrite runS /=; split.
- exact: step_repr.
- exact: step_repr.
- move=> t'; rewrite ltnS leq_eqVlt => /orP[/eqP ->|]; last exact: pv.
  by apply: gval_neq0; rewrite -rM.
Qed.

Lemma cols_run (Gf : gmx) t :
  (forall t', (t' < t)%nat -> (run Gf t').1 t' t' != 0) -> cols_id t (run Gf t).1.
Proof.
elim: t => [|t IH] pv; first by move=> i j.
rewrite runS /=; apply: cols_step; last exact: pv.
by apply: IH => t' lt; apply: pv; apply: ltn_trans lt _.
Qed.

Lemma sound_of_pivots G (Gf : gmx) V :
  repr G Gf -> repr V (run Gf n).2 ->
  (forall t', (t' < n)%nat -> (run Gf t').1 t' t' != 0) ->
  forall i j, (i < n)%nat -> (j < n)%nat ->
    xsumN n (fun l => gmul (V i l) (G l j)) = RecModel.idN i j.
Proof.
move=> rG rV pv i j li lj.
rewrite -gval_delta -(cols_run pv i lj) (VG_eq_M Gf (leqnn n) j li).
rewrite (gval_sum n (fun l => (run Gf n).2 i l * Gf l j)).
apply: xsumN_ext => l /ltP ll.
by rewrite gval_mul -rV // -rG.
Qed.

(* over a field a left inverse of a square matrix is a right inverse *)
Lemma right_inverse (Vf Gf : gmx) :
  (forall i j, (i < n)%nat -> (j < n)%nat -> \sum_(l < n) Vf i l * Gf l j = (i == j)%:R) ->
  forall i j, (i < n)%nat -> (j < n)%nat -> \sum_(l < n) Gf i l * Vf l j = (i == j)%:R.
Proof.
move=> VG i j li lj.
pose VM : 'M[gf]_n := \matrix_(a, b) Vf a b.
pose GM : 'M[gf]_n := \matrix_(a, b) Gf a b.
have e : VM *m GM = 1%:M.
  apply/matrixP => a b; rewrite !mxE -val_eqE /= -(VG a b) //.
  by apply: eq_bigr => l _; rewrite !mxE.
have /matrixP /(_ (Ordinal li) (Ordinal lj)) := mulmx1C e.
rewrite !mxE -val_eqE /= => <-.
by apply: eq_bigr => l _; rewrite !mxE.
Qed.

Lemma sound_right_of_pivots G (Gf : gmx) V :
  repr G Gf -> repr V (run Gf n).2 ->
  (forall t', (t' < n)%nat -> (run Gf t').1 t' t' != 0) ->
  forall i j, (i < n)%nat -> (j < n)%nat ->
    xsumN n (fun l => gmul (G i l) (V l j)) = RecModel.idN i j.
Proof.
move=> rG rV pv i j li lj.
have VG a b : (a < n)%nat -> (b < n)%nat -> \sum_(l < n) (run Gf n).2 a l * Gf l b = (a == b)%:R.
  by move=> la lb; rewrite -(VG_eq_M Gf (leqnn n) b la) (cols_run pv a lb).
rewrite -gval_delta -(right_inverse VG li lj).
rewrite (gval_sum n (fun l => Gf i l * (run Gf n).2 l j)).
apply: xsumN_ext => l /ltP ll.
by rewrite gval_mul -rV // -rG.
Qed.
End Track.

Definition lift (G : RecModel.mxN) : gmx := fun i j => gf_of (G i j).

Lemma repr_lift n G :
  (forall i j, (i < n)%coq_nat -> (j < n)%coq_nat -> (G i j < 256)%N) -> repr n G (lift G).
Proof. by move=> bG i j /ltP li /ltP lj; rewrite /lift gval_gf_of //; apply: bG. Qed.

(* raid_invert is sound on every byte matrix on which it does not hit BUG_ON *)
Theorem invertN_sound_general (G : RecModel.mxN) n V :
  (forall i j, (i < n)%coq_nat -> (j < n)%coq_nat -> (G i j < 256)%N) ->
  RecModel.invertN G n = Some V ->
  (forall i j, (i < n)%coq_nat -> (j < n)%coq_nat -> (V i j < 256)%N) /\
  (forall i j, (i < n)%coq_nat -> (j < n)%coq_nat ->
     xsumN n (fun l => gmul (V i l) (G l j)) = RecModel.idN i j).
Proof.
move=> bG; have rG := repr_lift bG.
rewrite /RecModel.invertN; have := track rG (leqnn n).
case: (RecModel.runN _ _) => [[M V']|] // [/= rM rV pv] [<-]; split.
- by move=> i j /ltP li /ltP lj; rewrite rV //; exact: gvalP.
- by move=> i j /ltP li /ltP lj; apply: (sound_of_pivots rG rV pv).
Qed.

(* and it does not hit BUG_ON on the square sub-matrices of the generator *)
Section Ok.
Variable m : rmode.
Variables id ip : list nat.
Variable nr : nat.
Hypothesis sid : RecModel.sorted_lt id = true.
Hypothesis sip : RecModel.sorted_lt ip = true.
Hypothesis lid : length id = nr.
Hypothesis lip : length ip = nr.
Hypothesis bid : forall d, List.In d id -> (d < 251)%coq_nat.
Hypothesis bip : forall p, List.In p ip -> (p < GenProofs.rows_of m)%coq_nat.

Variable G : RecModel.mxN.
Hypothesis G_eq : forall j k, (j < nr)%coq_nat -> (k < nr)%coq_nat ->
  G j k = RecModel.coefA m (List.nth j ip 0%nat) (List.nth k id 0%nat).

Lemma G_mat j k : (j < nr)%coq_nat -> (k < nr)%coq_nat ->
  G j k = matN m (List.nth j ip 0%nat) (List.nth k id 0%nat).
Proof.
move=> lj lk; rewrite G_eq //; apply: coefA_matN.
- by apply: bip; apply: List.nth_In; rewrite lip.
- by apply: bid; apply: List.nth_In; rewrite lid.
Qed.

Lemma G_bytes j k : (j < nr)%coq_nat -> (k < nr)%coq_nat -> (G j k < 256)%N.
Proof.
move=> lj lk; rewrite G_eq //; apply: coefA_range.
- by apply: bip; apply: List.nth_In; rewrite lip.
- by apply: bid; apply: List.nth_In; rewrite lid.
Qed.

Lemma G_lead k (x : nat -> gf) : (k <= nr)%nat -> in_ker k (lift G) x ->
  forall j, (j < k)%nat -> x j = 0.
Proof.
move=> /leP kn ker j /ltP lj.
pose xs := List.map (fun j => gval (x j)) (List.seq 0 k).
have lfi : length (List.firstn k ip) = k by rewrite List.firstn_length_le // lip.
have lfd : length (List.firstn k id) = k by rewrite List.firstn_length_le // lid.
have lxs : length xs = k by rewrite /xs List.map_length List.seq_length.
have nxs b : (b < k)%coq_nat -> List.nth b xs 0%N = gval (x b).
  by move=> lb; rewrite /xs (nth_map_seq (fun j => gval (x j))).
apply: gval_eq0; rewrite -nxs //.
apply: (@mdsN m (List.firstn k ip) (List.firstn k id) xs) => //.
- exact: sorted_lt_firstn.
- exact: sorted_lt_firstn.
- by rewrite lfi lfd.
- by rewrite lxs lfd.
- by move=> r hr; apply: bip; apply: firstn_In hr.
- by move=> c hc; apply: bid; apply: firstn_In hc.
- by apply: bytes_of_nth => b; rewrite lxs => lb; rewrite nxs //; exact: gvalP.
- rewrite lfi lfd => a la.
  have := ker a (introT ltP la); rewrite /dot => /(congr1 gval); rewrite gval_0 => e0; rewrite -[RHS]e0.
  rewrite (gval_sum k (fun b => lift G a b * x b)).
  apply: xsumN_ext => b lb.
  have lak : (a < nr)%coq_nat by apply: PeanoNat.Nat.lt_le_trans la kn.
  have lbk : (b < nr)%coq_nat by apply: PeanoNat.Nat.lt_le_trans lb kn.
  rewrite gval_mul /lift gval_gf_of; last exact: G_bytes.
  by rewrite G_mat // !nth_firstn_lt // nxs.
- by rewrite lfd.
Qed.

Theorem invertN_ok_sect :
  exists V, [/\ RecModel.invertN G nr = Some V,
    (forall i j, (i < nr)%coq_nat -> (j < nr)%coq_nat -> (V i j < 256)%N),
    (forall i j, (i < nr)%coq_nat -> (j < nr)%coq_nat ->
       xsumN nr (fun l => gmul (V i l) (G l j)) = RecModel.idN i j)
  & (forall i j, (i < nr)%coq_nat -> (j < nr)%coq_nat ->
       xsumN nr (fun l => gmul (G i l) (V l j)) = RecModel.idN i j)].
Proof.
have rG := repr_lift G_bytes.
have pv := no_zero_pivot G_lead.
have := track rG (leqnn nr); rewrite /RecModel.invertN.
case: (RecModel.runN _ _) => [[M V]|]; last first.
  by case=> t' lt z; have := pv t' lt; rewrite z eqxx.
case=> /= rM rV _; exists V; split => //.
- by move=> i j /ltP li /ltP lj; rewrite rV //; exact: gvalP.
- by move=> i j /ltP li /ltP lj; apply: (sound_of_pivots rG rV) => // t' lt; apply: pv.
- by move=> i j /ltP li /ltP lj; apply: (sound_right_of_pivots rG rV) => // t' lt; apply: pv.
Qed.
End Ok.

Theorem invertN_ok m (id ip : list nat) nr :
  RecModel.sorted_lt id = true -> RecModel.sorted_lt ip = true ->
  length id = nr -> length ip = nr ->
  (forall d, List.In d id -> (d < 251)%coq_nat) ->
  (forall p, List.In p ip -> (p < GenProofs.rows_of m)%coq_nat) ->
  let G := fun j k => RecModel.coefA m (List.nth j ip 0%nat) (List.nth k id 0%nat) in
  exists V, RecModel.invertN G nr = Some V /\
    (forall i j, (i < nr)%coq_nat -> (j < nr)%coq_nat -> (V i j < 256)%N) /\
    (forall i j, (i < nr)%coq_nat -> (j < nr)%coq_nat ->
       xsumN nr (fun l => gmul (V i l) (G l j)) = RecModel.idN i j).
Proof.
move=> sid sip lid lip bid bip G.
have [V [e bV sV _]] := @invertN_ok_sect m id ip nr sid sip lid lip bid bip G (fun _ _ _ _ => erefl).
by exists V.
Qed.

(* the same for any matrix that coincides with the generator sub-matrix on the nr x nr square,
   with the right-inverse property too *)
Theorem invertN_ok_ext m (id ip : list nat) nr (G : RecModel.mxN) :
  RecModel.sorted_lt id = true -> RecModel.sorted_lt ip = true ->
  length id = nr -> length ip = nr ->
  (forall d, List.In d id -> (d < 251)%coq_nat) ->
  (forall p, List.In p ip -> (p < GenProofs.rows_of m)%coq_nat) ->
  (forall j k, (j < nr)%coq_nat -> (k < nr)%coq_nat ->
     G j k = RecModel.coefA m (List.nth j ip 0%nat) (List.nth k id 0%nat)) ->
  exists V, RecModel.invertN G nr = Some V /\
    (forall i j, (i < nr)%coq_nat -> (j < nr)%coq_nat -> (V i j < 256)%N) /\
    (forall i j, (i < nr)%coq_nat -> (j < nr)%coq_nat ->
       xsumN nr (fun l => gmul (V i l) (G l j)) = RecModel.idN i j) /\
    (forall i j, (i < nr)%coq_nat -> (j < nr)%coq_nat ->
       xsumN nr (fun l => gmul (G i l) (V l j)) = RecModel.idN i j).
Proof.
move=> sid sip lid lip bid bip Geq.
have [V [e bV sV sR]] := invertN_ok_sect sid sip lid lip bid bip Geq.
by exists V.
Qed.

Print Assumptions invertN_sound_general.
Print Assumptions invertN_ok.
Print Assumptions invertN_ok_ext.
