(* Feasibility prototype: every square sub-matrix of the 6x251 extended Cauchy generator
   (defined by closed formula over GF(2^8)) has trivial kernel. *)
From mathcomp Require Import all_ssreflect all_algebra.
From Coq Require Import NArith.
From Snap.GF Require Import Gf GfField.
From Snap.Raid Require Import CauchyK ExtCauchyK.
Set Implicit Arguments.
Unset Strict Implicit.
Unset Printing Implicit Defensive.
Import GRing.Theory.
Local Open Scope ring_scope.

Lemma lt2_256 : (2 < 256)%N. Proof. by []. Qed.
Definition two : gf := mk lt2_256.

Lemma gf_oppE (x : gf) : - x = x. Proof. by []. Qed.
Lemma gf_add_eq0 (x y : gf) : (x + y == 0) = (x == y).
Proof. by rewrite addr_eq0 gf_oppE. Qed.

(* powers of two through the N-level exponent table *)
Lemma gmul2_xtime a : (a < 256)%N -> gmul 2 a = xtime a.
Proof.
move=> Ha; apply/N.eqb_eq.
by apply: (all1 (fun a => N.eqb (gmul 2 a) (xtime a))) Ha; vm_compute.
Qed.

Lemma nth_iter_tab n x k : (k < n)%nat -> nth 0%N (iter_tab n x) k = iter k xtime x.
Proof.
elim: n x k => [|n IH] x [|k] //= lt.
by rewrite IH // -iterSr.
Qed.

Lemma nthE (l : seq N) k : List.nth k l 0%N = nth 0%N l k.
Proof. by elim: l k => [|h t IH] [|k] //=. Qed.

Lemma gexpE k : (k < 255)%nat -> gexp k = iter k xtime 1%N.
Proof. by move=> lt; rewrite /gexp nthE /exp_tab -[RHS](@nth_iter_tab 255). Qed.

Lemma gval_pow2 k : (k < 255)%nat -> gval (two ^+ k) = gexp k.
Proof.
elim: k => [|k IH] lt; first by rewrite gexpE.
rewrite exprS gval_mul (IH (ltnW lt)) (gexpE (ltnW lt)) (gexpE lt) iterS.
apply: gmul2_xtime; rewrite -(gexpE (ltnW lt)) -(IH (ltnW lt)); exact: gvalP.
Qed.

Lemma pow2_inj i j : (i < 255)%nat -> (j < 255)%nat -> two ^+ i = two ^+ j -> i = j.
Proof.
move=> li lj /(congr1 gval); rewrite !gval_pow2 // => e.
have [<- _] := logexp _ (elimT ltP li).
by have [<- _] := logexp _ (elimT ltP lj); rewrite e.
Qed.

Lemma pow2_neq0 i : two ^+ i != 0.
Proof.
apply: expf_neq0; apply/eqP => /(congr1 gval); by [].
Qed.

Lemma pow2_255 : two ^+ 255 = 1.
Proof.
by apply: gf_inj; rewrite exprS gval_mul gval_pow2.
Qed.

(* the generator matrix, by closed formula *)
Definition xi (i : nat) : gf := (two ^+ i)^-1.
Definition yr (r : nat) : gf := if r == 1%nat then 0 else two ^+ r.-1.
Definition A (r i : nat) : gf := if r == 0%nat then 1 else (xi 0 + yr r) / (xi i + yr r).

Lemma xi_inj i j : (i < 251)%nat -> (j < 251)%nat -> xi i = xi j -> i = j.
Proof.
move=> li lj /invr_inj; apply: pow2_inj; [exact: leq_trans li _ | exact: leq_trans lj _].
Qed.

Lemma yr_inj r s : (0 < r < 6)%nat -> (0 < s < 6)%nat -> yr r = yr s -> r = s.
Proof.
move=> /andP[r0 lr] /andP[s0 ls].
case: r r0 lr => [|[|r]] // _ lr; case: s s0 ls => [|[|s]] // _ ls; rewrite /yr /=.
- by move/eqP; rewrite eq_sym (negbTE (pow2_neq0 _)).
- by move/eqP; rewrite (negbTE (pow2_neq0 _)).
- move=> e; congr (_.+2); apply: eq_add_S; apply: pow2_inj e.
  + by apply: leq_trans (_ : (6 <= 255)%nat) => //; apply: ltnW.
  + by apply: leq_trans (_ : (6 <= 255)%nat) => //; apply: ltnW.
Qed.

Lemma xy_neq0 i r : (i < 251)%nat -> (0 < r < 6)%nat -> xi i + yr r != 0.
Proof.
move=> li /andP[r0 lr]; rewrite gf_add_eq0 /xi /yr.
case: ifP => r1; first by rewrite invr_eq0 pow2_neq0.
apply/eqP => e.
have h : two ^+ (i + r.-1) = two ^+ 0.
  by rewrite expr0 exprD -e mulfV ?pow2_neq0.
have lt : (i + r.-1 < 255)%nat.
  have lr' : (r.-1 <= 4)%nat by rewrite -ltnS prednK.
  by apply: leq_ltn_trans (_ : (i + 4 < 255)%nat); rewrite ?leq_add2l // -(ltn_add2r 4) in li *; apply: leq_trans li _.
have /eqP := @pow2_inj (i + r.-1) 0 lt isT h.
rewrite addn_eq0 => /andP[_ /eqP p0].
by case: r r0 r1 p0 {lr e h lt} => [|[|r]].
Qed.

Section Main.
Variable k : nat.
Variable rows : 'I_k -> 'I_6.
Variable cols : 'I_k -> 'I_251.
Variable c : 'I_k -> gf.
Hypothesis rows_inj : injective rows.
Hypothesis cols_inj : injective cols.
Hypothesis ker : forall a, \sum_(b < k) A (rows a) (cols b) * c b = 0.

Lemma y_inj : injective (fun b => xi (cols b)).
Proof. by move=> b1 b2 /xi_inj e; apply/cols_inj/val_inj/e. Qed.

Lemma row_bounds (a : 'I_k) : (rows a != 0%nat :> nat) -> (0 < rows a < 6)%nat.
Proof. by rewrite -lt0n ltn_ord andbT. Qed.

Lemma cauchy_row a : (rows a != 0%nat :> nat) -> \sum_(b < k) c b / (yr (rows a) + xi (cols b)) = 0.
Proof.
move=> ra; have rb := row_bounds ra.
have s0 : xi 0 + yr (rows a) != 0 by apply: xy_neq0.
apply: (mulfI s0); rewrite mulr0 -[RHS](ker a) mulr_sumr.
apply: eq_bigr => b _; rewrite /A (negbTE ra) [yr _ + _]addrC.
by rewrite [LHS]mulrA [LHS]mulrAC.
Qed.
End Main.

Theorem mds_kernel k (rows : 'I_k -> 'I_6) (cols : 'I_k -> 'I_251) (c : 'I_k -> gf) :
  injective rows -> injective cols ->
  (forall a, \sum_(b < k) A (rows a) (cols b) * c b = 0) -> forall b, c b = 0.
Proof.
move=> rinj cinj ker b.
have yinj := y_inj cinj.
have rb := @row_bounds _ rows.
have crow := cauchy_row ker.
case: (pickP (fun a => (rows a : nat) == 0%nat)) => [a0 ra0|none].
- (* the all-ones row is among the chosen rows *)
  case: k rows cols c rinj cinj ker yinj rb crow a0 ra0 b => [|m] rows cols c rinj cinj ker yinj rb crow a0 ra0 b; first by case: b.
  pose x (j : 'I_m) := yr (rows (lift a0 j)).
  have nz j : (rows (lift a0 j) != 0%nat :> nat).
    apply/eqP => e; have := rinj _ _ (val_inj (etrans e (esym (eqP ra0)))).
    by move/eqP; rewrite eq_sym (negbTE (neq_lift _ _)).
  apply: (@ExtCauchyK.c0 _ m x (fun b => xi (cols b)) c) => //.
  + move=> j1 j2 /yr_inj e; apply: (@lift_inj _ a0); apply: rinj; apply: val_inj.
    by apply: e; apply: rb.
  + by move=> i j; rewrite /x addrC; apply: xy_neq0 => //; apply: rb.
  + have := ker a0; rewrite (eq_bigr (fun b => c b)) // => b' _.
    by rewrite /A ra0 mul1r.
  + by move=> i; rewrite /x; apply: crow.
- (* only Cauchy rows *)
  have nz a : (rows a != 0%nat :> nat) by rewrite none.
  pose x (a : 'I_k) := yr (rows a).
  apply: (@CauchyK.c0 _ k x (fun b => xi (cols b)) c) => //.
  + move=> a1 a2 /yr_inj e; apply: rinj; apply: val_inj.
    by apply: e; apply: rb.
  + by move=> a b'; rewrite /x addrC; apply: xy_neq0 => //; apply: rb.
  + by move=> a; apply: crow.
Qed.

Check mds_kernel.
Print Assumptions mds_kernel.
