(* Every square sub-matrix of the 3 x 251 "power" generator
     P 0 i = 1,  P 1 i = 2^i,  P 2 i = 2^-i      over GF(2^8)
   (SnapRAID's alternate triple-parity mode) has trivial kernel.
   Also: left-kernel (transposed) versions for the power matrix and for the
   extended Cauchy matrix of Mds.v. *)
From mathcomp Require Import all_ssreflect all_algebra.
From Coq Require Import NArith.
From Snap.GF Require Import Gf GfField.
From Snap.Raid Require Import CauchyK ExtCauchyK Mds.
Set Implicit Arguments.
Unset Strict Implicit.
Unset Printing Implicit Defensive.
Import GRing.Theory.
Local Open Scope ring_scope.

(* ------------------------------------------------------------------ *)
(* Vandermonde kernel: distinct nodes y_b, exponents 0 .. k-1          *)
(* ------------------------------------------------------------------ *)
Section Vander.
Variable F : fieldType.
Variable k : nat.
Variables y d : 'I_k -> F.
Hypothesis yinj : injective y.
Hypothesis vker : forall e, (e < k)%nat -> \sum_(b < k) y b ^+ e * d b = 0.

Lemma vander_poly (p : {poly F}) :
  (size p <= k)%nat -> \sum_(b < k) p.[y b] * d b = 0.
Proof.
move=> sp.
rewrite (eq_bigr (fun b => \sum_(e < k) p`_e * (y b ^+ e * d b))); last first.
  move=> b _; rewrite (horner_coef_wide _ sp) mulr_suml.
  by apply: eq_bigr => e _; rewrite mulrA.
rewrite exchange_big /= big1 // => e _.
by rewrite -mulr_sumr vker ?mulr0.
Qed.

Definition vothers (j : 'I_k) := rem j (enum 'I_k).
Definition vL (j : 'I_k) : {poly F} := \prod_(l <- vothers j) ('X - (y l)%:P).

Lemma size_vL j : size (vL j) = k.
Proof.
rewrite /vL size_prod_XsubC /vothers size_rem ?mem_enum // size_enum_ord.
by case: k j => [[]|].
Qed.

Lemma vothersE j (f : 'I_k -> F) :
  \prod_(l <- vothers j) f l = \prod_(l < k | l != j) f l.
Proof.
rewrite /vothers rem_filter ?enum_uniq // big_filter.
rewrite big_mkcond /= [RHS]big_mkcond /=.
by rewrite /index_enum -enumT.
Qed.

Lemma horner_vL j t : (vL j).[t] = \prod_(l < k | l != j) (t - y l).
Proof.
rewrite /vL horner_prod vothersE.
by apply: eq_bigr => l _; rewrite hornerXsubC.
Qed.

Lemma vander_c0 j : d j = 0.
Proof.
have := @vander_poly (vL j); rewrite size_vL => /(_ (leqnn _)).
rewrite (bigD1 j) //= big1 ?addr0; last first.
  by move=> b bj; rewrite horner_vL (bigD1 b) //= subrr !mul0r.
move/eqP; rewrite mulf_eq0 => /orP[|/eqP //].
rewrite horner_vL => /prodf_eq0 [l lj]; rewrite subr_eq0 => /eqP /yinj e.
by rewrite e eqxx in lj.
Qed.
End Vander.

(* ------------------------------------------------------------------ *)
(* The power matrix                                                     *)
(* ------------------------------------------------------------------ *)
Definition P (r i : nat) : gf :=
  if r == 0%nat then 1 else if r == 1%nat then two ^+ i else (two ^+ i)^-1.

Lemma gf_sqr_inj (u v : gf) : u ^+ 2 = v ^+ 2 -> u = v.
Proof.
move/eqP; rewrite -subr_eq0 subr_sqr mulf_eq0 subr_eq0 ?gf_add_eq0 orbb.
by move/eqP.
Qed.

Definition r0 : 'I_3 := @Ordinal 3 0 isT.
Definition r1 : 'I_3 := @Ordinal 3 1 isT.
Definition r2 : 'I_3 := @Ordinal 3 2 isT.

Section Power.
Variable k : nat.
Variable rows : 'I_k -> 'I_3.
Variable cols : 'I_k -> 'I_251.
Variable c : 'I_k -> gf.
Hypothesis rows_inj : injective rows.
Hypothesis cols_inj : injective cols.
Hypothesis pker : forall a, \sum_(b < k) P (rows a) (cols b) * c b = 0.

Definition px (b : 'I_k) : gf := two ^+ (cols b).

Lemma px_inj : injective px.
Proof.
move=> b1 b2 e; apply/cols_inj/val_inj; apply: pow2_inj e.
- by apply: leq_trans (ltn_ord _) _.
- by apply: leq_trans (ltn_ord _) _.
Qed.

Lemma px_neq0 b : px b != 0.
Proof. exact: pow2_neq0. Qed.

Lemma pxV_inj : injective (fun b => (px b)^-1).
Proof. by move=> b1 b2 /invr_inj /px_inj. Qed.

Lemma pxV_neq0 b : (px b)^-1 != 0.
Proof. by rewrite invr_eq0 px_neq0. Qed.

Lemma px2_inj : injective (fun b => px b ^+ 2).
Proof. by move=> b1 b2 /gf_sqr_inj /px_inj. Qed.

Lemma pkerR (r : 'I_3) :
  r \in codom rows -> \sum_(b < k) P r (cols b) * c b = 0.
Proof. by case/codomP => a ->; apply: pker. Qed.

Lemma pcount :
  k = ((r0 \in codom rows) + (r1 \in codom rows) + (r2 \in codom rows))%nat.
Proof.
rewrite -[LHS](card_ord k) -(card_codom rows_inj) -sum1_card big_mkcond /=.
rewrite !big_ord_recl big_ord0 addn0.
have -> : lift ord0 (lift ord0 ord0) = r2 by apply: val_inj.
have -> : lift ord0 ord0 = r1 by apply: val_inj.
have -> : ord0 = r0 by apply: val_inj.
by do 3!case: (_ \in _).
Qed.

Lemma pfinish (y w : 'I_k -> gf) :
  injective y -> (forall b, w b != 0) ->
  (forall e, (e < k)%nat ->
     exists2 r : 'I_3, r \in codom rows & forall b, y b ^+ e * w b = P r (cols b)) ->
  forall b, c b = 0.
Proof.
move=> yinj wn0 H b.
have : w b * c b = 0.
  apply: (@vander_c0 _ k y (fun b => w b * c b) yinj) => e /H [r hr E].
  rewrite -[RHS](pkerR hr); apply: eq_bigr => b' _.
  by rewrite mulrA E.
by move/eqP; rewrite mulf_eq0 (negbTE (wn0 b)) /= => /eqP.
Qed.

Lemma P0E b : P r0 (cols b) = 1. Proof. by []. Qed.
Lemma P1E b : P r1 (cols b) = px b. Proof. by []. Qed.
Lemma P2E b : P r2 (cols b) = (px b)^-1. Proof. by []. Qed.

Lemma power_c0 : forall b, c b = 0.
Proof.
have := pcount.
case h0: (r0 \in codom rows); case h1: (r1 \in codom rows);
  case h2: (r2 \in codom rows) => /= ek.
- (* rows {0,1,2} : nodes x, weights x^-1, exponents 0,1,2 -> rows 2,0,1 *)
  apply: (@pfinish px (fun b => (px b)^-1) px_inj pxV_neq0) => e lt; rewrite ek in lt.
  case: e lt => [|[|[|e]]] // _.
  + by exists r2 => // b; rewrite P2E expr0 mul1r.
  + by exists r0 => // b; rewrite P0E expr1 mulfV ?px_neq0.
  + by exists r1 => // b; rewrite P1E expr2 -mulrA mulfV ?px_neq0 ?mulr1.
- (* rows {0,1} : nodes x, weights 1 *)
  apply: (@pfinish px (fun=> 1) px_inj (fun=> oner_neq0 _)) => e lt; rewrite ek in lt.
  case: e lt => [|[|e]] // _.
  + by exists r0 => // b; rewrite P0E expr0 mulr1.
  + by exists r1 => // b; rewrite P1E expr1 mulr1.
- (* rows {0,2} : nodes x^-1, weights 1 *)
  apply: (@pfinish (fun b => (px b)^-1) (fun=> 1) pxV_inj (fun=> oner_neq0 _)) => e lt; rewrite ek in lt.
  case: e lt => [|[|e]] // _.
  + by exists r0 => // b; rewrite P0E expr0 mulr1.
  + by exists r2 => // b; rewrite P2E expr1 mulr1.
- (* rows {0} *)
  apply: (@pfinish px (fun=> 1) px_inj (fun=> oner_neq0 _)) => e lt; rewrite ek in lt.
  case: e lt => [|e] // _.
  by exists r0 => // b; rewrite P0E expr0 mulr1.
- (* rows {1,2} : nodes x^2, weights x^-1, exponents 0,1 -> rows 2,1 *)
  apply: (@pfinish (fun b => px b ^+ 2) (fun b => (px b)^-1) px2_inj pxV_neq0) => e lt; rewrite ek in lt.
  case: e lt => [|[|e]] // _.
  + by exists r2 => // b; rewrite P2E expr0 mul1r.
  + by exists r1 => // b; rewrite P1E expr1 expr2 -mulrA mulfV ?px_neq0 ?mulr1.
- (* rows {1} *)
  apply: (@pfinish px px px_inj px_neq0) => e lt; rewrite ek in lt.
  case: e lt => [|e] // _.
  by exists r1 => // b; rewrite P1E expr0 mul1r.
- (* rows {2} *)
  apply: (@pfinish px (fun b => (px b)^-1) px_inj pxV_neq0) => e lt; rewrite ek in lt.
  case: e lt => [|e] // _.
  by exists r2 => // b; rewrite P2E expr0 mul1r.
- (* no rows: k = 0 *)
  by move=> b; have := leq_trans (ltn_ord b) (eq_leq ek).
Qed.
End Power.

Theorem mds_power_kernel k (rows : 'I_k -> 'I_3) (cols : 'I_k -> 'I_251) (c : 'I_k -> gf) :
  injective rows -> injective cols ->
  (forall a, \sum_(b < k) P (rows a) (cols b) * c b = 0) -> forall b, c b = 0.
Proof. by move=> rinj cinj ker; apply: (power_c0 rinj cinj ker). Qed.

(* ------------------------------------------------------------------ *)
(* square systems: trivial right kernel implies trivial left kernel     *)
(* ------------------------------------------------------------------ *)
Lemma left_of_right_kernel (F : fieldType) k (M : 'I_k -> 'I_k -> F) :
  (forall c : 'I_k -> F,
     (forall a, \sum_(b < k) M a b * c b = 0) -> forall b, c b = 0) ->
  forall c : 'I_k -> F,
     (forall b, \sum_(a < k) c a * M a b = 0) -> forall a, c a = 0.
Proof.
move=> rker c lker a.
pose MM : 'M[F]_k := \matrix_(i, j) M i j.
have kT : kermx MM^T == 0.
  apply/rowV0P => v /sub_kermxP vM.
  have v0 : forall b, v ord0 b = 0.
    apply: rker => i.
    have := congr1 (fun m : 'rV_k => m ord0 i) vM.
    rewrite /= !mxE => E; rewrite -[RHS]E; apply: eq_bigr => b _.
    by rewrite !mxE mulrC.
  by apply/matrixP => i j; rewrite ord1 v0 mxE.
have uM : MM \in unitmx.
  by rewrite -unitmx_tr -row_free_unit -kermx_eq0.
have kM : kermx MM == 0 by rewrite kermx_eq0 row_free_unit.
pose v : 'rV[F]_k := \row_i c i.
have vM : v *m MM = 0.
  apply/matrixP => i j; rewrite !mxE -[RHS](lker j).
  by apply: eq_bigr => l _; rewrite !mxE.
have : (v <= kermx MM)%MS by apply/sub_kermxP.
rewrite (eqP kM) submx0 => /eqP v0.
by have := congr1 (fun m : 'rV_k => m ord0 a) v0; rewrite /= !mxE.
Qed.

Theorem mds_power_left k (rows : 'I_k -> 'I_3) (cols : 'I_k -> 'I_251) (c : 'I_k -> gf) :
  injective rows -> injective cols ->
  (forall b, \sum_(a < k) c a * P (rows a) (cols b) = 0) -> forall a, c a = 0.
Proof.
move=> rinj cinj.
apply: (@left_of_right_kernel _ k (fun a b => P (rows a) (cols b))) => c'.
exact: mds_power_kernel.
Qed.

Theorem mds_cauchy_left k (rows : 'I_k -> 'I_6) (cols : 'I_k -> 'I_251) (c : 'I_k -> gf) :
  injective rows -> injective cols ->
  (forall b, \sum_(a < k) c a * A (rows a) (cols b) = 0) -> forall a, c a = 0.
Proof.
move=> rinj cinj.
apply: (@left_of_right_kernel _ k (fun a b => A (rows a) (cols b))) => c'.
exact: mds_kernel.
Qed.

Check mds_power_kernel.
Check mds_power_left.
Check mds_cauchy_left.
Print Assumptions mds_power_kernel.
Print Assumptions mds_power_left.
Print Assumptions mds_cauchy_left.
