(* Executable models of the recovery side of raid/: raid_invert, raid_delta_gen + raid_rec{1,2,X}_int8 with
   their fast paths raid_rec1of1 / raid_rec2of2_int8, raid_rec, raid_data, raid_validate/raid_check,
   combination_first/next + raid_scan, raid_sort / raid_insert.  Definitions only (extracted).
   As in GenModel.v everything is per column (one byte offset), because every routine treats byte offsets
   independently; matrices are functions nat -> nat -> N (row, column). *)
From Coq Require Import NArith List Bool Arith.
From Snap.Gen Require Import Tables.
From Snap.GF Require Import Gf.
From Snap.Raid Require Import GenModel.
Import ListNotations.
Local Open Scope N_scope.

Definition mxN := nat -> nat -> N.
Definition idN : mxN := fun i j => if Nat.eqb i j then 1 else 0.

(* raid_invert, one value of k: row k is scaled by inv(M[k][k]) (BUG_ON if it is 0), then every other row i
   gets  row_i ^= M[i][k] * row_k ; the same operations are applied to V *)
Definition step_withN (M X : mxN) (t : nat) : mxN :=
  let f := t_gfinv (M t t) in
  fun i j => if Nat.eqb i t then t_gfmul f (X t j)
             else N.lxor (X i j) (t_gfmul (M i t) (t_gfmul f (X t j))).

Fixpoint runN (ts : list nat) (MV : mxN * mxN) : option (mxN * mxN) :=
  match ts with
  | [] => Some MV
  | t :: ts' =>
      if fst MV t t =? 0 then None       (* BUG_ON(M[k * n + k] == 0) *)
      else runN ts' (step_withN (fst MV) (fst MV) t, step_withN (fst MV) (snd MV) t)
  end.

Definition invertN (G : mxN) (n : nat) : option mxN :=
  match runN (seq 0 n) (G, idN) with None => None | Some MV => Some (snd MV) end.

(* matrices <-> row-major lists, for the driver *)
Definition mx_of_list (n : nat) (l : list N) : mxN := fun i j => nth (i * n + j) l 0.
Definition list_of_mx (n : nat) (M : mxN) : list N :=
  flat_map (fun i => map (fun j => M i j) (seq 0 n)) (seq 0 n).

(* ------------------------------------------------------------------------------------------- *)
(* which generator raid_gen(nd, np, ...) dispatches to *)
Definition gen_of_np (m : rmode) (np : nat) : genfn :=
  match np with
  | 1%nat => G1 | 2%nat => G2
  | 3%nat => match m with Cauchy => GK 3 | Vandermonde => GZ end
  | n => GK n
  end.
Definition raid_gen_col (m : rmode) (np : nat) (col : list N) : list N := col_gen m (gen_of_np m np) col.

Definition set_nth {A} (k : nat) (x : A) (l : list A) : list A :=
  firstn k l ++ match skipn k l with [] => [] | _ :: t => x :: t end.
Fixpoint set_many {A} (ks : list nat) (xs : list A) (l : list A) : list A :=
  match ks, xs with k :: ks', x :: xs' => set_many ks' xs' (set_nth k x l) | _, _ => l end.
Definition zero_at (ks : list nat) (l : list N) : list N := set_many ks (repeat 0 (length ks)) l.

(* raid_delta_gen: the failed data blocks are replaced by the zero block, parity 0..ip[nr-1] is generated,
   and the value generated for level ip[j] ends up in the buffer of failed disk id[j] *)
Definition delta_col (m : rmode) (id ip : list nat) (col : list N) : list N :=
  let np := S (last ip 0%nat) in
  let g := raid_gen_col m np (zero_at id col) in
  map (fun p => nth p g 0) ip.

(* A(p, d) of gf.h *)
Definition coefA (m : rmode) (p d : nat) : N := t_gfgen m (N.of_nat p) (N.of_nat d).

(* raid_recX_int8 (and, for nr = 1, 2 without the fast paths, raid_rec1_int8 / raid_rec2_int8) *)
Definition recX_col (m : rmode) (id ip : list nat) (col : list N) (par : list N) : option (list N) :=
  let nr := length id in
  let G : mxN := fun j k => coefA m (nth j ip 0%nat) (nth k id 0%nat) in
  match invertN G nr with
  | None => None
  | Some V =>
      let delta := delta_col m id ip col in
      let PD := map (fun j => N.lxor (nth (nth j ip 0%nat) par 0) (nth j delta 0)) (seq 0 nr) in
      Some (map (fun j => fold_left N.lxor (map (fun k => t_gfmul (V j k) (nth k PD 0)) (seq 0 nr)) 0) (seq 0 nr))
  end.

(* raid_rec1of1: P and the failed block swap places and gen1 is run *)
Definition rec1of1_col (id0 : nat) (col : list N) (par : list N) : list N :=
  col_gen1 (set_nth id0 (nth 0 par 0) col).

(* raid_rec2of2_int8 *)
Definition rec2of2_col (m : rmode) (id : list nat) (col : list N) (par : list N) : option (list N) :=
  let x := nth 0 id 0%nat in let y := nth 1 id 0%nat in
  (* pow2() BUG_ONs outside 0..254, inv() BUG_ONs on 0 *)
  if (254 <? y - x)%nat || (254 <? y)%nat then None else
  let a := N.lxor (t_gfexp (N.of_nat (y - x))) 1 in
  let b := N.lxor (t_gfexp (N.of_nat x)) (t_gfexp (N.of_nat y)) in
  if (a =? 0) || (b =? 0) then None else
  let T0 := t_gfinv a in let T1 := t_gfinv b in
  let delta := delta_col m id [0; 1]%nat col in
  let Pd := N.lxor (nth 0 par 0) (nth 0 delta 0) in
  let Qd := N.lxor (nth 1 par 0) (nth 1 delta 0) in
  let Dy := N.lxor (t_gfmul T0 Pd) (t_gfmul T1 Qd) in
  let Dx := N.lxor Pd Dy in
  Some [Dx; Dy].

(* raid_rec_ptr[nr-1] of the int8 family *)
Definition rec_data_col (m : rmode) (id ip : list nat) (col : list N) (par : list N) : option (list N) :=
  match id, ip with
  | [i0], [0%nat] => Some (rec1of1_col i0 col par)
  | [_; _], [0%nat; 1%nat] => rec2of2_col m id col par
  | _, _ => recX_col m id ip col par
  end.

Fixpoint sorted_lt (l : list nat) : bool :=
  match l with
  | a :: ((b :: _) as t) => (a <? b)%nat && sorted_lt t
  | _ => true
  end.

(* raid_data: argument checks (BUG_ON -> None), then the decoder; returns the new data column *)
Definition raid_data_col (m : rmode) (nd : nat) (id ip : list nat) (col : list N) (par : list N) : option (list N) :=
  let nr := length id in
  if negb (nr <=? nd)%nat || negb (nr <=? 6)%nat || negb (sorted_lt id) || negb (sorted_lt ip)
     || negb (Nat.eqb (length ip) nr) then None
  else if (0 <? nr)%nat && negb (last id 0%nat <? nd)%nat then None
  else match nr with
       | O => Some col
       | _ => match rec_data_col m id ip col par with
              | None => None
              | Some rec => Some (set_many id rec col)
              end
       end.

(* raid_rec: ir mixes data (< nd) and parity (>= nd) indexes; the parities used are the first nrd ones
   that are not listed as failed; afterwards parity 0..(last failed) is regenerated *)
Definition raid_rec_col (m : rmode) (nd np : nat) (ir : list nat) (col : list N) (par : list N)
  : option (list N * list N) :=
  let nr := length ir in
  if negb (nr <=? np)%nat || negb (np <=? 6)%nat || negb (sorted_lt ir) then None
  else if (0 <? nr)%nat && negb (last ir 0%nat <? nd + np)%nat then None
  else
    let id := filter (fun i => (i <? nd)%nat) ir in
    let fp := map (fun i => (i - nd)%nat) (filter (fun i => negb (i <? nd)%nat) ir) in
    let nrd := length id in
    let ip := firstn nrd (filter (fun p => negb (existsb (Nat.eqb p) fp)) (seq 0 np)) in
    let col' := match nrd with
                | O => Some col
                | _ => match rec_data_col m id ip col par with
                       | None => None
                       | Some rec => Some (set_many id rec col)
                       end
                end in
    match col' with
    | None => None
    | Some c =>
        match fp with
        | [] => Some (c, par)
        | _ => let k := S (last fp 0%nat) in
               let g := raid_gen_col m k c in
               Some (c, g ++ skipn k par)
        end
    end.

(* ------------------------------------------------------------------------------------------- *)
(* raid_validate / raid_check for one column: 0 = consistent *)
Definition validate_col (m : rmode) (id : list nat) (ipv : list nat) (col : list N) (par : list N) : option bool :=
  let nr := length id in let nv := length ipv in
  if negb (nr <? nv)%nat then None else
  let G : mxN := fun j k => coefA m (nth j ipv 0%nat) (nth k id 0%nat) in
  match invertN G nr with
  | None => None
  | Some V =>
      (* p[l] = parity ^ sum over the good data *)
      let p0 := map (fun l => fold_left N.lxor
                      (map (fun jb => if existsb (Nat.eqb (fst jb)) id then 0
                                      else t_gfmul (snd jb) (coefA m (nth l ipv 0%nat) (fst jb))) (indexed col))
                      (nth (nth l ipv 0%nat) par 0)) (seq 0 nv) in
      (* reconstruct the failed data from the first nr and fold them into the remaining ones *)
      let rec := map (fun j => fold_left N.lxor (map (fun k => t_gfmul (V j k) (nth k p0 0)) (seq 0 nr)) 0) (seq 0 nr) in
      let rest := map (fun l => fold_left N.lxor
                      (map (fun j => t_gfmul (nth j rec 0) (coefA m (nth l ipv 0%nat) (nth j id 0%nat))) (seq 0 nr))
                      (nth l p0 0)) (seq nr (nv - nr)) in
      Some (forallb (fun x => x =? 0) rest)
  end.

Definition raid_check_col (m : rmode) (nd np : nat) (ir : list nat) (col : list N) (par : list N) : option bool :=
  let nr := length ir in
  if negb (nr <? np)%nat || negb (np <=? 6)%nat || negb (sorted_lt ir) then None
  else if (0 <? nr)%nat && negb (last ir 0%nat <? nd + np)%nat then None
  else
    let id := filter (fun i => (i <? nd)%nat) ir in
    let fp := map (fun i => (i - nd)%nat) (filter (fun i => negb (i <? nd)%nat) ir) in
    let ipv := filter (fun p => negb (existsb (Nat.eqb p) fp)) (seq 0 np) in
    validate_col m id ipv col par.

(* a block-level check is the conjunction over the columns *)

(* ------------------------------------------------------------------------------------------- *)
(* combination_first / combination_next (combo.h): the goto loop, by fuel *)
Fixpoint comb_bump (fuel : nat) (i : nat) (h : nat) (c : list nat) : option (nat * list nat) :=
  (* ++c[i]; if (c[i] >= h) { if (i == 0) return 0; --i; --h; goto recurse; } *)
  match fuel with
  | O => None
  | S f =>
      let ci := S (nth i c 0%nat) in
      let c' := set_nth i ci c in
      if (h <=? ci)%nat then
        match i with O => None | S i' => comb_bump f i' (h - 1) c' end
      else Some (i, c')
  end.
Fixpoint comb_fill (k : nat) (i : nat) (c : list nat) : list nat :=
  (* ++i; while (i < r) { c[i] = c[i-1] + 1; ++i; } *)
  match k with O => c | S k' => comb_fill k' (S i) (set_nth i (S (nth (i - 1) c 0%nat)) c) end.
Definition comb_next (r n : nat) (c : list nat) : option (list nat) :=
  match comb_bump (S r) (r - 1) n c with
  | None => None
  | Some (i, c') => Some (comb_fill (r - S i) (S i) c')
  end.
Definition comb_first (r : nat) : list nat := seq 0 r.
Fixpoint comb_all (fuel : nat) (r n : nat) (c : list nat) : list (list nat) :=
  match fuel with
  | O => [c]
  | S f => c :: match comb_next r n c with None => [] | Some c' => comb_all f r n c' end
  end.

(* raid_sort (sorting networks of helper.c) and raid_insert *)
Definition cswap (a b : nat) (v : list nat) : list nat :=
  let x := nth a v 0%nat in let y := nth b v 0%nat in
  if (y <? x)%nat then set_nth a y (set_nth b x v) else v.
Definition net (n : nat) : list (nat * nat) :=
  match n with
  | 2 => [(0,1)]
  | 3 => [(0,2);(0,1);(1,2)]
  | 4 => [(0,2);(1,3);(0,1);(2,3);(1,2)]
  | 5 => [(0,4);(0,2);(1,3);(2,4);(0,1);(2,3);(1,4);(1,2);(3,4)]
  | 6 => [(0,4);(1,5);(0,2);(1,3);(2,4);(3,5);(0,1);(2,3);(4,5);(1,4);(1,2);(3,4)]
  | _ => []
  end%nat.
Definition raid_sort_model (v : list nat) : list nat :=
  fold_left (fun v ab => cswap (fst ab) (snd ab) v) (net (length v)) v.
Fixpoint ins_rev (x : nat) (rv : list nat) : list nat :=
  match rv with
  | [] => [x]
  | a :: t => if (x <? a)%nat then a :: ins_rev x t else x :: a :: t
  end.
(* raid_insert: v[n] = x, then bubble towards the front while v[n-1] > v[n] *)
Definition raid_insert_model (v : list nat) (x : nat) : list nat := rev (ins_rev x (rev v)).

(* ------------------------------------------------------------------------------------------- *)
(* block level: bufs = nd data blocks followed by np parity blocks, all of `size` bytes *)
Fixpoint sequence {A} (l : list (option A)) : option (list A) :=
  match l with
  | [] => Some []
  | None :: _ => None
  | Some x :: t => match sequence t with None => None | Some r => Some (x :: r) end
  end.
Definition transpose (n : nat) (cols : list (list N)) : list block :=
  map (fun j => map (fun r => nth j r 0) cols) (seq 0 n).

Definition raid_rec_blocks (m : rmode) (nd np : nat) (ir : list nat) (size : nat) (bufs : list block)
  : option (list block) :=
  let data := firstn nd bufs in let par := skipn nd bufs in
  match sequence (map (fun c => match raid_rec_col m nd np ir (column data c) (column par c) with
                                | None => None | Some (d, p) => Some (d ++ p) end) (seq 0 size)) with
  | None => None
  | Some cols => Some (transpose (nd + np) cols)
  end.

Definition raid_data_blocks (m : rmode) (nd np : nat) (id ip : list nat) (size : nat) (bufs : list block)
  : option (list block) :=
  let data := firstn nd bufs in let par := skipn nd bufs in
  match sequence (map (fun c => raid_data_col m nd id ip (column data c) (column par c)) (seq 0 size)) with
  | None => None
  | Some cols => Some (transpose nd cols ++ par)
  end.

(* raid_check: 0 (true) iff every column validates *)
Definition raid_check_blocks (m : rmode) (nd np : nat) (ir : list nat) (size : nat) (bufs : list block)
  : option bool :=
  let data := firstn nd bufs in let par := skipn nd bufs in
  match sequence (map (fun c => raid_check_col m nd np ir (column data c) (column par c)) (seq 0 size)) with
  | None => None
  | Some bs => Some (forallb (fun b => b) bs)
  end.

(* raid_scan: least r < np with a consistent failure set, in combination order; None = -1 *)
Fixpoint first_ok (f : list nat -> bool) (l : list (list nat)) : option (list nat) :=
  match l with [] => None | c :: t => if f c then Some c else first_ok f t end.
Fixpoint binom (n k : nat) : nat :=
  match n, k with
  | _, O => 1%nat
  | O, S _ => 0%nat
  | S n', S k' => (binom n' k' + binom n' k)%nat
  end.
Definition raid_scan_blocks (m : rmode) (nd np : nat) (size : nat) (bufs : list block) : option (list nat) :=
  let ok ir := match raid_check_blocks m nd np ir size bufs with Some true => true | _ => false end in
  if (0 <? np)%nat && ok [] then Some [] else
  let fix go (rs : list nat) : option (list nat) :=
    match rs with
    | [] => None
    | r :: rs' => match first_ok ok (comb_all (binom (nd + np) r) r (nd + np) (comb_first r)) with
                  | Some c => Some c
                  | None => go rs'
                  end
    end in
  go (seq 1 (np - 1)).
