(* Correctness of the recovery models of RecModel.v: raid_rec{1,2,X}_int8 with the fast paths
   raid_rec1of1 / raid_rec2of2_int8, raid_data and raid_rec, per column.  Stdlib style. *)
From Coq Require Import NArith List Bool Lia Arith.
From Snap.Gen Require Import Tables.
From Snap.GF Require Import Gf TablesOk.
From Snap.Raid Require Import GenModel GenProofs RecModel Xsum.
From Snap.Raid Require Bridge InvertProofs.
Import ListNotations.
Local Open Scope N_scope.

(* ------------------------------------------------------------------------------------------- *)
(* lists *)
Lemma set_nth_nil {A} k (x : A) : set_nth k x [] = [].
Proof. unfold set_nth. rewrite firstn_nil, skipn_nil. reflexivity. Qed.
Lemma set_nth_0 {A} (x a : A) l : set_nth 0 x (a :: l) = x :: l.
Proof. reflexivity. Qed.
Lemma set_nth_S {A} k (x a : A) l : set_nth (S k) x (a :: l) = a :: set_nth k x l.
Proof. reflexivity. Qed.

Lemma set_nth_length {A} k (x : A) l : length (set_nth k x l) = length l.
Proof.
  revert l. induction k as [|k IH]; intros [|a l]; rewrite ?set_nth_nil, ?set_nth_0, ?set_nth_S; cbn [length]; auto.
Qed.

Lemma nth_set_nth {A} k (x : A) l i d :
  nth i (set_nth k x l) d = if (Nat.eqb i k && (k <? length l)%nat)%bool then x else nth i l d.
Proof.
  revert l i. induction k as [|k IH]; intros [|a l] i; rewrite ?set_nth_nil, ?set_nth_0, ?set_nth_S.
  - rewrite andb_false_r. reflexivity.
  - destruct i; reflexivity.
  - rewrite andb_false_r. reflexivity.
  - destruct i as [|i]; [reflexivity|]. cbn [nth length]. rewrite IH. reflexivity.
Qed.

Lemma nth_set_nth0 k l i : nth i (set_nth k 0 l) 0 = if Nat.eqb i k then 0 else nth i l 0.
Proof.
  rewrite nth_set_nth. destruct (Nat.eqb_spec i k) as [->|]; [|reflexivity].
  destruct (Nat.ltb_spec k (length l)); [reflexivity|]. cbn [andb]. apply nth_overflow. lia.
Qed.

Lemma zero_at_cons k ks l : zero_at (k :: ks) l = zero_at ks (set_nth k 0 l).
Proof. reflexivity. Qed.

Lemma zero_at_length ks l : length (zero_at ks l) = length l.
Proof.
  revert l. induction ks as [|k ks IH]; intros l; [reflexivity|].
  rewrite zero_at_cons, IH. apply set_nth_length.
Qed.

Lemma nth_zero_at ks l i : nth i (zero_at ks l) 0 = if existsb (Nat.eqb i) ks then 0 else nth i l 0.
Proof.
  revert l. induction ks as [|k ks IH]; intros l; [reflexivity|].
  rewrite zero_at_cons, IH, nth_set_nth0. cbn [existsb].
  destruct (Nat.eqb i k), (existsb (Nat.eqb i) ks); reflexivity.
Qed.

Lemma bytes_zero_at ks l : bytes l -> bytes (zero_at ks l).
Proof.
  intros H. apply bytes_of_nth. intros i _. rewrite nth_zero_at.
  destruct (existsb _ _); [lia|apply bytes_nth; exact H].
Qed.

Lemma existsb_eqb_In i l : existsb (Nat.eqb i) l = true <-> In i l.
Proof.
  rewrite existsb_exists. split.
  - intros [x [Hx E]]. apply Nat.eqb_eq in E. subst. exact Hx.
  - intros H. exists i. split; [exact H|apply Nat.eqb_refl].
Qed.

Lemma existsb_eqb_In' i l : existsb (Nat.eqb i) l = false <-> ~ In i l.
Proof. rewrite <- existsb_eqb_In. destruct (existsb _ _); split; intros; congruence. Qed.

Lemma set_many_cons {A} k ks (x : A) xs l : set_many (k :: ks) (x :: xs) l = set_many ks xs (set_nth k x l).
Proof. reflexivity. Qed.

Lemma set_many_orig id orig col :
  length col = length orig -> (forall d, In d id -> (d < length orig)%nat) ->
  (forall d, ~ In d id -> nth d col 0 = nth d orig 0) ->
  set_many id (map (fun d => nth d orig 0) id) col = orig.
Proof.
  revert col. induction id as [|a id IH]; intros col Hl Hb Ha.
  - cbn [map set_many]. apply nth_ext with (d := 0) (d' := 0); [exact Hl|]. intros n _. apply Ha. intros [].
  - cbn [map]. rewrite set_many_cons. apply IH.
    + rewrite set_nth_length. exact Hl.
    + intros d Hd. apply Hb. right. exact Hd.
    + intros d Hd. rewrite nth_set_nth. destruct (Nat.eqb_spec d a) as [->|Hda].
      * assert (Hlt : (a < length col)%nat) by (rewrite Hl; apply Hb; left; reflexivity).
        apply Nat.ltb_lt in Hlt. rewrite Hlt. reflexivity.
      * cbn [andb]. apply Ha. intros [E|E]; [congruence|contradiction].
Qed.

Lemma list_as_map_nth {A} (l : list A) d : l = map (fun j => nth j l d) (seq 0 (length l)).
Proof.
  apply nth_ext with (d := d) (d' := d); [rewrite map_length, seq_length; reflexivity|].
  intros n Hn. rewrite (nth_map_seq (fun j => nth j l d)) by exact Hn. reflexivity.
Qed.

Lemma nth_map_lt {A B} (f : A -> B) l j d d' : (j < length l)%nat -> nth j (map f l) d = f (nth j l d').
Proof.
  intros H. rewrite nth_indep with (d' := f d') by (rewrite map_length; exact H). apply map_nth.
Qed.

Lemma nth_skipn_add {A} k (l : list A) i d : nth i (skipn k l) d = nth (k + i) l d.
Proof.
  revert l. induction k as [|k IH]; intros l; [reflexivity|].
  destruct l as [|a l]; [destruct i; reflexivity|]. cbn [skipn Nat.add nth]. apply IH.
Qed.

Lemma sorted_lt_ge_index l i : sorted_lt l = true -> (i < length l)%nat -> (i <= nth i l 0%nat)%nat.
Proof.
  intros H. induction i as [|i IH]; intros Hi; [lia|].
  assert (nth i l 0 < nth (S i) l 0)%nat by (apply sorted_lt_nth; [exact H|lia|exact Hi]).
  specialize (IH ltac:(lia)). lia.
Qed.

Lemma sorted_lt_length_bound l n : sorted_lt l = true -> (forall a, In a l -> (a < n)%nat) -> (length l <= n)%nat.
Proof.
  intros H Hb. destruct (length l) as [|k] eqn:E; [lia|].
  assert (Hk : (k < length l)%nat) by lia.
  pose proof (sorted_lt_ge_index l k H Hk). specialize (Hb (nth k l 0%nat) (nth_In _ _ Hk)). lia.
Qed.

(* ------------------------------------------------------------------------------------------- *)
(* rows 0 and 1 of the two matrices; what raid_gen computes *)
Lemma mat_row0 m i : matN m 0 i = 1.
Proof. destruct m; reflexivity. Qed.
Lemma mat_row1 m i : (i < 255)%nat -> matN m 1 i = pow2N i.
Proof. intros H. destruct m; [apply cauchy_row1; exact H|reflexivity]. Qed.

Lemma rows_of_le6 m : (rows_of m <= 6)%nat.
Proof. destruct m; cbn; lia. Qed.
Lemma rows_of_ge3 m : (3 <= rows_of m)%nat.
Proof. destruct m; cbn; lia. Qed.

Lemma spec_col_cauchy_power p col : (p < 2)%nat -> (length col <= 251)%nat ->
  spec_col cauchyN p col = spec_col powerN p col.
Proof.
  intros Hp Hl. rewrite !spec_col_from. apply spec_from_ext. intros i Hi.
  destruct p as [|[|p]]; [reflexivity| |lia]. rewrite cauchy_row1 by lia. reflexivity.
Qed.

Lemma raid_gen_col_spec m np col :
  (1 <= np <= rows_of m)%nat -> col <> [] -> (length col <= 251)%nat -> bytes col ->
  raid_gen_col m np col = map (fun p => spec_col (matN m) p col) (seq 0 np).
Proof.
  intros Hnp Hn Hl Hb. unfold raid_gen_col.
  assert (Hadm : gen_admissible m (gen_of_np m np)).
  { destruct np as [|[|[|[|np]]]]; cbn; try exact I; destruct m; cbn; try exact I; cbn in Hnp; lia. }
  rewrite col_gen_correct by assumption.
  destruct np as [|[|[|[|np]]]]; [lia| | | |].
  - cbn [gen_of_np gen_np gen_mat]. apply map_ext_in. intros p Hp. apply in_seq in Hp.
    destruct m; [reflexivity|]. apply spec_col_cauchy_power; [lia|exact Hl].
  - cbn [gen_of_np gen_np gen_mat]. apply map_ext_in. intros p Hp. apply in_seq in Hp.
    destruct m; [reflexivity|]. apply spec_col_cauchy_power; [lia|exact Hl].
  - destruct m; reflexivity.
  - destruct m; [reflexivity|cbn in Hnp; lia].
Qed.

Lemma nth_raid_gen_col m np col p :
  (p < np)%nat -> (np <= rows_of m)%nat -> col <> [] -> (length col <= 251)%nat -> bytes col ->
  nth p (raid_gen_col m np col) 0 = spec_col (matN m) p col.
Proof.
  intros Hp Hnp Hn Hl Hb. rewrite raid_gen_col_spec by (assumption || lia).
  rewrite (nth_map_seq (fun p => spec_col (matN m) p col)) by exact Hp. reflexivity.
Qed.

(* ------------------------------------------------------------------------------------------- *)
(* sums over the failed positions *)
Lemma xsumN_select n id (h : nat -> N) :
  NoDup id -> (forall d, In d id -> (d < n)%nat) ->
  xsumN n (fun i => if existsb (Nat.eqb i) id then h i else 0) = xsumN (length id) (fun k => h (nth k id 0%nat)).
Proof.
  induction id as [|a id IH]; intros Hnd Hb.
  - cbn [existsb length]. rewrite xsumN_0n. apply xsumN_zero. reflexivity.
  - inversion Hnd as [|? ? Ha Hnd']; subst. cbn [length]. rewrite xsumN_S_l. cbn [nth].
    rewrite <- IH by (try assumption; intros; apply Hb; right; assumption).
    rewrite <- (xsumN_delta n a h) by (apply Hb; left; reflexivity).
    rewrite <- xsumN_lxor. apply xsumN_ext. intros i _. cbn [existsb].
    destruct (Nat.eqb_spec i a) as [->|Hia]; cbn [orb].
    + apply existsb_eqb_In' in Ha. rewrite Ha. rewrite N.lxor_0_r. reflexivity.
    + rewrite N.lxor_0_l. reflexivity.
Qed.

Definition good (m : rmode) (orig col : list N) (id : list nat) : Prop :=
  bytes orig /\ bytes col /\ length col = length orig /\ (forall d, ~ In d id -> nth d col 0 = nth d orig 0).

Lemma spec_diff m p orig col id :
  good m orig col id -> NoDup id -> (forall d, In d id -> (d < length orig)%nat) ->
  (p < 6)%nat -> (length orig <= 251)%nat ->
  N.lxor (spec_col (matN m) p orig) (spec_col (matN m) p (zero_at id col))
  = xsumN (length id) (fun k => gmul (matN m p (nth k id 0%nat)) (nth (nth k id 0%nat) orig 0)).
Proof.
  intros [Ho [Hc [Hl Hag]]] Hnd Hb Hp Hnd251.
  rewrite !spec_col_xsumN, zero_at_length, Hl, <- xsumN_lxor.
  rewrite <- (xsumN_select (length orig) id (fun i => gmul (matN m p i) (nth i orig 0))) by assumption.
  apply xsumN_ext. intros i Hi. rewrite nth_zero_at.
  destruct (existsb (Nat.eqb i) id) eqn:E.
  - rewrite gmul_0_r by (apply matN_range; lia). apply N.lxor_0_r.
  - apply existsb_eqb_In' in E. rewrite (Hag i E). apply N.lxor_nilpotent.
Qed.

(* the hypotheses shared by all the decoders *)
Definition rec_hyps (m : rmode) (id ip : list nat) (orig col par : list N) : Prop :=
  good m orig col id /\ (1 <= length id)%nat /\ (length orig <= 251)%nat /\
  sorted_lt id = true /\ sorted_lt ip = true /\ length ip = length id /\
  (forall d, In d id -> (d < length orig)%nat) /\
  (forall p, In p ip -> (p < rows_of m)%nat /\ nth p par 0 = spec_col (matN m) p orig).

Lemma rec_hyps_col m id ip orig col par : rec_hyps m id ip orig col par ->
  zero_at id col <> [] /\ (length (zero_at id col) <= 251)%nat /\ bytes (zero_at id col).
Proof.
  intros [[Ho [Hc [Hl Hag]]] [H1 [H251 [Hsid [Hsip [Hlip [Hbid Hpar]]]]]]].
  assert (Hlen : length (zero_at id col) = length orig) by (rewrite zero_at_length; exact Hl).
  split; [|split].
  - intros E. rewrite E in Hlen. cbn [length] in Hlen.
    destruct id as [|a id]; [cbn [length] in H1; lia|]. specialize (Hbid a (or_introl eq_refl)). lia.
  - lia.
  - apply bytes_zero_at. exact Hc.
Qed.

Lemma nth_delta_col m id ip orig col par j : rec_hyps m id ip orig col par -> (j < length ip)%nat ->
  nth j (delta_col m id ip col) 0 = spec_col (matN m) (nth j ip 0%nat) (zero_at id col).
Proof.
  intros H Hj. destruct (rec_hyps_col _ _ _ _ _ _ H) as [Hne [Hle Hbz]].
  destruct H as [_ [H1 [H251 [Hsid [Hsip [Hlip [Hbid Hpar]]]]]]].
  unfold delta_col. rewrite (nth_map_lt _ ip j 0 0%nat) by exact Hj.
  assert (Hin : In (nth j ip 0%nat) ip) by (apply nth_In; exact Hj).
  assert (Hlast : In (last ip 0%nat) ip) by (apply last_In; intros E; rewrite E in Hj; cbn [length] in Hj; lia).
  apply nth_raid_gen_col; try assumption.
  - pose proof (sorted_lt_last ip _ Hsip Hin). lia.
  - destruct (Hpar _ Hlast) as [Hr _]. lia.
Qed.

Lemma pd_formula m id ip orig col par j : rec_hyps m id ip orig col par -> (j < length ip)%nat ->
  N.lxor (nth (nth j ip 0%nat) par 0) (nth j (delta_col m id ip col) 0)
  = xsumN (length id) (fun k => gmul (matN m (nth j ip 0%nat) (nth k id 0%nat)) (nth (nth k id 0%nat) orig 0)).
Proof.
  intros H Hj. rewrite (nth_delta_col m id ip orig col par j H Hj).
  destruct H as [Hg [H1 [H251 [Hsid [Hsip [Hlip [Hbid Hpar]]]]]]].
  assert (Hin : In (nth j ip 0%nat) ip) by (apply nth_In; exact Hj).
  destruct (Hpar _ Hin) as [Hr ->].
  apply spec_diff; try assumption.
  - apply sorted_lt_NoDup. exact Hsid.
  - pose proof (rows_of_le6 m). lia.
Qed.

(* V * (G * D) = D when V * G = identity *)
Lemma solve_system n (V G : mxN) (D : nat -> N) j :
  (forall i k, (i < n)%nat -> (k < n)%nat -> V i k < 256) ->
  (forall i k, (i < n)%nat -> (k < n)%nat -> G i k < 256) ->
  (forall k, (k < n)%nat -> D k < 256) ->
  (forall i k, (i < n)%nat -> (k < n)%nat -> xsumN n (fun l => gmul (V i l) (G l k)) = idN i k) ->
  (j < n)%nat ->
  xsumN n (fun k => gmul (V j k) (xsumN n (fun l => gmul (G k l) (D l)))) = D j.
Proof.
  intros bV bG bD sV Hj.
  rewrite (xsumN_ext n _ (fun k => xsumN n (fun l => gmul (gmul (V j k) (G k l)) (D l)))).
  2:{ intros k Hk. rewrite xsumN_gmul_r; [|apply bV; assumption|intros l Hl; apply gmul_range; [apply bG|apply bD]; assumption].
      apply xsumN_ext. intros l Hl. apply gmul_assoc; [apply bV|apply bG|apply bD]; assumption. }
  rewrite (xsumN_exchange n n (fun k l => gmul (gmul (V j k) (G k l)) (D l))).
  rewrite (xsumN_ext n _ (fun l => if Nat.eqb l j then D l else 0)).
  2:{ intros l Hl. rewrite <- xsumN_gmul_l; [|apply bD; assumption|intros k Hk; apply gmul_range; [apply bV|apply bG]; assumption].
      rewrite sV by assumption. unfold idN. rewrite (Nat.eqb_sym l j).
      destruct (Nat.eqb j l); [apply gmul_1_l|apply gmul_0_l]; apply bD; assumption. }
  apply xsumN_delta. exact Hj.
Qed.

(* ------------------------------------------------------------------------------------------- *)
(* raid_recX_int8 *)
Lemma recX_col_hyps m id ip orig col par : rec_hyps m id ip orig col par ->
  recX_col m id ip col par = Some (map (fun d => nth d orig 0) id).
Proof.
  intros H. pose proof H as [Hg [H1 [H251 [Hsid [Hsip [Hlip [Hbid Hpar]]]]]]].
  assert (Hid251 : forall d, In d id -> (d < 251)%nat) by (intros d Hd; specialize (Hbid d Hd); lia).
  assert (Hipr : forall p, In p ip -> (p < rows_of m)%nat) by (intros p Hp; apply (Hpar p Hp)).
  pose proof (@InvertProofs.invertN_ok m id ip (length id) Hsid Hsip eq_refl Hlip Hid251 Hipr) as HV.
  cbv zeta in HV. destruct HV as [V [EV [bV sV]]].
  unfold recX_col. cbv zeta. rewrite EV. f_equal.
  replace (map (fun d => nth d orig 0) id) with (map (fun j => nth (nth j id 0%nat) orig 0) (seq 0 (length id)))
    by (rewrite <- (map_map (fun j => nth j id 0%nat) (fun d => nth d orig 0)), <- list_as_map_nth; reflexivity).
  apply map_ext_in. intros j Hj. apply in_seq in Hj.
  assert (Hjn : (j < length id)%nat) by lia.
  rewrite fold_left_xsumN.
  pose (D := fun k => nth (nth k id 0%nat) orig 0).
  assert (bD : forall k, (k < length id)%nat -> D k < 256) by (intros k _; apply bytes_nth; apply Hg).
  assert (bG : forall i k, (i < length id)%nat -> (k < length id)%nat -> coefA m (nth i ip 0%nat) (nth k id 0%nat) < 256).
  { intros i k Hi Hk. apply coefA_range; [apply Hipr; apply nth_In; lia|apply Hid251; apply nth_In; lia]. }
  change (nth (nth j id 0%nat) orig 0) with (D j).
  rewrite <- (solve_system (length id) V (fun j k => coefA m (nth j ip 0%nat) (nth k id 0%nat)) D j bV bG bD sV Hjn).
  apply xsumN_ext. intros k Hk.
  rewrite (nth_map_seq (fun j => N.lxor (nth (nth j ip 0%nat) par 0) (nth j (delta_col m id ip col) 0))) by exact Hk.
  cbn [Nat.add]. rewrite (pd_formula m id ip orig col par k H) by lia.
  assert (E : xsumN (length id) (fun k0 => gmul (matN m (nth k ip 0%nat) (nth k0 id 0%nat)) (nth (nth k0 id 0%nat) orig 0))
            = xsumN (length id) (fun l => gmul (coefA m (nth k ip 0%nat) (nth l id 0%nat)) (D l))).
  { apply xsumN_ext. intros l Hl. rewrite coefA_matN; [reflexivity|apply Hipr; apply nth_In; lia|apply Hid251; apply nth_In; lia]. }
  rewrite E. apply t_gfmul_ok; [apply bV; assumption|].
  apply xsumN_range. intros l Hl. apply gmul_range; [apply bG; assumption|apply bD; assumption].
Qed.

Theorem recX_col_correct m id ip orig col par :
  good m orig col id -> (1 <= length id)%nat -> (length orig <= 251)%nat ->
  sorted_lt id = true -> sorted_lt ip = true -> length ip = length id ->
  (forall d, In d id -> (d < length orig)%nat) ->
  (forall p, In p ip -> (p < rows_of m)%nat /\ nth p par 0 = spec_col (matN m) p orig) ->
  recX_col m id ip col par = Some (map (fun d => nth d orig 0) id).
Proof. intros. apply recX_col_hyps. unfold rec_hyps. tauto. Qed.

(* ------------------------------------------------------------------------------------------- *)
(* the fast paths *)
Lemma spec_col_range m p col : (p < 6)%nat -> (length col <= 251)%nat -> bytes col -> spec_col (matN m) p col < 256.
Proof.
  intros Hp Hl Hb. rewrite spec_col_xsumN. apply xsumN_range. intros i Hi.
  apply gmul_range; [apply matN_range; lia|apply bytes_nth; exact Hb].
Qed.

(* raid_rec1of1: P and the failed block swap places and gen1 is run *)
Lemma rec1of1_hyps m i0 orig col par : rec_hyps m [i0] [0%nat] orig col par ->
  rec1of1_col i0 col par = [nth i0 orig 0].
Proof.
  intros H. pose proof H as [Hg [H1 [H251 [Hsid [Hsip [Hlip [Hbid Hpar]]]]]]].
  destruct Hg as [Ho [Hc [Hl Hag]]].
  destruct (Hpar 0%nat (or_introl eq_refl)) as [_ HP].
  assert (Hi0 : (i0 < length orig)%nat) by (apply Hbid; left; reflexivity).
  assert (HPb : nth 0 par 0 < 256) by (rewrite HP; apply spec_col_range; [lia|exact H251|exact Ho]).
  pose proof (pd_formula m [i0] [0%nat] orig col par 0 H ltac:(cbn; lia)) as EP.
  rewrite (nth_delta_col m [i0] [0%nat] orig col par 0 H) in EP by (cbn; lia).
  cbn [length nth] in EP. rewrite xsumN_S_r, xsumN_0n, N.lxor_0_l in EP. cbn [nth] in EP.
  rewrite mat_row0, gmul_1_l in EP by (apply bytes_nth; exact Ho).
  rewrite <- EP. clear EP.
  set (P := nth 0 par 0) in *.
  set (c := set_nth i0 P col).
  assert (Hcl : length c = length orig) by (unfold c; rewrite set_nth_length; exact Hl).
  assert (Hcb : bytes c).
  { apply bytes_of_nth. intros i _. unfold c. rewrite nth_set_nth. destruct (_ && _)%bool; [exact HPb|apply bytes_nth; exact Hc]. }
  unfold rec1of1_col. fold P. fold c. rewrite col_gen1_ok; [|intros E; rewrite E in Hcl; cbn [length] in Hcl; lia|exact Hcb].
  f_equal. rewrite spec_from_xsumN, Hcl, spec_col_xsumN, zero_at_length, Hl.
  rewrite <- (xsumN_delta (length orig) i0 (fun _ => P)) at 1 by exact Hi0.
  rewrite <- xsumN_lxor. apply xsumN_ext. intros i Hi.
  unfold c_one. rewrite mat_row0, !gmul_1_l by (apply bytes_nth; [exact Hcb || apply bytes_zero_at; exact Hc]).
  unfold c. rewrite nth_set_nth, nth_zero_at. cbn [existsb]. rewrite orb_false_r.
  destruct (Nat.eqb_spec i i0) as [->|Hne]; cbn [andb].
  - assert (E : (i0 <? length col)%nat = true) by (apply Nat.ltb_lt; lia). rewrite E, N.lxor_0_r. reflexivity.
  - rewrite N.lxor_0_l. reflexivity.
Qed.

(* powers of two *)
Lemma pow2N_0 : pow2N 0 = 1. Proof. vm_compute. reflexivity. Qed.

Lemma pow2N_add a b : gmul (pow2N a) (pow2N b) = pow2N (a + b).
Proof.
  induction a as [|a IH].
  - rewrite pow2N_0. apply gmul_1_l. apply pow2N_range.
  - cbn [Nat.add]. rewrite !pow2N_S, <- IH. symmetry. apply gmul_assoc; [lia|apply pow2N_range|apply pow2N_range].
Qed.

Lemma pow2N_inj a b : (a < 255)%nat -> (b < 255)%nat -> pow2N a = pow2N b -> a = b.
Proof.
  intros Ha Hb. unfold pow2N. rewrite !Nat.mod_small by assumption. intros E.
  destruct (logexp a Ha) as [La _]. destruct (logexp b Hb) as [Lb _]. rewrite <- La, <- Lb, E. reflexivity.
Qed.

(* raid_rec2of2_int8: neither pow2() nor inv() can hit BUG_ON for x < y < 251 *)
Lemma rec2of2_hyps m x y orig col par : rec_hyps m [x; y] [0; 1]%nat orig col par ->
  rec2of2_col m [x; y] col par = Some [nth x orig 0; nth y orig 0].
Proof.
  intros H. pose proof H as [Hg [H1 [H251 [Hsid [Hsip [Hlip [Hbid Hpar]]]]]]].
  destruct Hg as [Ho [Hc [Hl Hag]]].
  assert (Hxy : (x < y)%nat).
  { cbn [sorted_lt] in Hsid. apply andb_true_iff in Hsid. destruct Hsid as [Hs _]. apply Nat.ltb_lt. exact Hs. }
  assert (Hy : (y < length orig)%nat) by (apply Hbid; right; left; reflexivity).
  set (Dx := nth x orig 0). set (Dy := nth y orig 0).
  assert (bDx : Dx < 256) by (apply bytes_nth; exact Ho).
  assert (bDy : Dy < 256) by (apply bytes_nth; exact Ho).
  pose proof (pd_formula m [x; y] [0; 1]%nat orig col par 0 H ltac:(cbn; lia)) as EP.
  pose proof (pd_formula m [x; y] [0; 1]%nat orig col par 1 H ltac:(cbn; lia)) as EQ.
  cbn [length nth] in EP, EQ. rewrite !xsumN_S_r, xsumN_0n, N.lxor_0_l in EP, EQ. cbn [nth] in EP, EQ.
  fold Dx Dy in EP, EQ.
  rewrite !mat_row0, !gmul_1_l in EP by assumption.
  rewrite !mat_row1 in EQ by lia.
  unfold rec2of2_col. cbn [nth].
  destruct (Nat.ltb_spec 254 (y - x)) as [?|_]; [lia|].
  destruct (Nat.ltb_spec 254 y) as [?|_]; [lia|]. cbn [orb].
  rewrite !t_gfexp_ok by lia. rewrite !Nat2N.id.
  set (e := pow2N (y - x)) in *. set (u := pow2N x) in *. set (v := pow2N y) in *.
  assert (be : e < 256) by apply pow2N_range.
  assert (bu : u < 256) by apply pow2N_range.
  assert (bv : v < 256) by apply pow2N_range.
  assert (Heu : gmul e u = v).
  { unfold e, u, v. rewrite pow2N_add. f_equal. lia. }
  assert (Ha : N.lxor e 1 <> 0).
  { intros E. apply N.lxor_eq in E. unfold e in E. rewrite <- pow2N_0 in E. apply pow2N_inj in E; lia. }
  assert (Hb : N.lxor u v <> 0).
  { intros E. apply N.lxor_eq in E. unfold u, v in E. apply pow2N_inj in E; lia. }
  destruct (N.eqb_spec (N.lxor e 1) 0) as [?|_]; [contradiction|].
  destruct (N.eqb_spec (N.lxor u v) 0) as [?|_]; [contradiction|]. cbn [orb]. cbv zeta.
  rewrite EP, EQ.
  assert (ba : N.lxor e 1 < 256) by (apply lxor_range; [exact be|lia]).
  assert (bb : N.lxor u v < 256) by (apply lxor_range; assumption).
  rewrite !t_gfinv_ok by assumption.
  destruct (gmul_inv ba Ha) as [_ bia]. destruct (gmul_inv bb Hb) as [_ bib].
  assert (bP : N.lxor Dx Dy < 256) by (apply lxor_range; assumption).
  assert (bQ : N.lxor (gmul u Dx) (gmul v Dy) < 256) by (apply lxor_range; apply gmul_range; assumption).
  rewrite !t_gfmul_ok by assumption.
  rewrite (Bridge.rec2_identityN be bu bv bDx bDy Heu Ha Hb).
  rewrite N.lxor_assoc, N.lxor_nilpotent, N.lxor_0_r. reflexivity.
Qed.

(* raid_rec_ptr[nr-1]: the dispatch between the fast paths and the general routine *)
Lemma rec_data_col_hyps m id ip orig col par : rec_hyps m id ip orig col par ->
  rec_data_col m id ip col par = Some (map (fun d => nth d orig 0) id).
Proof.
  intros H. unfold rec_data_col.
  destruct id as [|a [|b [|c id]]]; destruct ip as [|[|[|p]] [|[|[|q]] [|r ip]]];
    first [ exact (recX_col_hyps _ _ _ _ _ _ H)
          | f_equal; exact (rec1of1_hyps _ _ _ _ _ H)
          | exact (rec2of2_hyps _ _ _ _ _ _ H) ].
Qed.

Theorem rec_data_col_correct m id ip orig col par :
  good m orig col id -> (1 <= length id)%nat -> (length orig <= 251)%nat ->
  sorted_lt id = true -> sorted_lt ip = true -> length ip = length id ->
  (forall d, In d id -> (d < length orig)%nat) ->
  (forall p, In p ip -> (p < rows_of m)%nat /\ nth p par 0 = spec_col (matN m) p orig) ->
  rec_data_col m id ip col par = Some (map (fun d => nth d orig 0) id).
Proof. intros. apply rec_data_col_hyps. unfold rec_hyps. tauto. Qed.

(* ------------------------------------------------------------------------------------------- *)
(* raid_data *)
Theorem raid_data_col_correct m id ip orig col par :
  good m orig col id -> (length orig <= 251)%nat ->
  sorted_lt id = true -> sorted_lt ip = true -> length ip = length id ->
  (forall d, In d id -> (d < length orig)%nat) ->
  (forall p, In p ip -> (p < rows_of m)%nat /\ nth p par 0 = spec_col (matN m) p orig) ->
  raid_data_col m (length orig) id ip col par = Some orig.
Proof.
  intros Hg H251 Hsid Hsip Hlip Hbid Hpar. unfold raid_data_col. cbv zeta.
  assert (G1 : (length id <=? length orig)%nat = true).
  { apply Nat.leb_le. apply sorted_lt_length_bound; assumption. }
  assert (G2 : (length id <=? 6)%nat = true).
  { apply Nat.leb_le. rewrite <- Hlip. pose proof (rows_of_le6 m).
    assert (length ip <= rows_of m)%nat by (apply sorted_lt_length_bound; [exact Hsip|intros p Hp; apply (Hpar p Hp)]). lia. }
  rewrite G1, G2, Hsid, Hsip, Hlip, Nat.eqb_refl. cbn [negb orb].
  destruct id as [|a id'].
  - cbn [length Nat.ltb Nat.leb andb]. f_equal. destruct Hg as [_ [_ [Hl Hag]]].
    apply nth_ext with (d := 0) (d' := 0); [exact Hl|]. intros n _. apply Hag. intros [].
  - assert (G3 : (last (a :: id') 0 <? length orig)%nat = true).
    { apply Nat.ltb_lt. apply Hbid. apply last_In. discriminate. }
    rewrite G3. cbn [negb]. rewrite andb_false_r.
    change (length (a :: id')) with (S (length id')) at 1.
    rewrite rec_data_col_hyps with (orig := orig).
    + f_equal. apply set_many_orig; [apply Hg|exact Hbid|apply Hg].
    + unfold rec_hyps. repeat split; try assumption; try (apply Hpar; assumption); try apply Hg. cbn [length]. lia.
Qed.

(* ------------------------------------------------------------------------------------------- *)
(* raid_rec *)
Lemma filter_lengths {A} (f : A -> bool) l :
  (length (filter f l) + length (filter (fun x => negb (f x)) l) = length l)%nat.
Proof.
  induction l as [|a l IH]; [reflexivity|]. cbn [filter]. destruct (f a); cbn [negb length]; lia.
Qed.

Lemma in_failed_parities nd ir q :
  In q (map (fun i => (i - nd)%nat) (filter (fun i => negb (i <? nd)%nat) ir)) <-> In (nd + q)%nat ir.
Proof.
  rewrite in_map_iff. split.
  - intros [i [E Hi]]. apply filter_In in Hi. destruct Hi as [Hi Hge].
    apply negb_true_iff in Hge. apply Nat.ltb_ge in Hge. replace (nd + q)%nat with i by lia. exact Hi.
  - intros H. exists (nd + q)%nat. split; [lia|]. apply filter_In. split; [exact H|].
    apply negb_true_iff. apply Nat.ltb_ge. lia.
Qed.

Lemma sorted_lt_map_sub nd l : sorted_lt l = true -> (forall i, In i l -> (nd <= i)%nat) ->
  sorted_lt (map (fun i => (i - nd)%nat) l) = true.
Proof.
  induction l as [|a l IH]; intros Hs Hb; [reflexivity|].
  destruct (sorted_lt_cons a l Hs) as [H1 H2]. cbn [map]. apply sorted_lt_cons_intro.
  - apply IH; [exact H1|intros; apply Hb; right; assumption].
  - intros b Hin. apply in_map_iff in Hin. destruct Hin as [i [<- Hi]].
    specialize (H2 i Hi). specialize (Hb a (or_introl eq_refl)). lia.
Qed.

Lemma count_avail fp l : NoDup l ->
  (length l <= length (filter (fun p => negb (existsb (Nat.eqb p) fp)) l) + length fp)%nat.
Proof.
  intros Hnd. pose proof (filter_lengths (fun p => existsb (Nat.eqb p) fp) l) as E.
  assert (length (filter (fun p => existsb (Nat.eqb p) fp) l) <= length fp)%nat.
  { apply NoDup_incl_length; [apply NoDup_filter; exact Hnd|].
    intros x Hx. apply filter_In in Hx. apply existsb_eqb_In. apply Hx. }
  lia.
Qed.

Theorem raid_rec_col_correct m nd np ir orig col par :
  nd = length orig -> (1 <= nd <= 251)%nat -> (np <= rows_of m)%nat -> (length ir <= np)%nat ->
  sorted_lt ir = true -> (forall i, In i ir -> (i < nd + np)%nat) -> length par = np ->
  good m orig col (filter (fun i => (i <? nd)%nat) ir) ->
  (forall p, (p < np)%nat -> ~ In (nd + p)%nat ir -> nth p par 0 = spec_col (matN m) p orig) ->
  exists par', raid_rec_col m nd np ir col par = Some (orig, par') /\ length par' = np /\
    (forall p q, In (nd + q)%nat ir -> (p <= q)%nat -> nth p par' 0 = spec_col (matN m) p orig) /\
    (forall p, (forall q, In (nd + q)%nat ir -> (q < p)%nat) -> nth p par' 0 = nth p par 0) /\
    ((forall q, ~ In (nd + q)%nat ir) -> par' = par).
Proof.
  intros Hndeq Hnd Hnp Hnr Hs Hb Hlp Hg Hpar.
  unfold raid_rec_col. cbv zeta.
  set (id := filter (fun i => (i <? nd)%nat) ir) in *.
  set (fp := map (fun i => (i - nd)%nat) (filter (fun i => negb (i <? nd)%nat) ir)).
  set (avail := filter (fun p => negb (existsb (Nat.eqb p) fp)) (seq 0 np)).
  set (ip := firstn (length id) avail).
  (* the argument checks *)
  pose proof (rows_of_le6 m) as H6.
  assert (G1 : (length ir <=? np)%nat = true) by (apply Nat.leb_le; exact Hnr).
  assert (G2 : (np <=? 6)%nat = true) by (apply Nat.leb_le; lia).
  assert (G3 : ((0 <? length ir)%nat && negb (last ir 0 <? nd + np)%nat)%bool = false).
  { destruct ir as [|i0 ir']; [reflexivity|].
    assert (E : (last (i0 :: ir') 0 <? nd + np)%nat = true) by (apply Nat.ltb_lt; apply Hb; apply last_In; discriminate).
    rewrite E. apply andb_false_r. }
  rewrite G1, G2, Hs, G3. cbn [negb orb].
  (* the index sets *)
  assert (Hinfp : forall q, In q fp <-> In (nd + q)%nat ir) by (intros q; apply in_failed_parities).
  assert (Hsplit : (length id + length fp = length ir)%nat).
  { unfold fp. rewrite map_length. apply filter_lengths. }
  assert (Hsid : sorted_lt id = true) by (apply sorted_lt_filter; exact Hs).
  assert (Hbid : forall d, In d id -> (d < length orig)%nat).
  { intros d Hd. apply filter_In in Hd. destruct Hd as [_ Hd]. apply Nat.ltb_lt in Hd. lia. }
  assert (Hsfp : sorted_lt fp = true).
  { apply sorted_lt_map_sub; [apply sorted_lt_filter; exact Hs|].
    intros i Hi. apply filter_In in Hi. destruct Hi as [_ Hi]. apply negb_true_iff in Hi. apply Nat.ltb_ge in Hi. exact Hi. }
  assert (Hfpb : forall q, In q fp -> (q < np)%nat).
  { intros q Hq. apply Hinfp in Hq. specialize (Hb _ Hq). lia. }
  assert (Havail : forall p, In p avail -> (p < np)%nat /\ ~ In (nd + p)%nat ir).
  { intros p Hp. apply filter_In in Hp. destruct Hp as [Hp1 Hp2]. apply in_seq in Hp1.
    apply negb_true_iff in Hp2. apply existsb_eqb_In' in Hp2. split; [lia|]. intros Hin. apply Hp2. apply Hinfp. exact Hin. }
  assert (Hcount : (length id <= length avail)%nat).
  { pose proof (count_avail fp (seq 0 np) (seq_NoDup np 0)) as Hc. rewrite seq_length in Hc. fold avail in Hc. lia. }
  assert (Hlip : length ip = length id) by (apply firstn_length_le; exact Hcount).
  assert (Hsip : sorted_lt ip = true) by (apply sorted_lt_firstn; apply sorted_lt_filter; apply sorted_lt_seq).
  assert (Hpip : forall p, In p ip -> (p < rows_of m)%nat /\ nth p par 0 = spec_col (matN m) p orig).
  { intros p Hp. apply firstn_In in Hp. destruct (Havail p Hp) as [Hp1 Hp2]. split; [lia|apply Hpar; assumption]. }
  (* the data *)
  assert (Hcol : match length id with
                 | O => Some col
                 | S _ => match rec_data_col m id ip col par with
                          | None => None
                          | Some rec => Some (set_many id rec col)
                          end
                 end = Some orig).
  { destruct (length id) as [|n] eqn:E.
    - f_equal. apply length_zero_iff_nil in E. destruct Hg as [_ [_ [Hl Hag]]]. rewrite E in Hag.
      apply nth_ext with (d := 0) (d' := 0); [exact Hl|]. intros k _. apply Hag. intros [].
    - rewrite rec_data_col_hyps with (orig := orig).
      + f_equal. apply set_many_orig; [apply Hg|exact Hbid|apply Hg].
      + unfold rec_hyps. repeat split; try assumption; try (apply Hpip; assumption); try apply Hg; lia. }
  rewrite Hcol. clear Hcol.
  (* the parities *)
  clearbody fp. destruct fp as [|q0 fp'].
  - exists par. split; [reflexivity|]. split; [exact Hlp|]. split; [|split; [reflexivity|reflexivity]].
    intros p q Hq _. apply Hinfp in Hq. destruct Hq.
  - set (fp := q0 :: fp') in *. set (k := S (last fp 0%nat)).
    assert (Hlast : In (last fp 0%nat) fp) by (apply last_In; discriminate).
    assert (Hk : (k <= np)%nat) by (specialize (Hfpb _ Hlast); unfold k; lia).
    assert (Hg' : raid_gen_col m k orig = map (fun p => spec_col (matN m) p orig) (seq 0 k)).
    { apply raid_gen_col_spec; [unfold k; lia| |lia|apply Hg].
      intros E. rewrite E in Hndeq. cbn [length] in Hndeq. lia. }
    exists (raid_gen_col m k orig ++ skipn k par). split; [reflexivity|].
    assert (Hlg : length (raid_gen_col m k orig) = k) by (rewrite Hg', map_length, seq_length; reflexivity).
    split; [rewrite app_length, skipn_length, Hlg; lia|]. split; [|split].
    + intros p q Hq Hpq. apply Hinfp in Hq. pose proof (sorted_lt_last fp q Hsfp Hq) as Hql.
      rewrite app_nth1 by (rewrite Hlg; unfold k; lia). rewrite Hg'.
      rewrite (nth_map_seq (fun p => spec_col (matN m) p orig)) by (unfold k; lia). reflexivity.
    + intros p Hp. assert (Hpk : (k <= p)%nat) by (specialize (Hp _ (proj1 (Hinfp _) Hlast)); unfold k; lia).
      rewrite app_nth2 by (rewrite Hlg; exact Hpk). rewrite Hlg, nth_skipn_add. f_equal. lia.
    + intros Hno. exfalso. apply (Hno (last fp 0%nat)). apply Hinfp. exact Hlast.
Qed.

(* ------------------------------------------------------------------------------------------- *)
(* a concrete instance: 4 data disks, 3 parities (Cauchy), data 1 and 3 and parity 0 lost *)
Definition ex_orig : list N := [0x11; 0xA7; 0x3C; 0xF0].
Definition ex_par : list N := map (fun p => spec_col (matN Cauchy) p ex_orig) (seq 0 3).
Definition ex_col : list N := [0x11; 0x00; 0x3C; 0x55].          (* garbage in the lost positions *)
Definition ex_par_in : list N := set_nth 0 0xEE ex_par.           (* garbage in the lost parity *)

Example raid_rec_col_example :
  raid_rec_col Cauchy 4 3 [1; 3; 4]%nat ex_col ex_par_in = Some (ex_orig, ex_par).
Proof. vm_compute. reflexivity. Qed.

Example raid_rec_col_example_hyps :
  4%nat = length ex_orig /\ (1 <= 4 <= 251)%nat /\ (3 <= rows_of Cauchy)%nat /\ (length [1; 3; 4]%nat <= 3)%nat /\
  sorted_lt [1; 3; 4]%nat = true /\ (forall i, In i [1; 3; 4]%nat -> (i < 4 + 3)%nat) /\ length ex_par_in = 3%nat /\
  good Cauchy ex_orig ex_col (filter (fun i => (i <? 4)%nat) [1; 3; 4]%nat) /\
  (forall p, (p < 3)%nat -> ~ In (4 + p)%nat [1; 3; 4]%nat -> nth p ex_par_in 0 = spec_col (matN Cauchy) p ex_orig).
Proof.
  split; [reflexivity|]. split; [lia|]. split; [cbn [rows_of]; lia|]. split; [cbn [length]; lia|].
  split; [reflexivity|]. split; [intros i [<-|[<-|[<-|[]]]]; lia|]. split; [vm_compute; reflexivity|].
  split; [|intros p Hp Hin; destruct p as [|[|[|p]]]; [exfalso; apply Hin; right; right; left; reflexivity| | |lia];
           vm_compute; reflexivity].
  unfold good. split; [unfold bytes, ex_orig; repeat constructor|].
  split; [unfold bytes, ex_col; repeat constructor|]. split; [reflexivity|].
  intros d Hd. change (filter (fun i => (i <? 4)%nat) [1; 3; 4]%nat) with [1; 3]%nat in Hd.
  destruct d as [|[|[|[|d]]]]; try reflexivity.
  - exfalso. apply Hd. left. reflexivity.
  - exfalso. apply Hd. right. left. reflexivity.
Qed.

(* and one through raid_data with the parities 1 and 2 (the general routine, Vandermonde-free) *)
Example raid_data_col_example :
  raid_data_col Cauchy 4 [1; 3]%nat [1; 2]%nat ex_col ex_par = Some ex_orig.
Proof. vm_compute. reflexivity. Qed.

Print Assumptions recX_col_correct.
Print Assumptions rec_data_col_correct.
Print Assumptions raid_data_col_correct.
Print Assumptions raid_rec_col_correct.
