(* Correctness of the recovery models of RecModel.v: raid_rec{1,2,X}_int8 with the fast paths
   raid_rec1of1 / raid_rec2of2_int8, raid_data and raid_rec, per column.  Stdlib style. *)
From Coq Require Import NArith List Bool Lia Arith.
From Snap.Gen Require Import Tables.
From Snap.GF Require Import Gf TablesOk.
From Snap.Raid Require Import GenModel GenProofs RecModel Xsum.
From Snap.Raid Require Bridge InvertProofs.
Import ListNotations.
Local Open Scope N_scope.

(* ------------------------------------------------------------------------------------------- *)
(* lists *)
Lemma set_nth_nil {A} k (x : A) : set_nth k x [] = [].
Proof. unfold set_nth. rewrite firstn_nil, skipn_nil. reflexivity. Qed.
Lemma set_nth_0 {A} (x a : A) l : set_nth 0 x (a :: l) = x :: l.
Proof. reflexivity. Qed.
Lemma set_nth_S {A} k (x a : A) l : set_nth (S k) x (a :: l) = a :: set_nth k x l.
Proof. reflexivity. Qed.

Lemma set_nth_length {A} k (x : A) l : length (set_nth k x l) = length l.
Proof.
  revert l. induction k as [|k IH]; intros [|a l]; rewrite ?set_nth_nil, ?set_nth_0, ?set_nth_S; cbn [length]; auto.
Qed.

Lemma nth_set_nth {A} k (x : A) l i d :
  nth i (set_nth k x l) d = if (Nat.eqb i k && (k <? length l)%nat)%bool then x else nth i l d.
Proof.
  revert l i. induction k as [|k IH]; intros [|a l] i; rewrite ?set_nth_nil, ?set_nth_0, ?set_nth_S.
  - rewrite andb_false_r. reflexivity.
  - destruct i; reflexivity.
  - rewrite andb_false_r. reflexivity.
  - destruct i as [|i]; [reflexivity|]. cbn [nth length]. rewrite IH. reflexivity.
Qed.

Lemma nth_set_nth0 k l i : nth i (set_nth k 0 l) 0 = if Nat.eqb i k then 0 else nth i l 0.
Proof.
  rewrite nth_set_nth. destruct (Nat.eqb_spec i k) as [->|]; [|reflexivity].
  destruct (Nat.ltb_spec k (length l)); [reflexivity|]. cbn [andb]. apply nth_overflow. lia.
Qed.

Lemma zero_at_cons k ks l : zero_at (k :: ks) l = zero_at ks (set_nth k 0 l).
Proof. reflexivity. Qed.

Lemma zero_at_length ks l : length (zero_at ks l) = length l.
Proof.
  revert l. induction ks as [|k ks IH]; intros l; [reflexivity|].
  rewrite zero_at_cons, IH. apply set_nth_length.
Qed.

Lemma nth_zero_at ks l i : nth i (zero_at ks l) 0 = if existsb (Nat.eqb i) ks then 0 else nth i l 0.
Proof.
  revert l. induction ks as [|k ks IH]; intros l; [reflexivity|].
  rewrite zero_at_cons, IH, nth_set_nth0. cbn [existsb].
  destruct (Nat.eqb i k), (existsb (Nat.eqb i) ks); reflexivity.
Qed.

Lemma bytes_zero_at ks l : bytes l -> bytes (zero_at ks l).
Proof.
  intros H. apply bytes_of_nth. intros i _. rewrite nth_zero_at.
  destruct (existsb _ _); [lia|apply bytes_nth; exact H].
Qed.

Lemma existsb_eqb_In i l : existsb (Nat.eqb i) l = true <-> In i l.
Proof.
  rewrite existsb_exists. split.
  - intros [x [Hx E]]. apply Nat.eqb_eq in E. subst. exact Hx.
  - intros H. exists i. split; [exact H|apply Nat.eqb_refl].
Qed.

Lemma existsb_eqb_In' i l : existsb (Nat.eqb i) l = false <-> ~ In i l.
Proof. rewrite <- existsb_eqb_In. destruct (existsb _ _); split; intros; congruence. Qed.

Lemma set_many_cons {A} k ks (x : A) xs l : set_many (k :: ks) (x :: xs) l = set_many ks xs (set_nth k x l).
Proof. reflexivity. Qed.

Lemma set_many_orig id orig col :
  length col = length orig -> (forall d, In d id -> (d < length orig)%nat) ->
  (forall d, ~ In d id -> nth d col 0 = nth d orig 0) ->
  set_many id (map (fun d => nth d orig 0) id) col = orig.
Proof.
  revert col. induction id as [|a id IH]; intros col Hl Hb Ha.
  - cbn [map set_many]. apply nth_ext with (d := 0) (d' := 0); [exact Hl|]. intros n _. apply Ha. intros [].
  - cbn [map]. rewrite set_many_cons. apply IH.
    + rewrite set_nth_length. exact Hl.
    + intros d Hd. apply Hb. right. exact Hd.
    + intros d Hd. rewrite nth_set_nth. destruct (Nat.eqb_spec d a) as [->|Hda].
      * assert (Hlt : (a < length col)%nat) by (rewrite Hl; apply Hb; left; reflexivity).
        apply Nat.ltb_lt in Hlt. rewrite Hlt. reflexivity.
      * cbn [andb]. apply Ha. intros [E|E]; [congruence|contradiction].
Qed.

Lemma list_as_map_nth {A} (l : list A) d : l = map (fun j => nth j l d) (seq 0 (length l)).
Proof.
  apply nth_ext with (d := d) (d' := d); [rewrite map_length, seq_length; reflexivity|].
  intros n Hn. rewrite (nth_map_seq (fun j => nth j l d)) by exact Hn. reflexivity.
Qed.

Lemma nth_map_lt {A B} (f : A -> B) l j d d' : (j < length l)%nat -> nth j (map f l) d = f (nth j l d').
Proof.
  intros H. rewrite nth_indep with (d' := f d') by (rewrite map_length; exact H). apply map_nth.
Qed.

Lemma nth_skipn_add {A} k (l : list A) i d : nth i (skipn k l) d = nth (k + i) l d.
Proof.
  revert l. induction k as [|k IH]; intros l; [reflexivity|].
  destruct l as [|a l]; [destruct i; reflexivity|]. cbn [skipn Nat.add nth]. apply IH.
Qed.

Lemma sorted_lt_ge_index l i : sorted_lt l = true -> (i < length l)%nat -> (i <= nth i l 0%nat)%nat.
Proof.
  intros H. induction i as [|i IH]; intros Hi; [lia|].
  assert (nth i l 0 < nth (S i) l 0)%nat by (apply sorted_lt_nth; [exact H|lia|exact Hi]).
  specialize (IH ltac:(lia)). lia.
Qed.

Lemma sorted_lt_length_bound l n : sorted_lt l = true -> (forall a, In a l -> (a < n)%nat) -> (length l <= n)%nat.
Proof.
  intros H Hb. destruct (length l) as [|k] eqn:E; [lia|].
  assert (Hk : (k < length l)%nat) by lia.
  pose proof (sorted_lt_ge_index l k H Hk). specialize (Hb (nth k l 0%nat) (nth_In _ _ Hk)). lia.
Qed.

(* ------------------------------------------------------------------------------------------- *)
(* rows 0 and 1 of the two matrices; what raid_gen computes *)
Lemma mat_row0 m i : matN m 0 i = 1.
Proof. destruct m; reflexivity. Qed.
Lemma mat_row1 m i : (i < 255)%nat -> matN m 1 i = pow2N i.
Proof. intros H. destruct m; [apply cauchy_row1; exact H|reflexivity]. Qed.

Lemma rows_of_le6 m : (rows_of m <= 6)%nat.
Proof. destruct m; cbn; lia. Qed.
Lemma rows_of_ge3 m : (3 <= rows_of m)%nat.
Proof. destruct m; cbn; lia. Qed.

Lemma spec_col_cauchy_power p col : (p < 2)%nat -> (length col <= 251)%nat ->
  spec_col cauchyN p col = spec_col powerN p col.
Proof.
  intros Hp Hl. rewrite !spec_col_from. apply spec_from_ext. intros i Hi.
  destruct p as [|[|p]]; [reflexivity| |lia]. rewrite cauchy_row1 by lia. reflexivity.
Qed.

Lemma raid_gen_col_spec m np col :
  (1 <= np <= rows_of m)%nat -> col <> [] -> (length col <= 251)%nat -> bytes col ->
  raid_gen_col m np col = map (fun p => spec_col (matN m) p col) (seq 0 np).
Proof.
  intros Hnp Hn Hl Hb. unfold raid_gen_col.
  assert (Hadm : gen_admissible m (gen_of_np m np)).
  { destruct np as [|[|[|[|np]]]]; cbn; try exact I; destruct m; cbn; try exact I; cbn in Hnp; lia. }
  rewrite col_gen_correct by assumption.
  destruct np as [|[|[|[|np]]]]; [lia| | | |].
  - cbn [gen_of_np gen_np gen_mat]. apply map_ext_in. intros p Hp. apply in_seq in Hp.
    destruct m; [reflexivity|]. apply spec_col_cauchy_power; [lia|exact Hl].
  - cbn [gen_of_np gen_np gen_mat]. apply map_ext_in. intros p Hp. apply in_seq in Hp.
    destruct m; [reflexivity|]. apply spec_col_cauchy_power; [lia|exact Hl].
  - destruct m; reflexivity.
  - destruct m; [reflexivity|cbn in Hnp; lia].
Qed.

Lemma nth_raid_gen_col m np col p :
  (p < np)%nat -> (np <= rows_of m)%nat -> col <> [] -> (length col <= 251)%nat -> bytes col ->
  nth p (raid_gen_col m np col) 0 = spec_col (matN m) p col.
Proof.
  intros Hp Hnp Hn Hl Hb. rewrite raid_gen_col_spec by (assumption || lia).
  rewrite (nth_map_seq (fun p => spec_col (matN m) p col)) by exact Hp. reflexivity.
Qed.

(* ------------------------------------------------------------------------------------------- *)
(* sums over the failed positions *)
Lemma xsumN_select n id (h : nat -> N) :
  NoDup id -> (forall d, In d id -> (d < n)%nat) ->
  xsumN n (fun i => if existsb (Nat.eqb i) id then h i else 0) = xsumN (length id) (fun k => h (nth k id 0%nat)).
Proof.
  induction id as [|a id IH]; intros Hnd Hb.
  - cbn [existsb length]. rewrite xsumN_0n. apply xsumN_zero. reflexivity.
  - inversion Hnd as [|? ? Ha Hnd']; subst. cbn [length]. rewrite xsumN_S_l. cbn [nth].
    rewrite <- IH by (try assumption; intros; apply Hb; right; assumption).
    rewrite <- (xsumN_delta n a h) by (apply Hb; left; reflexivity).
    rewrite <- xsumN_lxor. apply xsumN_ext. intros i _. cbn [existsb].
    destruct (Nat.eqb_spec i a) as [->|Hia]; cbn [orb].
    + apply existsb_eqb_In' in Ha. rewrite Ha. rewrite N.lxor_0_r. reflexivity.
    + rewrite N.lxor_0_l. reflexivity.
Qed.

Definition good (m : rmode) (orig col : list N) (id : list nat) : Prop :=
  bytes orig /\ bytes col /\ length col = length orig /\ (forall d, ~ In d id -> nth d col 0 = nth d orig 0).

Lemma spec_diff m p orig col id :
  good m orig col id -> NoDup id -> (forall d, In d id -> (d < length orig)%nat) ->
  (p < 6)%nat -> (length orig <= 251)%nat ->
  N.lxor (spec_col (matN m) p orig) (spec_col (matN m) p (zero_at id col))
  = xsumN (length id) (fun k => gmul (matN m p (nth k id 0%nat)) (nth (nth k id 0%nat) orig 0)).
Proof.
  intros [Ho [Hc [Hl Hag]]] Hnd Hb Hp Hnd251.
  rewrite !spec_col_xsumN, zero_at_length, Hl, <- xsumN_lxor.
  rewrite <- (xsumN_select (length orig) id (fun i => gmul (matN m p i) (nth i orig 0))) by assumption.
  apply xsumN_ext. intros i Hi. rewrite nth_zero_at.
  destruct (existsb (Nat.eqb i) id) eqn:E.
  - rewrite gmul_0_r by (apply matN_range; lia). apply N.lxor_0_r.
  - apply existsb_eqb_In' in E. rewrite (Hag i E). apply N.lxor_nilpotent.
Qed.

(* the hypotheses shared by all the decoders *)
Definition rec_hyps (m : rmode) (id ip : list nat) (orig col par : list N) : Prop :=
  good m orig col id /\ (1 <= length id)%nat /\ (length orig <= 251)%nat /\
  sorted_lt id = true /\ sorted_lt ip = true /\ length ip = length id /\
  (forall d, In d id -> (d < length orig)%nat) /\
  (forall p, In p ip -> (p < rows_of m)%nat /\ nth p par 0 = spec_col (matN m) p orig).

Lemma rec_hyps_col m id ip orig col par : rec_hyps m id ip orig col par ->
  zero_at id col <> [] /\ (length (zero_at id col) <= 251)%nat /\ bytes (zero_at id col).
Proof.
  intros [[Ho [Hc [Hl Hag]]] [H1 [H251 [Hsid [Hsip [Hlip [Hbid Hpar]]]]]]].
  assert (Hlen : length (zero_at id col) = length orig) by (rewrite zero_at_length; exact Hl).
  split; [|split].
  - intros E. rewrite E in Hlen. cbn [length] in Hlen.
    destruct id as [|a id]; [cbn [length] in H1; lia|]. specialize (Hbid a (or_introl eq_refl)). lia.
  - lia.
  - apply bytes_zero_at. exact Hc.
Qed.

Lemma nth_delta_col m id ip orig col par j : rec_hyps m id ip orig col par -> (j < length ip)%nat ->
  nth j (delta_col m id ip col) 0 = spec_col (matN m) (nth j ip 0%nat) (zero_at id col).
Proof.
  intros H Hj. destruct (rec_hyps_col _ _ _ _ _ _ H) as [Hne [Hle Hbz]].
  destruct H as [_ [H1 [H251 [Hsid [Hsip [Hlip [Hbid Hpar]]]]]]].
  unfold delta_col. rewrite (nth_map_lt _ ip j 0 0%nat) by exact Hj.
  assert (Hin : In (nth j ip 0%nat) ip) by (apply nth_In; exact Hj).
  assert (Hlast : In (last ip 0%nat) ip) by (apply last_In; intros E; rewrite E in Hj; cbn [length] in Hj; lia).
  apply nth_raid_gen_col; try assumption.
  - pose proof (sorted_lt_last ip _ Hsip Hin). lia.
  - destruct (Hpar _ Hlast) as [Hr _]. lia.
Qed.

Lemma pd_formula m id ip orig col par j : rec_hyps m id ip orig col par -> (j < length ip)%nat ->
  N.lxor (nth (nth j ip 0%nat) par 0) (nth j (delta_col m id ip col) 0)
  = xsumN (length id) (fun k => gmul (matN m (nth j ip 0%nat) (nth k id 0%nat)) (nth (nth k id 0%nat) orig 0)).
Proof.
  intros H Hj. rewrite (nth_delta_col m id ip orig col par j H Hj).
  destruct H as [Hg [H1 [H251 [Hsid [Hsip [Hlip [Hbid Hpar]]]]]]].
  assert (Hin : In (nth j ip 0%nat) ip) by (apply nth_In; exact Hj).
  destruct (Hpar _ Hin) as [Hr ->].
  apply spec_diff; try assumption.
  - apply sorted_lt_NoDup. exact Hsid.
  - pose proof (rows_of_le6 m). lia.
Qed.

(* V * (G * D) = D when V * G = identity *)
Lemma solve_system n (V G : mxN) (D : nat -> N) j :
  (forall i k, (i < n)%nat -> (k < n)%nat -> V i k < 256) ->
  (forall i k, (i < n)%nat -> (k < n)%nat -> G i k < 256) ->
  (forall k, (k < n)%nat -> D k < 256) ->
  (forall i k, (i < n)%nat -> (k < n)%nat -> xsumN n (fun l => gmul (V i l) (G l k)) = idN i k) ->
  (j < n)%nat ->
  xsumN n (fun k => gmul (V j k) (xsumN n (fun l => gmul (G k l) (D l)))) = D j.
Proof.
  intros bV bG bD sV Hj.
  rewrite (xsumN_ext n _ (fun k => xsumN n (fun l => gmul (gmul (V j k) (G k l)) (D l)))).
  2:{ intros k Hk. rewrite xsumN_gmul_r; [|apply bV; assumption|intros l Hl; apply gmul_range; [apply bG|apply bD]; assumption].
      apply xsumN_ext. intros l Hl. apply gmul_assoc; [apply bV|apply bG|apply bD]; assumption. }
  rewrite (xsumN_exchange n n (fun k l => gmul (gmul (V j k) (G k l)) (D l))).
  rewrite (xsumN_ext n _ (fun l => if Nat.eqb l j then D l else 0)).
  2:{ intros l Hl. rewrite <- xsumN_gmul_l; [|apply bD; assumption|intros k Hk; apply gmul_range; [apply bV|apply bG]; assumption].
      rewrite sV by assumption. unfold idN. rewrite (Nat.eqb_sym l j).
      destruct (Nat.eqb j l); [apply gmul_1_l|apply gmul_0_l]; apply bD; assumption. }
  apply xsumN_delta. exact Hj.
Qed.

(* ------------------------------------------------------------------------------------------- *)
(* raid_recX_int8 *)
Lemma recX_col_hyps m id ip orig col par : rec_hyps m id ip orig col par ->
  recX_col m id ip col par = Some (map (fun d => nth d orig 0) id).
Proof.
  intros H. pose proof H as [Hg [H1 [H251 [Hsid [Hsip [Hlip [Hbid Hpar]]]]]]].
  assert (Hid251 : forall d, In d id -> (d < 251)%nat) by (intros d Hd; specialize (Hbid d Hd); lia).
  assert (Hipr : forall p, In p ip -> (p < rows_of m)%nat) by (intros p Hp; apply (Hpar p Hp)).
  pose proof (@InvertProofs.invertN_ok m id ip (length id) Hsid Hsip eq_refl Hlip Hid251 Hipr) as HV.
  cbv zeta in HV. destruct HV as [V [EV [bV sV]]].
  unfold recX_col. cbv zeta. rewrite EV. f_equal.
  replace (map (fun d => nth d orig 0) id) with (map (fun j => nth (nth j id 0%nat) orig 0) (seq 0 (length id)))
    by (rewrite <- (map_map (fun j => nth j id 0%nat) (fun d => nth d orig 0)), <- list_as_map_nth; reflexivity).
  apply map_ext_in. intros j Hj. apply in_seq in Hj.
  assert (Hjn : (j < length id)%nat) by lia.
  rewrite fold_left_xsumN.
  pose (D := fun k => nth (nth k id 0%nat) orig 0).
  assert (bD : forall k, (k < length id)%nat -> D k < 256) by (intros k _; apply bytes_nth; apply Hg).
  assert (bG : forall i k, (i < length id)%nat -> (k < length id)%nat -> coefA m (nth i ip 0%nat) (nth k id 0%nat) < 256).
  { intros i k Hi Hk. apply coefA_range; [apply Hipr; apply nth_In; lia|apply Hid251; apply nth_In; lia]. }
  change (nth (nth j id 0%nat) orig 0) with (D j).
  rewrite <- (solve_system (length id) V (fun j k => coefA m (nth j ip 0%nat) (nth k id 0%nat)) D j bV bG bD sV Hjn).
  apply xsumN_ext. intros k Hk.
  rewrite (nth_map_seq (fun j => N.lxor (nth (nth j ip 0%nat) par 0) (nth j (delta_col m id ip col) 0))) by exact Hk.
  cbn [Nat.add]. rewrite (pd_formula m id ip orig col par k H) by lia.
  assert (E : xsumN (length id) (fun k0 => gmul (matN m (nth k ip 0%nat) (nth k0 id 0%nat)) (nth (nth k0 id 0%nat) orig 0))
            = xsumN (length id) (fun l => gmul (coefA m (nth k ip 0%nat) (nth l id 0%nat)) (D l))).
  { apply xsumN_ext. intros l Hl. rewrite coefA_matN; [reflexivity|apply Hipr; apply nth_In; lia|apply Hid251; apply nth_In; lia]. }
  rewrite E. apply t_gfmul_ok; [apply bV; assumption|].
  apply xsumN_range. intros l Hl. apply gmul_range; [apply bG; assumption|apply bD; assumption].
Qed.

Theorem recX_col_correct m id ip orig col par :
  good m orig col id -> (1 <= length id)%nat -> (length orig <= 251)%nat ->
  sorted_lt id = true -> sorted_lt ip = true -> length ip = length id ->
  (forall d, In d id -> (d < length orig)%nat) ->
  (forall p, In p ip -> (p < rows_of m)%nat /\ nth p par 0 = spec_col (matN m) p orig) ->
  recX_col m id ip col par = Some (map (fun d => nth d orig 0) id).
Proof. intros. apply recX_col_hyps. unfold rec_hyps. tauto. Qed.

(* ------------------------------------------------------------------------------------------- *)
(* the fast paths *)
Lemma spec_col_range m p col : (p < 6)%nat -> (length col <= 251)%nat -> bytes col -> spec_col (matN m) p col < 256.
Proof.
  intros Hp Hl Hb. rewrite spec_col_xsumN. apply xsumN_range. intros i Hi.
  apply gmul_range; [apply matN_range; lia|apply bytes_nth; exact Hb].
Qed.

(* raid_rec1of1: P and the failed block swap places and gen1 is run *)
Lemma rec1of1_hyps m i0 orig col par : rec_hyps m [i0] [0%nat] orig col par ->
  rec1of1_col i0 col par = [nth i0 orig 0].
Proof.
  intros H. pose proof H as [Hg [H1 [H251 [Hsid [Hsip [Hlip [Hbid Hpar]]]]]]].
  destruct Hg as [Ho [Hc [Hl Hag]]].
  destruct (Hpar 0%nat (or_introl eq_refl)) as [_ HP].
  assert (Hi0 : (i0 < length orig)%nat) by (apply Hbid; left; reflexivity).
  assert (HPb : nth 0 par 0 < 256) by (rewrite HP; apply spec_col_range; [lia|exact H251|exact Ho]).
  pose proof (pd_formula m [i0] [0%nat] orig col par 0 H ltac:(cbn; lia)) as EP.
  rewrite (nth_delta_col m [i0] [0%nat] orig col par 0 H) in EP by (cbn; lia).
  cbn [length nth] in EP. rewrite xsumN_S_r, xsumN_0n, N.lxor_0_l in EP. cbn [nth] in EP.
  rewrite mat_row0, gmul_1_l in EP by (apply bytes_nth; exact Ho).
  rewrite <- EP. clear EP.
  set (P := nth 0 par 0) in *.
  set (c := set_nth i0 P col).
  assert (Hcl : length c = length orig) by (unfold c; rewrite set_nth_length; exact Hl).
  assert (Hcb : bytes c).
  { apply bytes_of_nth. intros i _. unfold c. rewrite nth_set_nth. destruct (_ && _)%bool; [exact HPb|apply bytes_nth; exact Hc]. }
  unfold rec1of1_col. fold P. fold c. rewrite col_gen1_ok; [|intros E; rewrite E in Hcl; cbn [length] in Hcl; lia|exact Hcb].
  f_equal. rewrite spec_from_xsumN, Hcl, spec_col_xsumN, zero_at_length, Hl.
  rewrite <- (xsumN_delta (length orig) i0 (fun _ => P)) at 1 by exact Hi0.
  rewrite <- xsumN_lxor. apply xsumN_ext. intros i Hi.
  unfold c_one. rewrite mat_row0, !gmul_1_l by (apply bytes_nth; [exact Hcb || apply bytes_zero_at; exact Hc]).
  unfold c. rewrite nth_set_nth, nth_zero_at. cbn [existsb]. rewrite orb_false_r.
  destruct (Nat.eqb_spec i i0) as [->|Hne]; cbn [andb].
  - assert (E : (i0 <? length col)%nat = true) by (apply Nat.ltb_lt; lia). rewrite E, N.lxor_0_r. reflexivity.
  - rewrite N.lxor_0_l. reflexivity.
Qed.

(* powers of two *)
Lemma pow2N_0 : pow2N 0 = 1. Proof. vm_compute. reflexivity. Qed.

Lemma pow2N_add a b : gmul (pow2N a) (pow2N b) = pow2N (a + b).
Proof.
  induction a as [|a IH].
  - rewrite pow2N_0. apply gmul_1_l. apply pow2N_range.
  - cbn [Nat.add]. rewrite !pow2N_S, <- IH. symmetry. apply gmul_assoc; [lia|apply pow2N_range|apply pow2N_range].
Qed.

Lemma pow2N_inj a b : (a < 255)%nat -> (b < 255)%nat -> pow2N a = pow2N b -> a = b.
Proof.
  intros Ha Hb. unfold pow2N. rewrite !Nat.mod_small by assumption. intros E.
  destruct (logexp a Ha) as [La _]. destruct (logexp b Hb) as [Lb _]. rewrite <- La, <- Lb, E. reflexivity.
Qed.

(* raid_rec2of2_int8: neither pow2() nor inv() can hit BUG_ON for x < y < 251 *)
Lemma rec2of2_hyps m x y orig col par : rec_hyps m [x; y] [0; 1]%nat orig col par ->
  rec2of2_col m [x; y] col par = Some [nth x orig 0; nth y orig 0].
Proof.
  intros H. pose proof H as [Hg [H1 [H251 [Hsid [Hsip [Hlip [Hbid Hpar]]]]]]].
  destruct Hg as [Ho [Hc [Hl Hag]]].
  assert (Hxy : (x < y)%nat).
  { cbn [sorted_lt] in Hsid. apply andb_true_iff in Hsid. destruct Hsid as [Hs _]. apply Nat.ltb_lt. exact Hs. }
  assert (Hy : (y < length orig)%nat) by (apply Hbid; right; left; reflexivity).
  set (Dx := nth x orig 0). set (Dy := nth y orig 0).
  assert (bDx : Dx < 256) by (apply bytes_nth; exact Ho).
  assert (bDy : Dy < 256) by (apply bytes_nth; exact Ho).
  pose proof (pd_formula m [x; y] [0; 1]%nat orig col par 0 H ltac:(cbn; lia)) as EP.
  pose proof (pd_formula m [x; y] [0; 1]%nat orig col par 1 H ltac:(cbn; lia)) as EQ.
  cbn [length nth] in EP, EQ. rewrite !xsumN_S_r, xsumN_0n, N.lxor_0_l in EP, EQ. cbn [nth] in EP, EQ.
  fold Dx Dy in EP, EQ.
  rewrite !mat_row0, !gmul_1_l in EP by assumption.
  rewrite !mat_row1 in EQ by lia.
  unfold rec2of2_col. cbn [nth].
  destruct (Nat.ltb_spec 254 (y - x)) as [?|_]; [lia|].
  destruct (Nat.ltb_spec 254 y) as [?|_]; [lia|]. cbn [orb].
  rewrite !t_gfexp_ok by lia. rewrite !Nat2N.id.
  set (e := pow2N (y - x)) in *. set (u := pow2N x) in *. set (v := pow2N y) in *.
  assert (be : e < 256) by apply pow2N_range.
  assert (bu : u < 256) by apply pow2N_range.
  assert (bv : v < 256) by apply pow2N_range.
  assert (Heu : gmul e u = v).
  { unfold e, u, v. rewrite pow2N_add. f_equal. lia. }
  assert (Ha : N.lxor e 1 <> 0).
  { intros E. apply N.lxor_eq in E. unfold e in E. rewrite <- pow2N_0 in E. apply pow2N_inj in E; lia. }
  assert (Hb : N.lxor u v <> 0).
  { intros E. apply N.lxor_eq in E. unfold u, v in E. apply pow2N_inj in E; lia. }
  destruct (N.eqb_spec (N.lxor e 1) 0) as [?|_]; [contradiction|].
  destruct (N.eqb_spec (N.lxor u v) 0) as [?|_]; [contradiction|]. cbn [orb]. cbv zeta.
  rewrite EP, EQ.
  assert (ba : N.lxor e 1 < 256) by (apply lxor_range; [exact be|lia]).
  assert (bb : N.lxor u v < 256) by (apply lxor_range; assumption).
  rewrite !t_gfinv_ok by assumption.
  destruct (gmul_inv ba Ha) as [_ bia]. destruct (gmul_inv bb Hb) as [_ bib].
  assert (bP : N.lxor Dx Dy < 256) by (apply lxor_range; assumption).
  assert (bQ : N.lxor (gmul u Dx) (gmul v Dy) < 256) by (apply lxor_range; apply gmul_range; assumption).
  rewrite !t_gfmul_ok by assumption.
  rewrite (Bridge.rec2_identityN be bu bv bDx bDy Heu Ha Hb).
  rewrite N.lxor_assoc, N.lxor_nilpotent, N.lxor_0_r. reflexivity.
Qed.

(* raid_rec_ptr[nr-1]: the dispatch between the fast paths and the general routine *)
Lemma rec_data_col_hyps m id ip orig col par : rec_hyps m id ip orig col par ->
  rec_data_col m id ip col par = Some (map (fun d => nth d orig 0) id).
Proof.
  intros H. unfold rec_data_col.
  destruct id as [|a [|b [|c id]]]; destruct ip as [|[|[|p]] [|[|[|q]] [|r ip]]];
    first [ exact (recX_col_hyps _ _ _ _ _ _ H)
          | f_equal; exact (rec1of1_hyps _ _ _ _ _ H)
          | exact (rec2of2_hyps _ _ _ _ _ _ H) ].
Qed.

Theorem rec_data_col_correct m id ip orig col par :
  good m orig col id -> (1 <= length id)%nat -> (length orig <= 251)%nat ->
  sorted_lt id = true -> sorted_lt ip = true -> length ip = length id ->
  (forall d, In d id -> (d < length orig)%nat) ->
  (forall p, In p ip -> (p < rows_of m)%nat /\ nth p par 0 = spec_col (matN m) p orig) ->
  rec_data_col m id ip col par = Some (map (fun d => nth d orig 0) id).
Proof. intros. apply rec_data_col_hyps. unfold rec_hyps. tauto. Qed.
