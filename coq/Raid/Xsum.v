(* XOR-sums indexed by 0..n-1 over N (GF(2^8) addition), with the linear-algebra lemmas needed by the
   recovery proofs, and list facts about sorted_lt.  Stdlib style. *)
From Coq Require Import NArith List Bool Lia Arith.
From Snap.GF Require Import Gf TablesOk.
From Snap.Raid Require Import GenModel GenProofs RecModel.
Import ListNotations.
Local Open Scope N_scope.

Definition xsumN (n : nat) (f : nat -> N) : N := fold_right N.lxor 0%N (map f (seq 0 n)).

Lemma xsumN_0n f : xsumN 0 f = 0. Proof. reflexivity. Qed.

Lemma xsumN_S_l n f : xsumN (S n) f = N.lxor (f 0%nat) (xsumN n (fun i => f (S i))).
Proof.
  unfold xsumN. cbn [seq map fold_right]. f_equal. rewrite <- seq_shift, map_map. reflexivity.
Qed.

Lemma xsumN_S_r n f : xsumN (S n) f = N.lxor (xsumN n f) (f n).
Proof.
  revert f. induction n as [|n IH]; intros f.
  - unfold xsumN. cbn [seq map fold_right]. rewrite N.lxor_0_r, N.lxor_0_l. reflexivity.
  - rewrite xsumN_S_l. rewrite (IH (fun i => f (S i))). rewrite (xsumN_S_l n f).
    rewrite N.lxor_assoc. reflexivity.
Qed.

Lemma xsumN_ext n f g : (forall i, (i < n)%nat -> f i = g i) -> xsumN n f = xsumN n g.
Proof.
  induction n as [|n IH]; intros H; [reflexivity|].
  rewrite !xsumN_S_r. rewrite IH by (intros; apply H; lia). rewrite H by lia. reflexivity.
Qed.

Lemma xsumN_zero n f : (forall i, (i < n)%nat -> f i = 0) -> xsumN n f = 0.
Proof.
  induction n as [|n IH]; intros H; [reflexivity|].
  rewrite xsumN_S_r, IH, H by (intros; try apply H; lia). reflexivity.
Qed.

Lemma xsumN_range n f : (forall i, (i < n)%nat -> f i < 256) -> xsumN n f < 256.
Proof.
  induction n as [|n IH]; intros H; [rewrite xsumN_0n; lia|].
  rewrite xsumN_S_r. apply lxor_range; [apply IH; intros; apply H; lia|apply H; lia].
Qed.

Lemma xsumN_lxor n f g : xsumN n (fun i => N.lxor (f i) (g i)) = N.lxor (xsumN n f) (xsumN n g).
Proof.
  induction n as [|n IH]; [reflexivity|].
  rewrite !xsumN_S_r, IH. apply lxor_swap4.
Qed.

Lemma xsumN_gmul_r n a f : a < 256 -> (forall i, (i < n)%nat -> f i < 256) ->
  gmul a (xsumN n f) = xsumN n (fun i => gmul a (f i)).
Proof.
  intros Ha. induction n as [|n IH]; intros H.
  - rewrite !xsumN_0n. apply gmul_0_r. exact Ha.
  - rewrite !xsumN_S_r. rewrite gmul_distr_r; [|exact Ha|apply xsumN_range; intros; apply H; lia|apply H; lia].
    rewrite IH by (intros; apply H; lia). reflexivity.
Qed.

Lemma xsumN_gmul_l n a f : a < 256 -> (forall i, (i < n)%nat -> f i < 256) ->
  gmul (xsumN n f) a = xsumN n (fun i => gmul (f i) a).
Proof.
  intros Ha H. rewrite gmul_comm; [|apply xsumN_range; exact H|exact Ha].
  rewrite xsumN_gmul_r by assumption. apply xsumN_ext. intros i Hi. apply gmul_comm; [exact Ha|apply H; exact Hi].
Qed.

Lemma xsumN_exchange n m (f : nat -> nat -> N) :
  xsumN n (fun i => xsumN m (fun j => f i j)) = xsumN m (fun j => xsumN n (fun i => f i j)).
Proof.
  induction n as [|n IH].
  - rewrite xsumN_0n. symmetry. apply xsumN_zero. intros; apply xsumN_0n.
  - rewrite xsumN_S_r, IH. rewrite <- xsumN_lxor. apply xsumN_ext. intros j _. rewrite xsumN_S_r. reflexivity.
Qed.

Lemma xsumN_delta n k f : (k < n)%nat -> xsumN n (fun i => if Nat.eqb i k then f i else 0) = f k.
Proof.
  induction n as [|n IH]; intros Hk; [lia|].
  rewrite xsumN_S_r. destruct (Nat.eqb_spec n k) as [->|Hn].
  - rewrite xsumN_zero; [apply N.lxor_0_l|]. intros i Hi. destruct (Nat.eqb_spec i k); [lia|reflexivity].
  - rewrite IH by lia. apply N.lxor_0_r.
Qed.

Lemma fold_left_lxor l a : fold_left N.lxor l a = N.lxor a (fold_right N.lxor 0 l).
Proof.
  revert a. induction l as [|x l IH]; intros a; cbn [fold_left fold_right].
  - rewrite N.lxor_0_r. reflexivity.
  - rewrite IH. rewrite N.lxor_assoc. reflexivity.
Qed.

Lemma fold_left_xsumN n f : fold_left N.lxor (map f (seq 0 n)) 0 = xsumN n f.
Proof. rewrite fold_left_lxor. apply N.lxor_0_l. Qed.

Lemma fold_left_xsumN_a n f a : fold_left N.lxor (map f (seq 0 n)) a = N.lxor a (xsumN n f).
Proof. apply fold_left_lxor. Qed.

(* the specification sum of GenModel.v as an indexed sum *)
Lemma spec_from_xsumN c col : spec_from c 0 col = xsumN (length col) (fun i => gmul (c i) (nth i col 0)).
Proof.
  revert c. induction col as [|b col IH]; intros c; [reflexivity|].
  rewrite spec_from_cons, spec_from_shift, IH. cbn [length]. rewrite xsumN_S_l. reflexivity.
Qed.

Lemma spec_col_xsumN M j col : spec_col M j col = xsumN (length col) (fun i => gmul (M j i) (nth i col 0)).
Proof. rewrite spec_col_from. apply spec_from_xsumN. Qed.

Lemma bytes_nth l i : bytes l -> nth i l 0 < 256.
Proof.
  intros H. destruct (nth_in_or_default i l 0) as [Hi|Hi].
  - unfold bytes in H. rewrite Forall_forall in H. apply H. exact Hi.
  - rewrite Hi. lia.
Qed.

Lemma bytes_of_nth l : (forall i, (i < length l)%nat -> nth i l 0 < 256) -> bytes l.
Proof.
  intros H. apply Forall_forall. intros x Hx. apply (In_nth _ _ 0) in Hx. destruct Hx as [i [Hi <-]]. apply H. exact Hi.
Qed.

(* A(p, d) read from the regenerated table is the closed form *)
Lemma coefA_matN m p d : (p < rows_of m)%nat -> (d < 251)%nat -> coefA m p d = matN m p d.
Proof.
  intros Hp Hd. unfold coefA. rewrite t_gfgen_ok; [rewrite !Nat2N.id; reflexivity| |lia].
  destruct m; cbn [rows_of] in Hp; lia.
Qed.

Lemma coefA_range m p d : (p < rows_of m)%nat -> (d < 251)%nat -> coefA m p d < 256.
Proof.
  intros Hp Hd. rewrite coefA_matN by assumption. apply matN_range; [destruct m; cbn [rows_of] in Hp; lia|exact Hd].
Qed.

Lemma nth_map_seq {A} (f : nat -> A) s m b d : (b < m)%nat -> nth b (map f (seq s m)) d = f (s + b)%nat.
Proof.
  intros Hb. rewrite nth_indep with (d' := f 0%nat) by (rewrite map_length, seq_length; exact Hb).
  rewrite map_nth, seq_nth by exact Hb. reflexivity.
Qed.

Lemma nth_firstn_lt {A} i k (l : list A) d : (i < k)%nat -> nth i (firstn k l) d = nth i l d.
Proof.
  revert i l. induction k as [|k IH]; intros i l H; [lia|].
  destruct l as [|a l]; [reflexivity|]. destruct i as [|i]; [reflexivity|]. cbn [firstn nth]. apply IH. lia.
Qed.

(* ------------------------------------------------------------------------------------------- *)
(* sorted_lt *)
Local Open Scope nat_scope.

Lemma sorted_lt_cons a l : sorted_lt (a :: l) = true -> sorted_lt l = true /\ forall b, In b l -> a < b.
Proof.
  revert a. induction l as [|b l IH]; intros a H.
  - split; [reflexivity|intros b []].
  - cbn [sorted_lt] in H. apply andb_true_iff in H. destruct H as [H1 H2]. apply Nat.ltb_lt in H1.
    split; [exact H2|]. intros c [<-|Hc]; [exact H1|].
    destruct (IH b H2) as [_ H3]. specialize (H3 c Hc). lia.
Qed.

Lemma sorted_lt_cons_intro a l : sorted_lt l = true -> (forall b, In b l -> a < b) -> sorted_lt (a :: l) = true.
Proof.
  intros H1 H2. destruct l as [|b l]; [reflexivity|].
  cbn [sorted_lt]. apply andb_true_iff. split; [apply Nat.ltb_lt; apply H2; left; reflexivity|exact H1].
Qed.

Lemma sorted_lt_nth l i j : sorted_lt l = true -> i < j -> j < length l -> nth i l 0 < nth j l 0.
Proof.
  revert i j. induction l as [|a l IH]; intros i j H Hij Hj; [cbn [length] in Hj; lia|].
  destruct (sorted_lt_cons a l H) as [H1 H2]. cbn [length] in Hj.
  destruct j as [|j]; [lia|]. destruct i as [|i]; cbn [nth].
  - apply H2. apply nth_In. lia.
  - apply IH; [exact H1|lia|lia].
Qed.

Lemma sorted_lt_nth_inj l i j : sorted_lt l = true -> i < length l -> j < length l ->
  nth i l 0 = nth j l 0 -> i = j.
Proof.
  intros H Hi Hj E. destruct (Nat.lt_trichotomy i j) as [L|[L|L]]; [|exact L|].
  - pose proof (sorted_lt_nth l i j H L Hj). lia.
  - pose proof (sorted_lt_nth l j i H L Hi). lia.
Qed.

Lemma sorted_lt_NoDup l : sorted_lt l = true -> NoDup l.
Proof.
  induction l as [|a l IH]; intros H; [constructor|].
  destruct (sorted_lt_cons a l H) as [H1 H2]. constructor; [|apply IH; exact H1].
  intros Hin. specialize (H2 a Hin). lia.
Qed.

Lemma firstn_In {A} k (l : list A) b : In b (firstn k l) -> In b l.
Proof.
  revert l. induction k as [|k IH]; intros l H; [destruct H|].
  destruct l as [|a l]; [destruct H|]. cbn [firstn] in H. destruct H as [<-|H]; [left; reflexivity|right; apply IH; exact H].
Qed.

Lemma sorted_lt_firstn k l : sorted_lt l = true -> sorted_lt (firstn k l) = true.
Proof.
  revert l. induction k as [|k IH]; intros l H; [reflexivity|].
  destruct l as [|a l]; [reflexivity|]. cbn [firstn].
  destruct (sorted_lt_cons a l H) as [H1 H2]. apply sorted_lt_cons_intro; [apply IH; exact H1|].
  intros b Hb. apply H2. apply (firstn_In k l b Hb).
Qed.

Lemma sorted_lt_filter f l : sorted_lt l = true -> sorted_lt (filter f l) = true.
Proof.
  induction l as [|a l IH]; intros H; [reflexivity|].
  destruct (sorted_lt_cons a l H) as [H1 H2]. cbn [filter]. destruct (f a).
  - apply sorted_lt_cons_intro; [apply IH; exact H1|]. intros b Hb. apply filter_In in Hb. apply H2. tauto.
  - apply IH. exact H1.
Qed.

Lemma sorted_lt_seq s n : sorted_lt (seq s n) = true.
Proof.
  revert s. induction n as [|n IH]; intros s; [reflexivity|]. cbn [seq].
  apply sorted_lt_cons_intro; [apply IH|]. intros b Hb. apply in_seq in Hb. lia.
Qed.

Lemma sorted_lt_last l a : sorted_lt l = true -> In a l -> a <= last l 0.
Proof.
  revert a. induction l as [|b l IH]; intros a H Ha; [destruct Ha|].
  destruct (sorted_lt_cons b l H) as [H1 H2].
  destruct l as [|c l]; [destruct Ha as [<-|[]]; cbn; lia|].
  change (last (b :: c :: l) 0) with (last (c :: l) 0).
  destruct Ha as [<-|Ha].
  - assert (b < c) by (apply H2; left; reflexivity). specialize (IH c H1 (or_introl eq_refl)). lia.
  - apply IH; assumption.
Qed.

Lemma last_In (l : list nat) : l <> [] -> In (last l 0) l.
Proof.
  induction l as [|b l IH]; intros H; [contradiction|].
  destruct l as [|c l]; [left; reflexivity|]. right. apply IH. discriminate.
Qed.
