(* C20 -- executable models (definitions only; this file is what gets extracted).

   cmdline/support.c : esc_tag (355-408), esc_shell_multi / esc_shell (410-575, the non-_WIN32 branch)
   cmdline/list.c    : state_list, the `-l` log lines  file: / link_<type>: / summary:
   cmdline/dup.c     : the `-l` log line  dup:
   Byte strings are lists of N (each < 256); C strings end at the first NUL. *)
From Coq Require Import NArith ZArith List Bool Decimal DecimalN DecimalZ.
Import ListNotations.
Local Open Scope N_scope.

Definition bstr := list N.

Fixpoint bstr_eqb (a b : bstr) : bool :=
  match a, b with
  | [], [] => true
  | x :: a', y :: b' => (x =? y) && bstr_eqb a' b'
  | _, _ => false
  end.

(* the prefix of a buffer that C sees as a string *)
Fixpoint cstr (s : bstr) : bstr :=
  match s with
  | [] => []
  | c :: t => if c =? 0 then [] else c :: cstr t
  end.

(* ------------------------------------------------------------------------------------------------ *)
(* esc_tag: the ESCAPE(from, escape, to) cases, default = copy *)
Definition esc_tag_byte (c : N) : bstr :=
  if c =? 10 then [92; 110]          (* LF -> \n *)
  else if c =? 13 then [92; 114]     (* CR -> \r *)
  else if c =? 58 then [92; 100]     (* colon -> \d *)
  else if c =? 92 then [92; 92]      (* backslash -> \\ *)
  else [c].

Fixpoint esc_tag (s : bstr) : bstr :=
  match s with
  | [] => []
  | c :: t => if c =? 0 then [] else esc_tag_byte c ++ esc_tag t
  end.

(* ESC_MAX = PATH_MAX*2 + 1 with PATH_MAX = 4096; every store (the final NUL included) is preceded by
   `if (p == end) goto bail`, so the call survives iff the escaped length is < ESC_MAX. None = exit(EXIT_FAILURE) *)
Definition ESC_MAX : N := 8193.
Definition esc_buf (r : bstr) : option bstr :=
  if N.of_nat (length r) <? ESC_MAX then Some r else None.
Definition esc_tag_buf (s : bstr) : option bstr := esc_buf (esc_tag s).

(* the inverse used by a reader of the log (snapraid itself has none: the log is for the GUI) *)
Definition unesc_tag_code (e : N) : option N :=
  if e =? 110 then Some 10 else if e =? 114 then Some 13 else if e =? 100 then Some 58
  else if e =? 92 then Some 92 else None.

Fixpoint unesc_tag (s : bstr) : option bstr :=
  match s with
  | [] => Some []
  | c :: t =>
    if c =? 92 then
      match t with
      | [] => None
      | e :: t' =>
        match unesc_tag_code e with
        | None => None
        | Some d => option_map (cons d) (unesc_tag t')
        end
      end
    else option_map (cons c) (unesc_tag t)
  end.

(* ------------------------------------------------------------------------------------------------ *)
(* esc_shell (Unix branch): the 21 quoted characters get a backslash in front, everything else (newline,
   carriage return, tab, control and >= 0x80 bytes included) is copied *)
Definition shell_special (c : N) : bool :=
  existsb (N.eqb c)
    [32; 126; 96; 35; 36; 38; 42; 40; 41; 92; 124; 91; 93; 123; 125; 59; 39; 34; 60; 62; 63].
    (* space ~ backquote # $ & * ( ) backslash | [ ] { } ; quote dquote < > ? *)

Definition esc_shell_byte (c : N) : bstr := if shell_special c then [92; c] else [c].

Fixpoint esc_shell (s : bstr) : bstr :=
  match s with
  | [] => []
  | c :: t => if c =? 0 then [] else esc_shell_byte c ++ esc_shell t
  end.

(* esc_shell_multi walks str_map[0..str_max) skipping to the next string at each NUL *)
Definition esc_shell_multi (ss : list bstr) : bstr := concat (map esc_shell ss).
Definition esc_shell_buf (s : bstr) : option bstr := esc_buf (esc_shell s).

Fixpoint unesc_shell (s : bstr) : bstr :=
  match s with
  | [] => []
  | c :: t =>
    if c =? 92 then
      match t with
      | [] => [c]
      | e :: t' => e :: unesc_shell t'
      end
    else c :: unesc_shell t
  end.

(* ------------------------------------------------------------------------------------------------ *)
(* decimal printing: %u / PRIu64 / PRIi64 *)
Fixpoint uint_bytes (d : uint) : bstr :=
  match d with
  | Nil => []
  | D0 d => 48 :: uint_bytes d | D1 d => 49 :: uint_bytes d | D2 d => 50 :: uint_bytes d
  | D3 d => 51 :: uint_bytes d | D4 d => 52 :: uint_bytes d | D5 d => 53 :: uint_bytes d
  | D6 d => 54 :: uint_bytes d | D7 d => 55 :: uint_bytes d | D8 d => 56 :: uint_bytes d
  | D9 d => 57 :: uint_bytes d
  end.

Fixpoint bytes_uint (s : bstr) : option uint :=
  match s with
  | [] => Some Nil
  | c :: t =>
    match bytes_uint t with
    | None => None
    | Some d =>
      if c =? 48 then Some (D0 d) else if c =? 49 then Some (D1 d) else if c =? 50 then Some (D2 d)
      else if c =? 51 then Some (D3 d) else if c =? 52 then Some (D4 d) else if c =? 53 then Some (D5 d)
      else if c =? 54 then Some (D6 d) else if c =? 55 then Some (D7 d) else if c =? 56 then Some (D8 d)
      else if c =? 57 then Some (D9 d) else None
    end
  end.

Definition dec_N (n : N) : bstr := uint_bytes (N.to_uint n).
Definition N_dec (s : bstr) : option N :=
  match s with
  | [] => None
  | _ => option_map N.of_uint (bytes_uint s)
  end.

Definition dec_Z (z : Z) : bstr :=
  match Z.to_int z with
  | Pos d => uint_bytes d
  | Neg d => 45 :: uint_bytes d
  end.
Definition Z_dec (s : bstr) : option Z :=
  match s with
  | [] => None
  | c :: t =>
    if c =? 45 then
      match t with [] => None | _ => option_map (fun d => Z.of_int (Neg d)) (bytes_uint t) end
    else option_map (fun d => Z.of_int (Pos d)) (bytes_uint s)
  end.

(* what printf does with an integer of another type *)
Definition as_u32 (z : Z) : N := Z.to_N (z mod 4294967296).                      (* int printed with %u *)
Definition as_i64 (n : N) : Z :=                                                  (* uint64_t printed with PRIi64 *)
  let m := (Z.of_N n mod 18446744073709551616)%Z in
  if (m <? 9223372036854775808)%Z then m else (m - 18446744073709551616)%Z.

(* ------------------------------------------------------------------------------------------------ *)
(* field and line framing of the log *)
Fixpoint join (sep : N) (fs : list bstr) : bstr :=
  match fs with
  | [] => []
  | f :: r => match r with [] => f | _ => f ++ sep :: join sep r end
  end.

Fixpoint split (sep : N) (s : bstr) : list bstr :=
  match s with
  | [] => [[]]
  | c :: t =>
    if c =? sep then [] :: split sep t
    else match split sep t with
         | f :: r => (c :: f) :: r
         | [] => [[c]]
         end
  end.

(* complete lines (terminated by \n); an unterminated tail is dropped *)
Definition lines (s : bstr) : list bstr := removelast (split 10 s).

(* tags *)
Definition t_file : bstr := [102; 105; 108; 101].
Definition t_dup : bstr := [100; 117; 112].
Definition t_sp_dup : bstr := [32; 100; 117; 112].                                    (* space d u p *)
Definition t_summary : bstr := [115; 117; 109; 109; 97; 114; 121].
Definition t_link_ : bstr := [108; 105; 110; 107; 95].
Definition t_hardlink : bstr := [104; 97; 114; 100; 108; 105; 110; 107].
Definition t_symlink : bstr := [115; 121; 109; 108; 105; 110; 107].
Definition t_symdir : bstr := [115; 121; 109; 100; 105; 114].
Definition t_junction : bstr := [106; 117; 110; 99; 116; 105; 111; 110].
Definition t_unknown : bstr := [117; 110; 107; 110; 111; 119; 110].

Inductive lkind := Hardlink | Symlink | Symdir | Junction | Unknown.

Definition kind_name (k : lkind) : bstr :=
  match k with
  | Hardlink => t_hardlink | Symlink => t_symlink | Symdir => t_symdir | Junction => t_junction
  | Unknown => t_unknown
  end.

Definition kind_of_tag (t : bstr) : option lkind :=
  if bstr_eqb t (t_link_ ++ t_hardlink) then Some Hardlink
  else if bstr_eqb t (t_link_ ++ t_symlink) then Some Symlink
  else if bstr_eqb t (t_link_ ++ t_symdir) then Some Symdir
  else if bstr_eqb t (t_link_ ++ t_junction) then Some Junction
  else if bstr_eqb t (t_link_ ++ t_unknown) then Some Unknown
  else None.

Inductive record :=
| RFile (disk name : bstr) (size : N) (sec : Z) (nsec : N) (inode : Z)
    (* file:%s:%s:%PRIu64:%PRIi64:%u:%PRIi64 *)
| RLink (k : lkind) (disk name linkto : bstr)
    (* link_%s:%s:%s:%s *)
| RDup (disk name disk2 name2 : bstr) (size : N)
    (* dup:%s:%s:%s:%s:%PRIu64: dup *)
| ROther (fields : list bstr).
    (* any other tag line, kept as raw fields *)

Definition fields_of (r : record) : list bstr :=
  match r with
  | RFile d n sz sec ns ino => [t_file; d; esc_tag n; dec_N sz; dec_Z sec; dec_N ns; dec_Z ino]
  | RLink k d n l => [t_link_ ++ kind_name k; d; esc_tag n; esc_tag l]
  | RDup d n d2 n2 sz => [t_dup; d; esc_tag n; d2; esc_tag n2; dec_N sz; t_sp_dup]
  | ROther fs => fs
  end.

Definition print_line (r : record) : bstr := join 58 (fields_of r) ++ [10].

Definition is_typed_tag (t : bstr) : bool :=
  bstr_eqb t t_file || bstr_eqb t t_dup || match kind_of_tag t with Some _ => true | None => false end.

(* None = a line with a known tag that does not have that tag's shape *)
Definition parse_fields (fs : list bstr) : option record :=
  match fs with
  | [] => None
  | t :: rest =>
    if bstr_eqb t t_file then
      match rest with
      | [d; n; sz; sec; ns; ino] =>
        match unesc_tag n, N_dec sz, Z_dec sec, N_dec ns, Z_dec ino with
        | Some n', Some sz', Some sec', Some ns', Some ino' => Some (RFile d n' sz' sec' ns' ino')
        | _, _, _, _, _ => None
        end
      | _ => None
      end
    else if bstr_eqb t t_dup then
      match rest with
      | [d; n; d2; n2; sz; w] =>
        match unesc_tag n, unesc_tag n2, N_dec sz with
        | Some n', Some n2', Some sz' => if bstr_eqb w t_sp_dup then Some (RDup d n' d2 n2' sz') else None
        | _, _, _ => None
        end
      | _ => None
      end
    else
      match kind_of_tag t with
      | Some k =>
        match rest with
        | [d; n; l] =>
          match unesc_tag n, unesc_tag l with
          | Some n', Some l' => Some (RLink k d n' l')
          | _, _ => None
          end
        | _ => None
        end
      | None => Some (ROther fs)
      end
  end.

Definition parse_line (l : bstr) : option record := parse_fields (split 58 l).

(* a whole log: one entry per complete line *)
Definition parse_log (s : bstr) : list (option record) := map parse_line (lines s).
Definition print_log (rs : list record) : bstr := concat (map print_line rs).
