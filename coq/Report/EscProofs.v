(* C20 -- lemmas about the escaping and the log framing *)
From Coq Require Import NArith ZArith List Bool Lia Decimal DecimalN DecimalZ DecimalPos.
From Snap.Report Require Import EscModel.
Import ListNotations.
Local Open Scope N_scope.

Definition no_nul (s : bstr) : Prop := Forall (fun c => c <> 0) s.
Definition field_safe (s : bstr) : Prop := Forall (fun c => c <> 58 /\ c <> 10) s.
Definition tag_clean (s : bstr) : Prop := Forall (fun c => c <> 58 /\ c <> 10 /\ c <> 13 /\ c <> 0) s.

Lemma bstr_eqb_refl a : bstr_eqb a a = true.
Proof. induction a; simpl; [reflexivity|]. now rewrite N.eqb_refl. Qed.

Lemma bstr_eqb_eq a b : bstr_eqb a b = true <-> a = b.
Proof.
  revert b; induction a; destruct b; simpl; split; intro H; try discriminate; try reflexivity.
  - apply andb_true_iff in H as [H1 H2]. apply N.eqb_eq in H1. apply IHa in H2. now subst.
  - injection H as -> ->. now rewrite N.eqb_refl, bstr_eqb_refl.
Qed.

(* ---------------------------------------------------------------------------------------------- *)
(* esc_tag *)
Lemma esc_tag_inverse s : no_nul s -> unesc_tag (esc_tag s) = Some s.
Proof.
  induction 1 as [|c t Hc Ht IH]; [reflexivity|].
  simpl. destruct (c =? 0) eqn:E0; [apply N.eqb_eq in E0; contradiction|].
  unfold esc_tag_byte.
  destruct (c =? 10) eqn:E1; [apply N.eqb_eq in E1; subst; simpl; now rewrite IH|].
  destruct (c =? 13) eqn:E2; [apply N.eqb_eq in E2; subst; simpl; now rewrite IH|].
  destruct (c =? 58) eqn:E3; [apply N.eqb_eq in E3; subst; simpl; now rewrite IH|].
  destruct (c =? 92) eqn:E4; [apply N.eqb_eq in E4; subst; simpl; now rewrite IH|].
  simpl. rewrite E4, IH. reflexivity.
Qed.

Lemma esc_tag_clean s : tag_clean (esc_tag s).
Proof.
  induction s as [|c t IH]; [constructor|].
  simpl. destruct (c =? 0) eqn:E0; [constructor|].
  unfold esc_tag_byte.
  destruct (c =? 10) eqn:E1; [repeat (constructor; [lia|]); exact IH|].
  destruct (c =? 13) eqn:E2; [repeat (constructor; [lia|]); exact IH|].
  destruct (c =? 58) eqn:E3; [repeat (constructor; [lia|]); exact IH|].
  destruct (c =? 92) eqn:E4; [repeat (constructor; [lia|]); exact IH|].
  apply N.eqb_neq in E0, E1, E2, E3. constructor; [tauto|exact IH].
Qed.

Lemma esc_tag_no_separator s : ~ In 58 (esc_tag s) /\ ~ In 10 (esc_tag s) /\ ~ In 13 (esc_tag s) /\ ~ In 0 (esc_tag s).
Proof.
  pose proof (esc_tag_clean s) as H. unfold tag_clean in H. rewrite Forall_forall in H.
  repeat split; intro Hin; apply H in Hin; lia.
Qed.

Lemma tag_clean_safe s : tag_clean s -> field_safe s.
Proof. unfold tag_clean, field_safe. apply Forall_impl. tauto. Qed.

(* the escaped length is at most twice the length: a name shorter than PATH_MAX never bails *)
Lemma esc_tag_length s : (length (esc_tag s) <= 2 * length s)%nat.
Proof.
  induction s as [|c t IH]; [simpl; lia|].
  simpl. destruct (c =? 0); [simpl; lia|].
  rewrite app_length. unfold esc_tag_byte.
  destruct (c =? 10); [simpl; lia|]. destruct (c =? 13); [simpl; lia|].
  destruct (c =? 58); [simpl; lia|]. destruct (c =? 92); simpl; lia.
Qed.

Lemma esc_tag_buf_some s : (length s < 4096)%nat -> esc_tag_buf s = Some (esc_tag s).
Proof.
  intro H. unfold esc_tag_buf, esc_buf. pose proof (esc_tag_length s).
  destruct (N.ltb_spec (N.of_nat (length (esc_tag s))) ESC_MAX) as [_|Hge]; [reflexivity|].
  unfold ESC_MAX in Hge. lia.
Qed.

(* C-string semantics: bytes after the first NUL are not seen *)
Lemma esc_tag_cstr s : esc_tag (cstr s) = esc_tag s.
Proof.
  induction s as [|c t IH]; [reflexivity|]. simpl. destruct (c =? 0) eqn:E; [reflexivity|].
  simpl. now rewrite E, IH.
Qed.

(* ---------------------------------------------------------------------------------------------- *)
(* esc_shell *)
Lemma esc_shell_inverse s : no_nul s -> unesc_shell (esc_shell s) = s.
Proof.
  induction 1 as [|c t Hc Ht IH]; [reflexivity|].
  simpl. destruct (c =? 0) eqn:E0; [apply N.eqb_eq in E0; contradiction|].
  unfold esc_shell_byte. destruct (shell_special c) eqn:Es.
  - simpl. now rewrite IH.
  - simpl. destruct (c =? 92) eqn:E; [apply N.eqb_eq in E; subst; discriminate|]. now rewrite IH.
Qed.

Lemma esc_shell_injective a b : no_nul a -> no_nul b -> esc_shell a = esc_shell b -> a = b.
Proof. intros Ha Hb H. rewrite <- (esc_shell_inverse a Ha), <- (esc_shell_inverse b Hb). now rewrite H. Qed.

Lemma esc_shell_length s : (length (esc_shell s) <= 2 * length s)%nat.
Proof.
  induction s as [|c t IH]; [simpl; lia|].
  simpl. destruct (c =? 0); [simpl; lia|].
  rewrite app_length. unfold esc_shell_byte. destruct (shell_special c); simpl; lia.
Qed.

Lemma esc_shell_app a b : no_nul a -> esc_shell (a ++ b) = esc_shell a ++ esc_shell b.
Proof.
  induction 1 as [|c t Hc Ht IH]; [reflexivity|].
  simpl. destruct (c =? 0) eqn:E; [apply N.eqb_eq in E; contradiction|]. now rewrite IH, app_assoc.
Qed.

(* newline is NOT escaped: the rendering of a name with k newlines spans k+1 lines *)
Lemma esc_shell_keeps_newline a b : no_nul a -> esc_shell (a ++ 10 :: b) = esc_shell a ++ 10 :: esc_shell b.
Proof. intro H. rewrite esc_shell_app by exact H. reflexivity. Qed.

(* ---------------------------------------------------------------------------------------------- *)
(* decimal *)
Lemma bytes_uint_bytes d : bytes_uint (uint_bytes d) = Some d.
Proof. induction d; simpl; try rewrite IHd; reflexivity. Qed.

Definition digits_only (s : bstr) : Prop := Forall (fun c => 48 <= c <= 57) s.
Lemma uint_bytes_digits d : digits_only (uint_bytes d).
Proof. induction d; simpl; constructor; try lia; assumption. Qed.

Lemma uint_bytes_nonnil d : d <> Nil -> uint_bytes d <> [].
Proof. destruct d; simpl; congruence. Qed.

Lemma N_to_uint_nonnil n : N.to_uint n <> Nil.
Proof. destruct n; simpl; [discriminate|apply Unsigned.to_uint_nonnil]. Qed.

Lemma N_dec_dec n : N_dec (dec_N n) = Some n.
Proof.
  unfold N_dec, dec_N. pose proof (uint_bytes_nonnil _ (N_to_uint_nonnil n)) as Hn.
  destruct (uint_bytes (N.to_uint n)) eqn:E; [contradiction|].
  rewrite <- E, bytes_uint_bytes. simpl. now rewrite DecimalN.Unsigned.of_to.
Qed.

Lemma Z_dec_dec z : Z_dec (dec_Z z) = Some z.
Proof.
  unfold Z_dec, dec_Z. pose proof (DecimalZ.of_to z) as Hz.
  destruct (Z.to_int z) as [d|d] eqn:E.
  - assert (Hn : d <> Nil).
    { destruct z; simpl in E; try discriminate; injection E as <-; [discriminate|apply Unsigned.to_uint_nonnil]. }
    pose proof (uint_bytes_digits d) as Hd.
    destruct (uint_bytes d) as [|c t] eqn:Eb; [exfalso; revert Eb; apply uint_bytes_nonnil; exact Hn|].
    pose proof (Forall_inv Hd) as Hc. simpl in Hc.
    destruct (c =? 45) eqn:Ec; [apply N.eqb_eq in Ec; lia|].
    rewrite <- Eb, bytes_uint_bytes. unfold option_map. now rewrite Hz.
  - assert (Hn : d <> Nil).
    { destruct z; simpl in E; try discriminate. injection E as <-. apply Unsigned.to_uint_nonnil. }
    cbv beta iota. change (45 =? 45) with true. cbv iota.
    destruct (uint_bytes d) as [|c t] eqn:Eb; [exfalso; revert Eb; apply uint_bytes_nonnil; exact Hn|].
    rewrite <- Eb, bytes_uint_bytes. unfold option_map. now rewrite Hz.
Qed.

Lemma digits_safe s : digits_only s -> field_safe s.
Proof. unfold digits_only, field_safe. apply Forall_impl. intros; lia. Qed.
Lemma dec_N_safe n : field_safe (dec_N n).
Proof. apply digits_safe, uint_bytes_digits. Qed.
Lemma dec_Z_safe z : field_safe (dec_Z z).
Proof.
  unfold dec_Z. destruct (Z.to_int z); [apply digits_safe, uint_bytes_digits|].
  constructor; [lia|apply digits_safe, uint_bytes_digits].
Qed.

(* ---------------------------------------------------------------------------------------------- *)
(* split / join *)
Lemma split_nonnil sep s : split sep s <> [].
Proof. induction s as [|c t IH]; simpl; [discriminate|]. destruct (c =? sep); [discriminate|]. destruct (split sep t); discriminate. Qed.

Lemma split_nosep sep f : ~ In sep f -> split sep f = [f].
Proof.
  induction f as [|c t IH]; intro H; [reflexivity|].
  simpl. destruct (c =? sep) eqn:E; [apply N.eqb_eq in E; subst; exfalso; apply H; now left|].
  rewrite IH; [reflexivity|]. intro; apply H; now right.
Qed.

Lemma split_app_sep sep f rest : ~ In sep f -> split sep (f ++ sep :: rest) = f :: split sep rest.
Proof.
  induction f as [|c t IH]; intro H.
  - simpl. now rewrite N.eqb_refl.
  - simpl. destruct (c =? sep) eqn:E; [apply N.eqb_eq in E; subst; exfalso; apply H; now left|].
    rewrite IH; [reflexivity|]. intro; apply H; now right.
Qed.

Lemma split_join sep fs : fs <> [] -> Forall (fun f => ~ In sep f) fs -> split sep (join sep fs) = fs.
Proof.
  induction fs as [|f r IH]; intros Hne H; [contradiction|].
  inversion H as [|? ? Hf Hr]; subst. simpl. destruct r as [|g r'].
  - apply split_nosep, Hf.
  - rewrite split_app_sep by exact Hf. f_equal. apply IH; [discriminate|exact Hr].
Qed.

Lemma join_safe fs : Forall field_safe fs -> ~ In 10 (join 58 fs).
Proof.
  induction fs as [|f r IH]; intro H; [simpl; tauto|].
  inversion H as [|? ? Hf Hr]; subst. simpl. destruct r as [|g r'].
  - unfold field_safe in Hf. rewrite Forall_forall in Hf. intro Hin. apply Hf in Hin. lia.
  - intro Hin. apply in_app_or in Hin as [Hin|[Hin|Hin]].
    + unfold field_safe in Hf. rewrite Forall_forall in Hf. apply Hf in Hin. lia.
    + discriminate.
    + now apply IH in Hin.
Qed.

Lemma removelast_app_single {A} (l : list A) x : removelast (l ++ [x]) = l.
Proof. apply removelast_last. Qed.

Lemma split_lines ls : Forall (fun l => ~ In 10 l) ls ->
  split 10 (concat (map (fun l => l ++ [10]) ls)) = ls ++ [[]].
Proof.
  induction 1 as [|l r Hl Hr IH]; [reflexivity|].
  simpl. rewrite <- app_assoc. simpl. rewrite split_app_sep by exact Hl. now rewrite IH.
Qed.

Lemma lines_concat ls : Forall (fun l => ~ In 10 l) ls -> lines (concat (map (fun l => l ++ [10]) ls)) = ls.
Proof. intro H. unfold lines. rewrite split_lines by exact H. apply removelast_last. Qed.

(* ---------------------------------------------------------------------------------------------- *)
(* records *)
Definition rec_ok (r : record) : Prop :=
  match r with
  | RFile d n _ _ _ _ => field_safe d /\ no_nul n
  | RLink _ d n l => field_safe d /\ no_nul n /\ no_nul l
  | RDup d n d2 n2 _ => field_safe d /\ no_nul n /\ field_safe d2 /\ no_nul n2
  | ROther fs => fs <> [] /\ Forall field_safe fs /\ is_typed_tag (hd [] fs) = false
  end.

Lemma safe_not_in s : field_safe s -> ~ In 58 s.
Proof. unfold field_safe. rewrite Forall_forall. intros H Hin. apply H in Hin. lia. Qed.

Lemma lit_safe s : forallb (fun c => negb (c =? 58) && negb (c =? 10)) s = true -> field_safe s.
Proof.
  unfold field_safe. rewrite forallb_forall, Forall_forall. intros H x Hx. apply H in Hx.
  apply andb_true_iff in Hx as [H1 H2]. apply negb_true_iff in H1, H2. apply N.eqb_neq in H1, H2. tauto.
Qed.

Lemma kind_tag_safe k : field_safe (t_link_ ++ kind_name k).
Proof. destruct k; apply lit_safe; reflexivity. Qed.

Ltac safe_field :=
  first [ assumption | solve [apply lit_safe; reflexivity] | apply dec_N_safe | apply dec_Z_safe
        | apply kind_tag_safe | apply tag_clean_safe, esc_tag_clean ].
Ltac safe_fields := repeat (apply Forall_cons; [safe_field|]); apply Forall_nil.

Lemma fields_safe r : rec_ok r -> Forall field_safe (fields_of r) /\ fields_of r <> [].
Proof.
  destruct r; simpl; intro H.
  - destruct H as [Hd Hn]. split; [safe_fields|discriminate].
  - destruct H as (Hd & Hn & Hl). split; [safe_fields|discriminate].
  - destruct H as (Hd & Hn & Hd2 & Hn2). split; [safe_fields|discriminate].
  - destruct H as (Hne & Hs & _). split; assumption.
Qed.

Lemma kind_of_tag_name k : kind_of_tag (t_link_ ++ kind_name k) = Some k.
Proof. destruct k; reflexivity. Qed.

Lemma parse_fields_of r : rec_ok r -> parse_fields (fields_of r) = Some r.
Proof.
  destruct r as [d n sz sec ns ino|k d n l|d n d2 n2 sz|fs]; intro H; red in H; unfold fields_of.
  - destruct H as [Hd Hn]. unfold parse_fields.
    replace (bstr_eqb t_file t_file) with true by reflexivity.
    now rewrite (esc_tag_inverse n Hn), !N_dec_dec, !Z_dec_dec.
  - destruct H as (Hd & Hn & Hl). unfold parse_fields.
    replace (bstr_eqb (t_link_ ++ kind_name k) t_file) with false by (destruct k; reflexivity).
    replace (bstr_eqb (t_link_ ++ kind_name k) t_dup) with false by (destruct k; reflexivity).
    rewrite kind_of_tag_name. now rewrite (esc_tag_inverse n Hn), (esc_tag_inverse l Hl).
  - destruct H as (Hd & Hn & Hd2 & Hn2). unfold parse_fields.
    replace (bstr_eqb t_dup t_file) with false by reflexivity.
    replace (bstr_eqb t_dup t_dup) with true by reflexivity.
    rewrite (esc_tag_inverse n Hn), (esc_tag_inverse n2 Hn2), N_dec_dec.
    replace (bstr_eqb t_sp_dup t_sp_dup) with true by reflexivity. reflexivity.
  - destruct H as (Hne & Hs & Ht). destruct fs as [|t rest]; [contradiction|].
    simpl in Ht. unfold is_typed_tag in Ht. apply orb_false_iff in Ht as [Ht Hk].
    apply orb_false_iff in Ht as [Hf Hdp]. unfold parse_fields. rewrite Hf, Hdp.
    destruct (kind_of_tag t); [discriminate|reflexivity].
Qed.

Lemma tag_line_parse r : rec_ok r -> parse_line (join 58 (fields_of r)) = Some r.
Proof.
  intro H. destruct (fields_safe r H) as [Hs Hne]. unfold parse_line.
  rewrite split_join; [apply parse_fields_of, H|exact Hne|].
  revert Hs. apply Forall_impl. apply safe_not_in.
Qed.

Lemma tag_log_parse rs : Forall rec_ok rs -> parse_log (print_log rs) = map Some rs.
Proof.
  intro H. unfold parse_log, print_log, print_line.
  rewrite <- (map_map (fun r => join 58 (fields_of r)) (fun l => l ++ [10])).
  rewrite lines_concat.
  - rewrite map_map. apply map_ext_in. intros r Hr. rewrite Forall_forall in H. apply tag_line_parse, H, Hr.
  - rewrite Forall_forall. intros l Hl. apply in_map_iff in Hl as (r & <- & Hr).
    rewrite Forall_forall in H. apply join_safe. apply (fields_safe r (H r Hr)).
Qed.
