(* The escapers TRANSLATED from cmdline/support.c on every run (Gen.EscProgs, emitted by harness/gen/escc.py) equal the
   models of Report.EscModel on which C20's inverse / separator-free / injectivity theorems are stated, for every byte
   string. *)
From Coq Require Import NArith List Bool Lia.
From Snap.Gen Require Import EscProgs.
From Snap.Report Require Import EscModel.
Import ListNotations.
Local Open Scope N_scope.

(* case by case, whatever the order of the cases in the switch *)
Lemma t_esc_tag_byte_eq c : t_esc_tag_byte c = esc_tag_byte c.
Proof.
  unfold t_esc_tag_byte, esc_tag_byte.
  repeat match goal with
         | |- context [if c =? ?k then _ else _] => destruct (N.eqb_spec c k); [subst; reflexivity|]
         end.
  reflexivity.
Qed.

Theorem t_esc_tag_eq s : t_esc_tag s = esc_tag s.
Proof.
  induction s as [|c t IH]; [reflexivity|]. cbn [t_esc_tag esc_tag].
  rewrite t_esc_tag_byte_eq, IH. reflexivity.
Qed.

(* PATH_MAX = 4096 on the platform of the model *)
Lemma t_ESC_MAX_eq : t_ESC_MAX 4096 = ESC_MAX.
Proof. reflexivity. Qed.

Theorem t_esc_tag_buf_eq s : t_esc_tag_buf 4096 s = esc_tag_buf s.
Proof. unfold t_esc_tag_buf, esc_tag_buf, esc_buf. cbv zeta. rewrite t_esc_tag_eq, t_ESC_MAX_eq. reflexivity. Qed.

Lemma t_shell_special_eq c : existsb (N.eqb c) t_shell_special_list = shell_special c.
Proof. reflexivity. Qed.

Theorem t_esc_shell_byte_eq c : t_esc_shell_byte c = esc_shell_byte c.
Proof. unfold t_esc_shell_byte, esc_shell_byte. rewrite t_shell_special_eq. reflexivity. Qed.
