(* C20 -- executable model of the terminal (stdout) rendering of `list` (list.c:59-80, 104-109; default FMT_FILE mode,
   not verbose) and of a reader that recovers the records from the byte stream.  Definitions only (extracted).

   A file line is   printf("%12" PRIu64 " ", size); printf("%04u/%02u/%02u %02u:%02u", ...); printf(" ");
                    printf("%s\n", esc_shell(sub))
   A link line is   printf("%12s ", type); printf("                 "); printf("%s -> %s\n", esc_shell(sub), esc_shell(linkto))
   The date is kept as the two tokens the C prints (the check computes them with its own strftime). *)
From Coq Require Import NArith ZArith List Bool.
From Snap.Report Require Import EscModel.
Import ListNotations.
Local Open Scope N_scope.

Inductive trec :=
| TFile (size : N) (d1 d2 : bstr) (name : bstr)
| TLink (k : lkind) (name linkto : bstr).

Definition pad_left (c : N) (w : nat) (s : bstr) : bstr := repeat c (w - length s) ++ s.
Definition t_arrow : bstr := [45; 62].     (* -> *)

Definition term_body (r : trec) : bstr :=
  match r with
  | TFile sz d1 d2 n => pad_left 32 12 (dec_N sz) ++ 32 :: d1 ++ 32 :: d2 ++ 32 :: esc_shell n
  | TLink k n l => pad_left 32 12 (kind_name k) ++ 32 :: repeat 32 17 ++ esc_shell n ++ 32 :: t_arrow ++ 32 :: esc_shell l
  end.
Definition print_term (r : trec) : bstr := term_body r ++ [10].
Definition print_term_list (rs : list trec) : bstr := concat (map print_term rs).

(* ---- reader ---- *)
Definition is_digit (c : N) : bool := (48 <=? c) && (c <=? 57).
Fixpoint after_digits (x : bstr) : bstr :=
  match x with
  | [] => []
  | c :: t => if is_digit c then after_digits t else x
  end.

(* does a record start here?  space followed by space or digit (padded header), or digits, space, digit
   (a size of 12 or more digits followed by the date) *)
Definition rec_start (x : bstr) : bool :=
  match x with
  | [] => false
  | c :: t =>
    if c =? 32 then match t with [] => false | e :: _ => (e =? 32) || is_digit e end
    else if is_digit c then
      match after_digits x with
      | s :: d :: _ => (s =? 32) && is_digit d
      | _ => false
      end
    else false
  end.

Definition is_nil {A} (l : list A) : bool := match l with [] => true | _ => false end.

(* a newline ends a record iff the stream ends there or a record starts right after it *)
Fixpoint split_records (x : bstr) (cur : bstr) : list bstr :=
  match x with
  | [] => if is_nil cur then [] else [cur]
  | c :: t =>
    if (c =? 10) && (is_nil t || rec_start t) then (cur ++ [c]) :: split_records t []
    else split_records t (cur ++ [c])
  end.

(* split at the spaces that are not preceded by an (unconsumed) backslash *)
Fixpoint raw_split (x : bstr) : list bstr :=
  match x with
  | [] => [[]]
  | c :: t =>
    if c =? 92 then
      match t with
      | [] => [[c]]
      | e :: t' => match raw_split t' with f :: r => (c :: e :: f) :: r | [] => [] end
      end
    else if c =? 32 then [] :: raw_split t
    else match raw_split t with f :: r => (c :: f) :: r | [] => [] end
  end.
Definition tokens (x : bstr) : list bstr := filter (fun t => negb (is_nil t)) (raw_split x).

Definition kind_of_name (t : bstr) : option lkind := kind_of_tag (t_link_ ++ t).

Definition decode_rec (r : bstr) : option trec :=
  match rev r with
  | c :: body_rev =>
    if c =? 10 then
      match tokens (rev body_rev) with
      | [a; b; c'; d] =>
        match N_dec a with
        | Some sz => Some (TFile sz b c' (unesc_shell d))
        | None =>
          match kind_of_name a with
          | Some k => if bstr_eqb c' t_arrow then Some (TLink k (unesc_shell b) (unesc_shell d)) else None
          | None => None
          end
        end
      | _ => None
      end
    else None
  | [] => None
  end.

Fixpoint all_some {A} (l : list (option A)) : option (list A) :=
  match l with
  | [] => Some []
  | Some x :: t => option_map (cons x) (all_some t)
  | None :: _ => None
  end.

Definition parse_term (x : bstr) : option (list trec) := all_some (map decode_rec (split_records x [])).
