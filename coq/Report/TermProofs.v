(* C20 -- the stdout stream of `list` is uniquely readable although newlines in names are printed raw:
   every space inside a name is printed as backslash-space, and every record starts with an unescaped space or with
   digits-space-digit, so no line segment produced by a name can be taken for the start of a record. *)
From Coq Require Import NArith ZArith List Bool Lia.
From Snap.Report Require Import EscModel EscProofs TermModel.
Import ListNotations.
Local Open Scope N_scope.

Definition plain (a : bstr) : Prop := Forall (fun c => c <> 92 /\ c <> 32 /\ c <> 10) a.
Definition starts_digit (a : bstr) : Prop := match a with c :: _ => is_digit c = true | [] => False end.

Definition trec_ok (r : trec) : Prop :=
  match r with
  | TFile _ d1 d2 n => plain d1 /\ starts_digit d1 /\ plain d2 /\ d2 <> [] /\ no_nul n /\ n <> []
  | TLink _ n l => no_nul n /\ n <> [] /\ no_nul l /\ l <> []
  end.

(* ---------------------------------------------------------------------------------------------- *)
(* tokens *)
Definition cons_first (a : bstr) (l : list bstr) : list bstr :=
  match l with f :: r => (a ++ f) :: r | [] => [] end.

Lemma cons_first_nil l : cons_first [] l = l.
Proof. destruct l; reflexivity. Qed.

Lemma cons_first_app a b l : cons_first a (cons_first b l) = cons_first (a ++ b) l.
Proof. destruct l; simpl; [reflexivity|]. now rewrite app_assoc. Qed.

Lemma raw_split_plain a y : plain a -> raw_split (a ++ y) = cons_first a (raw_split y).
Proof.
  induction 1 as [|c t (H1 & H2 & _) Ht IH]; [now rewrite cons_first_nil|].
  simpl. apply N.eqb_neq in H1, H2. rewrite H1, H2, IH. destruct (raw_split y); reflexivity.
Qed.

Lemma special_not_nl : shell_special 10 = false. Proof. reflexivity. Qed.
Lemma special_space : shell_special 32 = true. Proof. reflexivity. Qed.
Lemma special_bs : shell_special 92 = true. Proof. reflexivity. Qed.

Lemma raw_split_esc n y : raw_split (esc_shell n ++ y) = cons_first (esc_shell n) (raw_split y).
Proof.
  induction n as [|c t IH]; [simpl; now rewrite cons_first_nil|].
  simpl. destruct (c =? 0); [simpl; now rewrite cons_first_nil|].
  unfold esc_shell_byte. destruct (shell_special c) eqn:Es.
  - simpl. rewrite IH. destruct (raw_split y); reflexivity.
  - simpl. destruct (c =? 92) eqn:E1; [apply N.eqb_eq in E1; subst; discriminate|].
    destruct (c =? 32) eqn:E2; [apply N.eqb_eq in E2; subst; discriminate|].
    rewrite IH. destruct (raw_split y); reflexivity.
Qed.

Lemma raw_split_plain_sp a y : plain a -> raw_split (a ++ 32 :: y) = a :: raw_split y.
Proof. intro H. rewrite raw_split_plain by exact H. simpl. now rewrite app_nil_r. Qed.

Lemma raw_split_esc_sp n y : raw_split (esc_shell n ++ 32 :: y) = esc_shell n :: raw_split y.
Proof. rewrite raw_split_esc. simpl. now rewrite app_nil_r. Qed.

Lemma raw_split_esc_end n : raw_split (esc_shell n) = [esc_shell n].
Proof. rewrite <- (app_nil_r (esc_shell n)) at 1. rewrite raw_split_esc. simpl. now rewrite app_nil_r. Qed.

Lemma raw_split_spaces k y : raw_split (repeat 32 k ++ y) = repeat [] k ++ raw_split y.
Proof. induction k as [|k IH]; [reflexivity|]. simpl. now rewrite IH. Qed.

Lemma filter_empties k (l : list bstr) :
  filter (fun t => negb (is_nil t)) (repeat [] k ++ l) = filter (fun t => negb (is_nil t)) l.
Proof. induction k as [|k IH]; [reflexivity|]. simpl. exact IH. Qed.

Lemma esc_shell_nonnil n : no_nul n -> n <> [] -> esc_shell n <> [].
Proof.
  intros Hn Hne. destruct n as [|c t]; [contradiction|]. inversion Hn as [|? ? Hc _]; subst.
  simpl. destruct (c =? 0) eqn:E; [apply N.eqb_eq in E; contradiction|].
  unfold esc_shell_byte. destruct (shell_special c); discriminate.
Qed.

Lemma digits_plain s : digits_only s -> plain s.
Proof. unfold digits_only, plain. apply Forall_impl. intros; lia. Qed.

Lemma kind_plain k : plain (kind_name k).
Proof. destruct k; repeat constructor; lia. Qed.

Lemma dec_N_nonnil n : dec_N n <> [].
Proof. apply uint_bytes_nonnil, N_to_uint_nonnil. Qed.

Lemma nonnil_true (t : bstr) : t <> [] -> negb (is_nil t) = true.
Proof. destruct t; [contradiction|reflexivity]. Qed.

Lemma tokens_file sz d1 d2 n : trec_ok (TFile sz d1 d2 n) ->
  tokens (term_body (TFile sz d1 d2 n)) = [dec_N sz; d1; d2; esc_shell n].
Proof.
  intros (P1 & S1 & P2 & N2 & Hn & Hne). unfold tokens, term_body, pad_left.
  rewrite <- app_assoc, raw_split_spaces, filter_empties.
  rewrite raw_split_plain_sp by (apply digits_plain, uint_bytes_digits).
  rewrite raw_split_plain_sp by exact P1. rewrite raw_split_plain_sp by exact P2. rewrite raw_split_esc_end.
  simpl. rewrite (nonnil_true _ (dec_N_nonnil sz)), (nonnil_true d2 N2), (nonnil_true _ (esc_shell_nonnil n Hn Hne)).
  destruct d1; [contradiction|reflexivity].
Qed.

Lemma tokens_link k n l : trec_ok (TLink k n l) ->
  tokens (term_body (TLink k n l)) = [kind_name k; esc_shell n; t_arrow; esc_shell l].
Proof.
  intros (Hn & Hne & Hl & Hle). unfold tokens, term_body, pad_left.
  rewrite <- app_assoc, raw_split_spaces, filter_empties.
  rewrite raw_split_plain_sp by apply kind_plain.
  change (filter ?f (?a :: ?l)) with (if f a then a :: filter f l else filter f l).
  rewrite raw_split_spaces, filter_empties, raw_split_esc_sp.
  change (t_arrow ++ 32 :: esc_shell l) with ([45; 62] ++ 32 :: esc_shell l).
  rewrite raw_split_plain_sp by (repeat constructor; lia). rewrite raw_split_esc_end.
  simpl. rewrite (nonnil_true _ (esc_shell_nonnil n Hn Hne)), (nonnil_true _ (esc_shell_nonnil l Hl Hle)).
  destruct k; reflexivity.
Qed.

Lemma decode_print r : trec_ok r -> decode_rec (print_term r) = Some r.
Proof.
  intro H. unfold decode_rec, print_term. rewrite rev_unit, N.eqb_refl, rev_involutive.
  destruct r as [sz d1 d2 n|k n l].
  - rewrite (tokens_file _ _ _ _ H). rewrite N_dec_dec. destruct H as (_ & _ & _ & _ & Hn & _).
    now rewrite (esc_shell_inverse n Hn).
  - rewrite (tokens_link _ _ _ H). destruct H as (Hn & _ & Hl & _).
    replace (N_dec (kind_name k)) with (@None N) by (destruct k; reflexivity).
    unfold kind_of_name. rewrite kind_of_tag_name.
    replace (bstr_eqb t_arrow t_arrow) with true by reflexivity.
    now rewrite (esc_shell_inverse n Hn), (esc_shell_inverse l Hl).
Qed.

(* ---------------------------------------------------------------------------------------------- *)
(* record boundaries *)
Definition ad_bad (x : bstr) : bool :=
  match after_digits x with s :: d :: _ => (s =? 32) && is_digit d | _ => false end.

Lemma rec_start_unfold c t : rec_start (c :: t) =
  if c =? 32 then match t with [] => false | e :: _ => (e =? 32) || is_digit e end
  else if is_digit c then ad_bad (c :: t) else false.
Proof. reflexivity. Qed.

(* what can follow a name inside a record: the final newline, or the " -> " of a link line *)
Definition follows_name (y : bstr) : Prop :=
  match y with
  | c :: t => c = 10 \/ (c = 32 /\ match t with d :: _ => d = 45 | [] => False end)
  | [] => False
  end.

Lemma ad_bad_follow y : follows_name y -> ad_bad y = false.
Proof.
  destruct y as [|c t]; [contradiction|]. intros [->|[-> H]]; [destruct t; reflexivity|].
  destruct t as [|d t']; [contradiction|]. subst. reflexivity.
Qed.

Lemma ad_bad_esc u y : follows_name y -> ad_bad (esc_shell u ++ y) = false.
Proof.
  intro Hy. induction u as [|c t IH]; [simpl; now apply ad_bad_follow|].
  simpl. destruct (c =? 0); [simpl; now apply ad_bad_follow|].
  unfold esc_shell_byte. destruct (shell_special c) eqn:Es; [reflexivity|].
  simpl app. unfold ad_bad. simpl after_digits. destruct (is_digit c) eqn:Ed; [exact IH|].
  destruct (c =? 32) eqn:E; [apply N.eqb_eq in E; subst; discriminate|].
  destruct (esc_shell t ++ y); reflexivity.
Qed.

Lemma not_start_esc u y : follows_name y -> rec_start (esc_shell u ++ y) = false.
Proof.
  intro Hy.
  assert (Hbase : rec_start y = false).
  { destruct y as [|c t]; [reflexivity|]. destruct Hy as [->|[-> H]]; [reflexivity|].
    destruct t as [|d t']; [contradiction|]. subst. reflexivity. }
  destruct u as [|c t]; [exact Hbase|].
  simpl. destruct (c =? 0); [exact Hbase|].
  unfold esc_shell_byte. destruct (shell_special c) eqn:Es; [reflexivity|].
  simpl app. rewrite rec_start_unfold.
  destruct (c =? 32) eqn:E; [apply N.eqb_eq in E; subst; discriminate|].
  destruct (is_digit c) eqn:Ed; [|reflexivity].
  change (c :: esc_shell t ++ y) with (esc_shell_byte c ++ esc_shell t ++ y) || idtac.
  unfold ad_bad. simpl after_digits. rewrite Ed. apply (ad_bad_esc t y Hy).
Qed.

Lemma app_split_cases (a b p q : bstr) : a ++ b = p ++ 10 :: q ->
  (exists a2, a = p ++ 10 :: a2 /\ q = a2 ++ b) \/ (exists b1, p = a ++ b1 /\ b = b1 ++ 10 :: q).
Proof.
  revert p. induction a as [|x a IH]; intros p H.
  - right. exists p. split; [reflexivity|exact H].
  - destruct p as [|y p]; simpl in H; injection H as -> H.
    + left. exists a. split; [reflexivity|now subst].
    + destruct (IH p H) as [(a2 & -> & ->)|(b1 & -> & ->)].
      * left. exists a2. split; reflexivity.
      * right. exists b1. split; reflexivity.
Qed.

Lemma no_nl_split (a p q : bstr) : ~ In 10 a -> a <> p ++ 10 :: q.
Proof. intros H E. apply H. rewrite E. apply in_or_app. right. now left. Qed.

Lemma esc_shell_suffix n : forall p q, esc_shell n = p ++ 10 :: q -> exists u, q = esc_shell u.
Proof.
  induction n as [|c t IH]; intros p q H; [destruct p; discriminate|].
  simpl in H. destruct (c =? 0); [destruct p; discriminate|].
  unfold esc_shell_byte in H. destruct (shell_special c) eqn:Es.
  - destruct p as [|x p]; [discriminate|]. simpl in H. injection H as _ H.
    destruct p as [|y p]; simpl in H.
    + injection H as -> _. discriminate.
    + injection H as _ H. now apply (IH p q).
  - destruct p as [|x p]; simpl in H; injection H as Hc H.
    + exists t. now subst.
    + now apply (IH p q).
Qed.

Lemma plain_no_nl a : plain a -> ~ In 10 a.
Proof. unfold plain. rewrite Forall_forall. intros H Hin. apply H in Hin. lia. Qed.

Lemma spaces_no_nl k : ~ In 10 (repeat 32 k).
Proof. intro H. apply repeat_spec in H. discriminate. Qed.

Lemma in_app_not (a b : bstr) x : ~ In x a -> ~ In x b -> ~ In x (a ++ b).
Proof. intros Ha Hb H. apply in_app_or in H as [H|H]; auto. Qed.

Lemma in_cons_not (a : bstr) x c : c <> x -> ~ In x a -> ~ In x (c :: a).
Proof. intros Hc Ha [H|H]; auto. Qed.

(* no newline inside a record body is followed by something that looks like the start of a record *)
Lemma body_internal r s : trec_ok r -> forall p q, term_body r = p ++ 10 :: q -> rec_start (q ++ 10 :: s) = false.
Proof.
  intros Hok p q E. destruct r as [sz d1 d2 n|k n l].
  - destruct Hok as (P1 & S1 & P2 & N2 & Hn & Hne). unfold term_body in E.
    set (hdr := pad_left 32 12 (dec_N sz) ++ 32 :: d1 ++ 32 :: d2 ++ [32]).
    assert (Eh : pad_left 32 12 (dec_N sz) ++ 32 :: d1 ++ 32 :: d2 ++ 32 :: esc_shell n = hdr ++ esc_shell n).
    { unfold hdr. rewrite <- !app_assoc. simpl. rewrite <- !app_assoc. simpl. rewrite <- !app_assoc. reflexivity. }
    rewrite Eh in E.
    assert (Hh : ~ In 10 hdr).
    { unfold hdr, pad_left.
      apply in_app_not; [apply in_app_not; [apply spaces_no_nl|apply plain_no_nl, digits_plain, uint_bytes_digits]|].
      apply in_cons_not; [discriminate|]. apply in_app_not; [now apply plain_no_nl|].
      apply in_cons_not; [discriminate|]. apply in_app_not; [now apply plain_no_nl|].
      intros [H|[]]; discriminate. }
    destruct (app_split_cases _ _ _ _ E) as [(a2 & Ea & _)|(b1 & _ & Eb)]; [exfalso; revert Ea; now apply no_nl_split|].
    destruct (esc_shell_suffix _ _ _ Eb) as (u & ->). apply not_start_esc. simpl. now left.
  - destruct Hok as (Hn & Hne & Hl & Hle). unfold term_body in E.
    set (hdr := pad_left 32 12 (kind_name k) ++ 32 :: repeat 32 17).
    set (mid := [32; 45; 62; 32]).
    assert (Eh : pad_left 32 12 (kind_name k) ++ 32 :: repeat 32 17 ++ esc_shell n ++ 32 :: t_arrow ++ 32 :: esc_shell l
                 = hdr ++ esc_shell n ++ mid ++ esc_shell l).
    { unfold hdr, mid. rewrite <- !app_assoc. reflexivity. }
    rewrite Eh in E.
    assert (Hh : ~ In 10 hdr).
    { unfold hdr, pad_left.
      apply in_app_not; [apply in_app_not; [apply spaces_no_nl|apply plain_no_nl, kind_plain]|].
      apply in_cons_not; [discriminate|apply spaces_no_nl]. }
    destruct (app_split_cases _ _ _ _ E) as [(a2 & Ea & _)|(b1 & _ & Eb)]; [exfalso; revert Ea; now apply no_nl_split|].
    destruct (app_split_cases _ _ _ _ Eb) as [(a2 & Ea & ->)|(b2 & _ & Eb2)].
    + destruct (esc_shell_suffix _ _ _ Ea) as (u & ->). rewrite <- app_assoc. apply not_start_esc.
      unfold mid. simpl. right. split; reflexivity.
    + destruct (app_split_cases _ _ _ _ Eb2) as [(a3 & Ea & _)|(b3 & _ & Eb3)].
      * exfalso. revert Ea. apply no_nl_split. unfold mid. simpl. intuition discriminate.
      * destruct (esc_shell_suffix _ _ _ Eb3) as (u & ->). apply not_start_esc. simpl. now left.
Qed.

Lemma after_digits_run d y : digits_only d -> after_digits (d ++ 32 :: y) = 32 :: y.
Proof.
  induction 1 as [|c t Hc Ht IH]; [reflexivity|].
  simpl. unfold is_digit. destruct (N.leb_spec 48 c); [|lia]. destruct (N.leb_spec c 57); [|lia]. exact IH.
Qed.

Lemma digit_is c : 48 <= c <= 57 -> is_digit c = true.
Proof. intro H. unfold is_digit. destruct (N.leb_spec 48 c); [|lia]. destruct (N.leb_spec c 57); [reflexivity|lia]. Qed.

Lemma rec_start_print r y : trec_ok r -> rec_start (print_term r ++ y) = true.
Proof.
  intro Hok. destruct r as [sz d1 d2 n|k n l].
  - destruct Hok as (P1 & S1 & P2 & N2 & Hn & Hne). unfold print_term, term_body, pad_left.
    pose proof (uint_bytes_digits (N.to_uint sz)) as Hd. fold (dec_N sz) in Hd.
    pose proof (dec_N_nonnil sz) as Hnn.
    destruct (12 - length (dec_N sz))%nat as [|j].
    + simpl repeat. simpl app. destruct (dec_N sz) as [|c t] eqn:Ed; [contradiction|].
      pose proof (Forall_inv Hd) as Hc. simpl in Hc.
      rewrite <- !app_assoc. simpl app. rewrite rec_start_unfold.
      destruct (c =? 32) eqn:E; [apply N.eqb_eq in E; lia|]. rewrite (digit_is c Hc).
      unfold ad_bad.
      match goal with |- context [after_digits (c :: t ++ 32 :: ?z)] =>
        change (c :: t ++ 32 :: z) with ((c :: t) ++ 32 :: z); rewrite (after_digits_run (c :: t) z Hd) end.
      destruct d1 as [|e d1']; [contradiction|]. simpl. simpl in S1. now rewrite S1.
    + simpl repeat. rewrite <- !app_assoc. simpl app. rewrite rec_start_unfold. simpl.
      destruct j; simpl.
      * destruct (dec_N sz) as [|c t]; [contradiction|]. simpl. pose proof (Forall_inv Hd) as Hc. simpl in Hc.
        rewrite (digit_is c Hc). apply orb_true_r.
      * reflexivity.
  - destruct k; reflexivity.
Qed.

Lemma split_one body : forall s cur,
  (forall p q, body = p ++ 10 :: q -> rec_start (q ++ 10 :: s) = false) ->
  (s = [] \/ rec_start s = true) ->
  split_records ((body ++ [10]) ++ s) cur = (cur ++ body ++ [10]) :: split_records s [].
Proof.
  induction body as [|c b IH]; intros s cur Hint Hs.
  - simpl. replace (is_nil s || rec_start s) with true; [reflexivity|].
    destruct Hs as [-> | ->]; [reflexivity|now rewrite orb_true_r].
  - simpl. destruct (c =? 10) eqn:E.
    + apply N.eqb_eq in E. subst c.
      assert (Hb : rec_start ((b ++ [10]) ++ s) = false).
      { rewrite <- app_assoc. simpl. apply (Hint [] b). reflexivity. }
      rewrite Hb. replace (is_nil ((b ++ [10]) ++ s)) with false by (destruct b; reflexivity). simpl.
      rewrite IH; [now rewrite <- app_assoc|intros p q Ep; apply (Hint (10 :: p) q); now rewrite Ep|exact Hs].
    + simpl. rewrite IH; [now rewrite <- app_assoc|intros p q Ep; apply (Hint (c :: p) q); now rewrite Ep|exact Hs].
Qed.

Lemma split_records_print rs : Forall trec_ok rs -> split_records (print_term_list rs) [] = map print_term rs.
Proof.
  induction 1 as [|r t Hr Ht IH]; [reflexivity|].
  unfold print_term_list in *. simpl concat. unfold print_term at 1.
  rewrite split_one.
  - simpl. now rewrite IH.
  - intros p q. now apply body_internal.
  - destruct Ht as [|r' t' Hr' _]; [now left|right]. simpl. now apply rec_start_print.
Qed.

Lemma all_some_map {A} (l : list A) : all_some (map Some l) = Some l.
Proof. induction l as [|x t IH]; [reflexivity|]. simpl. now rewrite IH. Qed.

Theorem term_framing rs : Forall trec_ok rs -> parse_term (print_term_list rs) = Some rs.
Proof.
  intro H. unfold parse_term. rewrite split_records_print by exact H. rewrite map_map.
  transitivity (all_some (map Some rs)); [|apply all_some_map]. f_equal. apply map_ext_in. intros r Hr.
  rewrite Forall_forall in H. now apply decode_print, H.
Qed.

Corollary term_injective rs1 rs2 : Forall trec_ok rs1 -> Forall trec_ok rs2 ->
  print_term_list rs1 = print_term_list rs2 -> rs1 = rs2.
Proof. intros H1 H2 E. apply term_framing in H1, H2. rewrite E in H1. congruence. Qed.
