(* C20 -- executable models of the derived views: state_list (list.c), state_dup (dup.c), the counting loop of
   state_status (status.c:280-352).  Definitions only (extracted). *)
From Coq Require Import NArith ZArith List Bool.
From Snap.Report Require Import EscModel.
Import ListNotations.
Local Open Scope N_scope.

(* ------------------------------------------------------------------------------------------------ *)
(* the part of the recorded state the views read *)
Record file := mkfile {
  f_sub : bstr;                 (* file->sub *)
  f_size : N;                   (* file->size, data_off_t *)
  f_sec : Z;                    (* file->mtime_sec, int64_t *)
  f_nsec : Z;                   (* file->mtime_nsec, int; STAT_NSEC_INVALID = -1 *)
  f_inode : N;                  (* file->inode, uint64_t *)
  f_blocks : list (N * bstr)    (* block state, block hash (BLOCK_HASH_SIZE bytes) for i < blockmax *)
}.
Record link := mklink { l_sub : bstr; l_to : bstr; l_kind : lkind }.
Record disk := mkdisk { d_name : bstr; d_files : list file; d_links : list link }.

(* strcmp: unsigned byte order, a proper prefix is smaller *)
Fixpoint bcmp (a b : bstr) : comparison :=
  match a, b with
  | [], [] => Eq
  | [], _ :: _ => Lt
  | _ :: _, [] => Gt
  | x :: a', y :: b' => match x ?= y with Eq => bcmp a' b' | c => c end
  end.
Definition bltb (a b : bstr) : bool := match bcmp a b with Lt => true | _ => false end.

(* tommy_list_sort is a stable merge sort; a stable insertion sort gives the same list *)
Section Sort.
  Context {A : Type} (key : A -> bstr).
  Fixpoint insert (x : A) (l : list A) : list A :=
    match l with
    | [] => [x]
    | y :: t => if bltb (key y) (key x) then y :: insert x t else x :: l
    end.
  Definition ssort (l : list A) : list A := fold_right insert [] l.
End Sort.

Definition file_rec (d : disk) (f : file) : record :=
  RFile (d_name d) (f_sub f) (f_size f) (f_sec f) (as_u32 (f_nsec f)) (as_i64 (f_inode f)).
Definition link_rec (d : disk) (l : link) : record := RLink (l_kind l) (d_name d) (l_sub l) (l_to l).

(* for each disk: the files sorted by path, then the links sorted by path *)
Definition list_disk (d : disk) : list record :=
  map (file_rec d) (ssort f_sub (d_files d)) ++ map (link_rec d) (ssort l_sub (d_links d)).
Definition list_records (st : list disk) : list record := flat_map list_disk st.

Definition t_file_count : bstr := [102; 105; 108; 101; 95; 99; 111; 117; 110; 116].
Definition t_file_size : bstr := [102; 105; 108; 101; 95; 115; 105; 122; 101].
Definition t_link_count : bstr := [108; 105; 110; 107; 95; 99; 111; 117; 110; 116].
Definition t_exit : bstr := [101; 120; 105; 116].
Definition t_ok : bstr := [111; 107].

Definition all_files (st : list disk) : list file := flat_map d_files st.
Definition all_links (st : list disk) : list link := flat_map d_links st.

(* unsigned file_count, link_count; data_off_t file_size *)
Definition list_summary (st : list disk) : list record :=
  [ ROther [t_summary; t_file_count; dec_N (N.of_nat (length (all_files st)) mod 4294967296)];
    ROther [t_summary; t_file_size; dec_N (fold_right (fun f a => f_size f + a) 0 (all_files st) mod 18446744073709551616)];
    ROther [t_summary; t_link_count; dec_N (N.of_nat (length (all_links st)) mod 4294967296)];
    ROther [t_summary; t_exit; t_ok] ].

Definition list_log (st : list disk) : bstr := print_log (list_records st ++ list_summary st).

(* ------------------------------------------------------------------------------------------------ *)
(* dup.c *)
Definition BLK : N := 1.
Definition CHG : N := 2.
Definition REP : N := 3.
Definition DELETED : N := 4.
Definition block_has_updated_hash (s : N) : bool := (s =? BLK) || (s =? REP).
Definition block_has_file (s : N) : bool := (s =? BLK) || (s =? CHG) || (s =? REP).
Definition block_has_invalid_parity (s : N) : bool := (s =? DELETED) || (s =? CHG) || (s =? REP).

(* hash_alloc: the buffer of all block hashes, or 0 at the first block without an updated hash *)
Fixpoint hash_buf (bl : list (N * bstr)) : option bstr :=
  match bl with
  | [] => Some []
  | (s, h) :: t =>
    if block_has_updated_hash s then option_map (app h) (hash_buf t) else None
  end.

Definition entry := (bstr * file)%type.        (* disk name, file *)

Section Dup.
  Variable filehash : bstr -> bstr.            (* memhash(state->besthash, state->hashseed, ., buf, len) *)

  Definition hash_alloc (f : file) : option bstr := option_map filehash (hash_buf (f_blocks f)).

  Fixpoint find_hash (h : bstr) (seen : list (bstr * entry)) : option entry :=
    match seen with
    | [] => None
    | (h', e) :: t => if bstr_eqb h' h then Some e else find_hash h t
    end.

  (* the double loop of state_dup over disks and files (in list order, no sorting), with the hash set *)
  Fixpoint dup_loop (es : list entry) (seen : list (bstr * entry)) : list (entry * entry) :=
    match es with
    | [] => []
    | e :: t =>
      if f_size (snd e) =? 0 then dup_loop t seen
      else match hash_alloc (snd e) with
           | None => dup_loop t seen
           | Some h =>
             match find_hash h seen with
             | Some g => (e, g) :: dup_loop t seen
             | None => dup_loop t (seen ++ [(h, e)])
             end
           end
    end.

  Definition entries (st : list disk) : list entry := flat_map (fun d => map (pair (d_name d)) (d_files d)) st.
  Definition dup_report (st : list disk) : list (entry * entry) := dup_loop (entries st) [].
  Definition dup_rec (p : entry * entry) : record :=
    let '((d, f), (d2, f2)) := p in RDup d (f_sub f) d2 (f_sub f2) (f_size f2).
  Definition dup_records (st : list disk) : list record := map dup_rec (dup_report st).
End Dup.

(* ------------------------------------------------------------------------------------------------ *)
(* status.c: the loop `for (i = 0; i < blockmax; ++i)` at 286-345 *)
Record sstate := mksstate {
  s_infos : list N;             (* info_get(&state->infoarr, i); 0 beyond the array *)
  s_disks : list (list N)       (* block state of fs_par2block_find(disk, i); EMPTY = 0 beyond *)
}.
Definition info_at (s : sstate) (i : nat) : N := nth i (s_infos s) 0.
Definition info_bad (x : N) : bool := N.testbit x 0.
Definition info_rehash (x : N) : bool := N.testbit x 1.
Definition info_justsynced (x : N) : bool := N.testbit x 2.
Definition one_valid (s : sstate) (i : nat) : bool := existsb (fun d => block_has_file (nth i d 0)) (s_disks s).
Definition one_invalid (s : sstate) (i : nat) : bool :=
  existsb (fun d => block_has_invalid_parity (nth i d 0)) (s_disks s).

Record counters := mkcnt {
  c_bad : N; c_bad_first : N; c_bad_last : N; c_rehash : N; c_count : N; c_unsynced : N; c_unscrubbed : N }.

Definition status_step (s : sstate) (c : counters) (i : nat) : counters :=
  let info := info_at s i in
  let c1 := if one_invalid s i && one_valid s i
            then mkcnt (c_bad c) (c_bad_first c) (c_bad_last c) (c_rehash c) (c_count c) (c_unsynced c + 1) (c_unscrubbed c)
            else c in
  if info =? 0 then c1
  else
    let c2 := if info_bad info
              then mkcnt (c_bad c1 + 1) (if c_bad c1 =? 0 then N.of_nat i else c_bad_first c1) (N.of_nat i)
                         (c_rehash c1) (c_count c1) (c_unsynced c1) (c_unscrubbed c1)
              else c1 in
    let c3 := if info_rehash info
              then mkcnt (c_bad c2) (c_bad_first c2) (c_bad_last c2) (c_rehash c2 + 1) (c_count c2) (c_unsynced c2) (c_unscrubbed c2)
              else c2 in
    let c4 := if info_justsynced info
              then mkcnt (c_bad c3) (c_bad_first c3) (c_bad_last c3) (c_rehash c3) (c_count c3) (c_unsynced c3) (c_unscrubbed c3 + 1)
              else c3 in
    mkcnt (c_bad c4) (c_bad_first c4) (c_bad_last c4) (c_rehash c4) (c_count c4 + 1) (c_unsynced c4) (c_unscrubbed c4).

Definition status_count (s : sstate) (blockmax : nat) : counters :=
  fold_left (status_step s) (seq 0 blockmax) (mkcnt 0 0 0 0 0 0 0).

(* ------------------------------------------------------------------------------------------------ *)
(* status.c:141-150: the per-disk loop logs the files with a zero sub-second time stamp (name through esc_tag):
     if (disk_file_zerosubsecond < 50)  log_tag("zerosubsecond:%s:%s: \n", disk->name, esc_tag(file->sub, esc_buffer));
     if (disk_file_zerosubsecond == 50) log_tag("zerosubsecond:%s:%s: (more follow)\n", disk->name, esc_tag(file->sub, esc_buffer)); *)
Definition t_zerosub : bstr := [122; 101; 114; 111; 115; 117; 98; 115; 101; 99; 111; 110; 100].
Definition t_more_follow : bstr := [40; 109; 111; 114; 101; 32; 102; 111; 108; 108; 111; 119; 41].
Definition is_zerosub (f : file) : bool := (f_nsec f =? -1)%Z || (f_nsec f =? 0)%Z.

(* the logged entries: (name, text after the space of the last field); unsigned disk_file_zerosubsecond *)
Fixpoint zerosub_entries (fs : list file) (k : N) : list (bstr * bstr) :=
  match fs with
  | [] => []
  | f :: t =>
    if is_zerosub f then
      let k' := (k + 1) mod 4294967296 in
      (if k' <? 50 then [(f_sub f, [])]
       else if k' =? 50 then [(f_sub f, t_more_follow)] else [])
      ++ zerosub_entries t k'
    else zerosub_entries t k
  end.

Definition zerosub_rec (d : bstr) (p : bstr * bstr) : record := ROther [t_zerosub; d; esc_tag (fst p); 32 :: snd p].
Definition zerosub_lines (d : bstr) (fs : list file) (k : N) : bstr := print_log (map (zerosub_rec d) (zerosub_entries fs k)).
