(* C20 -- lemmas about the list / dup / status models *)
From Coq Require Import NArith ZArith List Bool Lia Permutation Sorting.Sorted.
From Snap.Report Require Import EscModel EscProofs ViewModel.
Import ListNotations.
Local Open Scope N_scope.

(* ---------------------------------------------------------------------------------------------- *)
(* sorting *)
Lemma bcmp_antisym a b : bcmp b a = CompOpp (bcmp a b).
Proof.
  revert b; induction a as [|x a IH]; destruct b as [|y b]; simpl; try reflexivity.
  rewrite (N.compare_antisym x y). destruct (x ?= y); simpl; [apply IH|reflexivity|reflexivity].
Qed.

Lemma bltb_asym a b : bltb a b = true -> bltb b a = false.
Proof. unfold bltb. rewrite (bcmp_antisym a b). destruct (bcmp a b); simpl; congruence. Qed.

Section SortProofs.
  Context {A : Type} (key : A -> bstr).
  Definition le_key (a b : A) : Prop := bltb (key b) (key a) = false.

  Lemma insert_perm x l : Permutation (insert key x l) (x :: l).
  Proof.
    induction l as [|y t IH]; simpl; [reflexivity|].
    destruct (bltb (key y) (key x)); [|reflexivity].
    rewrite IH. apply perm_swap.
  Qed.

  Lemma ssort_perm l : Permutation (ssort key l) l.
  Proof.
    induction l as [|x t IH]; simpl; [reflexivity|].
    unfold ssort in *. simpl. rewrite insert_perm. now constructor.
  Qed.

  Lemma insert_hdrel y x t : le_key y x -> HdRel le_key y t -> HdRel le_key y (insert key x t).
  Proof.
    intros Hyx Ht. destruct t as [|z t']; simpl; [now constructor|].
    destruct (bltb (key z) (key x)); constructor; [now inversion Ht|exact Hyx].
  Qed.

  Lemma insert_sorted x l : Sorted le_key l -> Sorted le_key (insert key x l).
  Proof.
    induction 1 as [|y t Ht IH Hy]; simpl; [repeat constructor|].
    destruct (bltb (key y) (key x)) eqn:E.
    - constructor; [exact IH|]. apply insert_hdrel; [|exact Hy]. unfold le_key. now apply bltb_asym.
    - constructor; [now constructor|]. constructor. exact E.
  Qed.

  Lemma ssort_sorted l : Sorted le_key (ssort key l).
  Proof. induction l as [|x t IH]; simpl; [constructor|]. apply insert_sorted, IH. Qed.
End SortProofs.

(* ---------------------------------------------------------------------------------------------- *)
(* list *)
Definition disk_records (d : disk) : list record := map (file_rec d) (d_files d) ++ map (link_rec d) (d_links d).
Definition all_records (st : list disk) : list record := flat_map disk_records st.

Lemma list_exact st : Permutation (list_records st) (all_records st).
Proof.
  induction st as [|d t IH]; simpl; [reflexivity|].
  apply Permutation_app; [|exact IH]. unfold list_disk, disk_records.
  apply Permutation_app; apply Permutation_map, ssort_perm.
Qed.

(* the order inside each disk: files by path, then links by path *)
Lemma list_disk_sorted d :
  exists fs ls, list_disk d = map (file_rec d) fs ++ map (link_rec d) ls /\
                Sorted (le_key f_sub) fs /\ Sorted (le_key l_sub) ls /\
                Permutation fs (d_files d) /\ Permutation ls (d_links d).
Proof.
  exists (ssort f_sub (d_files d)), (ssort l_sub (d_links d)).
  repeat split; try apply ssort_sorted; apply ssort_perm.
Qed.

Definition disk_ok (d : disk) : Prop :=
  field_safe (d_name d) /\ Forall (fun f => no_nul (f_sub f)) (d_files d) /\
  Forall (fun l => no_nul (l_sub l) /\ no_nul (l_to l)) (d_links d).

Lemma all_records_ok st : Forall disk_ok st -> Forall rec_ok (all_records st).
Proof.
  induction 1 as [|d t Hd Ht IH]; simpl; [constructor|].
  apply Forall_app; split; [|exact IH]. destruct Hd as (Hn & Hf & Hl). unfold disk_records.
  apply Forall_app; split; rewrite Forall_map.
  - revert Hf. apply Forall_impl. intros f Hf. simpl. split; assumption.
  - revert Hl. apply Forall_impl. intros l [H1 H2]. simpl. repeat split; assumption.
Qed.

Lemma summary_ok st : Forall rec_ok (list_summary st).
Proof.
  unfold list_summary.
  repeat (apply Forall_cons; [simpl; split; [discriminate|split; [safe_fields|reflexivity]]|]).
  apply Forall_nil.
Qed.

Lemma list_log_parse st : Forall disk_ok st ->
  parse_log (list_log st) = map Some (list_records st ++ list_summary st).
Proof.
  intro H. unfold list_log. apply tag_log_parse. apply Forall_app; split; [|apply summary_ok].
  apply (Permutation_Forall (Permutation_sym (list_exact st))). apply all_records_ok, H.
Qed.

(* ---------------------------------------------------------------------------------------------- *)
(* dup *)
Section DupProofs.
  Variable filehash : bstr -> bstr.
  Notation hash_alloc := (hash_alloc filehash).
  Notation dup_loop := (dup_loop filehash).

  Definition eligible (e : entry) (h : bstr) : Prop := f_size (snd e) <> 0 /\ hash_alloc (snd e) = Some h.

  Lemma eligible_fun e h h' : eligible e h -> eligible e h' -> h = h'.
  Proof. intros [_ H1] [_ H2]. congruence. Qed.

  Lemma find_hash_in h seen g : find_hash h seen = Some g -> In (h, g) seen.
  Proof.
    induction seen as [|[h' e] t IH]; simpl; [discriminate|].
    destruct (bstr_eqb h' h) eqn:E; intro H.
    - apply bstr_eqb_eq in E. injection H as ->. subst. now left.
    - right. now apply IH.
  Qed.

  Lemma find_hash_app h seen g more : find_hash h seen = Some g -> find_hash h (seen ++ more) = Some g.
  Proof.
    induction seen as [|[h' e] t IH]; simpl; [discriminate|].
    destruct (bstr_eqb h' h); [trivial|exact IH].
  Qed.

  Lemma find_hash_new h seen e : find_hash h seen = None -> find_hash h (seen ++ [(h, e)]) = Some e.
  Proof.
    induction seen as [|[h' e'] t IH]; simpl; [now rewrite bstr_eqb_refl|].
    destruct (bstr_eqb h' h); [discriminate|exact IH].
  Qed.

  (* unfolding of one iteration *)
  Lemma dup_loop_cons e t seen :
    ((forall h, ~ eligible e h) /\ dup_loop (e :: t) seen = dup_loop t seen) \/
    (exists h, eligible e h /\ find_hash h seen = None /\ dup_loop (e :: t) seen = dup_loop t (seen ++ [(h, e)])) \/
    (exists h g, eligible e h /\ find_hash h seen = Some g /\ dup_loop (e :: t) seen = (e, g) :: dup_loop t seen).
  Proof.
    simpl. destruct (f_size (snd e) =? 0) eqn:Es.
    { left. split; [|reflexivity]. apply N.eqb_eq in Es. intros h [H _]. contradiction. }
    apply N.eqb_neq in Es.
    destruct (ViewModel.hash_alloc filehash (snd e)) as [h|] eqn:Eh.
    2:{ left. split; [|reflexivity]. intros h [_ H]. congruence. }
    destruct (find_hash h seen) as [g|] eqn:Ef.
    - right; right. exists h, g. repeat split; assumption.
    - right; left. exists h. repeat split; assumption.
  Qed.

  (* once a hash is in the set, every later file with that hash is reported against the same entry *)
  Lemma dup_seen_reported es : forall seen h g e,
    find_hash h seen = Some g -> In e es -> eligible e h -> In (e, g) (dup_loop es seen).
  Proof.
    induction es as [|x t IH]; intros seen h g e Hf Hin He; [contradiction|].
    destruct (dup_loop_cons x t seen) as [[Hno E]|[(hx & Hx & Hn & E)|(hx & gx & Hx & Hs & E)]]; rewrite E.
    - destruct Hin as [->|Hin]; [|now apply (IH seen h g)]. exfalso. now apply (Hno h).
    - destruct Hin as [->|Hin].
      + rewrite (eligible_fun _ _ _ Hx He) in Hn. congruence.
      + apply (IH _ h g); [now apply find_hash_app|assumption|assumption].
    - destruct Hin as [->|Hin].
      + rewrite (eligible_fun _ _ _ Hx He) in Hs. left. congruence.
      + right. now apply (IH seen h g).
  Qed.

  Definition dup_related (out : list (entry * entry)) (a b : entry) : Prop :=
    exists rep, In (b, rep) out /\ (rep = a \/ In (a, rep) out).

  Lemma dup_complete l1 : forall seen a l2 b l3 h, eligible a h -> eligible b h ->
    dup_related (dup_loop (l1 ++ a :: l2 ++ b :: l3) seen) a b.
  Proof.
    induction l1 as [|x t IH]; intros seen a l2 b l3 h Ha Hb.
    - simpl app.
      assert (Hin : In b (l2 ++ b :: l3)) by (apply in_or_app; right; now left).
      destruct (dup_loop_cons a (l2 ++ b :: l3) seen) as [[Hno E]|[(hx & Hx & Hn & E)|(hx & gx & Hx & Hs & E)]].
      + exfalso. now apply (Hno h).
      + rewrite E. rewrite (eligible_fun _ _ _ Hx Ha) in *. exists a. split; [|now left].
        apply (dup_seen_reported _ _ h); [now apply find_hash_new|exact Hin|exact Hb].
      + rewrite E. rewrite (eligible_fun _ _ _ Hx Ha) in *. exists gx. split.
        * right. now apply (dup_seen_reported _ _ h).
        * right. now left.
    - simpl app.
      destruct (dup_loop_cons x (t ++ a :: l2 ++ b :: l3) seen) as [[_ E]|[(hx & Hx & Hn & E)|(hx & gx & Hx & Hs & E)]]; rewrite E.
      + apply (IH seen a l2 b l3 h Ha Hb).
      + apply (IH _ a l2 b l3 h Ha Hb).
      + destruct (IH seen a l2 b l3 h Ha Hb) as (rep & H1 & H2).
        exists rep. split; [now right|]. destruct H2 as [H2|H2]; [now left|right; now right].
  Qed.

  Definition seen_ok (seen : list (bstr * entry)) : Prop := forall h g, In (h, g) seen -> eligible g h.

  Lemma dup_sound es : forall seen b r, seen_ok seen -> In (b, r) (dup_loop es seen) ->
    exists h, eligible b h /\ eligible r h.
  Proof.
    induction es as [|x t IH]; intros seen b r Hok Hin; [contradiction|].
    destruct (dup_loop_cons x t seen) as [[_ E]|[(hx & Hx & Hn & E)|(hx & gx & Hx & Hs & E)]]; rewrite E in Hin.
    - now apply (IH seen).
    - apply (IH (seen ++ [(hx, x)])); [|exact Hin].
      intros h g Hg. apply in_app_or in Hg as [Hg|[Hg|[]]]; [now apply Hok|]. now injection Hg as <- <-.
    - destruct Hin as [Hin|Hin]; [|now apply (IH seen)].
      injection Hin as <- <-. exists hx. split; [exact Hx|]. apply Hok. now apply find_hash_in.
  Qed.

  Lemma seen_ok_nil : seen_ok [].
  Proof. intros h g []. Qed.

  Theorem dup_iff_same_hash l1 a l2 b l3 :
    dup_related (dup_loop (l1 ++ a :: l2 ++ b :: l3) []) a b <-> exists h, eligible a h /\ eligible b h.
  Proof.
    split.
    - intros (rep & Hb & Ha). destruct (dup_sound _ _ _ _ seen_ok_nil Hb) as (h & Hbh & Hrh).
      exists h. split; [|exact Hbh]. destruct Ha as [->|Ha]; [exact Hrh|].
      destruct (dup_sound _ _ _ _ seen_ok_nil Ha) as (h' & Hah & Hrh').
      now rewrite (eligible_fun _ _ _ Hrh Hrh').
    - intros (h & Ha & Hb). now apply (dup_complete l1 [] a l2 b l3 h).
  Qed.

  (* a file that is empty or has a block without an updated hash appears in no report, on either side *)
  Theorem dup_ineligible_never es e r :
    (f_size (snd e) = 0 \/ hash_buf (f_blocks (snd e)) = None) ->
    ~ In (e, r) (dup_loop es []) /\ ~ In (r, e) (dup_loop es []).
  Proof.
    intro Hne. assert (Hno : forall h, ~ eligible e h).
    { intros h [Hs Hh]. destruct Hne as [Hz|Hb]; [contradiction|].
      unfold ViewModel.hash_alloc in Hh. rewrite Hb in Hh. discriminate. }
    split; intro Hin; destruct (dup_sound _ _ _ _ seen_ok_nil Hin) as (h & H1 & H2); eapply Hno; eassumption.
  Qed.

  (* ---- from file hashes to hash vectors and contents ---- *)
  Definition fully_hashed (f : file) : Prop := Forall (fun b => block_has_updated_hash (fst b) = true) (f_blocks f).
  Definition hash_vec (f : file) : list bstr := map snd (f_blocks f).

  Lemma hash_buf_full f : fully_hashed f -> hash_buf (f_blocks f) = Some (concat (hash_vec f)).
  Proof.
    unfold fully_hashed, hash_vec. induction 1 as [|[s h] t Hs Ht IH]; [reflexivity|].
    simpl in *. rewrite Hs, IH. reflexivity.
  Qed.

  Lemma hash_buf_partial f : ~ fully_hashed f -> hash_buf (f_blocks f) = None.
  Proof.
    unfold fully_hashed. induction (f_blocks f) as [|[s h] t IH]; intro H; [exfalso; apply H; constructor|].
    simpl. destruct (block_has_updated_hash s) eqn:E; [|reflexivity].
    rewrite IH; [reflexivity|]. intro Ht. apply H. constructor; assumption.
  Qed.

  Lemma concat_fixed_inj (hs : nat) (l1 l2 : list bstr) : (hs <> 0)%nat ->
    Forall (fun h => length h = hs) l1 -> Forall (fun h => length h = hs) l2 -> concat l1 = concat l2 -> l1 = l2.
  Proof.
    intros Hhs H1. revert l2. induction H1 as [|x t Hx Ht IH]; intros l2 H2 E.
    - destruct H2 as [|y u Hy Hu]; [reflexivity|]. simpl in E. destruct y; [simpl in Hy; lia|discriminate].
    - destruct H2 as [|y u Hy Hu]; simpl in E.
      + destruct x; [simpl in Hx; lia|discriminate].
      + assert (Hxy : x = y /\ concat t = concat u).
        { apply app_inv_head_iff with (l := []) in E || idtac.
          assert (L : length x = length y) by lia.
          clear -E L. revert y L E. induction x as [|c x IHx]; destruct y as [|d y]; simpl; intros L E; try discriminate.
          - now split.
          - injection E as -> E. injection L as L. destruct (IHx y L E) as [-> ->]. now split. }
        destruct Hxy as [-> Ec]. f_equal. now apply IH.
  Qed.

  Section Content.
    Variable hs : nat.                               (* BLOCK_HASH_SIZE *)
    Variable es : list entry.                        (* the files of the state, in the order of the loops *)
    Hypothesis hs_pos : (hs <> 0)%nat.
    Hypothesis hash_len : forall e, In e es -> Forall (fun h => length h = hs) (hash_vec (snd e)).
    (* collision freedom of the file-level hash on the finite set of files of the state *)
    Hypothesis filehash_cf : forall x y, In x es -> In y es ->
      filehash (concat (hash_vec (snd x))) = filehash (concat (hash_vec (snd y))) ->
      concat (hash_vec (snd x)) = concat (hash_vec (snd y)).

    Theorem dup_iff_equal_hashvec l1 a l2 b l3 : es = l1 ++ a :: l2 ++ b :: l3 ->
      f_size (snd a) <> 0 -> f_size (snd b) <> 0 -> fully_hashed (snd a) -> fully_hashed (snd b) ->
      (dup_related (dup_loop es []) a b <-> hash_vec (snd a) = hash_vec (snd b)).
    Proof.
      intros Ees Hsa Hsb Hfa Hfb.
      assert (Ia : In a es) by (rewrite Ees; apply in_or_app; right; now left).
      assert (Ib : In b es) by (rewrite Ees; apply in_or_app; right; right; apply in_or_app; right; now left).
      rewrite Ees at 1. rewrite dup_iff_same_hash. unfold eligible, ViewModel.hash_alloc.
      rewrite (hash_buf_full _ Hfa), (hash_buf_full _ Hfb). simpl. split.
      - intros (h & [_ H1] & [_ H2]). injection H1 as H1. injection H2 as H2.
        apply (concat_fixed_inj hs); [exact hs_pos|now apply hash_len|now apply hash_len|].
        apply filehash_cf; [exact Ia|exact Ib|congruence].
      - intro E. exists (filehash (concat (hash_vec (snd b)))). rewrite E. repeat split; assumption.
    Qed.

    (* contents: data f = the bytes of the file, cut in blocks of bs bytes (the last one shorter) *)
    Variable blockhash : bstr -> bstr.
    Variable data : file -> bstr.
    Variable bs : nat.
    Fixpoint chunk (fuel : nat) (s : bstr) : list bstr :=
      match fuel with
      | O => []
      | S k => match s with [] => [] | _ => firstn bs s :: chunk k (skipn bs s) end
      end.
    Definition blocks_of (f : file) : list bstr := chunk (length (data f)) (data f).
    Hypothesis bs_pos : (bs <> 0)%nat.
    (* the recorded hashes are the hashes of the present contents (C05/C06; no hash migration in progress) *)
    Hypothesis hashes_faithful : forall e, In e es -> fully_hashed (snd e) ->
      hash_vec (snd e) = map blockhash (blocks_of (snd e)).
    (* collision freedom of the block hash on the finite set of blocks of the state *)
    Hypothesis blockhash_cf : forall x y bx by_, In x es -> In y es -> In bx (blocks_of (snd x)) -> In by_ (blocks_of (snd y)) ->
      blockhash bx = blockhash by_ -> bx = by_.

    Lemma concat_chunk fuel s : (length s <= fuel)%nat -> concat (chunk fuel s) = s.
    Proof.
      revert s. induction fuel as [|k IH]; intros s H.
      - destruct s; [reflexivity|simpl in H; lia].
      - destruct s as [|c t]; [reflexivity|].
        change (chunk (S k) (c :: t)) with (firstn bs (c :: t) :: chunk k (skipn bs (c :: t))).
        simpl concat. rewrite IH; [apply firstn_skipn|].
        rewrite skipn_length. simpl in *. destruct bs; [contradiction|]. lia.
    Qed.

    Lemma map_inj_in {A B} (f : A -> B) (l1 l2 : list A) :
      (forall x y, In x l1 -> In y l2 -> f x = f y -> x = y) -> map f l1 = map f l2 -> l1 = l2.
    Proof.
      revert l2. induction l1 as [|x t IH]; destruct l2 as [|y u]; simpl; intros H E; try discriminate; [reflexivity|].
      injection E as E1 E2. f_equal; [apply H; auto|apply IH; auto].
    Qed.

    Theorem dup_iff_equal_content l1 a l2 b l3 : es = l1 ++ a :: l2 ++ b :: l3 ->
      f_size (snd a) <> 0 -> f_size (snd b) <> 0 -> fully_hashed (snd a) -> fully_hashed (snd b) ->
      (dup_related (dup_loop es []) a b <-> data (snd a) = data (snd b)).
    Proof.
      intros Ees Hsa Hsb Hfa Hfb.
      assert (Ia : In a es) by (rewrite Ees; apply in_or_app; right; now left).
      assert (Ib : In b es) by (rewrite Ees; apply in_or_app; right; right; apply in_or_app; right; now left).
      rewrite (dup_iff_equal_hashvec l1 a l2 b l3 Ees Hsa Hsb Hfa Hfb).
      rewrite (hashes_faithful a Ia Hfa), (hashes_faithful b Ib Hfb). split.
      - intro E. apply map_inj_in in E; [|intros x y Hx Hy; now apply (blockhash_cf a b)].
        rewrite <- (concat_chunk (length (data (snd a))) (data (snd a))) by lia.
        rewrite <- (concat_chunk (length (data (snd b))) (data (snd b))) by lia.
        unfold blocks_of in E. now rewrite E.
      - intro E. unfold blocks_of. now rewrite E.
    Qed.
  End Content.
End DupProofs.

(* ---------------------------------------------------------------------------------------------- *)
(* status *)
Section StatusProofs.
  Variable s : sstate.
  Definition is_used (i : nat) : bool := negb (info_at s i =? 0).
  Definition is_unsynced (i : nat) : bool := one_invalid s i && one_valid s i.
  Definition is_bad (i : nat) : bool := is_used i && info_bad (info_at s i).
  Definition is_rehash (i : nat) : bool := is_used i && info_rehash (info_at s i).
  Definition is_unscrubbed (i : nat) : bool := is_used i && info_justsynced (info_at s i).
  Definition cnt (p : nat -> bool) (l : list nat) : N := N.of_nat (length (filter p l)).
  Definition b2n (b : bool) : N := if b then 1 else 0.

  Lemma cnt_cons p i l : cnt p (i :: l) = b2n (p i) + cnt p l.
  Proof. unfold cnt, b2n. cbn [filter]. destruct (p i); cbn [length]; lia. Qed.

  Ltac step_cases c i :=
    unfold status_step, is_unsynced, is_bad, is_rehash, is_unscrubbed, is_used, b2n;
    destruct (one_invalid s i && one_valid s i); destruct (info_at s i =? 0); simpl;
    try destruct (info_bad (info_at s i)); try destruct (info_rehash (info_at s i));
    try destruct (info_justsynced (info_at s i)); simpl; try reflexivity; try lia.

  Lemma step_unsynced c i : c_unsynced (status_step s c i) = c_unsynced c + b2n (is_unsynced i).
  Proof. step_cases c i. Qed.
  Lemma step_bad c i : c_bad (status_step s c i) = c_bad c + b2n (is_bad i).
  Proof. step_cases c i. Qed.
  Lemma step_rehash c i : c_rehash (status_step s c i) = c_rehash c + b2n (is_rehash i).
  Proof. step_cases c i. Qed.
  Lemma step_unscrubbed c i : c_unscrubbed (status_step s c i) = c_unscrubbed c + b2n (is_unscrubbed i).
  Proof. step_cases c i. Qed.
  Lemma step_count c i : c_count (status_step s c i) = c_count c + b2n (is_used i).
  Proof. step_cases c i. Qed.
  Lemma step_bad_first c i : c_bad_first (status_step s c i) =
    if is_bad i then (if c_bad c =? 0 then N.of_nat i else c_bad_first c) else c_bad_first c.
  Proof. step_cases c i. Qed.
  Lemma step_bad_last c i : c_bad_last (status_step s c i) = if is_bad i then N.of_nat i else c_bad_last c.
  Proof. step_cases c i. Qed.

  Lemma fold_add (proj : counters -> N) (p : nat -> bool) :
    (forall c i, proj (status_step s c i) = proj c + b2n (p i)) ->
    forall l c, proj (fold_left (status_step s) l c) = proj c + cnt p l.
  Proof.
    intros Hstep l. induction l as [|i t IH]; intro c; simpl; [unfold cnt; simpl; lia|].
    rewrite IH, Hstep, cnt_cons. lia.
  Qed.

  Lemma fold_bad_first l : forall c, c_bad_first (fold_left (status_step s) l c) =
    if c_bad c =? 0 then match filter is_bad l with [] => c_bad_first c | i :: _ => N.of_nat i end else c_bad_first c.
  Proof.
    induction l as [|i t IH]; intro c; simpl; [now destruct (c_bad c =? 0)|].
    rewrite IH, step_bad, step_bad_first. destruct (is_bad i) eqn:E; simpl.
    - destruct (c_bad c + 1 =? 0) eqn:E1; [apply N.eqb_eq in E1; lia|]. reflexivity.
    - rewrite N.add_0_r. reflexivity.
  Qed.

  Lemma fold_bad_last l : forall c, c_bad_last (fold_left (status_step s) l c) =
    match filter is_bad l with [] => c_bad_last c | f => N.of_nat (last f 0%nat) end.
  Proof.
    induction l as [|i t IH]; intro c; simpl; [reflexivity|].
    rewrite IH, step_bad_last. destruct (is_bad i) eqn:E; simpl; [|reflexivity].
    destruct (filter is_bad t); reflexivity.
  Qed.

  Theorem status_counters blockmax :
    let pos := seq 0 blockmax in
    let c := status_count s blockmax in
    c_unsynced c = cnt is_unsynced pos /\
    c_bad c = cnt is_bad pos /\
    c_bad_first c = N.of_nat (hd 0%nat (filter is_bad pos)) /\
    c_bad_last c = N.of_nat (last (filter is_bad pos) 0%nat) /\
    c_unscrubbed c = cnt is_unscrubbed pos /\
    c_rehash c = cnt is_rehash pos /\
    c_count c = cnt is_used pos.
  Proof.
    cbv zeta. unfold status_count.
    rewrite (fold_add c_unsynced is_unsynced step_unsynced), (fold_add c_bad is_bad step_bad),
            (fold_add c_unscrubbed is_unscrubbed step_unscrubbed), (fold_add c_rehash is_rehash step_rehash),
            (fold_add c_count is_used step_count), fold_bad_first, fold_bad_last.
    simpl. repeat split; destruct (filter is_bad (seq 0 blockmax)); reflexivity.
  Qed.
End StatusProofs.

(* ---------------------------------------------------------------------------------------------- *)
(* the zerosubsecond: lines of the status log (name escaped since the repair of F-C20-status-zerosubsecond-raw) *)
Lemma zerosub_entries_ok fs : Forall (fun f => no_nul (f_sub f)) fs -> forall k,
  Forall (fun p => no_nul (fst p) /\ (snd p = [] \/ snd p = t_more_follow)) (zerosub_entries fs k).
Proof.
  induction 1 as [|f t Hf Ht IH]; intro k; simpl; [constructor|].
  destruct (is_zerosub f); [|apply IH].
  apply Forall_app; split; [|apply IH].
  destruct (_ <? 50); [constructor; [split; [exact Hf|now left]|constructor]|].
  destruct (_ =? 50); [constructor; [split; [exact Hf|now right]|constructor]|constructor].
Qed.

Lemma zerosub_rec_ok d p : field_safe d -> no_nul (fst p) -> (snd p = [] \/ snd p = t_more_follow) -> rec_ok (zerosub_rec d p).
Proof.
  destruct p as [n t]. simpl fst. simpl snd. intros Hd Hn Ht. unfold zerosub_rec, rec_ok. simpl fst. simpl snd.
  split; [discriminate|]. split; [|reflexivity].
  apply Forall_cons; [apply lit_safe; reflexivity|]. apply Forall_cons; [exact Hd|].
  apply Forall_cons; [apply tag_clean_safe, esc_tag_clean|]. apply Forall_cons; [|apply Forall_nil].
  destruct Ht as [Ht | Ht]; subst t; apply lit_safe; reflexivity.
Qed.

Lemma status_zerosub_parse d fs : field_safe d -> Forall (fun f => no_nul (f_sub f)) fs ->
  parse_log (zerosub_lines d fs 0) = map (fun p => Some (zerosub_rec d p)) (zerosub_entries fs 0).
Proof.
  intros Hd Hfs. unfold zerosub_lines. rewrite tag_log_parse; [now rewrite map_map|].
  rewrite Forall_map. pose proof (zerosub_entries_ok fs Hfs 0) as H. revert H. apply Forall_impl.
  intros p [Hn Ht]. now apply zerosub_rec_ok.
Qed.

Lemma zerosub_rec_inj d p q : no_nul (fst p) -> no_nul (fst q) -> zerosub_rec d p = zerosub_rec d q -> p = q.
Proof.
  intros Hp Hq E. unfold zerosub_rec in E. injection E as En Et.
  destruct p as [n1 t1], q as [n2 t2]; simpl in *. f_equal; [|exact Et].
  pose proof (esc_tag_inverse n1 Hp) as H1. rewrite En, (esc_tag_inverse n2 Hq) in H1. congruence.
Qed.

(* the names (and the "more follow" marks) are recovered from the log bytes: different sets of files, different bytes *)
Lemma status_zerosub_unambiguous d fs1 fs2 : field_safe d ->
  Forall (fun f => no_nul (f_sub f)) fs1 -> Forall (fun f => no_nul (f_sub f)) fs2 ->
  zerosub_lines d fs1 0 = zerosub_lines d fs2 0 -> zerosub_entries fs1 0 = zerosub_entries fs2 0.
Proof.
  intros Hd H1 H2 E.
  pose proof (status_zerosub_parse d fs1 Hd H1) as P1. pose proof (status_zerosub_parse d fs2 Hd H2) as P2.
  rewrite E, P2 in P1. clear E P2.
  pose proof (zerosub_entries_ok fs1 H1 0) as O1. pose proof (zerosub_entries_ok fs2 H2 0) as O2.
  revert O1 O2 P1. generalize (zerosub_entries fs1 0) (zerosub_entries fs2 0).
  intros l1. induction l1 as [|p t IH]; intros l2 O1 O2 P; destruct l2 as [|q u]; simpl in P; try discriminate; [reflexivity|].
  assert (Pq : zerosub_rec d q = zerosub_rec d p) by congruence.
  assert (Pt : map (fun p => Some (zerosub_rec d p)) u = map (fun p => Some (zerosub_rec d p)) t) by congruence.
  pose proof (Forall_inv O1) as [Hp _]. pose proof (Forall_inv O2) as [Hq _].
  pose proof (Forall_inv_tail O1) as O1'. pose proof (Forall_inv_tail O2) as O2'.
  f_equal; [symmetry; exact (zerosub_rec_inj d q p Hq Hp Pq)|exact (IH u O1' O2' Pt)].
Qed.

(* ---------------------------------------------------------------------------------------------- *)
(* the not-yet-scrubbed counter looks at the just-synced flag only: a stripe that is recorded bad (or marked for
   rehash) AND just synced is counted *)
Lemma status_unscrubbed_ignores_bad (s : sstate) blockmax :
  c_unscrubbed (status_count s blockmax) =
  N.of_nat (length (filter (fun i => negb (info_at s i =? 0) && N.testbit (info_at s i) 2) (seq 0 blockmax))).
Proof. destruct (status_counters s blockmax) as (_ & _ & _ & _ & H & _). exact H. Qed.

Lemma status_step_bad_justsynced (s : sstate) c i :
  info_bad (info_at s i) = true -> info_justsynced (info_at s i) = true ->
  c_unscrubbed (status_step s c i) = c_unscrubbed c + 1 /\ c_bad (status_step s c i) = c_bad c + 1.
Proof.
  intros Hb Hj.
  assert (Hnz : (info_at s i =? 0) = false).
  { destruct (info_at s i =? 0) eqn:E; [|reflexivity]. apply N.eqb_eq in E. rewrite E in Hb. discriminate. }
  rewrite step_unscrubbed, step_bad. unfold is_unscrubbed, is_bad, is_used. rewrite Hnz, Hb, Hj. simpl. split; reflexivity.
Qed.

(* ---------------------------------------------------------------------------------------------- *)
(* dup compares the WHOLE file-level digest (HASH_MAX bytes, hash_compare / hash_hash of dup.c), whatever the size of the
   block hashes (BLOCK_HASH_SIZE, the `hashsize` option) is: digests that agree on a prefix only do not make a pair *)
Lemma dup_full_digest filehash l1 a l2 b l3 ha hb (k : nat) :
  eligible filehash a ha -> eligible filehash b hb -> firstn k ha = firstn k hb -> ha <> hb ->
  ~ dup_related (dup_loop filehash (l1 ++ a :: l2 ++ b :: l3) []) a b.
Proof.
  intros Ha Hb _ Hne Hrel. apply dup_iff_same_hash in Hrel as (h & Ha' & Hb').
  apply Hne. rewrite (eligible_fun filehash _ _ _ Ha Ha'), (eligible_fun filehash _ _ _ Hb Hb'). reflexivity.
Qed.
