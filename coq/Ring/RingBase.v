(* C13 -- basic lemmas for the ring proofs: total list maps, modular windows, scans. *)
From Coq Require Import Arith List Bool Lia.
From Snap.Ring Require Import RingModel.
Import ListNotations.

Lemma get_set_eq : forall A (d : A) l i v, get d (set d l i v) i = v.
Proof.
  unfold get. intros A d l i; revert l. induction i; intros [|x t] v; simpl; auto.
Qed.

Lemma get_nil : forall A (d : A) i, get d [] i = d.
Proof. unfold get. intros. destruct i; reflexivity. Qed.

Lemma get_set_neq : forall A (d : A) l i j v, i <> j -> get d (set d l i v) j = get d l j.
Proof.
  unfold get. intros A d l i; revert l. induction i; intros [|x t] j v H; destruct j; simpl; try congruence; auto.
  - destruct j; reflexivity.
  - rewrite IHi by congruence. destruct j; reflexivity.
Qed.

Lemma get_repeat : forall A (d v : A) k i, i < k -> get d (repeat v k) i = v.
Proof.
  unfold get. intros A d v k; induction k; intros i H; [lia|]. destruct i; simpl; auto. apply IHk; lia.
Qed.

Lemma get_map_seq : forall A (d : A) (f : nat -> A) k i, i < k -> get d (map f (seq 0 k)) i = f i.
Proof.
  unfold get. intros. rewrite nth_indep with (d' := f 0) by (rewrite map_length, seq_length; exact H).
  rewrite map_nth, seq_nth by exact H. reflexivity.
Qed.

Lemma get_map_seq_out : forall A (d : A) (f : nat -> A) k i, k <= i -> get d (map f (seq 0 k)) i = d.
Proof. unfold get. intros. apply nth_overflow. rewrite map_length, seq_length. exact H. Qed.

Lemma get_map_unblock : forall l i, get wdflt (map unblock l) i = unblock (get wdflt l i).
Proof. unfold get. intros. change wdflt with (unblock wdflt) at 1. apply map_nth. Qed.

Lemma get2_set2_eq : forall t s w v, get2 (set2 t s w v) s w = v.
Proof. unfold get2, set2. intros. rewrite !get_set_eq. reflexivity. Qed.

Lemma get2_set2_neq : forall t s w s' w' v, s <> s' \/ w <> w' -> get2 (set2 t s w v) s' w' = get2 t s' w'.
Proof.
  unfold get2, set2. intros. destruct (Nat.eq_dec s s') as [<-|Hs].
  - rewrite get_set_eq. destruct H; [congruence|]. apply get_set_neq; exact H.
  - rewrite get_set_neq by exact Hs. reflexivity.
Qed.

Lemma get2_setrow_eq : forall t s k v w, w < k -> get2 (setrow t s k v) s w = v.
Proof. unfold get2, setrow. intros. rewrite get_set_eq. apply get_repeat; exact H. Qed.

Lemma get2_setrow_neq : forall t s k v s' w, s <> s' -> get2 (setrow t s k v) s' w = get2 t s' w.
Proof. unfold get2, setrow. intros. rewrite get_set_neq by exact H. reflexivity. Qed.

(* ---- modular arithmetic on windows of n consecutive sequence numbers ---- *)

Lemma succ_mod : forall a n, n <> 0 -> (a mod n + 1) mod n = (a + 1) mod n.
Proof. intros. apply Nat.add_mod_idemp_l. exact H. Qed.

Lemma mod_plus_n : forall a n, n <> 0 -> (a + n) mod n = a mod n.
Proof. intros. replace (a + n) with (a + 1 * n) by lia. apply Nat.mod_add. exact H. Qed.

Lemma mod_window_eq : forall a b n, a <= b -> b < a + n -> a mod n = b mod n -> a = b.
Proof.
  intros a b n Hab Hb E. assert (Hn : n <> 0) by lia.
  pose proof (Nat.div_mod a n Hn) as Ha. pose proof (Nat.div_mod b n Hn) as Hb'.
  pose proof (Nat.mod_upper_bound a n Hn). rewrite E in Ha.
  assert (a / n = b / n \/ a / n < b / n \/ b / n < a / n) as [Q|[Q|Q]] by lia.
  - rewrite Q in Ha. lia.
  - assert (n * (a / n) + n <= n * (b / n)) by nia. lia.
  - assert (n * (b / n) + n <= n * (a / n)) by nia. lia.
Qed.

Lemma mod_window_neq : forall a b n, a < b -> b < a + n -> a mod n <> b mod n.
Proof. intros a b n H1 H2 E. apply mod_window_eq in E; lia. Qed.

(* ---- lists of workers ---- *)

Lemma in_without : forall w x l, In x (without w l) <-> In x l /\ x <> w.
Proof.
  unfold without. intros. rewrite filter_In. rewrite negb_true_iff, Nat.eqb_neq. tauto.
Qed.

Lemma without_length_le : forall w l, length (without w l) <= length l.
Proof. unfold without. intros. induction l; simpl; auto. destruct (negb (a =? w)); simpl; lia. Qed.

Lemma without_length_lt : forall w l, In w l -> length (without w l) < length l.
Proof.
  unfold without. intros w l. induction l; simpl; intros H; [tauto|].
  destruct (Nat.eqb_spec a w).
  - simpl. pose proof (without_length_le w l). unfold without in *. lia.
  - simpl. destruct H; [congruence|]. apply IHl in H. lia.
Qed.

Lemma find_not_none : forall A (f : A -> bool) l x, In x l -> f x = true -> find f l <> None.
Proof. intros A f l x H1 H2 E. pose proof (find_none f l E x H1). congruence. Qed.

Lemma forallb_seq_false : forall (f : nat -> bool) k, forallb f (seq 0 k) = false -> exists w, w < k /\ f w = false.
Proof.
  intros f k H. destruct (forallb f (seq 0 k)) eqn:E; [discriminate|].
  assert (~ (forall x, In x (seq 0 k) -> f x = true)) by (rewrite <- forallb_forall; congruence).
  clear H E. induction k.
  - exfalso. apply H0. simpl. tauto.
  - destruct (f k) eqn:Fk.
    + destruct IHk as [w [Hw Fw]].
      * intro Hall. apply H0. intros x Hx. rewrite in_seq in Hx.
        destruct (Nat.eq_dec x k); [subst; exact Fk|]. apply Hall. rewrite in_seq. lia.
      * exists w. split; [lia|exact Fw].
    + exists k. split; [lia|exact Fk].
Qed.

Lemma forallb_seq_true : forall (f : nat -> bool) k, forallb f (seq 0 k) = true -> forall w, w < k -> f w = true.
Proof. intros f k H w Hw. rewrite forallb_forall in H. apply H. rewrite in_seq. lia. Qed.

Lemma forallb_seq_intro : forall (f : nat -> bool) k, (forall w, w < k -> f w = true) -> forallb f (seq 0 k) = true.
Proof. intros. rewrite forallb_forall. intros x Hx. rewrite in_seq in Hx. apply H. lia. Qed.

Lemma is_pc_eq : forall a b, is_pc a b = true <-> a = b.
Proof. intros [] []; simpl; split; congruence. Qed.

Lemma is_cpc_eq : forall a b, is_cpc a b = true <-> a = b.
Proof. intros [] []; simpl; split; congruence. Qed.

Lemma is_not_waiting_eq : forall c, is_not_waiting c = true <-> c = NotWaiting.
Proof. intros []; simpl; split; congruence. Qed.

Lemma in_range_spec : forall b c i, in_range b c i = true <-> b <= i < b + c.
Proof. unfold in_range. intros. rewrite andb_true_iff, Nat.leb_le, Nat.ltb_lt. tauto. Qed.

(* ---- positions ---- *)

Lemma pos_at_in : forall P k, k < length (poss P) -> pos_at P k = nth k (poss P) 0.
Proof. unfold pos_at. intros. apply nth_indep. exact H. Qed.

Lemma pos_at_lt : forall P k, Forall (fun p => p < bmax P) (poss P) -> k < length (poss P) -> pos_at P k < bmax P.
Proof.
  unfold pos_at. intros P k F H. rewrite Forall_forall in F. apply F. apply nth_In. exact H.
Qed.

Lemma pos_at_ge : forall P k, length (poss P) <= k -> bmax P <= pos_at P k.
Proof. unfold pos_at. intros. rewrite nth_overflow by exact H. lia. Qed.

Lemma map_pos_at_firstn : forall P h, h <= length (poss P) -> map (pos_at P) (seq 0 h) = firstn h (poss P).
Proof.
  intros P h H. apply nth_ext with (d := pos_at P 0) (d' := 0).
  - rewrite map_length, seq_length, firstn_length. lia.
  - intros i Hi. rewrite map_length, seq_length in Hi.
    rewrite map_nth, seq_nth by exact Hi. simpl.
    rewrite pos_at_in by lia.
    rewrite <- (firstn_skipn h (poss P)) at 1. rewrite app_nth1; [reflexivity|].
    rewrite firstn_length. lia.
Qed.
