(* C13 -- the writer error bookkeeping of io.c on top of the ring model (the ring model itself is unchanged).

   io.c: every writer thread carries `latest_state` (io_writer_thread), handed to io_writer_step at each call; on
   ENTRY of the call, under the mutex, an error state increments io->writer_error[] and records the position of
   the task at worker->index (io_writer_bad); an EMPTY task resets latest_state to DONE; io_write_next_thread
   collects and clears the counters, the caller then drains the positions (io_write_bad); after io_stop the
   caller flushes both (io_write_flush_errors + io_write_bad).

   Approximations: the drain of the positions is merged with the atomic section of io_write_next (sync.c calls
   io_write_bad in a loop right after io_write_next); the four error kinds are a natural number. *)
From Coq Require Import Arith List Bool Lia Permutation.
From Snap.Ring Require Import RingModel RingBase RingInv RingProofs.
Import ListNotations.

Record estate := mkE {
  base : state;
  latest : list (option nat);        (* latest_state of each writer thread: None = TASK_STATE_DONE, Some e = error e *)
  incall : list bool;                (* the thread is inside a call of io_writer_step (blocked in its wait loop, or exited) *)
  cnt : list nat;                    (* io->writer_error[]: the error kinds counted and not yet collected *)
  bad : list nat;                    (* io->writer_bad_map[0 .. writer_bad_mac) *)
  got_cnt : list nat;                (* ghost: what the caller collected so far *)
  got_bad : list nat;
  failedw : list (list (nat * nat)); (* ghost: per writer, (position, kind) of its failed tasks, in order *)
  reportedw : list (list (nat * nat));(* ghost: per writer, the (position, kind) it accounted in io_writer_step, in order *)
  since : list nat;                  (* ghost: per writer, positions recorded since the caller last drained writer_bad_map *)
  lastv : list nat                   (* ghost: per writer, the number of tasks it had taken when it last recorded a position *)
}.

Inductive elabel := LBase (l : label) | LFlush.

Section Err.
Variable P : params.
Variable oc : nat -> nat -> option nat.   (* outcome of worker->func of writer w on the task of position p *)
Variable reset_on_empty : bool.           (* true = io.c; false = the seeded change C13c_1 *)

Definition lat (est : estate) (w : nat) : option nat := get None (latest est) w.
Definition inc (est : estate) (w : nat) : bool := get false (incall est) w.
Definition cellpos (st : state) (w : nat) : nat := task_pos (get2 (wtask st) (widx (wget st w)) w).

Definition with_base (est : estate) (st : state) : estate :=
  mkE st (latest est) (incall est) (cnt est) (bad est) (got_cnt est) (got_bad est) (failedw est) (reportedw est) (since est) (lastv est).

(* entry of io_writer_step: io.c "counts the number of errors in the global state" *)
Definition report (est : estate) (w : nat) : estate :=
  if inc est w then est else
  match lat est w with
  | None => est
  | Some e =>
      let p := cellpos (base est) w in
      mkE (base est) (latest est) (incall est) (cnt est ++ [e]) (bad est ++ [p]) (got_cnt est) (got_bad est)
          (failedw est) (set [] (reportedw est) w (get [] (reportedw est) w ++ [(p, e)]))
          (set 0 (since est) w (S (get 0 (since est) w))) (set 0 (lastv est) w (wseq (wget (base est) w)))
  end.

Definition collect (est : estate) (st : state) : estate :=
  mkE st (latest est) (incall est) [] [] (got_cnt est ++ cnt est) (got_bad est ++ bad est) (failedw est) (reportedw est) [] (lastv est).

Definition estep (est : estate) (l : elabel) : option estate :=
  match l with
  | LFlush => if is_cpc (cpc (base est)) CEnd then Some (collect est (base est)) else None
  | LBase l =>
      match step P (base est) l with
      | None => None
      | Some st' =>
          match l with
          | WWait w | WExit w =>
              let e1 := report est w in
              Some (mkE st' (latest e1) (set false (incall e1) w true) (cnt e1) (bad e1) (got_cnt e1) (got_bad e1)
                        (failedw e1) (reportedw e1) (since e1) (lastv e1))
          | WTake w =>
              let e1 := report est w in
              let empty := is_pc (wpcs (wget st' w)) PStep in       (* io.c: task->state == TASK_STATE_EMPTY *)
              Some (mkE st' (if empty && reset_on_empty then set None (latest e1) w None else latest e1)
                        (set false (incall e1) w false) (cnt e1) (bad e1) (got_cnt e1) (got_bad e1)
                        (failedw e1) (reportedw e1) (since e1) (lastv e1))
          | WEnd w =>
              let p := cellpos (base est) w in
              let o := oc w p in                                     (* io.c: latest_state = task->state *)
              Some (mkE st' (set None (latest est) w o) (incall est) (cnt est) (bad est) (got_cnt est) (got_bad est)
                        (set [] (failedw est) w (get [] (failedw est) w ++ match o with Some e => [(p, e)] | None => [] end))
                        (reportedw est) (since est) (lastv est))
          | CWriteNext _ => Some (collect est st')
          | _ => Some (with_base est st')
          end
      end
  end.

Definition einit : estate := mkE (init P) [] [] [] [] [] [] [] [] [] [].

Inductive ereachable : estate -> Prop :=
| ereach_init : ereachable einit
| ereach_step : forall est l est', ereachable est -> estep est l = Some est' -> ereachable est'.

(* the failed task a writer has not yet accounted: it is about to call io_writer_step with an error state *)
Definition unrep (est : estate) (w : nat) : list (nat * nat) :=
  if is_pc (wpcs (wget (base est) w)) PStep && negb (inc est w)
  then match lat est w with Some e => [(cellpos (base est) w, e)] | None => [] end
  else [].

Definition catW (f : list (list (nat * nat))) : list (nat * nat) := flat_map (fun w => get [] f w) (seq 0 (pW P)).

Hypothesis Hn : 3 <= pn P.
Hypothesis HR : 1 <= pR P.
Hypothesis Hposs : Forall (fun p => p < bmax P) (poss P).
Hypothesis Hreset : reset_on_empty = true.

Notation W := (pW P).

Ltac crush H :=
  cbv zeta in H;
  repeat match type of H with
  | (if ?b then _ else _) = Some _ => destruct b eqn:?
  | (match ?x with _ => _ end) = Some _ => destruct x eqn:?
  end; try discriminate H;
  repeat match goal with E : negb _ = false |- _ => apply negb_false_iff in E end.

(* ---- what a step of the ring does to the writers' part of the state ---- *)

Lemma step_other_frame : forall st l st', step P st l = Some st' ->
  match l with WTake _ | WEnd _ | WWait _ | WExit _ | WSpur _ | CWriteNext _ | CStop => False | _ => True end ->
  wr st' = wr st /\ wtask st' = wtask st.
Proof.
  intros st l st' H Hl. destruct l; try contradiction; unfold step in H; crush H; inversion H; subst; simpl; auto.
Qed.

Lemma step_W_others : forall st l st' w, step P st l = Some st' ->
  (l = WTake w \/ l = WEnd w \/ l = WWait w \/ l = WExit w \/ l = WSpur w) ->
  forall w', w' <> w -> wget st' w' = wget st w' /\ forall s, get2 (wtask st') s w' = get2 (wtask st) s w'.
Proof.
  intros st l st' w H Hl w' N.
  destruct Hl as [->|[->|[->|[->| ->]]]]; unfold step in H; crush H; inversion H; subst; unfold wget; simpl;
    (split; [apply get_set_neq; auto|intros; try reflexivity; apply get2_set2_neq; right; auto]).
Qed.

Lemma step_WEnd_w : forall st st' w, step P st (WEnd w) = Some st' ->
  wpcs (wget st w) = PRun /\ wpcs (wget st' w) = PStep /\ widx (wget st' w) = widx (wget st w) /\
  cellpos st' w = cellpos st w.
Proof.
  intros st st' w H. unfold step in H. crush H. inversion H; subst. unfold cellpos, wget in *; simpl.
  rewrite !get_set_eq. simpl. rewrite get2_set2_eq.
  match goal with E : _ = Running _ |- _ => rewrite E end. simpl.
  match goal with E : is_pc _ PRun = true |- _ => apply is_pc_eq in E; auto end.
Qed.

Lemma step_Wsame_w : forall st st' l w, step P st l = Some st' ->
  (l = WWait w \/ l = WExit w \/ l = WSpur w) ->
  widx (wget st' w) = widx (wget st w) /\ wtask st' = wtask st /\
  wpcs (wget st w) = (match l with WSpur _ => PBlocked | _ => PStep end) /\
  wpcs (wget st' w) = (match l with WSpur _ => PStep | WWait _ => PBlocked | _ => PExit end).
Proof.
  intros st st' l w H Hl. destruct Hl as [->|[->| ->]]; unfold step in H; crush H; inversion H; subst;
    unfold wget in *; simpl; rewrite !get_set_eq; simpl;
    match goal with E : is_pc _ _ = true |- _ => apply is_pc_eq in E end; auto.
Qed.

Lemma step_WTake_w : forall st st' w, step P st (WTake w) = Some st' ->
  wpcs (wget st w) = PStep /\ (wpcs (wget st' w) = PRun \/ wpcs (wget st' w) = PStep).
Proof.
  intros st st' w H. unfold step in H. crush H; inversion H; subst; unfold wget in *; simpl; rewrite !get_set_eq; simpl;
    match goal with E : is_pc _ PStep = true |- _ => apply is_pc_eq in E end; auto.
Qed.

Lemma step_unblock_w : forall st l st', step P st l = Some st' -> (l = CStop \/ exists k, l = CWriteNext k) ->
  forall w, wget st' w = unblock (wget st w).
Proof.
  intros st l st' H [->|[k ->]] w; unfold step in H; crush H; inversion H; subst; unfold wget; simpl; apply get_map_unblock.
Qed.

Lemma step_CStop_task : forall st st', step P st CStop = Some st' -> wtask st' = wtask st.
Proof. intros st st' H. unfold step in H. crush H. inversion H; reflexivity. Qed.

Lemma step_CWriteNext_task : forall st st' k, step P st (CWriteNext k) = Some st' ->
  forall s w, s <> w_idx st -> get2 (wtask st') s w = get2 (wtask st) s w.
Proof.
  intros st st' k H s w N. unfold step in H. crush H. inversion H; subst; simpl. apply get2_setrow_neq. auto.
Qed.

(* ---- lists per writer ---- *)

Lemma flat_map_ext_in' : forall A B (f g : A -> list B) l, (forall a, In a l -> f a = g a) -> flat_map f l = flat_map g l.
Proof. intros A B f g l. induction l; simpl; intros H; [reflexivity|]. rewrite H by auto. rewrite IHl by auto. reflexivity. Qed.

Lemma catW_ext : forall f g, (forall w, w < W -> get [] f w = get [] g w) -> catW f = catW g.
Proof.
  intros f g H. unfold catW. generalize dependent (pW P). induction n; intros H; [reflexivity|].
  rewrite seq_S, !flat_map_app. simpl. rewrite IHn by (intros; apply H; lia). rewrite H by lia. reflexivity.
Qed.

Lemma catW_set : forall f w x, w < W ->
  Permutation (catW (set [] f w (get [] f w ++ [x]))) (x :: catW f).
Proof.
  intros f w x. unfold catW. generalize dependent (pW P). induction n; intros Hw; [lia|].
  rewrite seq_S, !flat_map_app. simpl. rewrite !app_nil_r.
  destruct (Nat.eq_dec w n) as [->|N].
  - rewrite get_set_eq.
    assert (E : flat_map (fun w0 => get [] (set [] f n (get [] f n ++ [x])) w0) (seq 0 n) = flat_map (fun w0 => get [] f w0) (seq 0 n)).
    { apply flat_map_ext_in'. intros a Ha. apply in_seq in Ha. apply get_set_neq. lia. } 
    rewrite E. rewrite app_assoc. apply Permutation_sym. apply Permutation_cons_append.
  - rewrite get_set_neq by auto. apply Permutation_trans with ((x :: flat_map (fun w0 => get [] f w0) (seq 0 n)) ++ get [] f n).
    + apply Permutation_app_tail. apply IHn. lia.
    + reflexivity.
Qed.

(* ---- the invariant ---- *)

Record EInv (est : estate) : Prop := {
  ei_ring : RingInv P (base est);
  ei_acc : forall w, w < W -> get [] (failedw est) w = get [] (reportedw est) w ++ unrep est w;
  ei_cnt : Permutation (map snd (catW (reportedw est))) (got_cnt est ++ cnt est);
  ei_bad : Permutation (map fst (catW (reportedw est))) (got_bad est ++ bad est);
  ei_blocked : forall w, w < W -> wpcs (wget (base est) w) = PBlocked -> inc est w = true;
  ei_run : forall w, w < W -> wpcs (wget (base est) w) = PRun -> inc est w = false;
  ei_oc : forall w p e, w < W -> In (p, e) (get [] (failedw est) w) -> oc w p = Some e
}.

Lemma unrep_frame : forall est est' w,
  wget (base est') w = wget (base est) w -> cellpos (base est') w = cellpos (base est) w ->
  lat est' w = lat est w -> inc est' w = inc est w -> unrep est' w = unrep est w.
Proof. intros est est' w A B C D. unfold unrep. rewrite A, B, C, D. reflexivity. Qed.

Lemma cellpos_frame : forall st st' w, wget st' w = wget st w -> (forall s, get2 (wtask st') s w = get2 (wtask st) s w) ->
  cellpos st' w = cellpos st w.
Proof. intros st st' w A B. unfold cellpos. rewrite A, B. reflexivity. Qed.

Lemma einv_init : EInv einit.
Proof.
  constructor; unfold einit; cbn [base latest incall cnt bad got_cnt got_bad failedw reportedw].
  - apply inv_init; auto.
  - intros w Hw. unfold unrep, lat, inc; cbn [base latest incall]. rewrite !get_nil. destruct (_ && _); reflexivity.
  - unfold catW. induction (seq 0 W) as [|a l IHl]; [constructor|]. cbn [flat_map]. rewrite get_nil. exact IHl.
  - unfold catW. induction (seq 0 W) as [|a l IHl]; [constructor|]. cbn [flat_map]. rewrite get_nil. exact IHl.
  - intros w Hw. unfold wget, init; cbn [wr]. rewrite get_repeat by exact Hw. discriminate.
  - intros w Hw. unfold wget, init; cbn [wr]. rewrite get_repeat by exact Hw. discriminate.
  - intros w p e Hw. rewrite get_nil. intros [].
Qed.

(* the effect of `report` *)
Lemma report_spec : forall est w, w < W -> EInv est -> wpcs (wget (base est) w) = PStep ->
  let e1 := report est w in
  base e1 = base est /\ latest e1 = latest est /\ incall e1 = incall est /\ failedw e1 = failedw est /\
  got_cnt e1 = got_cnt est /\ got_bad e1 = got_bad est /\
  get [] (failedw est) w = get [] (reportedw e1) w /\
  (forall w', w' <> w -> get [] (reportedw e1) w' = get [] (reportedw est) w') /\
  Permutation (map snd (catW (reportedw e1))) (got_cnt e1 ++ cnt e1) /\
  Permutation (map fst (catW (reportedw e1))) (got_bad e1 ++ bad e1).
Proof.
  intros est w Hw I Hpc. pose proof (ei_acc est I w Hw) as A. unfold unrep in A. rewrite Hpc in A. simpl in A.
  unfold report. destruct (inc est w) eqn:Ei; simpl in A.
  - rewrite app_nil_r in A. simpl. repeat split; auto. apply (ei_cnt est I). apply (ei_bad est I).
  - destruct (lat est w) as [e|] eqn:El; simpl.
    + repeat split; auto.
      * rewrite get_set_eq. exact A.
      * intros. apply get_set_neq. auto.
      * eapply Permutation_trans; [apply Permutation_map; apply catW_set; exact Hw|]. simpl.
        rewrite app_assoc. eapply Permutation_trans; [|apply Permutation_cons_append]. constructor. apply (ei_cnt est I).
      * eapply Permutation_trans; [apply Permutation_map; apply catW_set; exact Hw|]. simpl.
        rewrite app_assoc. eapply Permutation_trans; [|apply Permutation_cons_append]. constructor. apply (ei_bad est I).
    + rewrite app_nil_r in A. repeat split; auto. apply (ei_cnt est I). apply (ei_bad est I).
Qed.

Lemma step_W_lt : forall st l st' w, step P st l = Some st' ->
  (l = WTake w \/ l = WEnd w \/ l = WWait w \/ l = WExit w \/ l = WSpur w) -> w < W.
Proof.
  intros st l st' w H Hl. destruct Hl as [->|[->|[->|[->| ->]]]]; unfold step in H; crush H;
    match goal with E : (w <? _) = true |- _ => apply Nat.ltb_lt in E; exact E end.
Qed.

(* steps that leave latest / incall / the per-writer logs alone and at most unblock writers *)
Lemma einv_caller : forall est est2, EInv est -> RingInv P (base est2) ->
  latest est2 = latest est -> incall est2 = incall est -> failedw est2 = failedw est -> reportedw est2 = reportedw est ->
  Permutation (map snd (catW (reportedw est2))) (got_cnt est2 ++ cnt est2) ->
  Permutation (map fst (catW (reportedw est2))) (got_bad est2 ++ bad est2) ->
  (forall w, w < W -> wget (base est2) w = unblock (wget (base est) w) \/ wget (base est2) w = wget (base est) w) ->
  (forall w, w < W -> cellpos (base est2) w = cellpos (base est) w) ->
  EInv est2.
Proof.
  intros est est2 I R2 El Ei Ef Er Pc Pb Hw Hc.
  assert (U : forall w, w < W -> unrep est2 w = unrep est w).
  { intros w Hlt. unfold unrep, lat, inc. rewrite El, Ei, (Hc w Hlt). destruct (Hw w Hlt) as [E|E]; rewrite E; [|reflexivity].
    destruct (wget (base est) w) as [i pc sq] eqn:G. destruct pc; try reflexivity. simpl.
    assert (B : inc est w = true) by (apply (ei_blocked est I w Hlt); rewrite G; reflexivity).
    unfold inc in B. rewrite B. reflexivity. }
  constructor; auto.
  - intros w Hlt. rewrite Ef, Er, (U w Hlt). apply (ei_acc est I w Hlt).
  - intros w Hlt B. unfold inc. rewrite Ei. destruct (Hw w Hlt) as [E|E]; rewrite E in B.
    + destruct (unblock_not_blocked _ B).
    + apply (ei_blocked est I w Hlt B).
  - intros w Hlt B. unfold inc. rewrite Ei. destruct (Hw w Hlt) as [E|E]; rewrite E in B.
    + apply unblock_pc_run in B. apply (ei_run est I w Hlt B).
    + apply (ei_run est I w Hlt B).
  - intros w p e Hlt. rewrite Ef. apply (ei_oc est I w p e Hlt).
Qed.

Theorem einv_step : forall est l est', EInv est -> estep est l = Some est' -> EInv est'.
Proof.
  intros est l est' I H. destruct l as [l|]; unfold estep in H.
  2:{ destruct (is_cpc (cpc (base est)) CEnd); [|discriminate]. inversion H; subst est'; clear H.
      apply einv_caller with (est := est); simpl; auto; rewrite ?app_nil_r; try apply (ei_cnt est I); try apply (ei_bad est I).
      apply (ei_ring est I). }
  destruct (step P (base est) l) as [st'|] eqn:S; [|discriminate].
  assert (R' : RingInv P st') by (eapply inv_step; eauto; apply (ei_ring est I)).
  assert (Other : wr st' = wr (base est) -> wtask st' = wtask (base est) -> EInv (with_base est st')).
  { intros A B. apply einv_caller with (est := est); simpl; auto; try apply (ei_cnt est I); try apply (ei_bad est I).
    - intros w _. right. unfold wget. rewrite A. reflexivity.
    - intros w _. unfold cellpos, wget. rewrite A, B. reflexivity. }
  destruct l;
    try (inversion H; subst est'; destruct (step_other_frame _ _ _ S I0) as [A B] || destruct (step_other_frame _ _ _ S Logic.I) as [A B]; apply Other; assumption).
  - (* WTake *)
    inversion H; subst est'; clear H.
    pose proof (step_W_lt _ _ _ w S (or_introl eq_refl)) as Hw.
    destruct (step_WTake_w _ _ _ S) as [Hpc Hpc'].
    pose proof (step_W_others _ _ _ w S (or_introl eq_refl)) as Ho.
    destruct (report_spec est w Hw I Hpc) as (B1 & B2 & B3 & B4 & B5 & B6 & B7 & B8 & B9 & B10).
    rewrite Hreset, andb_true_r.
    constructor; cbn [base latest incall cnt bad got_cnt got_bad failedw reportedw]; auto.
    + intros w0 H0. rewrite B4. destruct (Nat.eq_dec w0 w) as [->|N].
      * rewrite B7. unfold unrep, lat, inc; cbn [base latest incall]. destruct Hpc' as [E|E]; rewrite E; simpl.
        -- rewrite app_nil_r. reflexivity.
        -- rewrite get_set_eq, get_set_eq. simpl. rewrite app_nil_r. reflexivity.
      * rewrite (B8 w0 N). rewrite (ei_acc est I w0 H0). f_equal. destruct (Ho w0 N) as [G T].
        unfold unrep, lat, inc; cbn [base latest incall]. rewrite G, (cellpos_frame _ _ w0 G T), B3.
        rewrite get_set_neq by auto. destruct (is_pc (wpcs (wget st' w)) PStep); [rewrite get_set_neq by auto|]; rewrite B2; reflexivity.
    + intros w0 H0 B. destruct (Nat.eq_dec w0 w) as [->|N]; [destruct Hpc'; congruence|].
      unfold inc; cbn [incall]. rewrite get_set_neq, B3 by auto. destruct (Ho w0 N) as [G _]. rewrite G in B. apply (ei_blocked est I w0 H0 B).
    + intros w0 H0 B. unfold inc; cbn [incall]. destruct (Nat.eq_dec w0 w) as [->|N]; [apply get_set_eq|].
      rewrite get_set_neq, B3 by auto. destruct (Ho w0 N) as [G _]. rewrite G in B. apply (ei_run est I w0 H0 B).
    + intros w0 p e H0. rewrite B4. apply (ei_oc est I w0 p e H0).
  - (* WEnd *)
    inversion H; subst est'; clear H.
    pose proof (step_W_lt _ _ _ w S (or_intror (or_introl eq_refl))) as Hw.
    destruct (step_WEnd_w _ _ _ S) as (Hpc & Hpc' & Hidx & Hcell).
    pose proof (step_W_others _ _ _ w S (or_intror (or_introl eq_refl))) as Ho.
    pose proof (ei_acc est I w Hw) as A. unfold unrep in A. rewrite Hpc in A. simpl in A. rewrite app_nil_r in A.
    pose proof (ei_run est I w Hw Hpc) as Hinc.
    constructor; cbn [base latest incall cnt bad got_cnt got_bad failedw reportedw]; auto; try apply (ei_cnt est I); try apply (ei_bad est I).
    + intros w0 H0. destruct (Nat.eq_dec w0 w) as [->|N].
      * rewrite get_set_eq, A. f_equal. unfold unrep, lat, inc; cbn [base latest incall]. rewrite Hpc'. unfold inc in Hinc. rewrite Hinc. simpl.
        rewrite get_set_eq, Hcell. destruct (oc w (cellpos (base est) w)); reflexivity.
      * rewrite get_set_neq by auto. rewrite (ei_acc est I w0 H0). f_equal. destruct (Ho w0 N) as [G T].
        unfold unrep, lat, inc; cbn [base latest incall]. rewrite G, (cellpos_frame _ _ w0 G T). rewrite get_set_neq by auto. reflexivity.
    + intros w0 H0 B. destruct (Nat.eq_dec w0 w) as [->|N]; [congruence|].
      destruct (Ho w0 N) as [G _]. rewrite G in B. apply (ei_blocked est I w0 H0 B).
    + intros w0 H0 B. destruct (Nat.eq_dec w0 w) as [->|N]; [congruence|].
      destruct (Ho w0 N) as [G _]. rewrite G in B. apply (ei_run est I w0 H0 B).
    + intros w0 p e H0 Hin. destruct (Nat.eq_dec w0 w) as [->|N].
      * rewrite get_set_eq in Hin. apply in_app_or in Hin. destruct Hin as [Hin|Hin]; [apply (ei_oc est I w p e H0 Hin)|].
        destruct (oc w (cellpos (base est) w)) eqn:Eo; [|destruct Hin]. destruct Hin as [Hin|[]]. inversion Hin; subst. exact Eo.
      * rewrite get_set_neq in Hin by auto. apply (ei_oc est I w0 p e H0 Hin).
  - (* WWait *)
    inversion H; subst est'; clear H.
    pose proof (step_W_lt _ _ _ w S (or_intror (or_intror (or_introl eq_refl)))) as Hw.
    destruct (step_Wsame_w _ _ _ w S (or_introl eq_refl)) as (Hidx & Htask & Hpc & Hpc').
    pose proof (step_W_others _ _ _ w S (or_intror (or_intror (or_introl eq_refl)))) as Ho.
    destruct (report_spec est w Hw I Hpc) as (B1 & B2 & B3 & B4 & B5 & B6 & B7 & B8 & B9 & B10).
    constructor; cbn [base latest incall cnt bad got_cnt got_bad failedw reportedw]; auto.
    + intros w0 H0. rewrite B4. destruct (Nat.eq_dec w0 w) as [->|N].
      * rewrite B7. unfold unrep; cbn [base]. rewrite Hpc'. simpl. rewrite app_nil_r. reflexivity.
      * rewrite (B8 w0 N). rewrite (ei_acc est I w0 H0). f_equal. destruct (Ho w0 N) as [G T].
        unfold unrep, lat, inc; cbn [base latest incall]. rewrite G, (cellpos_frame _ _ w0 G T), B2, B3.
        rewrite get_set_neq by auto. reflexivity.
    + intros w0 H0 B. unfold inc; cbn [incall]. destruct (Nat.eq_dec w0 w) as [->|N]; [apply get_set_eq|].
      rewrite get_set_neq, B3 by auto. destruct (Ho w0 N) as [G _]. rewrite G in B. apply (ei_blocked est I w0 H0 B).
    + intros w0 H0 B. destruct (Nat.eq_dec w0 w) as [->|N]; [congruence|].
      unfold inc; cbn [incall]. rewrite get_set_neq, B3 by auto. destruct (Ho w0 N) as [G _]. rewrite G in B. apply (ei_run est I w0 H0 B).
    + intros w0 p e H0. rewrite B4. apply (ei_oc est I w0 p e H0).
  - (* WExit *)
    inversion H; subst est'; clear H.
    pose proof (step_W_lt _ _ _ w S (or_intror (or_intror (or_intror (or_introl eq_refl))))) as Hw.
    destruct (step_Wsame_w _ _ _ w S (or_intror (or_introl eq_refl))) as (Hidx & Htask & Hpc & Hpc').
    pose proof (step_W_others _ _ _ w S (or_intror (or_intror (or_intror (or_introl eq_refl))))) as Ho.
    destruct (report_spec est w Hw I Hpc) as (B1 & B2 & B3 & B4 & B5 & B6 & B7 & B8 & B9 & B10).
    constructor; cbn [base latest incall cnt bad got_cnt got_bad failedw reportedw]; auto.
    + intros w0 H0. rewrite B4. destruct (Nat.eq_dec w0 w) as [->|N].
      * rewrite B7. unfold unrep; cbn [base]. rewrite Hpc'. simpl. rewrite app_nil_r. reflexivity.
      * rewrite (B8 w0 N). rewrite (ei_acc est I w0 H0). f_equal. destruct (Ho w0 N) as [G T].
        unfold unrep, lat, inc; cbn [base latest incall]. rewrite G, (cellpos_frame _ _ w0 G T), B2, B3.
        rewrite get_set_neq by auto. reflexivity.
    + intros w0 H0 B. unfold inc; cbn [incall]. destruct (Nat.eq_dec w0 w) as [->|N]; [apply get_set_eq|].
      rewrite get_set_neq, B3 by auto. destruct (Ho w0 N) as [G _]. rewrite G in B. apply (ei_blocked est I w0 H0 B).
    + intros w0 H0 B. destruct (Nat.eq_dec w0 w) as [->|N]; [congruence|].
      unfold inc; cbn [incall]. rewrite get_set_neq, B3 by auto. destruct (Ho w0 N) as [G _]. rewrite G in B. apply (ei_run est I w0 H0 B).
    + intros w0 p e H0. rewrite B4. apply (ei_oc est I w0 p e H0).
  - (* WSpur *)
    inversion H; subst est'; clear H.
    destruct (step_Wsame_w _ _ _ w S (or_intror (or_intror eq_refl))) as (Hidx & Htask & Hpc & Hpc').
    pose proof (step_W_others _ _ _ w S (or_intror (or_intror (or_intror (or_intror eq_refl))))) as Ho.
    apply einv_caller with (est := est); simpl; auto; try apply (ei_cnt est I); try apply (ei_bad est I).
    + intros w0 _. destruct (Nat.eq_dec w0 w) as [->|N]; [|right; apply (Ho w0 N)]. left.
      assert (Hseq : wseq (wget st' w) = wseq (wget (base est) w)).
      { unfold step in S. crush S. inversion S; subst. unfold wget; simpl. rewrite get_set_eq. reflexivity. }
      destruct (wget st' w) as [i' pc' s'] eqn:G'. destruct (wget (base est) w) as [i pc s0] eqn:G. simpl in *. subst. reflexivity.
    + intros w0 _. unfold cellpos. rewrite Htask. destruct (Nat.eq_dec w0 w) as [->|N]; [rewrite Hidx; reflexivity|].
      destruct (Ho w0 N) as [G _]. rewrite G. reflexivity.
  - (* CWriteNext *)
    inversion H; subst est'; clear H.
    pose proof (step_unblock_w _ _ _ S (or_intror (ex_intro _ skip eq_refl))) as Hu.
    apply einv_caller with (est := est); simpl; auto; rewrite ?app_nil_r; try apply (ei_cnt est I); try apply (ei_bad est I).
    intros w0 H0. unfold cellpos. rewrite Hu, unblock_idx.
    rewrite (step_CWriteNext_task _ _ _ S); [reflexivity|]. apply (own_writer P Hn HR); [apply (ei_ring est I)|exact H0].
  - (* CStop *)
    inversion H; subst est'; clear H.
    pose proof (step_unblock_w _ _ _ S (or_introl eq_refl)) as Hu.
    apply einv_caller with (est := est); simpl; auto; try apply (ei_cnt est I); try apply (ei_bad est I).
    intros w0 H0. unfold cellpos. rewrite Hu, unblock_idx, (step_CStop_task _ _ S). reflexivity.


Qed.

Theorem einv_reachable : forall est, ereachable est -> EInv est.
Proof. induction 1; [apply einv_init|eapply einv_step; eauto]. Qed.

(* (a) every failed task is accounted exactly once, in order, by the call of io_writer_step that follows it: per
   writer the log of failed tasks = the log of accounted (position, kind) + the one not yet handed over *)
Theorem err_exactly_once : forall est w, ereachable est -> w < W ->
  get [] (failedw est) w = get [] (reportedw est) w ++ unrep est w.
Proof. intros est w R Hw. apply (ei_acc est (einv_reachable est R) w Hw). Qed.

(* what the caller collected + what is still in io->writer_error[] / writer_bad_map = everything accounted *)
Theorem err_collected : forall est, ereachable est ->
  Permutation (map snd (catW (reportedw est))) (got_cnt est ++ cnt est) /\
  Permutation (map fst (catW (reportedw est))) (got_bad est ++ bad est).
Proof. intros est R. pose proof (einv_reachable est R) as I. split; [apply (ei_cnt est I)|apply (ei_bad est I)]. Qed.

(* after io_stop nothing is lost: the counters and positions collected over the whole run (after the final
   flush) are exactly the kinds and positions of the failed tasks *)
Theorem err_final : forall est, ereachable est -> cpc (base est) = CEnd ->
  (forall w, w < W -> get [] (failedw est) w = get [] (reportedw est) w) /\
  Permutation (map snd (catW (failedw est))) (got_cnt est ++ cnt est) /\
  Permutation (map fst (catW (failedw est))) (got_bad est ++ bad est).
Proof.
  intros est R C. pose proof (einv_reachable est R) as I.
  assert (A : forall w, w < W -> get [] (failedw est) w = get [] (reportedw est) w).
  { intros w Hw. rewrite (ei_acc est I w Hw). unfold unrep.
    destruct (co_end P (base est) (ri_caller P (base est) (ei_ring est I)) C) as [_ E]. rewrite (E w Hw). simpl. apply app_nil_r. }
  split; [exact A|]. rewrite (catW_ext _ _ A). split; [apply (ei_cnt est I)|apply (ei_bad est I)].
Qed.

Theorem err_flush : forall est est', estep est LFlush = Some est' -> cnt est' = [] /\ bad est' = [] /\ base est' = base est.
Proof. intros est est' H. unfold estep in H. destruct (is_cpc _ _); [|discriminate]. inversion H; subst. simpl. auto. Qed.

(* (b) nothing is accounted for EMPTY or successful tasks: every accounted (position, kind) is a task whose
   worker->func returned that error (EMPTY tasks never run worker->func) *)
Theorem err_only_failures : forall est w p e, ereachable est -> w < W ->
  In (p, e) (get [] (reportedw est) w) -> oc w p = Some e.
Proof.
  intros est w p e R Hw Hin. pose proof (einv_reachable est R) as I. apply (ei_oc est I w p e Hw).
  rewrite (ei_acc est I w Hw). apply in_or_app. auto.
Qed.


(* ---------------------------------------------------------------------------------------------- *)
(* (c) the fixed-size array of positions: at most (io_max - 1) positions per writer are pending *)

Definition sinc (est : estate) (w : nat) : nat := get 0 (since est) w.
Definition lv (est : estate) (w : nat) : nat := get 0 (lastv est) w.
Definition callable (est : estate) (w : nat) : Prop :=
  wpcs (wget (base est) w) = PRun \/ (wpcs (wget (base est) w) = PStep /\ inc est w = false).

Record EB (est : estate) : Prop := {
  eb_len : length (bad est) = sumf (fun w => sinc est w) W;
  eb_w : forall w, w < W -> sinc est w = 0 \/
         (sinc est w + M (base est) + 1 <= lv est w + pn P /\ lv est w <= wseq (wget (base est) w));
  eb_next : forall w, w < W -> callable est w -> sinc est w = 0 \/ lv est w + 1 <= wseq (wget (base est) w)
}.

Lemma step_written : forall st l st', step P st l = Some st' ->
  match l with CWriteNext _ => False | _ => True end -> written st' = written st.
Proof. intros st l st' H Hl. destruct l; try contradiction; unfold step in H; crush H; inversion H; subst; reflexivity. Qed.

Lemma step_wseq : forall st l st' w, step P st l = Some st' ->
  match l with WTake w' => w' <> w | _ => True end -> wseq (wget st' w) = wseq (wget st w).
Proof.
  intros st l st' w H Hl.
  destruct l; unfold step in H; crush H; inversion H; subst; unfold wget; simpl; try reflexivity;
    try (rewrite get_map_unblock; apply unblock_seq);
    try (match goal with |- context [set wdflt _ ?a _] => destruct (Nat.eq_dec a w) as [->|N] end;
         [rewrite get_set_eq; try reflexivity; try (exfalso; apply Hl; reflexivity)|rewrite get_set_neq by auto; reflexivity]).
Qed.

Lemma step_WTake_seq : forall st st' w, step P st (WTake w) = Some st' -> wseq (wget st' w) = S (wseq (wget st w)).
Proof. intros st st' w H. unfold step in H. crush H; inversion H; subst; unfold wget; simpl; rewrite get_set_eq; reflexivity. Qed.

Lemma eb_frame : forall est est', EB est ->
  bad est' = bad est -> since est' = since est -> lastv est' = lastv est ->
  M (base est') = M (base est) ->
  (forall w, w < W -> wseq (wget (base est') w) = wseq (wget (base est) w)) ->
  (forall w, w < W -> callable est' w -> callable est w) ->
  EB est'.
Proof.
  intros est est' [L Wk Nx] Eb Es El EM Eq Hc.
  constructor; unfold sinc, lv in *; rewrite ?Eb, ?Es, ?El, ?EM; auto.
  - intros w Hw. rewrite (Eq w Hw). auto.
  - intros w Hw C. rewrite (Eq w Hw). auto.
Qed.

Lemma eb_collect : forall est st', EB (collect est st').
Proof.
  intros. constructor; unfold collect, sinc, lv; cbn [bad since lastv length].
  - induction W as [|k IHk]; cbn [sumf]; [reflexivity|]. rewrite <- IHk. rewrite get_nil. reflexivity.
  - intros. left. apply get_nil.
  - intros. left. apply get_nil.
Qed.

(* the effect of `report` on the bound *)
Lemma eb_report : forall est w, w < W -> EInv est -> EB est -> wpcs (wget (base est) w) = PStep ->
  let e1 := report est w in
  base e1 = base est /\ incall e1 = incall est /\
  length (bad e1) = sumf (fun w0 => sinc e1 w0) W /\
  (forall w0, w0 <> w -> sinc e1 w0 = sinc est w0 /\ lv e1 w0 = lv est w0) /\
  (sinc e1 w = 0 \/ (sinc e1 w + M (base est) + 1 <= lv e1 w + pn P /\ lv e1 w <= wseq (wget (base est) w))) /\
  (inc est w = false -> sinc e1 w = 0 \/ lv e1 w + 1 <= S (wseq (wget (base est) w))).
Proof.
  intros est w Hw I B Hpc. destruct B as [L Wk Nx]. unfold report.
  destruct (inc est w) eqn:Ei.
  - simpl. repeat split; auto. intros; discriminate.
  - destruct (lat est w) as [e|] eqn:El; simpl.
    + assert (C : callable est w) by (right; auto).
      destruct (ri_writers P (base est) (ei_ring est I) w Hw).
      repeat split; auto.
      * rewrite app_length. simpl. rewrite L.
        pose proof (sumf_upd P Hn HR (fun w0 => sinc est w0)
                     (fun w0 => sinc (mkE (base est) (latest est) (incall est) (cnt est ++ [e]) (bad est ++ [cellpos (base est) w]) (got_cnt est) (got_bad est)
                                     (failedw est) (set [] (reportedw est) w (get [] (reportedw est) w ++ [(cellpos (base est) w, e)]))
                                     (set 0 (since est) w (S (get 0 (since est) w))) (set 0 (lastv est) w (wseq (wget (base est) w)))) w0) W w Hw) as U.
        unfold sinc in *. simpl in *. rewrite get_set_eq in U.
        rewrite <- (Nat.add_cancel_r _ _ (get 0 (since est) w)). rewrite U; [lia|].
        intros w' _ N. apply get_set_neq. auto.
      * unfold sinc; simpl. apply get_set_neq. auto.
      * unfold lv; simpl. apply get_set_neq. auto.
      * right. unfold sinc, lv in *; simpl. rewrite !get_set_eq. split; [|lia].
        destruct (Nx w Hw C) as [Z|Z]; [rewrite Z; lia|]. destruct (Wk w Hw) as [Z'|[Z1 Z2]]; [rewrite Z'; lia|lia].
      * intros _. right. unfold lv; simpl. rewrite get_set_eq. lia.
    + repeat split; auto. intros _. destruct (Nx w Hw (or_intror (conj Hpc Ei))) as [Z|Z]; [left; exact Z|right; lia].
Qed.

Lemma step_pcs : forall st l st' w, step P st l = Some st' ->
  match l with WTake _ | WWait _ | WExit _ => False | _ => True end ->
  wpcs (wget st' w) = wpcs (wget st w) \/ (wpcs (wget st w) = PBlocked /\ wpcs (wget st' w) = PStep) \/
  (wpcs (wget st w) = PRun /\ wpcs (wget st' w) = PStep).
Proof.
  intros st l st' w H Hl.
  destruct l; try contradiction; unfold step in H; crush H; inversion H; subst; unfold wget in *; simpl; auto;
    try (rewrite get_map_unblock; destruct (get wdflt (wr st) w) as [i [] q]; simpl; auto);
    try (match goal with |- context [set wdflt _ ?a _] => destruct (Nat.eq_dec a w) as [->|N] end;
         [rewrite get_set_eq; simpl; match goal with E : is_pc _ _ = true |- _ => apply is_pc_eq in E; rewrite E end; auto
         |rewrite get_set_neq by auto; auto]).
Qed.

Theorem eb_step : forall est l est', EInv est -> EB est -> estep est l = Some est' -> EB est'.
Proof.
  intros est l est' I B H. destruct l as [l|]; unfold estep in H.
  2:{ destruct (is_cpc (cpc (base est)) CEnd); [|discriminate]. inversion H; subst. apply eb_collect. }
  destruct (step P (base est) l) as [st'|] eqn:S; [|discriminate].
  assert (Fr : forall est2, base est2 = st' -> bad est2 = bad est -> since est2 = since est -> lastv est2 = lastv est ->
            incall est2 = incall est ->
            match l with WTake _ | WWait _ | WExit _ | CWriteNext _ => False | _ => True end -> EB est2).
  { intros est2 Eb E1 E2 E3 E4 Hl. apply eb_frame with (est := est); auto.
    - unfold M. rewrite Eb, (step_written _ _ _ S); [reflexivity|destruct l; auto].
    - intros w Hw. rewrite Eb. apply (step_wseq _ _ _ w S). destruct l; auto; contradiction.
    - intros w Hw C. unfold callable, inc in *. rewrite Eb, E4 in C.
      destruct (step_pcs _ _ _ w S) as [E|[[E E']|[E E']]]; [destruct l; auto| | |].
      + rewrite E in C. exact C.
      + exfalso. pose proof (ei_blocked est I w Hw E) as Q. unfold inc in Q. rewrite E' in C. destruct C as [C|[_ C]]; congruence.
      + left. exact E. }
  destruct l; try (inversion H; subst est'; apply Fr; simpl; auto; fail).
  - (* WTake *)
    inversion H; subst est'; clear H.
    pose proof (step_W_lt _ _ _ w S (or_introl eq_refl)) as Hw.
    destruct (step_WTake_w _ _ _ S) as [Hpc Hpc'].
    pose proof (step_W_others _ _ _ w S (or_introl eq_refl)) as Ho.
    destruct (eb_report est w Hw I B Hpc) as (R1 & R2 & R3 & R4 & R5 & R6).
    assert (EM : M st' = M (base est)) by (unfold M; rewrite (step_written _ _ _ S); auto).
    constructor; unfold sinc, lv, callable, inc in *; cbn [base bad since lastv incall]; auto.
    + intros w0 H0. rewrite EM. destruct (Nat.eq_dec w0 w) as [->|N].
      * rewrite (step_WTake_seq _ _ _ S). destruct R5 as [Z|[Z1 Z2]]; [left; exact Z|right; lia].
      * destruct (R4 w0 N) as [Q1 Q2]. rewrite Q1, Q2. rewrite (step_wseq _ _ _ w0 S) by auto. apply (eb_w est B w0 H0).
    + intros w0 H0 C. destruct (Nat.eq_dec w0 w) as [->|N].
      * rewrite (step_WTake_seq _ _ _ S). destruct R5 as [Z|[Z1 Z2]]; [left; exact Z|right; lia].
      * destruct (R4 w0 N) as [Q1 Q2]. rewrite Q1, Q2. rewrite (step_wseq _ _ _ w0 S) by auto.
        apply (eb_next est B w0 H0). destruct (Ho w0 N) as [G _]. rewrite G in C. rewrite get_set_neq, R2 in C by auto. exact C.
  - (* WWait *)
    inversion H; subst est'; clear H.
    pose proof (step_W_lt _ _ _ w S (or_intror (or_intror (or_introl eq_refl)))) as Hw.
    destruct (step_Wsame_w _ _ _ w S (or_introl eq_refl)) as (Hidx & Htask & Hpc & Hpc').
    pose proof (step_W_others _ _ _ w S (or_intror (or_intror (or_introl eq_refl)))) as Ho.
    destruct (eb_report est w Hw I B Hpc) as (R1 & R2 & R3 & R4 & R5 & R6).
    assert (EM : M st' = M (base est)) by (unfold M; rewrite (step_written _ _ _ S); auto).
    constructor; unfold sinc, lv, callable, inc in *; cbn [base bad since lastv incall]; auto.
    + intros w0 H0. rewrite EM. rewrite (step_wseq _ _ _ w0 S) by auto. destruct (Nat.eq_dec w0 w) as [->|N]; [exact R5|].
      destruct (R4 w0 N) as [Q1 Q2]. rewrite Q1, Q2. apply (eb_w est B w0 H0).
    + intros w0 H0 C. destruct (Nat.eq_dec w0 w) as [->|N].
      * rewrite Hpc' in C. destruct C as [C|[C _]]; discriminate.
      * destruct (R4 w0 N) as [Q1 Q2]. rewrite Q1, Q2. rewrite (step_wseq _ _ _ w0 S) by auto.
        apply (eb_next est B w0 H0). destruct (Ho w0 N) as [G _]. rewrite G in C. rewrite get_set_neq, R2 in C by auto. exact C.
  - (* WExit *)
    inversion H; subst est'; clear H.
    pose proof (step_W_lt _ _ _ w S (or_intror (or_intror (or_intror (or_introl eq_refl))))) as Hw.
    destruct (step_Wsame_w _ _ _ w S (or_intror (or_introl eq_refl))) as (Hidx & Htask & Hpc & Hpc').
    pose proof (step_W_others _ _ _ w S (or_intror (or_intror (or_intror (or_introl eq_refl))))) as Ho.
    destruct (eb_report est w Hw I B Hpc) as (R1 & R2 & R3 & R4 & R5 & R6).
    assert (EM : M st' = M (base est)) by (unfold M; rewrite (step_written _ _ _ S); auto).
    constructor; unfold sinc, lv, callable, inc in *; cbn [base bad since lastv incall]; auto.
    + intros w0 H0. rewrite EM. rewrite (step_wseq _ _ _ w0 S) by auto. destruct (Nat.eq_dec w0 w) as [->|N]; [exact R5|].
      destruct (R4 w0 N) as [Q1 Q2]. rewrite Q1, Q2. apply (eb_w est B w0 H0).
    + intros w0 H0 C. destruct (Nat.eq_dec w0 w) as [->|N].
      * rewrite Hpc' in C. destruct C as [C|[C _]]; discriminate.
      * destruct (R4 w0 N) as [Q1 Q2]. rewrite Q1, Q2. rewrite (step_wseq _ _ _ w0 S) by auto.
        apply (eb_next est B w0 H0). destruct (Ho w0 N) as [G _]. rewrite G in C. rewrite get_set_neq, R2 in C by auto. exact C.
  - (* CWriteNext *)
    inversion H; subst est'. apply eb_collect.
Qed.

Lemma eb_init : EB einit.
Proof.
  constructor; unfold einit, sinc, lv; cbn [bad since lastv length].
  - induction W as [|k IHk]; cbn [sumf]; [reflexivity|]. rewrite <- IHk. rewrite get_nil. reflexivity.
  - intros. left. apply get_nil.
  - intros. left. apply get_nil.
Qed.

Theorem eb_reachable : forall est, ereachable est -> EB est.
Proof.
  induction 1; [apply eb_init|]. eapply eb_step; eauto. apply einv_reachable. assumption.
Qed.

Lemma sumf_bound : forall f k c, (forall w, w < k -> f w <= c) -> sumf f k <= c * k.
Proof.
  intros f k c. induction k; intros H; cbn [sumf]; [lia|].
  pose proof (H k ltac:(lia)). assert (sumf f k <= c * k) by (apply IHk; intros; apply H; lia). lia.
Qed.

(* (c) the assert of io_writer_bad (writer_bad_mac < io_max * writer_max) cannot fire: at any time at most
   io_max - 1 positions per writer are pending *)
Theorem err_bad_bound : forall est, ereachable est ->
  length (bad est) <= (pn P - 1) * W /\ length (bad est) < pn P * W + 1.
Proof.
  intros est R. pose proof (eb_reachable est R) as B. pose proof (einv_reachable est R) as I.
  assert (L : length (bad est) <= (pn P - 1) * W).
  { rewrite (eb_len est B). apply sumf_bound. intros w Hw.
    destruct (eb_w est B w Hw) as [Z|[Z1 Z2]]; [lia|].
    pose proof (wo_lo P (base est) w (ri_writers P (base est) (ei_ring est I) w Hw)). lia. }
  split; [exact L|]. assert ((pn P - 1) * W <= pn P * W) by (apply Nat.mul_le_mono_r; lia). lia.
Qed.




End Err.

(* ---------------------------------------------------------------------------------------------- *)
(* the seeded change C13c_1 (no reset of latest_state after an EMPTY task) violates (a): the failed write of
   position 0 is accounted a second time, against the skipped stripe of position 1 *)

Fixpoint erun (P : params) (oc : nat -> nat -> option nat) (r : bool) (est : estate) (ls : list elabel) : option estate :=
  match ls with
  | [] => Some est
  | l :: t => match estep P oc r est l with Some e' => erun P oc r e' t | None => None end
  end.

Definition Pm : params := mkP 3 1 1 [0; 1] 2.
Definition ocm (w p : nat) : option nat := if p =? 0 then Some 2 else None.
Definition mut_trace : list elabel := map LBase
  [REnd 0; RTake 0; CReadNext; CTaskRead 0 1 0; CParityWrite 0; CWriteNext false; WTake 0; WEnd 0;
   REnd 0; RTake 0; CReadNext; CTaskRead 0 1 0; CParityWrite 0; CWriteNext true; WTake 0; WWait 0].

Example c13c_1_double_count :
  (exists est, erun Pm ocm false (einit Pm) mut_trace = Some est /\
               get [] (failedw est) 0 = [(0, 2)] /\ get [] (reportedw est) 0 = [(0, 2); (1, 2)] /\
               cnt est = [2; 2] /\ bad est = [0; 1]) /\
  (exists est, erun Pm ocm true (einit Pm) mut_trace = Some est /\
               get [] (failedw est) 0 = [(0, 2)] /\ get [] (reportedw est) 0 = [(0, 2)] /\
               cnt est = [2] /\ bad est = [0]).
Proof. split; (eexists; split; [vm_compute; reflexivity|]); vm_compute; repeat split; reflexivity. Qed.

(* ---------------------------------------------------------------------------------------------- *)
(* executable entry point for the check: replay the labels of a recorded trace of a run with injected write
   failures `fs` = [(writer, position, kind)], then the final flush; returns what the caller collected *)
Definition oc_list (fs : list (nat * nat * nat)) (w p : nat) : option nat :=
  match find (fun x => (fst (fst x) =? w) && (snd (fst x) =? p)) fs with
  | Some x => Some (snd x)
  | None => None
  end.

Definition ereplay_all (P : params) (fs : list (nat * nat * nat)) (ls : list label) : option (list nat * list nat) :=
  match erun P (oc_list fs) true (einit P) (map LBase ls ++ [LFlush]) with
  | Some est => Some (got_cnt est, got_bad est)
  | None => None
  end.
